(* C16 - configuration precedence.  Executable model of what pika's start-up does with
   the environment and the command line (command_line_handling.cpp, parse_command_line.cpp,
   late_command_line_handling.cpp, runtime_configuration.cpp, ini.cpp, init_runtime.cpp).
   Definitions only; the tables (built-in ini, option -> ini key, registered options,
   scheduler names) come from Gen/GenIni.v, regenerated from the source on every run.

   The model follows the code that exists, including what it gets wrong:
   * PIKA_COMMANDLINE_OPTIONS is tokenised and PREPENDED to the command line; the parser then
     throws multiple_occurrences for a non-composing option present in both (F11);
   * --pika:ini definitions reach the handle_* functions through manage_config (std::map::insert:
     FIRST definition of a key wins, so a prepended one beats the command line) but reach the
     plain ini tree through section::parse (LAST definition wins);
   * the application's argv is rebuilt from a re-quoted string and split again
     (reconstruct_command_line / split_unix / init_helper): quotes, backslashes and empty
     arguments do not survive. *)
From Coq Require Import String Ascii List NArith Bool.
From Pika Require Import Gen.GenIni.
Import ListNotations.
Open Scope string_scope.

(* ------------------------------------------------------------------ strings *)
Definition ch (s : string) : ascii := match s with String c _ => c | _ => zero end.
Definition c_space := ch " ".   Definition c_tab := ascii_of_nat 9.
Definition c_dq := ascii_of_nat 34.   Definition c_sq := ch "'".   Definition c_bs := ch "\".
Definition c_eq := ch "=".   Definition c_dash := ch "-".   Definition c_at := ch "@".
Definition c_dollar := ch "$".   Definition c_lbrace := ch "{".   Definition c_rbrace := ch "}".
Definition c_lbrack := ch "[".   Definition c_rbrack := ch "]".
Definition c_colon := ch ":".   Definition c_bang := ch "!".   Definition c_semi := ch ";".
Definition c_nl := ascii_of_nat 10.   Definition c_n := ch "n".

Definition aeqb (a b : ascii) : bool := Ascii.eqb a b.
Definition is_ws (c : ascii) : bool := aeqb c c_space || aeqb c c_tab.

Fixpoint assoc (k : string) (l : list (string * string)) : option string :=
  match l with
  | [] => None
  | (a, b) :: r => if String.eqb a k then Some b else assoc k r
  end.

Fixpoint assoc_last (k : string) (l : list (string * string)) (acc : option string) : option string :=
  match l with
  | [] => acc
  | (a, b) :: r => assoc_last k r (if String.eqb a k then Some b else acc)
  end.

Fixpoint contains (c : ascii) (s : string) : bool :=
  match s with EmptyString => false | String d r => aeqb c d || contains c r end.

(* first occurrence of c: (before, after) *)
Fixpoint split_at (c : ascii) (s : string) : option (string * string) :=
  match s with
  | EmptyString => None
  | String d r => if aeqb c d then Some (EmptyString, r)
                  else match split_at c r with
                       | Some (a, b) => Some (String d a, b)
                       | None => None
                       end
  end.

Fixpoint ltrim (s : string) : string :=
  match s with String c r => if is_ws c then ltrim r else s | _ => s end.
Fixpoint rev_str (s acc : string) : string :=
  match s with EmptyString => acc | String c r => rev_str r (String c acc) end.
Definition trim (s : string) : string := rev_str (ltrim (rev_str (ltrim s) "")) "".

Definition starts (p s : string) : bool := String.prefix p s.
Fixpoint drop (n : nat) (s : string) : string :=
  match n, s with O, _ => s | S k, String _ r => drop k r | S _, EmptyString => EmptyString end.

Fixpoint join (sep : string) (l : list string) : string :=
  match l with [] => "" | [a] => a | a :: r => a ++ sep ++ join sep r end.

(* ------------------------------------------------------------------ numbers *)
Definition digit (c : ascii) : option N :=
  let n := N_of_ascii c in
  if (48 <=? n)%N && (n <=? 57)%N then Some (n - 48)%N else None.
Definition hexdigit (c : ascii) : option N :=
  let n := N_of_ascii c in
  if (48 <=? n)%N && (n <=? 57)%N then Some (n - 48)%N
  else if (97 <=? n)%N && (n <=? 102)%N then Some (n - 87)%N
  else if (65 <=? n)%N && (n <=? 70)%N then Some (n - 55)%N else None.

(* leading digits of s in the given base: (value, number of digits, rest) *)
Fixpoint digits (dg : ascii -> option N) (base : N) (s : string) (acc : N) (cnt : nat) : N * nat * string :=
  match s with
  | EmptyString => (acc, cnt, s)
  | String c r => match dg c with
                  | Some d => digits dg base r (acc * base + d)%N (S cnt)
                  | None => (acc, cnt, s)
                  end
  end.

Definition two64 : N := 18446744073709551616%N.
Fixpoint all_ws (s : string) : bool :=
  match s with EmptyString => true | String c r => (is_ws c || aeqb c c_nl) && all_ws r end.

(* pika::detail::from_string<std::size_t>: std::stoul base 10 (leading blanks, optional sign, a
   minus sign wraps modulo 2^64), then only white space may follow; None = exception *)
Definition parse_size (s : string) : option N :=
  let s1 := ltrim s in
  let '(neg, s2) := match s1 with
                    | String c r => if aeqb c c_dash then (true, r)
                                    else if aeqb c (ch "+") then (false, r) else (false, s1)
                    | _ => (false, s1) end in
  let '(v, cnt, rest) := digits digit 10 s2 0%N O in
  match cnt with
  | O => None
  | _ => if (two64 <=? v)%N then None
         else if all_ws rest then Some (if neg then (if (v =? 0)%N then 0 else two64 - v) else v)%N
         else None
  end.

(* from_string<T>(value, default): the default on any failure *)
Definition parse_size_or (s : string) (d : N) : N := match parse_size s with Some v => v | None => d end.
(* get_entry_as<size_t>(cfg, key, dflt): empty entry -> default *)
Definition entry_size (s : string) (d : N) : N := match s with EmptyString => d | _ => parse_size_or s d end.

(* mask_type from "0x..." (operator>> of the mask type: hexadecimal with 0x prefix) *)
Definition parse_mask (s : string) : option N :=
  if starts "0x" s then
    let '(v, cnt, rest) := digits hexdigit 16 (drop 2 s) 0%N O in
    match cnt, rest with S _, EmptyString => Some v | _, _ => None end
  else None.

Fixpoint popcount_pos (p : positive) : N :=
  match p with xH => 1 | xO q => popcount_pos q | xI q => 1 + popcount_pos q end%N.
Definition popcount (n : N) : N := match n with N0 => 0%N | Npos p => popcount_pos p end.

(* strtoll(entry, &end, 0) as used for the stack sizes: 0x.. hexadecimal, else decimal
   (octal is not modelled); None = no digits consumed -> the compiled-in default *)
Definition parse_stack (s : string) : option N :=
  let s1 := ltrim s in
  if starts "0x" s1 then
    let '(v, cnt, _) := digits hexdigit 16 (drop 2 s1) 0%N O in
    match cnt with O => Some 0%N | _ => Some v end
  else
    let '(v, cnt, _) := digits digit 10 s1 0%N O in
    match cnt with O => None | _ => Some v end.

(* std::to_string of a size_t *)
Fixpoint dec_fuel (fuel : nat) (n : N) (acc : string) : string :=
  match fuel with
  | O => acc
  | S f => let d := ascii_of_N (48 + n mod 10)%N in
           if (n <? 10)%N then String d acc else dec_fuel f (n / 10)%N (String d acc)
  end.
Definition dec (n : N) : string := dec_fuel 25 n "".

(* ------------------------------------------------------------------ ini.cpp: ${ENV:default}, $[key:default] *)
(* Transcription of section::expand / expand_brace / expand_bracket / expand_only / find_next
   (libs/pika/ini/src/ini.cpp).  The real functions work on one mutable string and positions; every
   one of them only touches the text behind the position it is given, so the transcription works on
   that suffix:

     scan s          = expand(value, begin) where s is the text behind position begin
     at_dollar t     = one iteration of expand's loop at a '$' that is followed by t (t non-empty):
                       the placeholder (if it is one) is replaced, then the search for the next '$'
                       goes on BEHIND THE FIRST CHARACTER of whatever now stands at that position -
                       the substituted text is scanned again, except its first character
     brace_body r    = expand_brace at "${" ++ r: first expand() of everything behind (nested and
                       following placeholders), then the first unescaped '}', then getenv
     bracket_body r  = expand_bracket at "$[" ++ r: the same with root_->get_entry(key, default),
                       which expands the entry (or the default) it returns

   The recursion of the real code is unbounded (an environment value that contains a reference to
   itself behind its first character never stops growing); the transcription has explicit fuel
   (nesting depth of calls) and the error value XFuel.  (Until the repair of find_next - "fix: ini
   find_next does not look in front of position 0 for an escape character" - there was a third
   result XThrow: find_next(":", to_expand) computed end - 1 for a colon at position 0 and
   std::string::replace threw std::out_of_range.  Nothing produces it any more.) *)
Inductive xres := XOk (s : string) | XFuel.
Definition xbind (r : xres) (f : string -> xres) : xres :=
  match r with XOk s => f s | XFuel => XFuel end.
Definition xmap (f : string -> string) (r : xres) : xres := xbind r (fun s => XOk (f s)).
Definition xstr (r : xres) : string := match r with XOk s => s | _ => EmptyString end.

(* find_next(ch, value, begin) on the text behind the start of the search: the first occurrence of ch
   that is not preceded by a backslash; the backslash of every escaped occurrence passed on the way is
   REMOVED FROM THE VALUE, also when no unescaped occurrence follows (FNone carries the changed text).
   An occurrence at the very start of the searched text is never an escaped one: the character in
   front of it is '{' / '[' for the closing delimiters, and for ':' (searched from position 0 of
   to_expand) there is no character in front: `if (end == 0 || value[end - 1] != '\\') break;`. *)
Inductive fnres := FFound (before after : string) | FNone (changed : string).
Fixpoint find_next (c : ascii) (s : string) : fnres :=
  match s with
  | EmptyString => FNone EmptyString
  | String d r =>
      if aeqb d c then FFound EmptyString r
      else match r with
           | String e r' =>
               if aeqb d c_bs && aeqb e c
               then match find_next c r' with
                    | FFound a b => FFound (String e a) b | FNone t => FNone (String e t) end
               else match find_next c r with
                    | FFound a b => FFound (String d a) b | FNone t => FNone (String d t) end
           | EmptyString => FNone s
           end
  end.

(* find_next(":", to_expand): the search starts at position 0; a colon there is found at once
   (end == 0): the name in front of it is empty and everything behind it is the default *)
Definition split_colon (inside : string) : fnres := find_next c_colon inside.

(* getenv(3): the empty name is never found (glibc returns NULL for name[0] == 0 even when environ holds
   an entry "=v"; checked with execve) - that is what ${:default} asks for *)
Definition getenv (env : list (string * string)) (k : string) : option string :=
  match k with EmptyString => None | _ => assoc k env end.

Fixpoint dollars (s : string) : nat :=
  match s with EmptyString => O | String c r => (if aeqb c c_dollar then 1 else 0) + dollars r end.

Section Expand.
  Variable env : list (string * string).
  Variable look : string -> option string.     (* the STORED (not yet expanded) value of an entry *)

  Section Body.
    Variable only : option string.             (* Some key: expand_only(.., expand_this = key) *)
    Variable Eall : string -> xres.            (* section::expand, one level less fuel *)
    Variable Erec : string -> xres.            (* this function, one level less fuel *)

    (* root_->get_entry(key, default): expand(entry) or expand(default) *)
    Definition get_entry (k dflt : string) : xres :=
      Eall (match look k with Some v => v | None => dflt end).
    Definition mine (name : string) : bool :=
      match only with None => true | Some k => String.eqb name k end.

    Definition brace_body (rest : string) : xres :=
      xbind (Erec rest) (fun r =>
        match find_next c_rbrace r with
        | FNone r' => XOk (String c_dollar (String c_lbrace r'))
        | FFound inside after =>
            match split_colon inside with
            | FNone name =>
                XOk ((match getenv env name with Some v => v | None => EmptyString end) ++ after)
            | FFound name dflt =>
                XOk ((match getenv env name with Some v => v | None => dflt end) ++ after)
            end
        end).

    Definition bracket_body (rest : string) : xres :=
      xbind (Erec rest) (fun r =>
        match find_next c_rbrack r with
        | FNone r' => XOk (String c_dollar (String c_lbrack r'))
        | FFound inside after =>
            let keep := String c_dollar (String c_lbrack (inside ++ String c_rbrack after)) in
            match split_colon inside with
            | FNone name =>
                if mine name then xmap (fun v => v ++ after) (get_entry name EmptyString) else XOk keep
            | FFound name dflt =>
                if mine name then xmap (fun v => v ++ after) (get_entry name dflt) else XOk keep
            end
        end).

    (* what stands at the position of the '$' after the loop body *)
    Definition step (t : string) : xres :=
      match t with
      | String b t' => if aeqb b c_lbrack then bracket_body t'
                       else if aeqb b c_lbrace then brace_body t'
                       else XOk (String c_dollar t)
      | EmptyString => XOk (String c_dollar EmptyString)
      end.
    (* p = value.find_first_of('$', p + 1): the first character at p is skipped, the rest is scanned *)
    Definition rescan_tail (u : string) : xres :=
      match u with EmptyString => XOk EmptyString | String a u1 => xmap (String a) (Erec u1) end.
    Definition at_dollar (t : string) : xres := xbind (step t) rescan_tail.
    Definition scan (s : string) : xres :=
      match split_at c_dollar s with
      | None => XOk s
      | Some (pre, EmptyString) => XOk s            (* value.size() - 1 == p *)
      | Some (pre, t) => xmap (append pre) (at_dollar t)
      end.
  End Body.

  Fixpoint xp_all (fuel : nat) (s : string) : xres :=
    match fuel with O => XFuel | S f => scan None (xp_all f) (xp_all f) s end.
  Fixpoint xp_only (fuel : nat) (k : string) (s : string) : xres :=
    match fuel with O => XFuel | S f => scan (Some k) (xp_all f) (xp_only f k) s end.
End Expand.

(* nesting depth granted to one expansion by the executable model; Proofs/ConfigExpandProofs.v: more
   fuel never changes a result other than XFuel, (number of '$') + 1 levels suffice when the
   substituted values contain no '$', and a value that refers to itself behind its first character
   runs out of every amount of fuel *)
Definition xfuel : nat := 100.

(* an entry is expanded twice: add_entry stores expand_only(value, own key) (every ${..}, and $[own key]),
   get_entry returns expand(stored value) *)
Definition stored_x env look (key v : string) : xres := xp_only env look xfuel key v.
Definition read_x env look (key v : string) : xres :=
  xbind (stored_x env look key v) (xp_all env look xfuel).

(* the built-in lines are added by the constructor of runtime_configuration, before anything else exists *)
Definition no_entries : string -> option string := fun _ => None.
Definition look0 (env : list (string * string)) (k : string) : option string :=
  match assoc k builtin_ini with Some raw => Some (xstr (stored_x env no_entries k raw)) | None => None end.
Definition builtin_x (env : list (string * string)) (key : string) : xres :=
  match assoc key builtin_ini with
  | Some raw => xbind (stored_x env no_entries key raw) (xp_all env (look0 env) xfuel)
  | None => XOk EmptyString
  end.
Definition builtin (env : list (string * string)) (key : string) : string := xstr (builtin_x env key).
Definition known_key (key : string) : bool :=
  match assoc key builtin_ini with Some _ => true | None => false end.

(* the first expansion of a list that does not end (XFuel) *)
Fixpoint first_bad (l : list xres) : xres :=
  match l with
  | [] => XOk EmptyString
  | XOk _ :: r => first_bad r
  | e :: _ => e
  end.
Definition builtin_status (env : list (string * string)) : xres :=
  first_bad (map (fun e => builtin_x env (fst e)) builtin_ini).

(* ------------------------------------------------------------------ boost::escaped_list_separator *)
Section Tok.
  Variables esc sep quo : ascii -> bool.
  Fixpoint tokF (s : string) (inq : bool) (cur : string) : option (list string) :=
    match s with
    | EmptyString => Some [cur]
    | String c r =>
        if esc c then
          match r with
          | EmptyString => None                                   (* cannot end with escape *)
          | String d r' =>
              if aeqb d c_n then tokF r' inq (cur ++ String c_nl "")
              else if quo d || sep d || esc d then tokF r' inq (cur ++ String d "")
              else None                                            (* unknown escape sequence *)
          end
        else if sep c then
          if inq then tokF r inq (cur ++ String c "")
          else match tokF r false "" with Some l => Some (cur :: l) | None => None end
        else if quo c then tokF r (negb inq) cur
        else tokF r inq (cur ++ String c "")
    end.
  Definition tokenize (s : string) : option (list string) :=
    match s with EmptyString => Some [] | _ => tokF s false "" end.
End Tok.

Definition nonempty (s : string) : bool := match s with EmptyString => false | _ => true end.

(* prepend_options: escape backslash, separator blank, quote double-quote; empty tokens are kept *)
Definition tok_prepend (s : string) : option (list string) :=
  tokenize (aeqb c_bs) (aeqb c_space) (aeqb c_dq) s.
(* split_unix: separators blank/tab, quotes single and double, escape backslash; empty tokens dropped *)
Definition split_unix (s : string) : option (list string) :=
  match tokenize (aeqb c_bs) is_ws (fun c => aeqb c c_dq || aeqb c c_sq) s with
  | Some l => Some (filter nonempty l) | None => None end.

(* ------------------------------------------------------------------ outcome *)
Inductive reject :=
  | RMultiple            (* program_options::multiple_occurrences *)
  | RSyntax              (* other parser exception: missing/extra/invalid argument, ambiguous *)
  | RBadCast             (* bad_lexical_cast *)
  | RInvalid             (* pika::detail::command_line_error (value out of range, conflict) *)
  | RIniUnknown          (* Attempt to initialize unknown entry *)
  | RBadMask             (* unparsable process mask *)
  | RResources           (* more threads than processing units / bad scheduler downstream *)
  | RLateUnknown         (* late handler: unrecognised option, stop() = -1, entry point not run *)
  | RLateSplit           (* late: the rebuilt command line cannot be split again *)
  | RExpandLoop.         (* a ${..} / $[..] expansion does not end: start-up hangs (model: out of fuel) *)

Record config := {
  c_threads : N; c_cores : N; c_sched : string; c_policy : nat;
  c_bind : string; c_affinity : string; c_pu_step : N; c_pu_offset : N;
  c_numa : N; c_mask : string; c_ignore_mask : bool;
  c_entries : list (string * string);      (* final value of every built-in ini key *)
  c_stacks : list N;                       (* small, medium, large, huge *)
  c_argv : list string                     (* application arguments (without argv[0]) *)
}.

Inductive outcome :=
  | Started (c : config)
  | Rejected (r : reject)
  | Unsupported.       (* input outside the modelled fragment (@file, explicit bind syntax, ...) *)

(* ------------------------------------------------------------------ the parser *)
Definition kind_of (name : string) : option nat :=
  match find (fun p => String.eqb (fst p) name) pika_options with Some p => Some (snd p) | None => None end.

(* allow_guessing: exact match, else the unique registered option that the text abbreviates *)
Inductive lookup := LFound (name : string) (kind : nat) | LUnknown | LAmbiguous.
Definition lookup_opt (name : string) : lookup :=
  match kind_of name with
  | Some k => LFound name k
  | None => match filter (fun p => starts name (fst p)) pika_options with
            | [] => LUnknown
            | [p] => LFound (fst p) (snd p)
            | _ => LAmbiguous
            end
  end.

Record parsed := {
  p_opts : list (string * string);     (* registered options in order: canonical name, value *)
  p_unreg : list string;               (* unregistered option tokens as written *)
  p_pos : list string                  (* positional arguments, in order *)
}.
Definition p_empty := {| p_opts := []; p_unreg := []; p_pos := [] |}.
Definition add_opt n v p := {| p_opts := (p_opts p ++ [(n, v)])%list; p_unreg := p_unreg p; p_pos := p_pos p |}.
Definition add_unreg t p := {| p_opts := p_opts p; p_unreg := (p_unreg p ++ [t])%list; p_pos := p_pos p |}.
Definition add_pos t p := {| p_opts := p_opts p; p_unreg := p_unreg p; p_pos := (p_pos p ++ [t])%list |}.

Inductive perr := PSyntax | PUnsupported.

Definition is_plain (t : string) : bool := negb (starts "-" t).

(* one pass over the tokens (unix_style: long options with = or next token, guessing,
   "--" terminator, everything else positional; '@file' and short options other than as
   unregistered tokens are outside the model) *)
Fixpoint parse_tokens (fuel : nat) (ts : list string) (term : bool) (p : parsed) : parsed + perr :=
  match fuel with O => inr PUnsupported | S fuel =>
  match ts with
  | [] => inl p
  | t :: r =>
      if term then parse_tokens fuel r term (add_pos t p)
      else if String.eqb t "--" then parse_tokens fuel r true p
      else if starts "--" t then
        let body := drop 2 t in
        let '(name, adj) := match split_at c_eq body with
                            | Some (a, b) => (a, Some b) | None => (body, None) end in
        match lookup_opt name with
        | LAmbiguous => inr PSyntax
        | LUnknown => parse_tokens fuel r term (add_unreg t p)
        | LFound cn k =>
            match k, adj with
            | O, Some _ => inr PSyntax                       (* does not take any arguments *)
            | O, None => parse_tokens fuel r term (add_opt cn "" p)
            | _, Some EmptyString => inr PSyntax             (* should follow the equal sign *)
            | _, Some v => parse_tokens fuel r term (add_opt cn v p)
            | 3, None =>                                     (* implicit value *)
                match r with
                | v :: r' => if is_plain v then parse_tokens fuel r' term (add_opt cn v p)
                             else parse_tokens fuel r term (add_opt cn "0" p)
                | [] => parse_tokens fuel r term (add_opt cn "0" p)
                end
            | _, None =>
                match r with
                | v :: r' => parse_tokens fuel r' term (add_opt cn v p)
                | [] => inr PSyntax                          (* required argument is missing *)
                end
            end
        end
      else if starts "@" t then inr PUnsupported
      else if starts "-" t then
        (if String.eqb t "-" then parse_tokens fuel r term (add_pos t p)
         else parse_tokens fuel r term (add_unreg t p))
      else parse_tokens fuel r term (add_pos t p)
  end end.

Definition values_of (n : string) (p : parsed) : list string :=
  map snd (filter (fun o => String.eqb (fst o) n) (p_opts p)).
Definition value_of (n : string) (p : parsed) : option string :=
  match values_of n p with v :: _ => Some v | [] => None end.

(* store(): a second occurrence of a non-composing option throws multiple_occurrences *)
Fixpoint dup_in (seen : list string) (l : list (string * string)) : bool :=
  match l with
  | [] => false
  | (n, _) :: r =>
      match kind_of n with
      | Some 2 => dup_in seen r
      | _ => if existsb (String.eqb n) seen then true else dup_in (n :: seen) r
      end
  end.

(* typed values (value<std::size_t>, log level): the parser itself validates them *)
Definition numeric_ok (p : parsed) : bool :=
  forallb (fun o => match kind_of (fst o) with
                    | Some 4 => match parse_size (snd o) with Some _ => negb (contains c_dash (snd o)) | None => false end
                    | Some 3 => if String.eqb (fst o) "pika:numa-sensitive"
                                then match parse_size (snd o) with Some _ => negb (contains c_dash (snd o)) | None => false end
                                else true
                    | _ => true end) (p_opts p).

(* ------------------------------------------------------------------ --pika:ini definitions *)
(* manage_config::add: key = trimmed text before the first '=', one trailing '!' removed *)
Definition ini_kv (line : string) : string * string * bool :=
  match split_at c_eq line with
  | Some (k, v) =>
      let k1 := trim k in
      let k2 := rev_str k1 "" in
      match k2 with
      | String c r => if aeqb c c_bang then (rev_str r "", trim v, true) else (k1, trim v, false)
      | EmptyString => (k1, trim v, false)
      end
  | None => (trim line, trim line, false)
  end.
Definition ini_pairs (lines : list string) : list (string * string) :=
  map (fun l => let '(k, v, _) := ini_kv l in (k, v)) lines.
(* section::parse(verify_existing = true): a key that does not exist and is not forced with '!' *)
Definition ini_line_ok (line : string) : bool :=
  match split_at c_eq line with
  | None => false
  | Some _ => let '(k, _, forced) := ini_kv line in forced || known_key (trim k)
  end.

(* ------------------------------------------------------------------ machine facts (inputs) *)
(* m_coremasks: the PU mask of every core (init_core_affinity_mask_from_core), needed by
   get_number_of_default_cores for an EXPLICIT process mask: the keyword `cores` counts the cores
   that have at least one PU in the mask *)
Record machine := { m_pus : N; m_cores : N; m_maskcount : N; m_maskcores : N; m_coremasks : list N }.

(* get_number_of_default_cores(use_process_mask = true) for the mask v *)
Definition cores_in (v : N) (coremasks : list N) : N :=
  N.of_nat (length (filter (fun cm => negb (N.land cm v =? 0)%N) coremasks)).

(* ------------------------------------------------------------------ handle_* functions *)
Section Resolve.
  Variable env : list (string * string).
  Variable p : parsed.
  Variable cfgmap : list (string * string).     (* first definition wins: assoc *)

  (* the common shape of handle_scheduler / handle_affinity / handle_process_mask / ...:
     command line, else --pika:ini (manage_config), else the ini entry (environment placeholder
     or built-in default) *)
  Definition resolve (opt key : string) : string :=
    match value_of opt p with
    | Some v => v
    | None => match assoc key cfgmap with
              | Some v => v
              | None => builtin env key
              end
    end.

  Definition sched_policy (s : string) : option nat :=
    match find (fun e => starts s (fst e)) sched_table with Some e => Some (snd e) | None => None end.

  Definition max_size : N := (two64 - 1)%N.

  Definition distributions := ["balanced"; "compact"; "scatter"; "numa-balanced"].

  Definition handle (m : machine) (ini_ok : bool) (final_of : list (string * string) -> list (string * string))
             (argv_of : unit -> option (list string) + reject) : outcome :=
    (* use_process_mask_ *)
    let ign_cfg := match assoc "pika.ignore_process_mask" cfgmap with
                   | Some v => parse_size_or v (entry_size (builtin env "pika.ignore_process_mask") 0)
                   | None => entry_size (builtin env "pika.ignore_process_mask") 0 end in
    let ignore := (0 <? ign_cfg)%N || (match value_of "pika:ignore-process-mask" p with Some _ => true | None => false end) in
    let use_mask := negb ignore in
    (* handle_process_mask *)
    let mask := resolve "pika:process-mask" "pika.process_mask" in
    match (match mask with EmptyString => Some (m_maskcount m, m_maskcores m)
                    | _ => match parse_mask mask with Some v => Some (popcount v, cores_in v (m_coremasks m)) | None => None end end) with
    | None => Rejected RBadMask
    | Some (maskcount, maskcores) =>
    let sched := resolve "pika:scheduler" "pika.scheduler" in
    let affinity := resolve "pika:affinity" "pika.affinity" in
    (* check_affinity_domain: a prefix of pu / core / socket / machine *)
    if negb (starts affinity "pu" || starts affinity "core" || starts affinity "socket" || starts affinity "machine")
    then Rejected RInvalid else
    (* handle_affinity_bind: all --pika:bind values joined with ';' *)
    let bind0 := match values_of "pika:bind" p with
                 | [] => match assoc "pika.bind" cfgmap with Some v => v | None => builtin env "pika.bind" end
                 | l => join ";" l end in
    (* pu_step / check_pu_step *)
    let step_dflt := entry_size (builtin env "pika.pu_step") 1 in
    let pu_step := match value_of "pika:pu-step" p with
                   | Some v => parse_size_or v 0
                   | None => match assoc "pika.pu_step" cfgmap with
                             | Some v => parse_size_or v step_dflt | None => step_dflt end end in
    if (1 <? m_pus m)%N && ((pu_step =? 0)%N || (m_pus m <=? pu_step)%N) then Rejected RInvalid else
    (* pu_offset / check_pu_offset *)
    let off_dflt := entry_size (builtin env "pika.pu_offset") max_size in
    let pu_offset := match value_of "pika:pu-offset" p with
                     | Some v => parse_size_or v 0
                     | None => match assoc "pika.pu_offset" cfgmap with
                               | Some v => parse_size_or v off_dflt | None => off_dflt end end in
    if negb (pu_offset =? max_size)%N && (m_pus m <=? pu_offset)%N then Rejected RInvalid else
    (* handle_numa_sensitive *)
    let numa_dflt := entry_size (builtin env "pika.numa_sensitive") 0 in
    match (match value_of "pika:numa-sensitive" p with
           | Some v => let n := parse_size_or v 0 in if (2 <? n)%N then None else Some n
           | None => Some (match assoc "pika.numa_sensitive" cfgmap with
                           | Some v => parse_size_or v numa_dflt | None => numa_dflt end) end) with
    | None => Rejected RInvalid
    | Some numa =>
    (* default affinity mode *)
    let bind := if (pu_step =? 1)%N && (pu_offset =? max_size)%N && negb (nonempty bind0) then "balanced" else bind0 in
    (* check_affinity_description *)
    if nonempty bind && (negb ((pu_offset =? max_size)%N || (pu_offset =? 0)%N) || negb (pu_step =? 1)%N
                         || negb (String.eqb affinity "pu"))
    then Rejected RInvalid else
    (* handle_num_threads *)
    let init_threads := if use_mask then maskcount else m_pus m in
    let init_cores := if use_mask then maskcores else m_cores m in
    let threads_str := match assoc "pika.os_threads" cfgmap with Some v => v | None => builtin env "pika.os_threads" end in
    match (if String.eqb threads_str "cores" then Some init_cores
           else if String.eqb threads_str "all" then Some init_threads else parse_size threads_str) with
    | None => Rejected RBadCast
    | Some default_threads =>
    let threads0 := match assoc "pika.os_threads" cfgmap with
                    | Some v => parse_size_or v default_threads | None => default_threads end in
    match (match value_of "pika:threads" p with
           | None => inl threads0
           | Some v => if String.eqb v "all" then inl init_threads
                       else if String.eqb v "cores" then inl init_cores
                       else match parse_size v with
                            | None => inr RBadCast
                            | Some t => if (t =? 0)%N then inr RInvalid else inl t end end) with
    | inr e => Rejected e
    | inl threads1 =>
    let min_os := match assoc "pika.force_min_os_threads" cfgmap with
                  | Some v => parse_size_or v threads1 | None => threads1 end in
    if (min_os =? 0)%N then Rejected RInvalid else
    let threads := N.max threads1 min_os in
    (* handle_num_cores *)
    let cores_cfg := match assoc "pika.cores" cfgmap with
                     | Some v => if String.eqb v "all" then init_cores else parse_size_or v threads
                     | None => threads end in
    match (match value_of "pika:cores" p with
           | None => Some cores_cfg
           | Some v => if String.eqb v "all" then Some init_cores else parse_size v end) with
    | None => Rejected RBadCast
    | Some cores =>
    (* --pika:high-priority-threads *)
    match (match value_of "pika:high-priority-threads" p with
           | None => Some []
           | Some v => let n := parse_size_or v 0 in
                       if negb (n =? max_size)%N && (threads <? n)%N then None
                       else if negb (String.eqb sched "local-priority" || String.eqb sched "abp-priority") then None
                       else Some [("pika.thread_queue.high_priority_queues", dec n)] end) with
    | None => Rejected RInvalid
    | Some hp =>
    let logging := (
      (match value_of "pika:log-destination" p with Some v => [("pika.log.destination", v)] | None => [] end) ++
      (match value_of "pika:log-level" p with Some v => [("pika.log.level", dec (parse_size_or v 0))] | None => [] end) ++
      (match value_of "pika:log-format" p with Some v => [("pika.log.format", v)] | None => [] end))%list in
    let resolved := (
      [("pika.ignore_process_mask", if ignore then "1" else "0"); ("pika.process_mask", mask);
       ("pika.scheduler", sched); ("pika.affinity", affinity)] ++
      (if nonempty bind0 then [("pika.bind", bind0)] else []) ++
      [("pika.pu_step", dec pu_step);
       ("pika.pu_offset", if (pu_offset =? max_size)%N then "0" else dec pu_offset);
       ("pika.numa_sensitive", dec numa)] ++
      (if (pu_step =? 1)%N && (pu_offset =? max_size)%N && negb (nonempty bind0) then [("pika.bind", bind)] else []) ++
      [("pika.os_threads", dec threads); ("pika.cores", dec cores)] ++ hp ++ logging)%list in
    (* rtcfg_.reconfigure(cfg): unknown --pika:ini keys are reported here *)
    if negb ini_ok then Rejected RIniUnknown else
    (* downstream consumers of the resolved values *)
    match sched_policy sched with
    | None => Rejected RInvalid
    | Some policy =>
    if nonempty bind && negb (String.eqb bind "none") && negb (existsb (String.eqb bind) distributions) then Unsupported else
    if nonempty bind && existsb (String.eqb bind) distributions && ((if use_mask then maskcount else m_pus m) <? threads)%N
    then Rejected RResources else
    let entries := final_of resolved in
    let stack k d := match parse_stack (match assoc k entries with Some v => v | None => "" end) with
                     | Some v => v | None => d end in
    match argv_of tt with
    | inr e => Rejected e
    | inl None => Unsupported
    | inl (Some argv) =>
        Started {| c_threads := threads; c_cores := cores; c_sched := sched; c_policy := policy;
                   c_bind := bind; c_affinity := affinity; c_pu_step := pu_step;
                   c_pu_offset := (if (pu_offset =? max_size)%N then 0%N else pu_offset);
                   c_numa := numa; c_mask := mask; c_ignore_mask := ignore;
                   c_entries := entries;
                   c_stacks := [stack "pika.stacks.small_size" 65536%N; stack "pika.stacks.medium_size" 131072%N;
                                stack "pika.stacks.large_size" 2097152%N; stack "pika.stacks.huge_size" 33554432%N];
                   c_argv := argv |}
    end end end end end end end end.
End Resolve.

(* ------------------------------------------------------------------ application argv *)
(* embed_in_quotes / add_as_option / reconstruct_command_line (std::map order = sorted by name;
   only std::string and vector<string> values are written back) *)
Definition embed_in_quotes (s : string) : string :=
  let q := if contains c_dq s then String c_sq "" else String c_dq "" in
  if contains c_space s || contains c_tab s then q ++ s ++ q else s.
Definition add_as_option (k v : string) : string :=
  "--" ++ k ++ (match v with EmptyString => "" | _ => "=" ++ v end) ++ " ".

Fixpoint insert_sorted (n : string) (l : list string) : list string :=
  match l with
  | [] => [n]
  | a :: r => if String.eqb a n then l else if String.ltb n a then n :: l else a :: insert_sorted n r
  end.
Definition vm_names (p : parsed) : list string :=
  fold_left (fun acc o => insert_sorted (fst o) acc) (p_opts p)
            (insert_sorted "pika:config" (match p_pos p with [] => [] | _ => ["pika:positional"] end)).

Definition reconstruct (p : parsed) : string :=
  String.concat "" (map (fun n =>
    if String.eqb n "pika:positional" then String.concat "" (map (fun v => add_as_option n (embed_in_quotes v)) (p_pos p))
    else match kind_of n with
         | Some 1 => match value_of n p with Some v => add_as_option n (embed_in_quotes v)
                                           | None => if String.eqb n "pika:config" then add_as_option n "" else "" end
         | Some 2 => String.concat "" (map (fun v => add_as_option n (embed_in_quotes v)) (values_of n p))
         | Some 3 => if String.eqb n "pika:attach-debugger"
                     then match value_of n p with Some v => add_as_option n (embed_in_quotes v) | None => "" end else ""
         | _ => "" end) (vm_names p)).

(* encode_and_enquote *)
Fixpoint esc_dq (s : string) : string :=
  match s with EmptyString => EmptyString
  | String c r => if aeqb c c_dq then String c_bs (String c_dq (esc_dq r)) else String c (esc_dq r) end.
Definition enquote (s : string) : string :=
  if contains c_space s || contains c_tab s || contains c_dq s then String c_dq "" ++ s ++ String c_dq "" else s.
Definition encode_and_enquote (s : string) : string := enquote (esc_dq s).

(* init_helper: split the rebuilt command line, keep what does not start with --pika:,
   turn --pika:positional=V back into V *)
Definition app_filter (args : list string) : list string :=
  flat_map (fun a => if starts "--pika:" a then
                       (if starts "--pika:positional" a then
                          match split_at c_eq a with Some (_, v) => [v] | None => [] end else [])
                     else [a]) args.

(* the late handler (allow_unknown = 0: unregistered options are errors) and init_helper.
   arg0 is passed in because the rebuilt line starts with it. *)
(* the late handler re-parses  command + " " + prepend_options + options : both pieces went
   through ini entries, whose values are trimmed, so the last prepended token is glued to the
   first command-line argument; typed option values are validated again there *)
Definition late_line_ok (ex : string -> string -> xres) (arg0 pco : string) (args : list string) : bool :=
  let line := xstr (ex "pika.commandline.command" (trim (encode_and_enquote arg0))) ++ " " ++ pco ++
              xstr (ex "pika.commandline.options"
                       (trim (String.concat "" (map (fun a => " " ++ encode_and_enquote a) args)))) in
  match split_unix line with
  | None => false
  | Some toks => match parse_tokens (S (length toks)) (tl toks) false p_empty with
                 | inl q => negb (dup_in [] (p_opts q)) && numeric_ok q
                 | inr _ => false
                 end
  end.

Definition cmd_line_status (ex : string -> string -> xres) (arg0 : string) (args : list string) (p : parsed) : xres :=
  first_bad [ex "pika.commandline.command" (trim (encode_and_enquote arg0));
             ex "pika.commandline.options" (trim (String.concat "" (map (fun a => " " ++ encode_and_enquote a) args)));
             ex "pika.reconstructed_cmd_line" (trim (encode_and_enquote arg0 ++ " " ++ reconstruct p ++ " "))].

(* [ex key value] is what reading the entry [key] gives after [value] was stored in it: store_command_line /
   store_unregistered_options put the pieces of the command line into ini entries (expand_only when they
   are added by reconfigure(ini_config_) at the end of call()), the late handler and init_helper read them
   back (expand) *)
Definition app_argv (ex : string -> string -> xres) (arg0 pco : string) (args : list string) (p : parsed) : option (list string) + reject :=
  match cmd_line_status ex arg0 args p with
  | XFuel => inr RExpandLoop
  | XOk _ =>
  if (match p_unreg p with [] => false | _ => true end) then inr RLateUnknown else
  if negb (late_line_ok ex arg0 pco args) then inr RLateSplit else
  (* the line travels through an ini entry (pika.reconstructed_cmd_line): the value is trimmed when
     it is stored and EXPANDED when init_helper reads it back with get_config_entry ([ex]): ${NAME}
     and $[key] words of the user's arguments are replaced (finding C16:app_args:dollar_expanded) *)
  let line := xstr (ex "pika.reconstructed_cmd_line" (trim (encode_and_enquote arg0 ++ " " ++ reconstruct p ++ " "))) in
  match split_unix line with
  | None => inr RLateSplit
  | Some toks => inl (Some (app_filter (tl toks)))
  end
  end.

(* ------------------------------------------------------------------ the whole start-up *)
(* rtcfg_.reconfigure(ini_config_): built-in ini, then the --pika:ini lines and the resolved
   settings in order, last definition wins *)
(* the stored value of every built-in key (a later definition is stored through add_entry as well) ... *)
Definition final_stored (env : list (string * string)) (inis resolved : list (string * string)) : list (string * string) :=
  map (fun e => let k := fst e in
                (k, match assoc_last k (inis ++ resolved)%list None with
                    | Some v => xstr (stored_x env (look0 env) k v)
                    | None => xstr (stored_x env no_entries k (snd e)) end)) builtin_ini.
(* ... and what get_entry returns for it: $[key] refers to the stored values of the final configuration *)
Definition final_entries (env : list (string * string)) (inis resolved : list (string * string)) : list (string * string) :=
  let st := final_stored env inis resolved in
  map (fun e => (fst e, xstr (xp_all env (fun k => assoc k st) xfuel (snd e)))) st.

Definition run (env : list (string * string)) (m : machine) (arg0 : string) (args : list string) : outcome :=
  (* the constructor of the runtime configuration adds every built-in line (expand_only of the
     environment values); the handlers read them: an expansion that does not end stops everything *)
  match builtin_status env with
  | XFuel => Rejected RExpandLoop
  | XOk _ =>
  let pco := builtin env "pika.commandline.prepend_options" in
  match tok_prepend pco with
  | None => Unsupported
  | Some pre =>
    let all := (pre ++ args)%list in
    match parse_tokens (S (length all)) all false p_empty with
    | inr PSyntax => Rejected RSyntax
    | inr PUnsupported => Unsupported
    | inl p =>
      if dup_in [] (p_opts p) then Rejected RMultiple else
      if negb (numeric_ok p) then Rejected RSyntax else
      if existsb (fun o => existsb (String.eqb (fst o))
                   ["pika:help"; "pika:version"; "pika:info"; "pika:options-file"; "pika:app-config"; "pika:config";
                    "pika:exit"; "pika:dump-config"; "pika:dump-config-initial"; "pika:debug-clp"; "pika:print-bind";
                    "pika:attach-debugger"]) (p_opts p) then Unsupported else
      let lines := values_of "pika:ini" p in
      let inis := ini_pairs lines in
      let allow_unknown :=
        negb (String.eqb (match assoc_last "pika.commandline.allow_unknown" inis None with
                          | Some v => xstr (read_x env (look0 env) "pika.commandline.allow_unknown" v)
                          | None => builtin env "pika.commandline.allow_unknown" end) "0") in
      if allow_unknown then Unsupported else
      let h := handle env p inis m (forallb ini_line_ok lines) (fun resolved => final_entries env inis resolved) in
      (* $[key] in the rebuilt command line refers to the final configuration; the entries do not
         depend on the application arguments, so they are taken from a run of the handlers with a
         dummy argv *)
      let look k := match handle env p inis m (forallb ini_line_ok lines) (fun resolved => final_stored env inis resolved)
                                 (fun _ => inl (Some [])) with Started c0 => assoc k (c_entries c0) | _ => None end in
      h (fun _ => app_argv (read_x env look) arg0 pco args p)
    end
  end
  end.
