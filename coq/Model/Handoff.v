(* Model/Handoff.v — C03: the concurrent parts of pika's sender adaptors, over Base/Conc.v.

   1. The shared state of split / ensure_started / split_tuple
      (split.hpp, ensure_started.hpp, split_tuple.hpp: set_predecessor_done, add_continuation).
      Thread 0 is the thread on which the predecessor completes, every other thread is a
      consumer calling start() on its operation state.  Atomic steps (= the PIKA_VERIF_POINT
      sites 30k/31k/32k of the three headers):
        predecessor  P0      : receiver's set_value/error/stopped emplaces the variant v, os.reset()
                     P1 (1)  : predecessor_done = true
                     P2 (2)  : lock_guard{mtx}   (empty critical section)
                     P3 (3)  : run the stored continuations (in storage order), clear
        consumer     C0      : state->start() (start_called.exchange; split only)
                     C1 (4)  : if (predecessor_done) visit(v)  [signals its own receiver]
                     C2 (5)  : unique_lock{mtx} (spins while held); if (predecessor_done) { unlock; visit(v) }
                               else keep the lock
                     C3      : continuations.push(self); unlock     (inside the critical section:
                               the predecessor's P1 may fall between C2 and C3, its P2 may not)
      Reading v after predecessor_done is coalesced with the step that read the flag (v is
      immutable then).  The real code cannot be parked inside the critical section, so the
      lock-step replay always runs C3 right after C2; the theorems cover every interleaving.

   2. The join counter of when_all / when_all_vector (when_all.hpp, when_all_vector.hpp).
      Thread i < n is the thread on which child i completes.  Steps (sites 331/332, 341/342):
        W0      : the child's receiver is moved to the stack
        W1 (1)  : set_value: load flag, store the values if clear
                  set_error: flag.exchange(true); record the error if it was clear
                  set_stopped: flag = true
        W2 (2)  : --predecessors_remaining; the thread that reaches 0 signals the receiver

   Executable definitions only. *)
From Coq Require Import List NArith ZArith Bool Arith.
From Pika Require Import Base.Conc Model.Sender.
Import ListNotations.

(* ------------------------------------------------------------------ 1. shared state hand-off *)
Inductive hkind := HSplit | HEnsure | HTuple.

Record hs := {
  h_v : option completion;          (* the variant: None = monostate *)
  h_done : bool;                    (* predecessor_done *)
  h_started : bool;                 (* the predecessor operation has been started *)
  h_conts : list nat;               (* stored continuations (consumer ids) in the order they will run *)
  h_lock : option nat;              (* mtx: the consumer inside its critical section *)
  h_log : list (nat * nat * ev)     (* ghost, newest first: (consumer signalled, by thread, event) *)
}.

Inductive hpc :=
  | P0 | P1 | P2 | P3 | PEnd        (* predecessor thread *)
  | C0 | C1 | C2 | C3 | CEnd.       (* consumer threads *)

Definition h_site (l : hpc) : nat :=
  match l with P1 => 1 | P2 => 2 | P3 => 3 | C1 => 4 | C2 => 5 | _ => 0 end.

Definition set_v g v := {| h_v := v; h_done := h_done g; h_started := h_started g; h_conts := h_conts g; h_lock := h_lock g; h_log := h_log g |}.
Definition set_done g := {| h_v := h_v g; h_done := true; h_started := h_started g; h_conts := h_conts g; h_lock := h_lock g; h_log := h_log g |}.
Definition set_started g := {| h_v := h_v g; h_done := h_done g; h_started := true; h_conts := h_conts g; h_lock := h_lock g; h_log := h_log g |}.
Definition set_conts g c := {| h_v := h_v g; h_done := h_done g; h_started := h_started g; h_conts := c; h_lock := h_lock g; h_log := h_log g |}.
Definition set_lock g o := {| h_v := h_v g; h_done := h_done g; h_started := h_started g; h_conts := h_conts g; h_lock := o; h_log := h_log g |}.
Definition add_log g (x : nat * nat * ev) :=
  {| h_v := h_v g; h_done := h_done g; h_started := h_started g; h_conts := h_conts g; h_lock := h_lock g; h_log := x :: h_log g |}.

(* the continuation of consumer c runs on thread t: visit(v) signals c's receiver *)
Definition signal (g : hs) (c t : nat) : hs := add_log g (c, t, visit (h_v g)).

Fixpoint insert_sorted (c : nat) (l : list nat) : list nat :=
  match l with
  | [] => [c]
  | x :: r => if Nat.leb c x then c :: l else x :: insert_sorted c r
  end.

(* split: small_vector::emplace_back; ensure_started: optional::emplace; split_tuple: continuations[Index] *)
Definition push_cont (k : hkind) (c : nat) (l : list nat) : list nat :=
  match k with HTuple => insert_sorted c l | _ => l ++ [c] end.

Definition h_tstep (k : hkind) (c : completion) (_ : unit) (t : nat) (g : hs) (l : hpc) : hs * hpc :=
  match t with
  | O =>
      match l with
      | P0 => if h_started g then (set_v g (split_store c), P1) else (g, P0)
      | P1 => (set_done g, P2)
      | P2 => match h_lock g with None => (g, P3) | Some _ => (g, P2) end
      | P3 => (set_conts (fold_left (fun g' cn => signal g' cn 0) (h_conts g) g) [], PEnd)
      | _ => (g, l)
      end
  | S _ =>
      match l with
      | C0 => (match k with HEnsure => g | _ => set_started g end, C1)
      | C1 => if h_done g then (signal g t t, CEnd) else (g, C2)
      | C2 => match h_lock g with
              | Some _ => (g, C2)
              | None => if h_done g then (signal g t t, CEnd) else (set_lock g (Some t), C3)
              end
      | C3 => (set_lock (set_conts g (push_cont k t (h_conts g))) None, CEnd)
      | _ => (g, l)
      end
  end.

Definition h_init (k : hkind) : hs :=
  {| h_v := None; h_done := false; h_started := match k with HEnsure => true | _ => false end;
     h_conts := []; h_lock := None; h_log := [] |}.
Definition h_locals : nat -> hpc := fun t => match t with O => P0 | S _ => C0 end.

Definition h_run (k : hkind) (c : completion) (sched : list (nat * unit)) : hs * (nat -> hpc) :=
  run (h_tstep k c) sched (h_init k, h_locals).

(* for the correspondence check: the site every scheduled thread was parked at *)
Fixpoint h_trace (k : hkind) (c : completion) (sched : list nat) (st : hs * (nat -> hpc)) (acc : list nat)
  : list nat * (hs * (nat -> hpc)) :=
  match sched with
  | [] => (rev acc, st)
  | t :: rest =>
      let st1 := step (h_tstep k c) st (t, tt) in
      (* the critical section of add_continuation is executed without interruption by the real code *)
      let st2 := match snd st1 t with C3 => step (h_tstep k c) st1 (t, tt) | _ => st1 end in
      h_trace k c rest st2 (h_site (snd st t) :: acc)
  end.

(* ------------------------------------------------------------------ 2. when_all join *)
Record ws := {
  w_rem : Z;                          (* predecessors_remaining *)
  w_flag : bool;                      (* set_stopped_error_called *)
  w_err : option exn;                 (* the optional error *)
  w_slots : list (nat * list val);    (* value storage, by child index *)
  w_out : list (nat * ev);            (* ghost, newest first: (signalling thread, what the receiver got) *)
  w_first : option nat;               (* ghost: the child that set the flag first *)
  w_fin : list nat                    (* ghost: children that have decremented *)
}.

Inductive wpc := W0 | W1 | W2 | WEnd.
Definition w_site (l : wpc) : nat := match l with W1 => 1 | W2 => 2 | _ => 0 end.

Definition w_emit (n : nat) (g : ws) : ev :=
  if negb (w_flag g) then Sig (CVal (collect n (w_slots g)))
  else match w_err g with Some e => Sig (CErr e) | None => Sig CStopped end.

Definition w_flag_step (t : nat) (c : completion) (g : ws) : ws :=
  match c with
  | CVal vs => if w_flag g then g
               else {| w_rem := w_rem g; w_flag := false; w_err := w_err g; w_slots := (t, vs) :: w_slots g;
                       w_out := w_out g; w_first := w_first g; w_fin := w_fin g |}
  | CErr e => if w_flag g then g
              else {| w_rem := w_rem g; w_flag := true; w_err := Some e; w_slots := w_slots g;
                      w_out := w_out g; w_first := Some t; w_fin := w_fin g |}
  | CStopped => {| w_rem := w_rem g; w_flag := true; w_err := w_err g; w_slots := w_slots g;
                   w_out := w_out g;
                   w_first := match w_first g with Some x => Some x | None => Some t end;
                   w_fin := w_fin g |}
  end.

Definition w_dec_step (n t : nat) (g : ws) : ws :=
  let r := (w_rem g - 1)%Z in
  let g1 := {| w_rem := r; w_flag := w_flag g; w_err := w_err g; w_slots := w_slots g;
               w_out := w_out g; w_first := w_first g; w_fin := t :: w_fin g |} in
  if (r =? 0)%Z
  then {| w_rem := r; w_flag := w_flag g1; w_err := w_err g1; w_slots := w_slots g1;
          w_out := (t, w_emit n g1) :: w_out g1; w_first := w_first g1; w_fin := w_fin g1 |}
  else g1.

(* [cs t] is the completion of child t *)
Definition w_tstep (n : nat) (cs : nat -> completion) (_ : unit) (t : nat) (g : ws) (l : wpc) : ws * wpc :=
  if Nat.ltb t n then
    match l with
    | W0 => (g, W1)
    | W1 => (w_flag_step t (cs t) g, W2)
    | W2 => (w_dec_step n t g, WEnd)
    | WEnd => (g, WEnd)
    end
  else (g, l).

Definition w_init (n : nat) : ws :=
  {| w_rem := Z.of_nat n; w_flag := false; w_err := None; w_slots := []; w_out := []; w_first := None; w_fin := [] |}.
Definition w_locals : nat -> wpc := fun _ => W0.

Definition w_run (n : nat) (cs : nat -> completion) (sched : list (nat * unit)) : ws * (nat -> wpc) :=
  run (w_tstep n cs) sched (w_init n, w_locals).

Fixpoint w_trace (n : nat) (cs : nat -> completion) (sched : list nat) (st : ws * (nat -> wpc)) (acc : list nat)
  : list nat * (ws * (nat -> wpc)) :=
  match sched with
  | [] => (rev acc, st)
  | t :: rest => w_trace n cs rest (step (w_tstep n cs) st (t, tt)) (w_site (snd st t) :: acc)
  end.

(* what the join must report once every child has completed: a value iff no child failed (the
   children's values in child order); otherwise the error of the child that set the flag
   first if that child failed with an error, else stopped *)
Definition w_expected (n : nat) (cs : nat -> completion) (first : option nat) : completion :=
  match first with
  | None => CVal (flat_map (fun i => val_of (cs i)) (seq 0 n))
  | Some f => match cs f with CErr e => CErr e | _ => CStopped end
  end.
