(* Model/SuspendResumeHPStuck.v — C19, round p12a: enabledness (hence `stuck`) for the high-priority-queue layer
   Model/SuspendResumeHP.v, and the projection of a layer state onto the base model Model/SuspendResume.v.

   A layer worker is enabled iff the base worker at the corresponding program point is (own normal work, can_sleep, work a
   running worker may take, what the current iteration can still do on a stale `running = true`), OR — while it is in its polling
   cycle —
     own_hp    its OWN high-priority queue is not empty (w < nhp): popped first whatever `running` is (HPopH), and counted by
               get_queue_length, so the idle branch does not let the worker sleep over it;
     steal_h   it is running (or still believes so in this iteration and has not passed HStealH yet) and a victim v < nhp, v <> w
               has a non-empty high-priority queue — stealing only, and only a worker that has a high-priority queue itself
               (w < nhp) looks at the victims' high-priority queues.
   Executable definitions only; proofs in Proofs/SuspendResumeHPStuckProofs.v. *)
From Coq Require Import List NArith Bool Arith.
From Pika Require Import Base.Conc Gen.GenRuntimeState Model.SuspendResume Model.SuspendResumeHP.
Import ListNotations.

(* the base program point a layer program point stands for *)
Definition unsplice (pc : hpc) : wpc :=
  match pc with HBase p => p | HPopH r => WPop r | HStealH => WSteal end.

Definition hproj (l : hlstate) : lstate :=
  match l with HWorker pc => LWorker (unsplice pc) | HClient cl _ => LClient cl | HNone => LNone end.

Definition own_hp (c : cfg) (nhp w : nat) (g : gst) : bool := Nat.ltb w nhp && nonempty (qof (hq c w) (qs g)).

Definition steal_h (c : cfg) (nhp w : nat) (g : gst) : bool :=
  stealing c && Nat.ltb w nhp &&
  existsb (fun v => Nat.ltb v nhp && negb (Nat.eqb v w) && nonempty (qof (hq c v) (qs g))) (seq 0 (nw c)).

(* the stealing loop over the high-priority queues (HStealH) is still ahead in this iteration, entered on `running = true` *)
Definition hp_early (pc : hpc) : bool :=
  match pc with HPopH true | HStealH | HBase (WPop true) => true | _ => false end.

Definition polling (pc : wpc) : bool :=
  match pc with WExec | WStore | WEnterWait | WWaiting | WWoken => false | _ => true end.

Definition hp_worker_enabled (c : cfg) (nhp w : nat) (g : gst) (pc : hpc) : bool :=
  worker_enabled c w g (unsplice pc) ||
  (polling (unsplice pc) &&
   (own_hp c nhp w g || ((rs_lt (st g w) g_running_below || hp_early pc) && steal_h c nhp w g))).

Definition hp_enabled (c : cfg) (nhp t : nat) (g : gst) (l : hlstate) : bool :=
  match l with
  | HWorker pc => Nat.ltb t (nw c) && hp_worker_enabled c nhp t g pc
  | HClient cl _ => negb (Nat.ltb t (nw c)) && client_enabled c g cl
  | HNone => false
  end.

(* a run of the layer whose clients all submit with normal / low priority: the schedule of the base model that performs the same
   steps (the two extra program points HPopH / HStealH find their queues empty and are skipped) *)
Definition hp_skips (l : hlstate) : bool :=
  match l with HWorker (HPopH _) | HWorker HStealH => true | _ => false end.

Fixpoint base_sched (c : cfg) (nhp : nat) (sched : list (nat * oracle)) (cf : gst * locals hlstate) : list (nat * oracle) :=
  match sched with
  | [] => []
  | so :: s =>
      let cf' := step (hp_tstep c nhp) cf so in
      if hp_skips (snd cf (fst so)) then base_sched c nhp s cf' else so :: base_sched c nhp s cf'
  end.
