(* Model/CondVarAbort.v — C06/C07, round w11c: pika::detail::condition_variable::abort_all (src/detail/condition_variable.cpp),
   the path Model/CondVar.v leaves out: what happens to the queued waiters when a detail condition variable is destroyed
   (~condition_variable: `if (!queue_.empty()) abort_all<no_mutex>(...)`) or abort_all(lock) is called.

   Code (abort_all<Mutex>(std::unique_lock<Mutex> lock), entered with the internal lock I held):
       while (!queue_.empty()) {
           queue_type queue; queue.swap(queue_); for (qe : queue) qe.q_ = &queue;          // under I
           while (!queue.empty()) {
               auto ctx = queue.front().ctx_; queue.front().ctx_.reset(); queue.pop_front(); // under I
               unlock_guard unlock(lock);                                                    // I RELEASED
               ctx.abort();                                                                  // resume with reason wait_abort
           }                                                                                 // I re-locked
       }
   Unlike notify_all the internal lock is released around every abort: waiters (and new waiters) run in between, and the swapped-out
   list is a local of the aborter that a waiter leaving on its own (spurious return) erases itself from under I (qe.q_).
   Waiter (detail wait(lock), entered with I held): push entry; unlock I; suspend; [suspend returns or THROWS yield_aborted]
   re-lock I (unlock_guard destructor, also during unwinding); reset_queue_entry: `if (e.ctx_) q_->erase(e)`; the caller unlocks I.
   agent abort:  pika task (execution_agent::abort = do_resume(.., thread_restart_state::abort)): one-shot reason, the suspension
                 ends with pika::exception(yield_aborted);
                 plain OS thread (default_agent::abort): waits until the target is not running, sets running_ and aborted_ —
                 aborted_ is NEVER reset: every later suspend of that OS thread throws too (modelled: [areason] is sticky for OS).
   One step = one critical section of I, or one agent call.  Threads: [a] is the aborter, every other thread a waiter performing
   [todo] waits.  Ghost counters per thread: pushes (entries queued), aborts (abort() calls aimed at it), selfrem (entries the
   waiter erased itself).  Executable definitions only; proofs in Proofs/CondVarAbortProofs.v. *)
From Coq Require Import List Bool Arith.
From Pika Require Import Base.Conc Base.Agent.
Import ListNotations.

Inductive ab_pc :=
  | QLockI | QPush | QPreSusp | QSusp | QRelock | QCheck | QDone      (* waiter *)
  | ALockI | ASwap | APop | AAbort (w : nat) | ARelock | ADone.       (* aborter *)

Record ab_shared := {
  ai : option nat;                 (* internal lock I: holder *)
  aq : list nat;                   (* queue_ *)
  apend : list nat;                (* the aborter's local `queue` *)
  aag : nat -> agent_state;
  areason : nat -> bool;           (* the agent has been resumed with reason abort (OS thread: aborted_) *)
  pushes : nat -> nat; aborts : nat -> nat; selfrem : nat -> nat;
  thrown : nat -> nat }.           (* ghost: waits of t that ended with yield_aborted *)

Record ab_local := { apc : ab_pc; todo : nat; thr : bool }.

Fixpoint remove1 (t : nat) (l : list nat) : list nat :=
  match l with [] => [] | x :: r => if Nat.eqb x t then r else x :: remove1 t r end.
Definition mem (t : nat) (l : list nat) : bool := existsb (Nat.eqb t) l.

Definition set_i g x := {| ai := x; aq := aq g; apend := apend g; aag := aag g; areason := areason g; pushes := pushes g; aborts := aborts g; selfrem := selfrem g; thrown := thrown g |}.
Definition lpc (l : ab_local) (p : ab_pc) : ab_local := {| apc := p; todo := todo l; thr := thr l |}.

(* oracle: a spurious return of suspend (tasks only: a stale resume arrives) *)
Definition ab_tstep (a : nat) (isos : nat -> bool) (spur : bool) (t : nat) (g : ab_shared) (l : ab_local) : ab_shared * ab_local :=
  if Nat.eqb t a then
    match apc l with
    | ALockI | ARelock =>
        match ai g with
        | Some _ => (g, l)
        | None => (set_i g (Some t), lpc l (match apc l with ALockI => ASwap | _ => APop end))
        end
    | ASwap =>
        match aq g with
        | [] => (set_i g None, lpc l ADone)
        | _ :: _ => ({| ai := ai g; aq := []; apend := aq g; aag := aag g; areason := areason g; pushes := pushes g; aborts := aborts g; selfrem := selfrem g; thrown := thrown g |}, lpc l APop)
        end
    | APop =>
        match apend g with
        | [] => (g, lpc l ASwap)
        | w :: r => ({| ai := None; aq := aq g; apend := r; aag := aag g; areason := areason g; pushes := pushes g; aborts := aborts g; selfrem := selfrem g; thrown := thrown g |}, lpc l (AAbort w))
        end
    | AAbort w =>
        if isos w && negb (blocked (aag g w)) then (g, l)      (* default_agent::abort waits until the target is not running *)
        else ({| ai := ai g; aq := aq g; apend := apend g;
                 aag := upd (aag g) w (if isos w then {| tok := false; blocked := false |} else a_resume (aag g w));
                 areason := upd (areason g) w true; pushes := pushes g; aborts := upd (aborts g) w (S (aborts g w)); selfrem := selfrem g; thrown := thrown g |},
              lpc l ARelock)
    | _ => (g, l)
    end
  else
    match apc l with
    | QLockI | QRelock =>
        match ai g with
        | Some _ => (g, l)
        | None => (set_i g (Some t), lpc l (match apc l with QLockI => QPush | _ => QCheck end))
        end
    | QPush =>
        ({| ai := None; aq := aq g ++ [t]; apend := apend g; aag := aag g; areason := areason g; pushes := upd (pushes g) t (S (pushes g t)); aborts := aborts g; selfrem := selfrem g; thrown := thrown g |},
         lpc l QPreSusp)
    | QPreSusp =>
        ({| ai := ai g; aq := aq g; apend := apend g; aag := upd (aag g) t (fst (a_suspend (aag g t))); areason := areason g; pushes := pushes g; aborts := aborts g; selfrem := selfrem g; thrown := thrown g |},
         lpc l QSusp)
    | QSusp =>
        if blocked (aag g t) && negb (spur && negb (isos t)) then (g, l)
        else
          (* suspend returns — or throws yield_aborted when the agent was resumed with reason abort *)
          ({| ai := ai g; aq := aq g; apend := apend g; aag := upd (aag g) t {| tok := tok (aag g t); blocked := false |};
              areason := if isos t then areason g else upd (areason g) t false;
              pushes := pushes g; aborts := aborts g; selfrem := selfrem g;
              thrown := if areason g t then upd (thrown g) t (S (thrown g t)) else thrown g |},
           {| apc := QRelock; todo := todo l; thr := areason g t |})
    | QCheck =>
        (* reset_queue_entry: the entry still carries its context iff it is still in queue_ or in the aborter's local list *)
        let g1 :=
          if mem t (aq g) then {| ai := None; aq := remove1 t (aq g); apend := apend g; aag := aag g; areason := areason g; pushes := pushes g; aborts := aborts g; selfrem := upd (selfrem g) t (S (selfrem g t)); thrown := thrown g |}
          else if mem t (apend g) then {| ai := None; aq := aq g; apend := remove1 t (apend g); aag := aag g; areason := areason g; pushes := pushes g; aborts := aborts g; selfrem := upd (selfrem g) t (S (selfrem g t)); thrown := thrown g |}
          else set_i g None in
        (g1, match todo l with O => {| apc := QDone; todo := O; thr := thr l |} | S k => {| apc := QLockI; todo := k; thr := thr l |} end)
    | _ => (g, l)
    end.

Definition ab_init : ab_shared :=
  {| ai := None; aq := []; apend := []; aag := fun _ => a_init; areason := fun _ => false;
     pushes := fun _ => 0; aborts := fun _ => 0; selfrem := fun _ => 0; thrown := fun _ => 0 |}.
(* waits t: number of waits thread t performs (0: it never waits) *)
Definition ab_locals (a : nat) (waits : nat -> nat) : nat -> ab_local :=
  fun t => if Nat.eqb t a then {| apc := ALockI; todo := 0; thr := false |}
           else match waits t with O => {| apc := QDone; todo := 0; thr := false |} | S k => {| apc := QLockI; todo := k; thr := false |} end.
Definition ab_run (a : nat) (isos : nat -> bool) (waits : nat -> nat) (sched : list (nat * bool)) :=
  run (ab_tstep a isos) sched (ab_init, ab_locals a waits).

(* entries of t that are queued or in the aborter's hands *)
Definition at_abort (p : ab_pc) (t : nat) : nat := match p with AAbort w => if Nat.eqb w t then 1 else 0 | _ => 0 end.
Definition pending (g : ab_shared) (pa : ab_pc) (t : nat) : nat :=
  count_occ Nat.eq_dec (aq g) t + count_occ Nat.eq_dec (apend g) t + at_abort pa t.
