(* Model/DequeExplore.v — exhaustive exploration of ALL interleavings of a finite set of threads
   of Model/Deque.v (a model checker inside Coq, used for the bounded theorem
   deque_linearizable_guarded_partial).  Locals are a finite list here; a thread that is done
   (no operation left, or crashed) has no step.  Executable definitions only. *)
From Coq Require Import List NArith Bool.
From Pika Require Import Base.Conc Model.IndexQueue Model.DequeSpec Model.Deque.
Import ListNotations.
Local Open Scope N_scope.

Definition idle_local : dq_local := {| dtodo := []; dpc := DIdle |}.
Definition lget (ls : list dq_local) (t : nat) : dq_local := nth t ls idle_local.
Fixpoint lset (ls : list dq_local) (t : nat) (l : dq_local) : list dq_local :=
  match ls, t with
  | [], _ => []
  | _ :: r, O => l :: r
  | x :: r, S t' => x :: lset r t' l
  end.

Fixpoint explore (fuel : nat) (chk : dq_shared -> list dq_local -> bool)
                 (g : dq_shared) (ls : list dq_local) : bool :=
  chk g ls &&
  match fuel with
  | O => forallb dq_done ls
  | S f => forallb (fun t => if dq_done (lget ls t) then true
                             else let '(g', l') := dq_tstep tt t g (lget ls t) in
                                  explore f chk g' (lset ls t l'))
                   (seq 0 (length ls))
  end.

(* the property checked in every reachable state: unless a link CAS has hit a recycled node,
   no value has been delivered more often than it was pushed, nobody dereferenced nullptr, and
   when every thread is done the pushed values are exactly the popped ones plus the chain *)
Definition count_N (x : N) (l : list N) : nat := length (filter (N.eqb x) l).
Definition no_excess (popped pushed : list N) : bool :=
  forallb (fun v => Nat.leb (count_N v popped) (count_N v pushed)) popped.
Definition crashed (l : dq_local) : bool := match dpc l with DCrashed => true | _ => false end.

Definition conserved (g : dq_shared) (ls : list dq_local) : bool :=
  aba g ||
  (no_excess (popped_vals (dlog g)) (pushed_vals (dlog g)) &&
   negb (existsb crashed ls) &&
   (if forallb dq_done ls
    then perm_b (pushed_vals (dlog g)) (popped_vals (dlog g) ++ dq_contents 16 g)
    else true)).

(* a configuration: pool size, preparation (run alone by thread 9), one program per thread *)
Definition start_state (k : N) (init : list dop) : dq_shared :=
  fst (dq_solo (40 * S (length init)) 9
         (dq_init k, fun t => if Nat.eqb t 9 then {| dtodo := init; dpc := DIdle |} else idle_local)).
Definition start_locals (progs : list (list dop)) : list dq_local :=
  map (fun p => {| dtodo := p; dpc := DIdle |}) progs.
Definition lfun (ls : list dq_local) : nat -> dq_local := lget ls.
