(* Model/Placement.v — C10: where work runs (pools, per-worker queues, hints).
   Executable definitions only; proofs are in Proofs/PlacementProofs.v.

   What is modelled (file:function of the real code in parentheses)
   * several pools p, each with its own scheduler object: W workers, per-worker normal queues
     QN p w, H high-priority queues QH p i and one low-priority queue QL p when the scheduler is a
     priority scheduler (local_priority_queue_scheduler / static_priority_queue_scheduler), only
     QN p w otherwise (local_queue_scheduler / static_queue_scheduler);
   * the hint -> queue computation shared by create_thread / schedule_thread /
     schedule_thread_last: size_t(hint), "-1 => curr_queue_++ % W", "else hint % W",
     select_active_pu (scheduler_base.cpp) incl. the try_lock walk when enable_elasticity is set,
     "num_thread % num_high_priority_queues" for the high-priority queues;
   * thread_pool_scheduler::execute / schedule / schedule_from (continues_on, transfer_just) /
     bulk chunk tasks: all are [ASpawn]: create_work on the pool of the scheduler — a step that
     ONLY enqueues;
   * the scheduling loop (scheduling_loop.hpp): next_thrd first, else get_next_thread (own
     high-priority queue, own queue, victims when stealing is enabled, low-priority queue), CAS
     pending->active = [EEnter]; after the phase: yield => schedule_thread_last(hint = this
     worker, fallback, priority normal); pending_boost => schedule_thread(hint = this worker,
     fallback, priority boost) or next_thrd = thrd; a popped handle whose task is active is
     re-scheduled with hint = this worker;
   * last_worker_thread_num_ as the code maintains it: size_t(-1) (= None) in a new thread_data;
     the scheduling loop stores the local worker number right after the successful pending->active
     transition, before it invokes the coroutine (own atomic step: pc [Start]; repair of the
     first-phase wake-up race, see notes/design/C10.md); execution_agent::do_yield stores it again
     BEFORE it switches out (own atomic step, the task is still active: pc [Leave]);
     this_thread::suspend(state, nextid) (yield_to) does not go through do_yield and stores nothing;
   * execution_agent::do_resume and the "set state for active thread" helper set_active_state
     (set_thread_state.cpp) READ get_last_worker_thread_num() of the target for the hint (own atomic
     step, ghost event [EWake]: pc [Res b hint]) and only then call set_thread_state(pending, hint):
     target suspended => pending + schedule_thread(hint); target active => helper task
     (create_work on the target's scheduler, no hint) that does the same again.  An execution_agent
     is reachable only through this_thread::agent() of the running task itself
     (thread_data_stackful::call installs it), so a task can be named in a resume only after its
     coroutine has been invoked once (ghost [tk_agent], set by the [Start] step);
   * this_thread::yield_to (thread_helpers.cpp suspend(nextid)): same scheduler => next_thrd,
     other scheduler => schedule_thread(nextid, no hint) on the target's scheduler.
   The queue discipline is abstract (the oracle names the position that is popped), which covers
   FIFO/LIFO/ABP and the staged/pending split.  What each task does in a phase is chosen by the
   oracle, so the theorems quantify over all programs. *)
From Coq Require Import List Arith Lia Bool ZArith.
From Pika Require Import Base.Conc.
Import ListNotations.

(* ---------------------------------------------------------------- configuration *)
Record pool_cfg := {
  pW : nat;               (* worker threads = number of queues *)
  pH : nat;               (* number of high-priority queues (1..W), priority schedulers only *)
  pPrio : bool;           (* local_priority/static_priority (true) vs local/static queue scheduler *)
  pSteal : bool;          (* get_next_thread may take from victims' queues *)
  pElastic : bool;        (* scheduler_mode::enable_elasticity *)
  pAvail : nat -> bool    (* states_[w] <= suspended, constant during a run (changing it is C19) *)
}.

Inductive prio := PNormal | PHigh | PLow | PBoost.     (* after default_ -> normal; high_recursive = PHigh *)
Inductive hint := HNone | HThread (h : Z).             (* thread_schedule_hint{} | thread_schedule_hint(int16) *)
Inductive qkind := KN | KH | KL.
Inductive qid := QN (p w : nat) | QH (p i : nat) | QL (p : nat).

Definition qid_eqb (a b : qid) : bool :=
  match a, b with
  | QN p w, QN p' w' => Nat.eqb p p' && Nat.eqb w w'
  | QH p w, QH p' w' => Nat.eqb p p' && Nat.eqb w w'
  | QL p, QL p' => Nat.eqb p p'
  | _, _ => false
  end.
Definition qpool (q : qid) : nat := match q with QN p _ => p | QH p _ => p | QL p => p end.

Definition two64 : Z := 18446744073709551616%Z.
(* std::size_t num_thread = hint (int16 -> size_t); size_t(-1) means "no hint" *)
Definition hint_num (h : hint) : option Z :=
  match h with
  | HNone => None
  | HThread z => let u := (z mod two64)%Z in if (u =? two64 - 1)%Z then None else Some u
  end.
(* (queue index before select_active_pu, new round-robin counter) *)
Definition base_queue (W rr : nat) (h : hint) : nat * nat :=
  match hint_num h with
  | None => (rr mod W, S rr)
  | Some u => (Z.to_nat (u mod Z.of_nat W), rr)
  end.
Definition worker_hint (w : nat) : hint := HThread (Z.of_nat w).
Definition last_hint (l : option nat) : hint :=
  match l with None => HThread (-1) | Some w => worker_hint w end.

Definition qkind_of (c : pool_cfg) (pr : prio) : qkind :=
  if pPrio c then match pr with PNormal => KN | PLow => KL | PHigh | PBoost => KH end else KN.
Definition queue_of (c : pool_cfg) (p : nat) (k : qkind) (n : nat) : qid :=
  match k with KN => QN p n | KH => QH p (n mod pH c) | KL => QL p end.
Definition stored_prio (pr : prio) : prio := match pr with PBoost => PNormal | x => x end.

(* ---------------------------------------------------------------- state *)
Inductive tstate := TPending | TActive | TSuspended | TTerminated.
Record task := {
  tk_pool : nat;             (* thread_data::scheduler_base_ *)
  tk_prio : prio;
  tk_st : tstate;
  tk_last : option nat;      (* last_worker_thread_num_ (None = size_t(-1)) *)
  tk_phase : nat;
  tk_home : nat;             (* ghost: queue index computed from the hint / counter at creation *)
  tk_agent : bool            (* ghost: the coroutine has been invoked at least once (agent_ref may exist) *)
}.

Inductive ctx := CExt | CTask (a : nat).
Inductive event :=
  | ESubmit (a p : nat) (pr : prio) (h : hint) (by_ : nat)
  | EEnq (a : nat) (q : qid) (by_ : nat)
  | EEnter (a ph p w by_ : nat)
  | ECall (lbl : nat) (c : ctx) (by_ : nat)
  | EYieldTo (b by_ : nat)
  | EDivert (a p n0 n by_ : nat)       (* select_active_pu returned n <> n0 *)
  | EWake (b : nat) (l : option nat) (by_ : nat).   (* do_resume / set_active_state read last_worker_thread_num_ of b *)

Record gstate := {
  tasks : list task;
  queues : qid -> list nat;
  rr : nat -> nat;                    (* curr_queue_ per pool *)
  pulock : nat -> nat -> bool;        (* pu_mtxs_[w] of pool p held *)
  glog : list event                   (* newest first *)
}.

Inductive role := RExt | RWorker (p w : nat).
Inductive source := SrcOwnH | SrcOwnN | SrcStealH (v : nat) | SrcStealN (v : nat) | SrcLow.
Inductive action :=
  | ACall (lbl : nat)
  | ASpawn (p : nat) (pr : prio) (h : hint)
  | AYield | ABoost (direct : bool) | ASuspend | AEnd
  | AResume (b : nat) | AYieldTo (b : nat).
Inductive pcs :=
  | Idle
  | Sel (p a : nat) (k : qkind) (n0 off : nat) (fb : bool)    (* inside select_active_pu, before try_lock #off *)
  | Hold (p a : nat) (k : qkind) (n0 n : nat) (locked : bool)  (* PU chosen; next: push + unlock *)
  | Start                                                      (* pending -> active done; next: store last worker, invoke *)
  | Leave (x : action)                                         (* do_yield: last worker stored, next: switch out *)
  | Res (b : nat) (h : hint).                                  (* last worker of b read, next: set_thread_state(b, pending, h) *)
Record local := { lrole : role; pc : pcs; cur : option nat; nxt : option nat }.
Inductive oracle := OPop (s : source) (idx : nat) | OAct (a : action).

(* ---------------------------------------------------------------- primitives *)
Definition log_ev (g : gstate) (e : event) : gstate :=
  {| tasks := tasks g; queues := queues g; rr := rr g; pulock := pulock g; glog := e :: glog g |}.
Definition set_queue (g : gstate) (q : qid) (l : list nat) : gstate :=
  {| tasks := tasks g; queues := fun q' => if qid_eqb q' q then l else queues g q';
     rr := rr g; pulock := pulock g; glog := glog g |}.
Definition set_rr (g : gstate) (p v : nat) : gstate :=
  {| tasks := tasks g; queues := queues g; rr := fun p' => if Nat.eqb p' p then v else rr g p';
     pulock := pulock g; glog := glog g |}.
Definition set_lock (g : gstate) (p w : nat) (b : bool) : gstate :=
  {| tasks := tasks g; queues := queues g; rr := rr g;
     pulock := fun p' w' => if Nat.eqb p' p && Nat.eqb w' w then b else pulock g p' w'; glog := glog g |}.
Fixpoint list_upd {A} (l : list A) (i : nat) (f : A -> A) : list A :=
  match l, i with
  | [], _ => []
  | x :: r, O => f x :: r
  | x :: r, S i' => x :: list_upd r i' f
  end.
Definition upd_task (g : gstate) (a : nat) (f : task -> task) : gstate :=
  {| tasks := list_upd (tasks g) a f; queues := queues g; rr := rr g; pulock := pulock g; glog := glog g |}.
Definition add_task (g : gstate) (tk : task) : gstate :=
  {| tasks := tasks g ++ [tk]; queues := queues g; rr := rr g; pulock := pulock g; glog := glog g |}.
Definition get_task (g : gstate) (a : nat) : option task := nth_error (tasks g) a.

(* only these four change a task; none touches tk_pool / tk_home *)
Definition t_set (st : tstate) (tk : task) : task :=
  {| tk_pool := tk_pool tk; tk_prio := tk_prio tk; tk_st := st; tk_last := tk_last tk;
     tk_phase := tk_phase tk; tk_home := tk_home tk; tk_agent := tk_agent tk |}.
Definition t_store (w : nat) (tk : task) : task :=      (* set_last_worker_thread_num(w) *)
  {| tk_pool := tk_pool tk; tk_prio := tk_prio tk; tk_st := tk_st tk; tk_last := Some w;
     tk_phase := tk_phase tk; tk_home := tk_home tk; tk_agent := tk_agent tk |}.
Definition t_enter (tk : task) : task :=                (* pending -> active (set_state_tagged) *)
  {| tk_pool := tk_pool tk; tk_prio := tk_prio tk; tk_st := TActive; tk_last := tk_last tk;
     tk_phase := S (tk_phase tk); tk_home := tk_home tk; tk_agent := tk_agent tk |}.
Definition t_start (w : nat) (tk : task) : task :=      (* set_last_worker_thread_num(w); coroutine invoked *)
  {| tk_pool := tk_pool tk; tk_prio := tk_prio tk; tk_st := tk_st tk; tk_last := Some w;
     tk_phase := tk_phase tk; tk_home := tk_home tk; tk_agent := true |}.

Fixpoint remove_nth {A} (l : list A) (i : nat) : list A :=
  match l, i with
  | [], _ => []
  | _ :: r, O => r
  | x :: r, S i' => x :: remove_nth r i'
  end.

Definition push (g : gstate) (q : qid) (a t : nat) : gstate :=
  log_ev (set_queue g q (queues g q ++ [a])) (EEnq a q t).

Section WithCfg.
  Variable cfg : nat -> pool_cfg.

  (* the common prefix of create_thread / schedule_thread / schedule_thread_last on the scheduler
     of pool p: compute the queue index, then select_active_pu *)
  Definition begin_enqueue (t : nat) (g : gstate) (p a : nat) (k : qkind) (h : hint) (fb : bool)
    : gstate * pcs :=
    let c := cfg p in
    let '(n0, r') := base_queue (pW c) (rr g p) h in
    let g1 := set_rr g p r' in
    let fb' := match h with HNone => false | HThread _ => fb end in
    if pElastic c then (g1, Sel p a k n0 0 fb')
    else (push g1 (queue_of c p k n0) a t, Idle).

  Definition any_avail (c : pool_cfg) : bool := existsb (pAvail c) (seq 0 (pW c)).

  (* one try_lock of select_active_pu *)
  Definition sel_step (t : nat) (g : gstate) (p a : nat) (k : qkind) (n0 off : nat) (fb : bool)
    : gstate * pcs :=
    let c := cfg p in
    if off <? pW c then
      let n := (n0 + off) mod pW c in
      if negb (pulock g p n) && pAvail c n then (set_lock g p n true, Hold p a k n0 n true)
      else (g, Sel p a k n0 (S off) fb)
    else if fb then (g, Hold p a k n0 n0 false)                 (* tried all once: keep num_thread *)
    else if any_avail c then (g, Sel p a k n0 0 fb)             (* yield_while: try again *)
    else (g, Hold p a k n0 n0 false).                            (* nobody available (see notes) *)

  Definition hold_step (t : nat) (g : gstate) (p a : nat) (k : qkind) (n0 n : nat) (locked : bool)
    : gstate :=
    let g1 := push g (queue_of (cfg p) p k n) a t in
    let g2 := if locked then set_lock g1 p n false else g1 in
    if Nat.eqb n n0 then g2 else log_ev g2 (EDivert a p n0 n t).

  Definition mk_local (r : role) (c : pcs) (cu nx : option nat) : local :=
    {| lrole := r; pc := c; cur := cu; nxt := nx |}.

  (* create_work(scheduler of pool p, priority pr, hint h) by thread t *)
  Definition spawn (t : nat) (g : gstate) (p : nat) (pr : prio) (h : hint) : gstate * pcs :=
    let a := length (tasks g) in
    let c := cfg p in
    let n0 := fst (base_queue (pW c) (rr g p) h) in
    let tk := {| tk_pool := p; tk_prio := stored_prio pr; tk_st := TPending; tk_last := None;
                 tk_phase := 0; tk_home := n0; tk_agent := false |} in
    let g1 := log_ev (add_task g tk) (ESubmit a p pr h t) in
    begin_enqueue t g1 p a (qkind_of c pr) h false.

  (* do_resume / set_active_state, first step: the hint is read from the target
     (thread_schedule_hint{int16(get_last_worker_thread_num())}); possible only for a task whose
     agent exists *)
  Definition resume_read (t : nat) (g : gstate) (b : nat) : gstate * pcs :=
    match get_task g b with
    | None => (g, Idle)
    | Some tk =>
        if tk_agent tk then (log_ev g (EWake b (tk_last tk) t), Res b (last_hint (tk_last tk)))
        else (g, Idle)
    end.

  (* second step: set_thread_state(b, pending, hint h, retry_on_active = true) *)
  Definition resume (t : nat) (g : gstate) (b : nat) (h : hint) : gstate * pcs :=
    match get_task g b with
    | None => (g, Idle)
    | Some tk =>
        match tk_st tk with
        | TSuspended =>
            let g1 := upd_task g b (t_set TPending) in
            begin_enqueue t g1 (tk_pool tk) b (qkind_of (cfg (tk_pool tk)) (tk_prio tk)) h false
        | TActive => spawn t g (tk_pool tk) PNormal HNone     (* "set state for active thread" helper *)
        | _ => (g, Idle)
        end
    end.

  (* scheduling loop on worker (p,w) got handle b (from a queue or next_thrd) *)
  Definition try_enter (t : nat) (g : gstate) (l : local) (p w b : nat) : gstate * local :=
    match get_task g b with
    | None => (g, l)
    | Some tk =>
        match tk_st tk with
        | TPending =>
            (log_ev (upd_task g b t_enter) (EEnter b (S (tk_phase tk)) p w t),
             mk_local (lrole l) Start (Some b) (nxt l))
        | TActive =>                                       (* "rescheduling" branch *)
            let '(g1, c1) := begin_enqueue t g p b (qkind_of (cfg p) (tk_prio tk)) (worker_hint w) true in
            (g1, mk_local (lrole l) c1 None (nxt l))
        | _ => (g, l)
        end
    end.

  Definition pop_queue (c : pool_cfg) (p w : nat) (s : source) : option qid :=
    match s with
    | SrcOwnH => if pPrio c && (w <? pH c) then Some (QH p w) else None
    | SrcOwnN => Some (QN p w)
    | SrcStealH v =>
        if pPrio c && pSteal c && (v <? pH c) && (w <? pH c) && negb (Nat.eqb v w) && (v <? pW c)
        then Some (QH p v) else None
    | SrcStealN v => if pSteal c && negb (Nat.eqb v w) && (v <? pW c) then Some (QN p v) else None
    | SrcLow => if pPrio c then Some (QL p) else None
    end.

  Definition act_task (t : nat) (g : gstate) (l : local) (p w a : nat) (x : action) : gstate * local :=
    let r := lrole l in
    match x with
    | ACall lbl => (log_ev g (ECall lbl (CTask a) t), l)
    | ASpawn p' pr h => let '(g1, c1) := spawn t g p' pr h in (g1, mk_local r c1 (cur l) (nxt l))
    | AYield =>
        let g1 := upd_task g a (t_set TPending) in
        let '(g2, c2) := begin_enqueue t g1 p a KN (worker_hint w) true in
        (g2, mk_local r c2 None (nxt l))
    | ABoost direct =>
        let g1 := upd_task g a (t_set TPending) in
        if direct then (g1, mk_local r Idle None (Some a))
        else let '(g2, c2) := begin_enqueue t g1 p a (qkind_of (cfg p) PBoost) (worker_hint w) true in
             (g2, mk_local r c2 None (nxt l))
    | ASuspend => (upd_task g a (t_set TSuspended), mk_local r Idle None (nxt l))
    | AEnd => (upd_task g a (t_set TTerminated), mk_local r Idle None (nxt l))
    | AResume b => let '(g1, c1) := resume_read t g b in (g1, mk_local r c1 (cur l) (nxt l))
    | AYieldTo b =>       (* this_thread::suspend(pending, nextid): self.yield directly, no do_yield *)
        match get_task g b with
        | None => (g, l)
        | Some tb =>
            if Nat.eqb (tk_pool tb) p then
              let g1 := log_ev (upd_task g a (t_set TPending)) (EYieldTo b t) in
              let '(g2, c2) := begin_enqueue t g1 p a KN (worker_hint w) true in
              (g2, mk_local r c2 None (Some b))
            else
              let '(g1, c1) := begin_enqueue t (log_ev g (EYieldTo b t)) (tk_pool tb) b KN HNone false in
              (g1, mk_local r c1 (cur l) (nxt l))
        end
    end.

  Definition act_ext (t : nat) (g : gstate) (l : local) (x : action) : gstate * local :=
    match x with
    | ACall lbl => (log_ev g (ECall lbl CExt t), l)
    | ASpawn p' pr h => let '(g1, c1) := spawn t g p' pr h in (g1, mk_local (lrole l) c1 (cur l) (nxt l))
    | AResume b => let '(g1, c1) := resume_read t g b in (g1, mk_local (lrole l) c1 (cur l) (nxt l))
    | _ => (g, l)
    end.

  (* the phase ends that go through execution_agent::do_yield (which stores the last worker first) *)
  Definition is_do_yield (x : action) : bool :=
    match x with AYield | ABoost _ | ASuspend => true | _ => false end.

  Definition pl_tstep (o : oracle) (t : nat) (g : gstate) (l : local) : gstate * local :=
    match pc l with
    | Sel p a k n0 off fb =>
        let '(g1, c1) := sel_step t g p a k n0 off fb in (g1, mk_local (lrole l) c1 (cur l) (nxt l))
    | Hold p a k n0 n locked =>
        (hold_step t g p a k n0 n locked, mk_local (lrole l) Idle (cur l) (nxt l))
    | Start =>
        match lrole l, cur l with
        | RWorker p w, Some a => (upd_task g a (t_start w), mk_local (lrole l) Idle (cur l) (nxt l))
        | _, _ => (g, mk_local (lrole l) Idle (cur l) (nxt l))
        end
    | Leave x =>
        match lrole l, cur l with
        | RWorker p w, Some a => act_task t g (mk_local (lrole l) Idle (cur l) (nxt l)) p w a x
        | _, _ => (g, mk_local (lrole l) Idle (cur l) (nxt l))
        end
    | Res b h =>
        let '(g1, c1) := resume t g b h in (g1, mk_local (lrole l) c1 (cur l) (nxt l))
    | Idle =>
        match lrole l with
        | RExt => match o with OAct x => act_ext t g l x | OPop _ _ => (g, l) end
        | RWorker p w =>
            match cur l with
            | Some a =>
                match o with
                | OAct x =>
                    if is_do_yield x
                    then (upd_task g a (t_store w), mk_local (lrole l) (Leave x) (cur l) (nxt l))
                    else act_task t g l p w a x
                | OPop _ _ => (g, l)
                end
            | None =>
                match nxt l with
                | Some b => try_enter t g (mk_local (lrole l) Idle None None) p w b
                | None =>
                    match o with
                    | OPop s idx =>
                        match pop_queue (cfg p) p w s with
                        | None => (g, l)
                        | Some q =>
                            match nth_error (queues g q) idx with
                            | None => (g, l)
                            | Some b => try_enter t (set_queue g q (remove_nth (queues g q) idx)) l p w b
                            end
                        end
                    | OAct _ => (g, l)
                    end
                end
            end
        end
    end.

  Definition pl_run (sched : list (nat * oracle)) (c : gstate * (nat -> local)) := run pl_tstep sched c.
End WithCfg.

Definition g_init : gstate :=
  {| tasks := []; queues := fun _ => []; rr := fun _ => 0; pulock := fun _ _ => false; glog := [] |}.
Definition l_init (roles : nat -> role) : nat -> local :=
  fun t => {| lrole := roles t; pc := Idle; cur := None; nxt := None |}.

(* ---------------------------------------------------------------- for the acceptor (driver) *)
Fixpoint index_of (a : nat) (l : list nat) (i : nat) : option nat :=
  match l with [] => None | x :: r => if Nat.eqb x a then Some i else index_of a r (S i) end.
(* the sources worker (p,w) may legally pop from, in the order of get_next_thread *)
Definition sources (c : pool_cfg) : list source :=
  SrcOwnH :: SrcOwnN :: map SrcStealH (seq 0 (pW c)) ++ map SrcStealN (seq 0 (pW c)) ++ [SrcLow].
Fixpoint find_in (cfg : nat -> pool_cfg) (g : gstate) (p w a : nat) (ss : list source) : option (source * nat) :=
  match ss with
  | [] => None
  | s :: r =>
      match pop_queue (cfg p) p w s with
      | Some q => match index_of a (queues g q) 0 with Some i => Some (s, i) | None => find_in cfg g p w a r end
      | None => find_in cfg g p w a r
      end
  end.
Definition find_handle (cfg : nat -> pool_cfg) (g : gstate) (p w a : nat) : option (source * nat) :=
  find_in cfg g p w a (sources (cfg p)).
(* where the handles of a are (for diagnostics) *)
Definition where_is (cfg : nat -> pool_cfg) (g : gstate) (p a : nat) : list qid :=
  filter (fun q => existsb (Nat.eqb a) (queues g q))
         (map (QN p) (seq 0 (pW (cfg p))) ++ map (QH p) (seq 0 (pH (cfg p))) ++ [QL p]).
