(* Model/ErasedSteps.v — C18: the statement order of the special members of function_base / basic_function, the
   vtable leaves and movable_/copyable_sbo_storage AS THE MODEL (Model/Erased.v) WAS TRANSCRIBED FROM THEM.
   Hand-written; Proofs/ErasedStepsProofs.v proves every list equal to the one tools/genmods/c18.py regenerates
   from the current source (Gen/GenErasedSteps.v) by reflexivity: reordering, adding or dropping a statement in
   one of these members breaks that proof (and names the member) until the model has been re-read against the
   new order.  Definitions only. *)
From Coq Require Import List.
From Pika Require Import Gen.GenErasedSteps.
Import ListNotations.

(* f_copy_ctor / f_clone: the pointer members are copied first, the contained object is copied into the own storage afterwards *)
Definition m_fb_copy_ctor : prog := [Do FInitVptrFromOther; Do FInitObjectFromOther; If COtherObjectNonNull [Do FCopyIntoOwnStorage] []].
(* f_move_ctor: take vptr / object, relocate the inline buffer bitwise, THEN empty the source *)
Definition m_fb_move_ctor : prog := [Do FInitVptrFromOther; Do FInitObjectFromOther; If CObjectIsOtherBuffer [Do FMemcpyBuffer; Do FObjectToOwnBuffer] []; Do FOtherVptrEmpty; Do FOtherObjectNull].
(* destroy_all / release *)
Definition m_fb_dtor : prog := [Do FDestroy].
(* f_copy_assign: same vptr -> copy into the existing object (destroy = true); else destroy(), take the vptr, copy into the own storage; f_copy_assign_throw: nothing is reset after the copy *)
Definition m_fb_op_assign_copy : prog := [If CVptrEqOther [If CNotSelfAndObject [Do FAssert; Do FCopyReuseObject] []] [Do FDestroy; Do FVptrFromOther; If COtherObjectNonNull [Do FCopyIntoOwnStorage] [Do FObjectNull]]].
(* f_move_assign: swap, then reset the source (which now holds the old content) *)
Definition m_fb_op_assign_move : prog := [If CNotSelf [Do FSwapWithOther; Do FOtherReset] []].
(* release (function family): deallocate with destroy = true iff an object is held *)
Definition m_fb_destroy : prog := [If CObjectNonNull [Do FDeallocateDestroy] []].
(* f_reset: destroy, then empty vtable, then null object *)
Definition m_fb_reset : prog := [Do FDestroy; Do FVptrEmpty; Do FObjectNull].
(* f_swap: three member swaps, then the two pointer fix-ups *)
Definition m_fb_swap : prog := [Do FSwapVptr; Do FSwapObject; Do FSwapBuffer; If CObjectIsOtherBuffer [Do FObjectToOwnBuffer] []; If COtherObjectIsOwnBuffer [Do FOtherObjectToItsBuffer] []].
Definition m_bf_default_ctor : prog := [Do BBaseEmptyCtor].
Definition m_bf_copy_ctor : prog := [Do BBaseCopyCtor].
Definition m_bf_move_ctor : prog := [Do BBaseMoveCtor].
Definition m_bf_copy_assign : prog := [Do BOpAssignCopy; Do BReturnThis].
Definition m_bf_move_assign : prog := [Do BOpAssignMove; Do BReturnThis].
Definition m_bf_assign_null : prog := [Do BReset].
(* f_assign / f_store_throw: same vptr -> ~T() in place and reuse; else destroy(), vptr = T's vtable, allocate; THEN construct, THEN publish object (nothing between allocate and construct frees the buffer) *)
Definition m_bf_assign : prog := [If CArgNonEmpty [Do BGetVtable; Do BBufferNull; If CVptrEqArg [Do FAssert; Do BBufferIsObject; Do BDestroyInPlace] [Do FDestroy; Do BVptrFromArg; Do BAllocate]; Do BConstruct] [Do BReset]].
Definition m_bf_reset : prog := [Do BReset].
(* fn_place: heap block iff sizeof(T) > storage size; nothing else is looked at *)
Definition m_vt_allocate : prog := [If CSizeGtStorage [Do VNewBlock] []; Do VReturnStorage].
(* release: destructor, then delete iff sizeof(T) > storage size *)
Definition m_vt_deallocate : prog := [If CDestroyFlag [Do VDestroyT] []; If CSizeGtStorage [Do VDeleteBlock] []].
(* f_clone1 / f_copy_assign: optional in-place destroy, allocate, copy-construct *)
Definition m_vt_copy : prog := [If CDestroyFlag [Do VDestroyT] []; Do VAllocate; Do VConstructCopy].
(* release (sender family) *)
Definition m_ss_release (sbo : bool) : prog :=
  if sbo then [Do SAssert; If CUsingEmbedded [Do SDestroyEmbedded] [Do SDeleteHeap; Do SHeapNull]; Do SResetVtable]
  else [Do SAssert; Do SDeleteHeap; Do SHeapNull; Do SResetVtable].
(* s_move_assign: embedded: move_into, publish, destroy the moved-from object (fix of F9); heap: pointer steal; then other.reset_vtable() *)
Definition m_ss_move_assign (sbo : bool) : prog :=
  if sbo then [Do SAssert; Do SAssert; If COtherNonEmpty [If COtherUsingEmbedded [Do SPointerToOwnBuffer; Do SMoveInto; Do SObjectIsP; Do SDestroyOtherEmbedded] [Do SStealHeap; Do SOtherHeapNull; Do SObjectIsHeap]; Do SOtherResetVtable] []]
  else [Do SAssert; Do SAssert; If COtherNonEmpty [Do SStealHeap; Do SOtherHeapNull; Do SObjectIsHeap; Do SOtherResetVtable] []].
(* s_move_assign (second overload, identical body) *)
Definition m_ss_move_assign_from_copyable (sbo : bool) : prog :=
  if sbo then [Do SAssert; Do SAssert; If COtherNonEmpty [If COtherUsingEmbedded [Do SPointerToOwnBuffer; Do SMoveInto; Do SObjectIsP; Do SDestroyOtherEmbedded] [Do SStealHeap; Do SOtherHeapNull; Do SObjectIsHeap]; Do SOtherResetVtable] []]
  else [Do SAssert; Do SAssert; If COtherNonEmpty [Do SStealHeap; Do SOtherHeapNull; Do SObjectIsHeap; Do SOtherResetVtable] []].
Definition m_ss_dtor (sbo : bool) : prog :=
  if sbo then [If CNonEmpty [Do SRelease] []]
  else [If CNonEmpty [Do SRelease] []].
Definition m_ss_move_ctor (sbo : bool) : prog :=
  if sbo then [Do SMoveAssign]
  else [Do SMoveAssign].
Definition m_ss_move_ctor_from_copyable (sbo : bool) : prog :=
  if sbo then [Do SMoveAssign]
  else [Do SMoveAssign].
(* w_move: self check, release, move_assign *)
Definition m_ss_move_op_assign (sbo : bool) : prog :=
  if sbo then [If CNotSelfS [If CNonEmpty [Do SRelease] []; Do SMoveAssign] []; Do SReturnThis]
  else [If CNotSelfS [If CNonEmpty [Do SRelease] []; Do SMoveAssign] []; Do SReturnThis].
Definition m_ss_move_op_assign_from_copyable (sbo : bool) : prog :=
  if sbo then [If CNotSelfS [If CNonEmpty [Do SRelease] []; Do SMoveAssign] []; Do SReturnThis]
  else [If CNotSelfS [If CNonEmpty [Do SRelease] []; Do SMoveAssign] []; Do SReturnThis].
(* s_store / w_store_throw: release first, construct, publish object last *)
Definition m_ss_store (sbo : bool) : prog :=
  if sbo then [If CNonEmpty [Do SRelease] []; If CCanEmbed [Do SPointerToOwnBuffer; Do SConstructEmbedded; Do SObjectIsP] [Do SNewHeap; Do SObjectIsHeap]]
  else [If CNonEmpty [Do SRelease] []; Do SNewHeap; Do SObjectIsHeap].
Definition m_ss_reset (sbo : bool) : prog :=
  if sbo then [If CNonEmpty [Do SRelease] []]
  else [If CNonEmpty [Do SRelease] []].
(* s_copy1: clone_into / clone, publish object last *)
Definition m_cs_copy_assign (sbo : bool) : prog :=
  if sbo then [Do SAssert; Do SAssert; If COtherNonEmpty [If COtherUsingEmbedded [Do SPointerToOwnBuffer; Do SCloneInto; Do SObjectIsP] [Do SCloneHeap; Do SObjectIsHeap]] []]
  else [Do SAssert; Do SAssert; If COtherNonEmpty [Do SCloneHeap; Do SObjectIsHeap] []].
Definition m_cs_copy_ctor (sbo : bool) : prog :=
  if sbo then [Do SBaseDefaultCtor; Do SCopyAssign]
  else [Do SBaseDefaultCtor; Do SCopyAssign].
(* w_copy: self check, release, copy_assign *)
Definition m_cs_copy_op_assign (sbo : bool) : prog :=
  if sbo then [If CNotSelfS [If CNonEmpty [Do SRelease] []; Do SCopyAssign] []; Do SReturnThis]
  else [If CNotSelfS [If CNonEmpty [Do SRelease] []; Do SCopyAssign] []; Do SReturnThis].
