(* Model/Bulk.v — bulk on a thread_pool_scheduler
   (libs/pika/executors/include/pika/executors/thread_pool_scheduler_bulk.hpp, after the
   `fix:` commit that made the chunk arithmetic 64-bit) and the generic fallback loop
   (libs/pika/execution/include/pika/execution/algorithms/bulk.hpp).
   Executable definitions only; proofs live in Proofs/BulkProofs.v.

   Part 1: the pure arithmetic with the integer widths of the source
           (`wrap b x` = conversion to an unsigned b-bit type; Shape has `bits` bits).
   Part 2: the concurrent program: set_value (n==0 path, init, spawn loop with the inline
           finish for empty queues), task_function::operator() (drain the own queue from the
           left, steal from the neighbours from the right — over Model/IndexQueue.v's
           [iq_tstep]), do_work_chunk (one step to enter f(i), one to leave it),
           store_exception (exchange, then the non-atomic store), finish (decrement, signal).
   Part 3: the generic (non-pool) bulk loop. *)
From Coq Require Import List NArith Bool Arith.
From Pika Require Import Base.Conc Model.IndexQueue.
Import ListNotations.
Local Open Scope N_scope.

(* ------------------------------------------------------------------ Part 1: arithmetic *)
Definition wrap (bits x : N) : N := x mod 2 ^ bits.
Definition u32 := wrap 32.
Definition u64 := wrap 64.

(* get_chunk_size(std::uint32_t num_threads, Shape n) -> std::uint64_t
     n64 = uint64(n); max_chunks = uint64(num_threads) * 8;
     min_chunk_size = n64 / max_chunks + (n64 % max_chunks != 0 ? 1 : 0);
     chunk_size = 1; while (chunk_size < min_chunk_size) chunk_size *= 2;
   (max_chunks = 0, i.e. no worker thread, is a division by zero in C++; every theorem
   assumes W > 0.)  The loop is run with fuel; [None] = it did not stop within 65 rounds. *)
Definition min_chunk_size (w n : N) : N :=
  let n64 := u64 n in
  let mc := u64 (u32 w * 8) in
  u64 (n64 / mc + (if n64 mod mc =? 0 then 0 else 1)).

Fixpoint chunk_loop (fuel : nat) (c target : N) : option N :=
  match fuel with
  | O => None
  | S f => if c <? target then chunk_loop f (u64 (c * 2)) target else Some c
  end.

Definition get_chunk_size (w n : N) : option N := chunk_loop 65 1 (min_chunk_size w n).

(* get_num_chunks(Shape n, std::uint64_t chunk_size) -> std::uint32_t *)
Definition get_num_chunks (n c : N) : N :=
  let n64 := u64 n in u32 (u64 (n64 / c + (if n64 mod c =? 0 then 0 else 1))).

(* init_queue(std::uint32_t worker_thread, std::uint32_t num_chunks); W = num_worker_threads (size_t) *)
Definition part_begin (W w k : N) : N := u32 (u64 (u64 (u32 w) * u32 k) / W).
Definition part_end (W w k : N) : N := u32 (u64 ((u64 (u32 w) + 1) * u32 k) / W).

(* do_work_chunk(ts, std::uint32_t index), Shape = unsigned/signed `bits`-bit integer:
     i_begin = Shape(index * chunk_size);                        (64-bit product, then narrowed)
     i_end   = Shape(i_begin + min(Shape(chunk_size), Shape(n - i_begin)));
   (for signed Shape the model coincides with C++ as long as no value reaches 2^(bits-1);
   Proofs/BulkProofs.v shows every intermediate value is <= n.) *)
Definition chunk_begin (bits c idx : N) : N := wrap bits (u64 (u32 idx * c)).
Definition chunk_end (bits c n idx : N) : N :=
  let b := chunk_begin bits c idx in
  wrap bits (b + N.min (wrap bits c) (wrap bits (n + 2 ^ bits - b))).

(* everything the DIFF harness compares, in one record *)
Record arith_out := {
  ao_chunk : option N;                 (* chunk size, None = loop does not terminate *)
  ao_nchunks : N;
  ao_parts : list (N * N);             (* per worker (part_begin, part_end) *)
  ao_chunks : list (N * (N * N))       (* for the requested chunk indices: (index, (i_begin, i_end)) *)
}.

Definition arith (bits W n : N) (idxs : list N) : arith_out :=
  match get_chunk_size W n with
  | None => {| ao_chunk := None; ao_nchunks := 0; ao_parts := []; ao_chunks := [] |}
  | Some c =>
      let k := get_num_chunks n c in
      {| ao_chunk := Some c; ao_nchunks := k;
         ao_parts := map (fun w => let w := N.of_nat w in (part_begin W w k, part_end W w k)) (seq 0 (N.to_nat W));
         ao_chunks := map (fun i => (i, (chunk_begin bits c i, chunk_end bits c n i))) idxs |}
  end.

(* ------------------------------------------------------------------ Part 2: the pool program *)
Record cfg := {
  cW : nat;              (* num_worker_threads of the pool *)
  cn : N;                (* shape *)
  cbits : N;             (* width of Shape *)
  clocal : nat;          (* worker on which the predecessor completed (get_local_worker_thread_num) *)
  cthrows : N -> bool;   (* f(i) throws *)
  cvals : N              (* the predecessor's values (opaque token) *)
}.

Inductive signal := SValue (v : N) | SError (x : option N) | SBad.
(* a receiver completion with a ghost snapshot: how many calls of f had been entered / left *)
Record sig_ev := { sg : signal; sg_calls : nat; sg_exits : nat }.

Record bshared := {
  queues : nat -> iq_shared;     (* op_state->queues[w] (+ ghost pop log of IndexQueue.v) *)
  spawned : nat -> bool;         (* a task for worker w has been registered with the pool *)
  remaining : N;                 (* std::atomic<std::size_t> tasks_remaining *)
  exc_flag : bool;               (* std::atomic<bool> exception_thrown *)
  exc : option N;                (* std::optional<std::exception_ptr> exception: index whose call threw *)
  ts : option N;                 (* the stored values (monostate before set_value) *)
  csz : N;                       (* chunk_size handed to every task_function *)
  (* ghost *)
  calls : list (N * option N);   (* (i, values seen) for every entry of f, newest first *)
  exits : list N;                (* indices whose call has returned or thrown *)
  thrown : list N;               (* indices whose call threw *)
  fin : list nat;                (* workers on whose behalf finish() has decremented *)
  sigs : list sig_ev             (* completions of the receiver *)
}.

Inductive cont := KSpawn (w : nat) | KEnd.

Inductive bpc :=
| BIdle                                 (* task not started (or no task) *)
| BEntry                                (* bulk_receiver::set_value entered *)
| BSpawn (w : nat)                      (* spawn loop, worker_thread = w *)
| BPop (off : nat) (p : iq_pc)          (* popping queues[(worker_thread+off) % W]: left if off = 0 else right *)
| BRun (off : nat) (idx i e : N)        (* do_work_chunk(idx): loop head, next index i, end e *)
| BCall (off : nat) (idx i e : N)       (* inside f(i) *)
| BExch (x : N)                         (* store_exception: exception_thrown.exchange(true) *)
| BStore (x : N)                        (* store_exception: exception = current_exception() *)
| BDec (k : cont)                       (* finish: --tasks_remaining *)
| BSig (k : cont)                       (* finish: counter hit 0: load exception_thrown, signal *)
| BDone.

Definition after (k : cont) : bpc := match k with KSpawn w => BSpawn (S w) | KEnd => BDone end.
Definition side_of (off : nat) : side := match off with O => SL | _ => SR end.

(* one pop attempt step on queue state [qs], reusing the index-queue step function:
   inl pc' = still in the load/CAS loop, inr r = the pop returned r *)
Definition pop_step (o : bool) (t : nat) (qs : iq_shared) (s : side) (p : iq_pc)
  : iq_shared * (iq_pc + option N) :=
  let '(qs', l') := iq_tstep o t qs {| todo := [s]; pc := p |} in
  match todo l', iqlog qs' with
  | [], e :: _ => (qs', inr (ev_res e))
  | _, _ => (qs', inl (pc l'))
  end.

Definition set_queue (g : bshared) (q : nat) (qs : iq_shared) : bshared :=
  {| queues := fun q' => if Nat.eqb q' q then qs else queues g q';
     spawned := spawned g; remaining := remaining g; exc_flag := exc_flag g; exc := exc g;
     ts := ts g; csz := csz g; calls := calls g; exits := exits g; thrown := thrown g;
     fin := fin g; sigs := sigs g |}.

Definition the_signal (g : bshared) : signal :=
  if exc_flag g then SError (exc g)
  else match ts g with Some v => SValue v | None => SBad end.

Definition bstep (cf : cfg) (o : bool) (t : nat) (g : bshared) (l : bpc) : bshared * bpc :=
  let W := cW cf in
  let Wn := N.of_nat W in
  match l with
  | BIdle => if spawned g t then (g, BPop 0 Idle) else (g, BIdle)
  | BEntry =>
      if cn cf =? 0 then
        (* no work: forward the values at once *)
        ({| queues := queues g; spawned := spawned g; remaining := remaining g; exc_flag := exc_flag g;
            exc := exc g; ts := ts g; csz := csz g; calls := calls g; exits := exits g;
            thrown := thrown g; fin := fin g;
            sigs := {| sg := SValue (cvals cf); sg_calls := length (calls g); sg_exits := length (exits g) |}
                    :: sigs g |}, BDone)
      else
        match get_chunk_size Wn (cn cf) with
        | None => (g, BEntry)                (* the chunk-size loop never returns *)
        | Some c =>
            let k := get_num_chunks (cn cf) c in
            ({| queues := fun q => if (q <? W)%nat
                                   then iq_init (part_begin Wn (N.of_nat q) k) (part_end Wn (N.of_nat q) k)
                                   else queues g q;
                spawned := spawned g; remaining := remaining g; exc_flag := exc_flag g; exc := exc g;
                ts := Some (cvals cf); csz := c; calls := calls g; exits := exits g;
                thrown := thrown g; fin := fin g; sigs := sigs g |}, BSpawn 0)
        end
  | BSpawn w =>
      if (W <=? w)%nat then (g, BPop 0 Idle)                (* do_work_local *)
      else if Nat.eqb w (clocal cf) then (g, BSpawn (S w))
      else if range_empty (cur (queues g w)) then (g, BDec (KSpawn w))   (* queue.empty(): finish inline *)
      else ({| queues := queues g; spawned := fun w' => if Nat.eqb w' w then true else spawned g w';
               remaining := remaining g; exc_flag := exc_flag g; exc := exc g; ts := ts g; csz := csz g;
               calls := calls g; exits := exits g; thrown := thrown g; fin := fin g; sigs := sigs g |},
            BSpawn (S w))
  | BPop off p =>
      let q := ((t + off) mod W)%nat in
      let '(qs', r) := pop_step o t (queues g q) (side_of off) p in
      let g' := set_queue g q qs' in
      match r with
      | inl p' => (g', BPop off p')
      | inr (Some idx) => (g', BRun off idx (chunk_begin (cbits cf) (csz g) idx)
                                            (chunk_end (cbits cf) (csz g) (cn cf) idx))
      | inr None => (g', if (S off <? W)%nat then BPop (S off) Idle else BDec KEnd)
      end
  | BRun off idx i e =>
      if i <? e then
        ({| queues := queues g; spawned := spawned g; remaining := remaining g; exc_flag := exc_flag g;
            exc := exc g; ts := ts g; csz := csz g; calls := (i, ts g) :: calls g; exits := exits g;
            thrown := thrown g; fin := fin g; sigs := sigs g |}, BCall off idx i e)
      else (g, BPop off Idle)
  | BCall off idx i e =>
      let thr := cthrows cf i in
      ({| queues := queues g; spawned := spawned g; remaining := remaining g; exc_flag := exc_flag g;
          exc := exc g; ts := ts g; csz := csz g; calls := calls g; exits := i :: exits g;
          thrown := if thr then i :: thrown g else thrown g; fin := fin g; sigs := sigs g |},
       if thr then BExch i else BRun off idx (wrap (cbits cf) (i + 1)) e)
  | BExch x =>
      ({| queues := queues g; spawned := spawned g; remaining := remaining g; exc_flag := true;
          exc := exc g; ts := ts g; csz := csz g; calls := calls g; exits := exits g;
          thrown := thrown g; fin := fin g; sigs := sigs g |},
       if exc_flag g then BDec KEnd else BStore x)
  | BStore x =>
      ({| queues := queues g; spawned := spawned g; remaining := remaining g; exc_flag := exc_flag g;
          exc := Some x; ts := ts g; csz := csz g; calls := calls g; exits := exits g;
          thrown := thrown g; fin := fin g; sigs := sigs g |}, BDec KEnd)
  | BDec k =>
      let r := u64 (remaining g + 2 ^ 64 - 1) in
      ({| queues := queues g; spawned := spawned g; remaining := r; exc_flag := exc_flag g;
          exc := exc g; ts := ts g; csz := csz g; calls := calls g; exits := exits g;
          thrown := thrown g; fin := (match k with KSpawn w => w | KEnd => t end) :: fin g;
          sigs := sigs g |},
       if r =? 0 then BSig k else after k)
  | BSig k =>
      ({| queues := queues g; spawned := spawned g; remaining := remaining g; exc_flag := exc_flag g;
          exc := exc g; ts := ts g; csz := csz g; calls := calls g; exits := exits g;
          thrown := thrown g; fin := fin g;
          sigs := {| sg := the_signal g; sg_calls := length (calls g); sg_exits := length (exits g) |}
                  :: sigs g |}, after k)
  | BDone => (g, BDone)
  end.

Definition binit_shared (cf : cfg) : bshared :=
  {| queues := fun _ => iq_init 0 0; spawned := fun _ => false; remaining := u64 (N.of_nat (cW cf));
     exc_flag := false; exc := None; ts := None; csz := 0; calls := []; exits := []; thrown := [];
     fin := []; sigs := [] |}.
Definition binit_locals (cf : cfg) : nat -> bpc :=
  fun t => if Nat.eqb t (clocal cf) then BEntry else BIdle.
Definition binit (cf : cfg) : bshared * (nat -> bpc) := (binit_shared cf, binit_locals cf).

Definition brun (cf : cfg) (sched : list (nat * bool)) : bshared * (nat -> bpc) :=
  run (bstep cf) sched (binit cf).

Definition called (g : bshared) (i : N) : Prop := In i (map fst (calls g)).

(* a thread that will never take another effective step: its task finished, or no task was
   ever registered for it *)
Definition terminal (g : bshared) (t : nat) (l : bpc) : Prop :=
  match l with BDone => True | BIdle => spawned g t = false | _ => False end.

(* ---- replay of lock-step executions of the real task_function (harness/c11_lock.cpp) ----
   [bsite]: the park point at which the real thread waits before the step (0 = the step touches
   no shared state and has no park point: it is executed together with the preceding step).
     1 queue LOAD (1701)   2 queue CAS (1702)   3 entry of f   4 exit of f   5 finish (1105)
     6 store_exception exchange (1106)   7 store_exception store (1107)
     9 spawn loop: queue.empty() of the next worker   10 start of a spawned task   11 set_value entry *)
Definition bsite (cf : cfg) (g : bshared) (t : nat) (l : bpc) : nat :=
  match l with
  | BIdle => if spawned g t then 10%nat else 0%nat
  | BEntry => 11%nat
  | BSpawn w => if (w <? cW cf)%nat && negb (Nat.eqb w (clocal cf)) then 9%nat else 0%nat
  | BPop _ Idle => 1%nat
  | BPop _ (Loaded _ _) => 2%nat
  | BRun _ _ i e => if i <? e then 3%nat else 0%nat
  | BCall _ _ _ _ => 4%nat
  | BDec _ => 5%nat
  | BExch _ => 6%nat
  | BStore _ => 7%nat
  | BSig _ => 0%nat
  | BDone => 0%nat
  end.
Definition bfinal (l : bpc) : bool := match l with BDone | BIdle => true | _ => false end.

Fixpoint settle (cf : cfg) (fuel : nat) (t : nat) (c : bshared * (nat -> bpc)) : bshared * (nat -> bpc) :=
  match fuel with
  | O => c
  | S f => let l := snd c t in
           if Nat.eqb (bsite cf (fst c) t l) 0 && negb (bfinal l)
           then settle cf f t (step (bstep cf) c (t, false)) else c
  end.
Definition lock_step (cf : cfg) (c : bshared * (nat -> bpc)) (t : nat) : bshared * (nat -> bpc) :=
  settle cf 8 t (step (bstep cf) c (t, false)).
Fixpoint lock_trace (cf : cfg) (sched : list nat) (c : bshared * (nat -> bpc)) (acc : list nat)
  : list nat * (bshared * (nat -> bpc)) :=
  match sched with
  | [] => (rev acc, c)
  | t :: r => lock_trace cf r (lock_step cf c t) (bsite cf (fst c) t (snd c t) :: acc)
  end.

(* model-derived acceptor for end-to-end runs (schedule not controlled): the part of chunk idx
   that a worker calls: from i_begin up to and including the first throwing index *)
Fixpoint chunk_calls (throws : N -> bool) (i : N) (fuel : nat) (acc : N) : N * bool :=
  match fuel with
  | O => (acc, false)
  | S f => if throws i then (acc + 1, true) else chunk_calls throws (i + 1) f (acc + 1)
  end.

(* ------------------------------------------------------------------ Part 3: generic bulk *)
(* bulk_receiver::set_value of bulk.hpp: for (s : shape) f(s, ts...); set_value(ts...) — any
   exception goes to set_error.  Returns the calls made (oldest first) and the completion. *)
Fixpoint gen_loop (throws : N -> bool) (i : N) (fuel : nat) (acc : list N) : list N * option N :=
  match fuel with
  | O => (rev acc, None)
  | S f => if throws i then (rev (i :: acc), Some i) else gen_loop throws (i + 1) f (i :: acc)
  end.
Definition gen_bulk (throws : N -> bool) (n v : N) : list N * signal :=
  match gen_loop throws 0 (N.to_nat n) [] with
  | (cs, None) => (cs, SValue v)
  | (cs, Some x) => (cs, SError (Some x))
  end.
