(* Model/ErasedBlocks.v — C18: the allocation ledger of the type-erased wrappers (a layer over Model/Erased.v).
   Executable definitions only.

   Heap blocks are anonymous: the ghost ledger is the multiset {allocated} \ {freed}, kept as two counters.
   A storage OWNS blocks: Heap o one (the block the object lives in), Nested s one (the block the inner wrapper
   lives in) plus what the inner wrapper owns, Inline o and Empty none.

   The allocation-relevant code of the function family is not transcribed by hand: the leaf routines
   vtable::allocate<T>, vtable::_deallocate<T>, copyable_vtable::_copy<T> and the body of
   basic_function::assign(F&&) are INTERPRETED from the step lists that tools/genmods/c18.py regenerates from the
   source (Gen/GenErasedSteps.v): an `if` on sizeof(T) > storage_size, `new aligned_storage_helper<T>`, `delete`,
   the constructor call (which may throw: the rest of the list is skipped, nothing on the way out frees a block
   because the lists contain no handler).  Every wrapper operation then charges the ledger with what these
   interpreted routines do on its path. *)
From Coq Require Import List Bool Arith ZArith NArith.
From Pika Require Import Gen.GenErased Gen.GenErasedSteps Model.Erased.
Import ListNotations.

(* ------------------------------------------------------------------ ownership *)
Fixpoint blocks (s : storage) : nat :=
  match s with Empty => 0 | Inline _ => 0 | Heap _ => 1 | Nested s => S (blocks s) end.
Definition owned (l : list storage) : nat := list_sum (map blocks l).

Record bledger := { b_alloc : nat; b_free : nat }.
Definition b0 : bledger := {| b_alloc := 0; b_free := 0 |}.
Definition charge (af : nat * nat) (b : bledger) : bledger :=
  {| b_alloc := b_alloc b + fst af; b_free := b_free b + snd af |}.
Definition live (b : bledger) : nat := b_alloc b - b_free b.

(* ------------------------------------------------------------------ interpreter of the generated step lists *)
Record venv := {
  e_big : bool;          (* sizeof(T) > storage_size at this call (false when the caller passes size_t(-1)) *)
  e_destroy : bool;      (* the `destroy` argument *)
  e_throw : bool;        (* T's constructor throws *)
  e_vptr_eq : bool;      (* vptr == f_vptr *)
  e_arg_nonempty : bool  (* !is_empty_function(f) *)
}.
Record vst := {
  v_alloc : nat;         (* new aligned_storage_helper<T> *)
  v_free : nat;          (* delete static_cast<aligned_storage_helper<T>*>(obj) *)
  v_dtor : nat;          (* ~T() *)
  v_destroys : nat;      (* calls of function_base::destroy() / reset() on *this *)
  v_ctor : nat;          (* completed constructor calls of T *)
  v_threw : bool;
  v_ret : bool
}.
Definition v0 : vst :=
  {| v_alloc := 0; v_free := 0; v_dtor := 0; v_destroys := 0; v_ctor := 0; v_threw := false; v_ret := false |}.
Definition set_ret (r : bool) (v : vst) : vst :=
  {| v_alloc := v_alloc v; v_free := v_free v; v_dtor := v_dtor v; v_destroys := v_destroys v; v_ctor := v_ctor v;
     v_threw := v_threw v; v_ret := r |}.

Definition vcond (e : venv) (c : cond) : bool :=
  match c with
  | CSizeGtStorage => e_big e
  | CDestroyFlag => e_destroy e
  | CVptrEqArg => e_vptr_eq e
  | CArgNonEmpty => e_arg_nonempty e
  | _ => false
  end.

Section Exec.
  Variable h : venv -> prim -> vst -> vst.
  Fixpoint xstmt (e : venv) (s : stmt) (v : vst) : vst :=
    if v_threw v || v_ret v then v
    else match s with
         | Do p => h e p v
         | If c th el => fold_left (fun v s => xstmt e s v) (if vcond e c then th else el) v
         end.
  Definition xrun (e : venv) (p : prog) (v : vst) : vst := fold_left (fun v s => xstmt e s v) p v.
End Exec.

(* level 0: the statements of vtable::allocate / _deallocate *)
Definition h0 (e : venv) (p : prim) (v : vst) : vst :=
  match p with
  | VNewBlock => set_ret true {| v_alloc := S (v_alloc v); v_free := v_free v; v_dtor := v_dtor v; v_destroys := v_destroys v;
                                 v_ctor := v_ctor v; v_threw := v_threw v; v_ret := v_ret v |}
  | VReturnStorage => set_ret true v
  | VDeleteBlock => {| v_alloc := v_alloc v; v_free := S (v_free v); v_dtor := v_dtor v; v_destroys := v_destroys v;
                       v_ctor := v_ctor v; v_threw := v_threw v; v_ret := v_ret v |}
  | VDestroyT | BDestroyInPlace =>
                   {| v_alloc := v_alloc v; v_free := v_free v; v_dtor := S (v_dtor v); v_destroys := v_destroys v;
                      v_ctor := v_ctor v; v_threw := v_threw v; v_ret := v_ret v |}
  | _ => v
  end.
Definition construct (e : venv) (v : vst) : vst :=
  {| v_alloc := v_alloc v; v_free := v_free v; v_dtor := v_dtor v; v_destroys := v_destroys v;
     v_ctor := if e_throw e then v_ctor v else S (v_ctor v); v_threw := e_throw e; v_ret := v_ret v |}.
(* level 1: copyable_vtable::_copy calls allocate, then constructs *)
Definition h1 (e : venv) (p : prim) (v : vst) : vst :=
  match p with
  | VAllocate | BAllocate => set_ret false (xrun h0 e vt_allocate v)
  | VConstructCopy => set_ret true (construct e v)
  | BConstruct => construct e v
  | FDestroy | BReset =>
      {| v_alloc := v_alloc v; v_free := v_free v; v_dtor := v_dtor v; v_destroys := S (v_destroys v);
         v_ctor := v_ctor v; v_threw := v_threw v; v_ret := v_ret v |}
  | _ => h0 e p v
  end.

Definition env (big destroy throw vptr_eq nonempty : bool) : venv :=
  {| e_big := big; e_destroy := destroy; e_throw := throw; e_vptr_eq := vptr_eq; e_arg_nonempty := nonempty |}.

(* vtable::allocate<T>(storage, function_storage_size) *)
Definition run_allocate (big : bool) : vst := xrun h0 (env big false false false false) vt_allocate v0.
(* vptr->deallocate(object, function_storage_size, true) *)
Definition run_deallocate (big : bool) : vst := xrun h0 (env big true false false false) vt_deallocate v0.
(* vptr->copy(storage, function_storage_size, src, false)  /  vptr->copy(object, size_t(-1), src, true) *)
Definition run_copy (big reuse throw : bool) : vst := xrun h1 (env (big && negb reuse) reuse throw false false) vt_copy v0.
(* basic_function::assign(F&& f), f not empty *)
Definition run_assign (big vptr_eq throw : bool) : vst := xrun h1 (env big false throw vptr_eq true) bf_assign v0.

(* ------------------------------------------------------------------ what an operation charges *)
(* destroy() / ~function_base / release of a sender storage: every block the storage owns is deleted *)
Fixpoint rel_free (s : storage) : nat :=
  match s with
  | Empty => 0
  | Inline _ => v_free (run_deallocate false)
  | Heap _ => v_free (run_deallocate true)
  | Nested s => v_free (run_deallocate true) + rel_free s
  end.

(* copy construction of the content of [other] into a fresh function_base (one level, and a stored function) *)
Definition clone1_alloc (other : storage) (throw : bool) : nat :=
  match other with
  | Heap o | Inline o => v_alloc (run_copy (vbig (ov o)) false throw)
  | _ => 0
  end.
Definition clone_alloc (other : storage) (throw : bool) : nat :=
  match other with
  | Nested s => v_alloc (run_copy true false false) + clone1_alloc s throw   (* T = function<Sig>: its copy constructor copies s *)
  | _ => clone1_alloc other throw
  end.

(* basic_function::assign(F&&) of a callable of value v onto [this] *)
Definition assign_eff (this : storage) (v : oval) (throw : bool) : nat * nat :=
  let r := run_assign (vbig v) (holds_type this v) throw in
  (v_alloc r, v_destroys r * rel_free this).

Definition nofx : nat * nat := (0, 0).
Definition plus2 (a b : nat * nat) : nat * nat := (fst a + fst b, snd a + snd b).

Definition f_eff1 (op : fop) (this : storage) : nat * nat :=
  match op with
  | FStore _ v _ ctor =>
      if ctor then plus2 (0, rel_free this) (assign_eff Empty v false) else assign_eff this v false
  | FReset _ => (0, rel_free this)
  | FStoreFn _ v ie mvi mv =>
      if ie then (0, rel_free this)
      else
        (* function tf(t): allocate for t's copy; the old content goes; one block for the stored function;
           l-value: the function's copy constructor allocates again and ~tf frees its own block *)
        let a := v_alloc (run_allocate (vbig v)) in
        if mv then (a + v_alloc (run_allocate true), rel_free this)
        else (a + v_alloc (run_allocate true) + v_alloc (run_copy (vbig v) false false),
              rel_free this + v_free (run_deallocate (vbig v)))
  | _ => nofx
  end.
Definition f_eff2 (op : fop) (this other : storage) : nat * nat :=
  match op with
  | FCopyCtor _ _ => (clone_alloc other false, rel_free this)
  | FMoveCtor _ _ | FMoveAssign _ _ => (0, rel_free this)
  | FCopyAssign _ _ =>
      if vptr_eq this other then
        match this, other with
        | (Heap _ | Inline _), (Heap o | Inline o) => (v_alloc (run_copy (vbig (ov o)) true false), v_free (run_copy (vbig (ov o)) true false))
        | Nested a, Nested b => (clone1_alloc b false, rel_free a)     (* ~function() in place, copy-construct in place *)
        | _, _ => nofx
        end
      else (clone_alloc other false, rel_free this)
  | _ => nofx
  end.

Definition in1 (st : state) (j : nat) : bool := j <? length (slots st).
Definition in2 (st : state) (j i : nat) : bool :=
  (j <? length (slots st)) && (i <? length (slots st)) && negb (j =? i).

Definition f_eff (op : fop) (st : state) : nat * nat :=
  match op with
  | FStore j _ _ _ | FReset j | FInvoke j _ | FStoreFn j _ _ _ _ =>
      if in1 st j then f_eff1 op (slot (slots st) j) else nofx
  | FCopyCtor j i | FMoveCtor j i | FCopyAssign j i | FMoveAssign j i | FSwap j i =>
      if in2 st j i then f_eff2 op (slot (slots st) j) (slot (slots st) i) else nofx
  end.

(* histories of function operations with the ledger *)
Fixpoint brun (ops : list fop) (st : state) (b : bledger) : state * bledger :=
  match ops with
  | [] => (st, b)
  | op :: r => brun r (snd (fstep op st)) (charge (f_eff op st) b)
  end.
(* scope exit: every wrapper is destroyed *)
Definition bdestroy_all (st : state) (b : bledger) : bledger :=
  charge (0, list_sum (map rel_free (slots st))) b.

(* ------------------------------------------------------------------ senders: new Impl / delete heap_storage
   (store, clone; the embedded paths allocate nothing; the operation state holder is one transient block
   per connect when it does not fit) *)
Definition s_eff1 (sbo : bool) (op : sop) (this : storage) : nat * nat :=
  match op with
  | SStore _ v _ _ => ((if can_embed sbo v then 0 else 1), blocks this)
  | SReset _ => (0, blocks this)
  | SConnectRv _ =>
      match this with
      | Empty => nofx
      | Nested Empty => (0, blocks this)
      | Heap o | Inline o | Nested (Heap o | Inline o) =>
          let t := if connect_throws (ov o) || can_embed sbo (opstate_of (ov o)) then 0 else 1 in
          (t, t + blocks this)
      | Nested (Nested _) => (0, blocks this)
      end
  | SConnectLv _ =>
      match this with
      | Heap o | Inline o =>
          let t := if connect_throws (ov o) || can_embed sbo (opstate_of (ov o)) then 0 else 1 in (t, t)
      | _ => nofx
      end
  | _ => nofx
  end.
(* copy_assign: clone() allocates, clone_into() does not *)
Definition copy1_alloc (s : storage) : nat := match s with Heap _ => 1 | _ => 0 end.
Definition s_copy_alloc (other : storage) : nat :=
  match other with Nested s => S (copy1_alloc s) | _ => copy1_alloc other end.
Definition s_eff2 (op : sop) (this other : storage) : nat * nat :=
  match op with
  | SMove _ _ | SMoveFromAny _ _ => (0, blocks this)
  | SCopy _ _ => (s_copy_alloc other, blocks this)
  | SNest _ _ => ((match other with Nested _ => 0 | _ => 1 end) + s_copy_alloc other, blocks this)   (* new impl(any_sender const&) *)
  | _ => nofx
  end.
Definition s_eff (sbo : bool) (op : sop) (st : state) : nat * nat :=
  match op with
  | SStore j _ _ _ | SReset j | SConnectRv j | SConnectLv j =>
      if in1 st j then s_eff1 sbo op (slot (slots st) j) else nofx
  | SMove j i | SMoveFromAny j i | SCopy j i | SNest j i =>
      if in2 st j i then s_eff2 op (slot (slots st) j) (slot (slots st) i) else nofx
  end.
Fixpoint sbrun (sbo : bool) (ops : list sop) (st : state) (b : bledger) : state * bledger :=
  match ops with
  | [] => (st, b)
  | op :: r => sbrun sbo r (snd (sstep sbo op st)) (charge (s_eff sbo op st) b)
  end.

(* ------------------------------------------------------------------ throwing constructors (gstep histories) *)
Definition copy_throw_alloc (other : storage) : nat :=
  match other with
  | Nested s => v_alloc (run_copy true false false) + clone1_alloc s true
  | _ => clone1_alloc other true
  end.
Definition g_eff (op : gop) (x : xstate) : nat * nat :=
  let st := xs x in
  match op with
  | GF op => f_eff op st
  | GTarget _ _ => nofx
  | GStoreThrow j v ctor =>
      if in1 st j then
        let this := slot (slots st) j in
        if ctor then plus2 (0, rel_free this) (assign_eff Empty v true)     (* ~old wrapper; fresh base; assign throws *)
        else assign_eff this v true
      else nofx
  | GCopyCtorThrow j i =>
      if in2 st j i then
        let this := slot (slots st) j in let other := slot (slots st) i in
        match other with
        | Empty => f_eff2 (FCopyCtor j i) this other
        | _ => (copy_throw_alloc other, rel_free this)
        end
      else nofx
  | GCopyAssignThrow j i =>
      if in2 st j i then
        let this := slot (slots st) j in let other := slot (slots st) i in
        match other with
        | Empty => f_eff2 (FCopyAssign j i) this other
        | _ => if vptr_eq this other then (0, 0)      (* vptr->copy(object, size_t(-1), ..): never allocates (copy_facts) *)
               else (copy_throw_alloc other, rel_free this)
        end
      else nofx
  end.
Fixpoint gbrun (ops : list gop) (x : xstate) (b : bledger) : xstate * bledger :=
  match ops with
  | [] => (x, b)
  | op :: r => gbrun r (snd (gstep op x)) (charge (g_eff op x) b)
  end.
(* per step: the number of live blocks after the step; at the end: the blocks that nobody owns any more *)
Fixpoint gblive (ops : list gop) (x : xstate) (b : bledger) : list nat * (xstate * bledger) :=
  match ops with
  | [] => ([], (x, b))
  | op :: r => let b' := charge (g_eff op x) b in
               let (t, fin) := gblive r (snd (gstep op x)) b' in (live b' :: t, fin)
  end.
Fixpoint sblive (sbo : bool) (ops : list sxop) (st : state) (b : bledger) : list nat * (state * bledger) :=
  match ops with
  | [] => ([], (st, b))
  | op :: r =>
      let st' := snd (sxstep sbo op st) in
      (* throwing sender steps: the new-expression frees its block, nothing is leaked: the ledger follows ownership *)
      let b' := match op with
                | SX o => charge (s_eff sbo o st) b
                | _ => charge (owned (slots st') , owned (slots st)) b
                end in
      let (t, fin) := sblive sbo r st' b' in (live b' :: t, fin)
  end.
Definition leaked_at_exit (st : state) (b : bledger) : nat := live (bdestroy_all st b).

(* the misplacement the function family's decision allows: T fits (inline) although its alignment is larger than
   the buffer's; both facts regenerated: vtable::allocate does not look at alignof(T), the buffer has no alignas *)
Definition function_misplaced (size align : N) : bool :=
  function_inline size && negb allocate_tests_alignment && (function_buffer_alignment <? align)%N.
