(* Model/CtxSyntax.v — C12: the syntax shared by the regenerated file Gen/GenSwapctx.v
   (written by tools/genmods/c12.py from the source on every run) and the models
   Model/Ctx.v (x86-64 machine) and Model/Rebind.v (per-task fields, heaps).
   Definitions only. *)
From Coq Require Import ZArith List.

(* the sixteen general purpose registers *)
Inductive reg : Set :=
  | RAX | RBX | RCX | RDX | RSI | RDI | RBP | RSP
  | R8 | R9 | R10 | R11 | R12 | R13 | R14 | R15.

(* AT&T operand order: source first.  Exactly the instruction forms the translator accepts;
   any other mnemonic or operand shape in the asm text makes the translator fail (tie broken). *)
Inductive instr : Set :=
  | MovLoad (off : Z) (base dst : reg)      (* movq off(%base), %dst *)
  | MovStore (src : reg) (off : Z) (base : reg)  (* movq %src, off(%base) *)
  | MovRR (src dst : reg)                   (* movq %src, %dst *)
  | Push (r : reg)                          (* pushq %r *)
  | Pop (r : reg)                           (* popq %r *)
  | AddImm (imm : Z) (dst : reg)            (* add $imm, %dst   (sub $k = add $-k) *)
  | Lea (off : Z) (base dst : reg)          (* leaq off(%base), %dst *)
  | JmpReg (r : reg)                        (* jmp *%r *)
  | Ret                                     (* ret *)
  | Ud2                                     (* ud2 *)
  | Nop
  | Stmxcsr (off : Z) (base : reg)          (* stmxcsr off(%base) : save MXCSR *)
  | Ldmxcsr (off : Z) (base : reg)          (* ldmxcsr off(%base) : load MXCSR *)
  | Fnstcw (off : Z) (base : reg)           (* fnstcw off(%base)  : save x87 control word *)
  | Fldcw (off : Z) (base : reg).           (* fldcw off(%base)   : load x87 control word *)

(* ---- per-task fields of threads::detail::thread_data (build without the optional
   description / parent reference / deadlock detection / backtrace / APEX members) *)
Inductive tfield : Set :=
  | F_current_state | F_priority | F_requested_interrupt | F_enabled_interrupt
  | F_ran_exit_funcs | F_exit_funcs | F_scheduler_base | F_last_worker_thread_num
  | F_stacksize_enum
  (* per-object, not per-task: fixed at construction, deliberately kept by rebind *)
  | F_is_stackless | F_stacksize | F_queue.

(* members of thread_init_data read by the constructor / rebind_base *)
Inductive ifield : Set := I_initial_state | I_priority | I_scheduler_base | I_stacksize.

(* right-hand sides that occur in the constructor's initialiser list and in rebind_base *)
Inductive rvalue : Set :=
  | RInit (i : ifield)        (* init_data.<i> *)
  | RStateSignaled            (* thread_state(init_data.initial_state, thread_restart_state::signaled) *)
  | RBool (b : bool)
  | RNoWorker                 (* std::size_t(-1) *)
  | REmpty                    (* default-constructed / cleared container *)
  | RArg (n : nat).           (* constructor argument that is not part of init_data (queue, stacksize, is_stackless) *)

(* ---- per-coroutine fields of coroutines::detail::context_base / coroutine_impl *)
Inductive cfield : Set :=
  | C_thread_id | C_state | C_exit_state | C_exit_status | C_type_info | C_thread_data
  | C_result | C_arg | C_fun | C_sp_frame
  (* never reset by the code; a balanced counter (incremented and decremented around nested
     continuations), reported but not part of the reset theorem *)
  | C_continuation_recursion_count.

Inductive crvalue : Set :=
  | CId           (* the id passed to the constructor / rebind *)
  | CFun          (* the function passed to the constructor / rebind *)
  | CReady        (* ctx_ready *)
  | CExitNotRequested | CNotExited | CNullExc | CZero | CNullArg | CResultUnknown
  | CFreshFrame.  (* m_sp = top - context_size with cb/funp slots written *)

(* ---- stack-size classes / per-size heaps of thread_queue *)
Inductive sclass : Set := Small | Medium | Large | Huge | Nostack.

(* ---- where thread_queue::create_thread replaces `thread_stacksize::current` by the class of the
   creating task (get_self_stacksize_enum()), relative to its `if (data.run_now)` split:
   before the split (both creation paths), only inside the run_now branch, only on the staged path
   after it, or nowhere.  Regenerated from the source into Gen/GenSwapctx.current_resolution. *)
Inductive cur_site : Set := CurBeforeSplit | CurRunNowOnly | CurStagedOnly | CurNever.

(* ---- which end of a per-size heap (a std::list) an object is taken from / put back at:
   thread_queue uses back()/pop_back() and push_back(), queue_holder_thread (the heaps behind
   thread_queue_mc, shared-priority scheduler) front()/pop_front() and push_front().  Regenerated. *)
Inductive hend : Set := HFront | HBack.
