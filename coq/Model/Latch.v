(* Model/Latch.v — pika::latch (libs/pika/synchronization/include/pika/synchronization/latch.hpp)
   over the agent contract of Base/Agent.v.

   State: counter_ (atomic, also decremented WITHOUT the lock by count_down), notified_ and the
   condition variable's queue (both protected by the spinlock mtx_), the lock itself, one agent
   per thread.  Atomic steps (a step that needs the lock is a stutter step while it is held):
     CD0     counter_ -= n                                    (count_down, no lock)
     NOTIFY  lock; [notified_ = true;] notify_one: pop the front waiter and resume() it while
             still holding the lock; unlock; repeat while the queue was non-empty
     W0      lock; counter_ > 0 || !notified_ ? enqueue, unlock -> SUSP : unlock, return   (wait)
     AW0     lock; old = counter_.fetch_sub(n); old > n ? enqueue, unlock -> SUSP
                                                        : notified_ = true, keep the lock -> AWN
     AWN     (lock held) notify_one: pop, resume, unlock; then NOTIFY while non-empty; return
     SUSP    agent suspend: consumes the token (returns at once) or blocks
     REWAIT  after suspend returned: lock; remove the own queue entry if it is still there
             (reset_queue_entry);
               fixed code   : counter_ > 0 || !notified_ ? enqueue, unlock -> SUSP : unlock, return
               original code: unlock, return                  (suspends ONCE, no re-check: F12)
   One critical section is one step because it contains at most one access to an object that is
   not protected by the lock (the counter load, resp. the resume of the popped waiter); the last
   arriver's critical section has two (fetch_sub, resume) and is therefore two steps.
   Oracle OSpur: the environment issues a resume to the thread's agent (the retry helper of an
   earlier notification of the same scheduling phase, DESIGN.md section 3) — at any time.
   Executable definitions only. *)
From Coq Require Import List ZArith NArith Bool Arith.
From Pika Require Import Base.Conc Base.Agent.
Import ListNotations.
Local Open Scope Z_scope.

Inductive lop := LCountDown (n : N) | LWait | LArriveWait (n : N) | LTryWait.
Inductive lev := LRet (t : nat) (op : lop) (v : Z) | LTry (t : nat) (r : bool).
Inductive lorc := ONorm | OSpur.

Inductive lpc :=
| LIdle
| LNotify (first : bool) (aw : bool)     (* about to lock and run notify_one *)
| LAwNotify                              (* arrive_and_wait, last arriver: holds the lock *)
| LSusp | LBlk | LRewait.

Record latch := { cnt : Z; notified : bool; lk : option nat (* owner of mtx_ across steps *); q : list nat; ag : nat -> agent_state;
                  llog : list lev }.
Record llocal := { lprog : list lop; lpcs : lpc }.

Definition locked (g : latch) : bool := match lk g with Some _ => true | None => false end.

Definition set_ag (g : latch) (t : nat) (a : agent_state) : latch :=
  {| cnt := cnt g; notified := notified g; lk := lk g; q := q g;
     ag := fun t' => if Nat.eqb t' t then a else ag g t'; llog := llog g |}.
Definition llog_add (g : latch) (e : lev) : latch :=
  {| cnt := cnt g; notified := notified g; lk := lk g; q := q g; ag := ag g; llog := e :: llog g |}.

Fixpoint remove_tid (t : nat) (l : list nat) : list nat :=
  match l with [] => [] | x :: r => if Nat.eqb x t then r else x :: remove_tid t r end.

Definition cur_op (l : llocal) : lop := match lprog l with op :: _ => op | [] => LTryWait end.
Definition done_op (l : llocal) : llocal := {| lprog := tl (lprog l); lpcs := LIdle |}.
Definition at_pc (l : llocal) (pc : lpc) : llocal := {| lprog := lprog l; lpcs := pc |}.

Definition must_wait (g : latch) : bool := (0 <? cnt g) || negb (notified g).

(* notify_one under the lock: pop the front waiter and resume it; [unlock] happens on return.
   Result: new state (lock released) and whether the queue is still non-empty. *)
Definition notify_one (g : latch) (setn : bool) : latch * bool :=
  match q g with
  | [] => ({| cnt := cnt g; notified := notified g || setn; lk := None; q := []; ag := ag g; llog := llog g |}, false)
  | w :: rest =>
      ({| cnt := cnt g; notified := notified g || setn; lk := None; q := rest;
          ag := fun t' => if Nat.eqb t' w then a_resume (ag g w) else ag g t'; llog := llog g |},
       match rest with [] => false | _ => true end)
  end.

Definition after_notify (t : nat) (g : latch) (l : llocal) (more aw : bool) : latch * llocal :=
  if more then (g, at_pc l (LNotify false aw))
  else if aw then (llog_add g (LRet t (cur_op l) (cnt g)), done_op l)
  else (g, done_op l).

Definition enqueue_me (g : latch) (t : nat) (c : Z) : latch :=
  {| cnt := c; notified := notified g; lk := None; q := q g ++ [t]; ag := ag g; llog := llog g |}.

Definition latch_tstep (fixed : bool) (o : lorc) (t : nat) (g : latch) (l : llocal) : latch * llocal :=
  match o with
  | OSpur => (set_ag g t (a_resume (ag g t)), l)
  | ONorm =>
    match lpcs l with
    | LIdle =>
        match lprog l with
        | [] => (g, l)
        | LCountDown n :: _ =>
            let c := cnt g - Z.of_N n in
            let g' := {| cnt := c; notified := notified g; lk := lk g; q := q g; ag := ag g; llog := llog g |} in
            if c =? 0 then (g', at_pc l (LNotify true false)) else (g', done_op l)
        | LWait :: _ =>
            if locked g then (g, l)
            else if must_wait g then (enqueue_me g t (cnt g), at_pc l LSusp)
            else (llog_add g (LRet t LWait (cnt g)), done_op l)
        | LArriveWait n :: _ =>
            if locked g then (g, l)
            else
              let old := cnt g in
              let c := old - Z.of_N n in
              if Z.of_N n <? old then (enqueue_me g t c, at_pc l LSusp)
              else ({| cnt := c; notified := true; lk := Some t; q := q g; ag := ag g; llog := llog g |},
                    at_pc l LAwNotify)
        | LTryWait :: _ => (llog_add g (LTry t (cnt g =? 0)), done_op l)
        end
    | LNotify first aw =>
        if locked g then (g, l)
        else let '(g', more) := notify_one g first in after_notify t g' l more aw
    | LAwNotify => let '(g', more) := notify_one g false in after_notify t g' l more true
    | LSusp =>
        let '(a, r) := a_suspend (ag g t) in
        (set_ag g t a, at_pc l (match r with Returned => LRewait | Blocked => LBlk end))
    | LBlk => if blocked (ag g t) then (g, l) else (g, at_pc l LRewait)
    | LRewait =>
        if locked g then (g, l)
        else
          let g1 := {| cnt := cnt g; notified := notified g; lk := lk g; q := remove_tid t (q g);
                       ag := ag g; llog := llog g |} in
          if fixed && must_wait g1 then (enqueue_me g1 t (cnt g1), at_pc l LSusp)
          else (llog_add g1 (LRet t (cur_op l) (cnt g1)), done_op l)
    end
  end.

Definition latch_init (count : Z) : latch :=
  {| cnt := count; notified := (count =? 0); lk := None; q := []; ag := fun _ => a_init; llog := [] |}.
Definition latch_locals (progs : nat -> list lop) : nat -> llocal :=
  fun t => {| lprog := progs t; lpcs := LIdle |}.
Definition latch_run (fixed : bool) (sched : list (nat * lorc)) (count : Z) (progs : nat -> list lop) :=
  run (latch_tstep fixed) sched (latch_init count, latch_locals progs).

(* can the thread take a step that changes something (used by the progress theorem) *)
Definition l_enabled (g : latch) (t : nat) (l : llocal) : bool :=
  match lpcs l with
  | LIdle => match lprog l with
             | [] => false
             | LWait :: _ | LArriveWait _ :: _ => negb (locked g)
             | _ => true
             end
  | LNotify _ _ | LRewait => negb (locked g)
  | LAwNotify | LSusp => true
  | LBlk => negb (blocked (ag g t))
  end.

Definition rets (lg : list lev) : list (nat * Z) :=
  flat_map (fun e => match e with LRet t _ v => [(t, v)] | _ => [] end) lg.
