(* Model/Sched.v — the scheduler core shared by C01 (every task runs exactly once, on one worker
   at a time) and C02 (no lost wake-up).  Executable definitions only; proofs live in
   Proofs/SchedProofs.v (C01) and Proofs/SchedWakeProofs.v (C02).

   What is transcribed (one model step = one atomic access, or one critical section):
     scheduling_loop.hpp   get_next_thread -> load state word -> switch_status ctor
                           (set_state_tagged: CAS pending -> active, tag+1) -> one phase of the
                           body -> store_state (restore_state: load, CAS active -> returned state,
                           tag+1) -> pending: schedule_thread_last | pending_boost: set_state
                           (pending) (load, CAS loop) then schedule_thread | suspended /
                           terminated: drop the handle; the `active` branch (re-queue) and the
                           two "some other worker got in between" branches are modelled as written
     thread_data.hpp       the tagged state word; tag+1 iff the schedule state changes
     thread_queue.hpp      create_thread run_now (thread object created and pushed) vs staged
                           (task description); add_new (description -> thread object, pushed);
                           the pending queues are ONE abstract bag from which the oracle picks the
                           element a pop returns: this covers FIFO, LIFO, both ends of the ABP
                           deque, every victim of a steal and the shared-priority holders
     set_thread_state.cpp  set_thread_state(t, pending, retry_on_active = true): load; pending ->
                           done; active -> create the retry helper (a STAGED task: create_work with
                           normal priority) remembering the loaded word; terminated -> done;
                           suspended / pending_boost -> restore_state CAS (tag+1), reload on
                           failure; after a successful CAS from suspended: schedule_thread
                           set_active_state (the helper): load; state equal /\ word different ->
                           abort; otherwise set_thread_state again
     execution_agent.cpp   do_yield(pending | pending_boost | suspended) returns the requested
                           state to the worker; do_resume = set_thread_state(pending)
     detail/condition_variable.cpp  a waiter registers under the internal lock (act Register: one
                           critical section), unlocks, then suspends (act Suspend); a waker pops
                           the entry under the same lock (sub-step SIssue) and then resumes
     thread-object recycling (thread_queue.hpp / thread_id_type.hpp / thread_data.cpp):
                           `tasks` is indexed by THREAD OBJECT (address); every handle carries an
                           object id and every access goes to whatever task the object is bound
                           to at that moment.  rc = thread_data_reference_counting::count_:
                           counted references are queue entries, a worker's `thrd`, the
                           thread_id_ref_type bound into a retry helper (staged description,
                           helper body until set_active_state has returned) and the keep-alive
                           self reference of do_yield (sref); a waker inside set_thread_state
                           holds only a thread_id_type (NOT counted) until schedule_thread
                           converts it.  The release that takes rc to 0 is destroy_thread: the
                           object goes to terminated_items (term); cleanup_terminated_locked moves
                           it to the heap (one per idle iteration); create_thread_object may
                           take any heap object (oracle oh: covers the five per-stack-size
                           heaps) and rebind it: rebind_base re-initialises the whole state word
                           (tag back to 0), count_ = 1.
   Ghost state: reg / wake (phase tag in which a task registered / for which a wake-up was
   issued), ph (phases entered), gid (incarnation number of the task an object is bound to:
   fresh per create / rebind), the event log (events are keyed by incarnation).
   yield_to / next_thrd: the act YieldTo is a plain yield HERE (fragment); the hand-over is in
   Model/SchedY.v (tstepY wraps tstep).
   Not modelled (see notes/design/C01.md): priorities and queue selection
   (subsumed by the oracle), state_ex (constantly `signaled` in this fragment), timed
   suspension, abort_all_suspended_threads at shutdown, counted references held by user code
   (pika::thread, the id returned by register_thread: they only delay recycling). *)
From Coq Require Import List NArith Bool Arith.
From Pika Require Import Base.Conc Gen.GenEnums.
Import ListNotations.

(* ------------------------------------------------------------------ the tagged state word *)
Record word := { st : sst; tag : N }.
Definition word_eqb (a b : word) : bool := sst_beq (st a) (st b) && N.eqb (tag a) (tag b).

(* ------------------------------------------------------------------ task programs *)
Inductive act :=
  | Yield                                  (* this_thread::yield: do_yield(pending) *)
  | YieldBoost                             (* yield_k / sleep_until: do_yield(pending_boost) *)
  | Suspend                                (* this_thread::suspend: do_yield(suspended) *)
  | Register                               (* link a waiter entry under the primitive's lock *)
  | Spawn (b : list act) (run_now : bool)  (* create_work / create_thread *)
  | Resume (u : nat)                       (* pop u's entry (if any) and agent.resume() *)
  | YieldTo (u : nat).                     (* this_thread::yield_to(u): do_yield(pending) with next
                                              thread id u.  In THIS step function (the fragment
                                              without yield_to) the hint is ignored: a plain yield;
                                              the hand-over is modelled by tstepY (Model/SchedY.v),
                                              which coincides with tstep on programs without YieldTo *)

Inductive body :=
  | UserBody (l : list act)
  | HelperBody (tgt : nat) (prev : word)   (* bind(&set_active_state, tgt, pending, .., prev) *)
  | HelperRun (tgt : nat).                 (* set_active_state has read the word; the bound
                                              thread_id_ref_type is still alive *)

Record task := { tw : word; todo : body; ph : nat; reg : option N; wake : option N }.

Inductive wsite := SiteAct | SiteStore | SiteBoost | SiteSet.

Inductive ev :=
  (* t, u, h below are INCARNATION numbers (gid of the object at the time of the event) *)
  | EvNew (t : nat)                                  (* thread object created / rebound, word (pending,0) *)
  | EvPush (t : nat) (w : word)                      (* schedule_thread; w = word at that moment *)
  | EvWord (t : nat) (s : wsite) (old new : word)    (* successful transition of the state word *)
  | EvEnter (t : nat) (k : nat) (wk : nat)           (* body of t entered for phase k on worker wk *)
  | EvExit (t : nat) (k : nat) (wk : nat) (ret : sst)
  | EvIssue (u : nat) (p : option N)                 (* wake-up issued; Some p: u was registered in phase p *)
  | EvAbort (h u : nat) (prev cur : word)            (* helper h of u aborted *)
  | EvSpur (u : nat) (q : N)                         (* suspended(q) -> pending without a wake-up issued for it *)
  | EvHelp (u : nat) (prev : word).                  (* ghost: a retry helper was created for incarnation u, which was
                                                        found active with word prev (set_thread_state, hook 208) *)

(* tasks is indexed by thread OBJECT; ntasks = number of objects allocated so far *)
Record G := { tasks : nat -> task; ntasks : nat; pend : list nat; staged : list body; log : list ev;
              gid : nat -> nat;      (* ghost: incarnation bound to the object *)
              ninc : nat;            (* ghost: number of incarnations so far *)
              rc : nat -> nat;       (* thread_data_reference_counting::count_ *)
              sref : nat -> nat;     (* do_yield's keep-alive thread_id_ref_type on the task's own stack *)
              term : list nat;       (* terminated_items_ *)
              heap : list nat }.     (* thread_heap_* (all stack sizes; the oracle picks) *)

Definition dummy_task : task :=
  {| tw := {| st := st_unknown; tag := 0 |}; todo := UserBody []; ph := 0; reg := None; wake := None |}.
Definition init_g : G :=
  {| tasks := fun _ => dummy_task; ntasks := 0; pend := []; staged := []; log := [];
     gid := fun x => x; ninc := 0; rc := fun _ => 0; sref := fun _ => 0; term := []; heap := [] |}.

Definition tw_of (g : G) (t : nat) : word := tw (tasks g t).

(* ------------------------------------------------------------------ setters *)
Definition set_task (g : G) (t : nat) (x : task) : G :=
  {| tasks := upd (tasks g) t x; ntasks := ntasks g; pend := pend g; staged := staged g; log := log g;
     gid := gid g; ninc := ninc g; rc := rc g; sref := sref g; term := term g; heap := heap g |}.
Definition set_word (g : G) (t : nat) (w' : word) : G :=
  let k := tasks g t in set_task g t {| tw := w'; todo := todo k; ph := ph k; reg := reg k; wake := wake k |}.
Definition set_todo (g : G) (t : nat) (b : body) : G :=
  let k := tasks g t in set_task g t {| tw := tw k; todo := b; ph := ph k; reg := reg k; wake := wake k |}.
Definition set_reg (g : G) (t : nat) (r : option N) : G :=
  let k := tasks g t in set_task g t {| tw := tw k; todo := todo k; ph := ph k; reg := r; wake := wake k |}.
Definition add_log (g : G) (e : ev) : G :=
  {| tasks := tasks g; ntasks := ntasks g; pend := pend g; staged := staged g; log := e :: log g;
     gid := gid g; ninc := ninc g; rc := rc g; sref := sref g; term := term g; heap := heap g |}.
Definition set_pend (g : G) (p : list nat) : G :=
  {| tasks := tasks g; ntasks := ntasks g; pend := p; staged := staged g; log := log g;
     gid := gid g; ninc := ninc g; rc := rc g; sref := sref g; term := term g; heap := heap g |}.
Definition set_staged (g : G) (s : list body) : G :=
  {| tasks := tasks g; ntasks := ntasks g; pend := pend g; staged := s; log := log g;
     gid := gid g; ninc := ninc g; rc := rc g; sref := sref g; term := term g; heap := heap g |}.
Definition set_rc (g : G) (t : nat) (c : nat) : G :=
  {| tasks := tasks g; ntasks := ntasks g; pend := pend g; staged := staged g; log := log g;
     gid := gid g; ninc := ninc g; rc := upd (rc g) t c; sref := sref g; term := term g; heap := heap g |}.
Definition set_sref (g : G) (t : nat) (c : nat) : G :=
  {| tasks := tasks g; ntasks := ntasks g; pend := pend g; staged := staged g; log := log g;
     gid := gid g; ninc := ninc g; rc := rc g; sref := upd (sref g) t c; term := term g; heap := heap g |}.
Definition set_term (g : G) (l : list nat) : G :=
  {| tasks := tasks g; ntasks := ntasks g; pend := pend g; staged := staged g; log := log g;
     gid := gid g; ninc := ninc g; rc := rc g; sref := sref g; term := l; heap := heap g |}.
Definition set_heap (g : G) (l : list nat) : G :=
  {| tasks := tasks g; ntasks := ntasks g; pend := pend g; staged := staged g; log := log g;
     gid := gid g; ninc := ninc g; rc := rc g; sref := sref g; term := term g; heap := l |}.
(* intrusive_ptr_add_ref *)
Definition rc_inc (g : G) (t : nat) : G := set_rc g t (S (rc g t)).
(* intrusive_ptr_release: the release that reaches 0 calls destroy_thread, which pushes the
   object on terminated_items_ (nobody else can reach the object any more) *)
Definition rc_dec (g : G) (t : nat) : G :=
  match rc g t with
  | S O => set_term (set_rc g t 0) (t :: term g)
  | c => set_rc g t (pred c)
  end.
(* thread_queue::schedule_thread *)
Definition push (g : G) (t : nat) : G := add_log (set_pend g (t :: pend g)) (EvPush (gid g t) (tw_of g t)).
(* staged task description (create_thread with run_now = false) *)
Definition stage (g : G) (b : body) : G := set_staged g (b :: staged g).
Definition w_init : word := {| st := st_pending; tag := 0 |}.
Fixpoint remove_nth {A} (n : nat) (l : list A) : list A :=
  match l with
  | [] => []
  | x :: r => match n with O => r | S n' => x :: remove_nth n' r end
  end.

(* thread object obtained (create_thread run_now / add_new -> create_thread_object) and pushed,
   under the queue mutex: heap object number h is taken and rebound (rebind_base stores the
   initial word: tag 0; count_ = 1), or — h out of range: the heap for this stack size is empty —
   a new object is allocated *)
Definition new_slot (g : G) (h : nat) : nat :=
  match nth_error (heap g) h with Some x => x | None => ntasks g end.
Definition new_task (g : G) (b : body) (h : nat) : G :=
  let x := new_slot g h in
  {| tasks := upd (tasks g) x {| tw := w_init; todo := b; ph := 0; reg := None; wake := None |};
     ntasks := match nth_error (heap g) h with Some _ => ntasks g | None => S (ntasks g) end;
     pend := x :: pend g; staged := staged g;
     log := EvPush (ninc g) w_init :: EvNew (ninc g) :: log g;
     gid := upd (gid g) x (ninc g); ninc := S (ninc g);
     rc := upd (rc g) x 1; sref := upd (sref g) x 0; term := term g;
     heap := match nth_error (heap g) h with Some _ => remove_nth h (heap g) | None => heap g end |}.

(* ------------------------------------------------------------------ program counters *)
(* set_thread_state in progress (run by a task phase or by an external thread) *)
Inductive sub :=
  | SNone
  | SIssue (u : nat)              (* waker holds the primitive's lock: pop u's entry *)
  | SLoad (u : nat)               (* previous_state = get_state() *)
  | SCas (u : nat) (prev : word)  (* restore_state(pending, ex, previous_state) *)
  | SEnq (u : nat).               (* scheduler->schedule_thread(u) *)

Inductive pc :=
  | WTop                                     (* scheduling_loop: get_next_thread / add_new *)
  | WGot (t : nat)                           (* state = thrd->get_state() *)
  | WLoaded (t : nat) (w0 : word)            (* branch on w0; switch_status ctor CAS *)
  | WRun (t : nat) (orig : word) (s : sub)   (* inside the body; orig = orig_state_ *)
  | WStoreL (t : nat) (orig : word) (ret : sst)               (* restore_state: load *)
  | WStoreC (t : nat) (orig : word) (ret : sst) (cur : word)  (* restore_state: CAS *)
  | WBoost (t : nat)                         (* set_state(pending): load *)
  | WBoostC (t : nat) (prev : word)          (* set_state(pending): CAS loop *)
  | WRequeue (t : nat)                       (* schedule_thread(_last) *)
  | WRelease (t : nat)                       (* thrd = thread_id_type() / ~thrd at the end of the iteration *)
  | XRun (acts : list act) (s : sub).        (* a non-pika OS thread: submits and resumes *)

(* oracle: an index and a bit.  At WTop: ob = true pops element oi of the pending bag, ob = false
   converts staged description oi (the thread object is heap object oh, or a new one); an index
   out of range is an idle iteration (which cleans up one terminated object when ob = false). *)
Record oracle := { oi : nat; ob : bool; oh : nat }.

Definition w_pending (prev : word) : word := {| st := st_pending; tag := tag prev + 1 |}.

Definition sub_step (g : G) (s : sub) : G * sub :=
  match s with
  | SNone => (g, SNone)
  | SIssue u =>
      let k := tasks g u in
      match reg k with
      | Some p => (add_log (set_task g u {| tw := tw k; todo := todo k; ph := ph k; reg := None; wake := Some p |})
                           (EvIssue (gid g u) (Some p)), SLoad u)
      | None => (add_log g (EvIssue (gid g u) None), SLoad u)
      end
  | SLoad u =>
      if u <? ntasks g then              (* "null thread id encountered" otherwise *)
        let prev := tw_of g u in
        match st prev with
        | st_active => (add_log (stage (rc_inc g u) (HelperBody u prev)) (EvHelp (gid g u) prev), SNone)
                                                                         (* thread_id_ref_type(thrd) bound *)
        | st_suspended | st_pending_boost => (g, SCas u prev)
        | _ => (g, SNone)
        end
      else (g, SNone)
  | SCas u prev =>
      if word_eqb (tw_of g u) prev then
        let nw := w_pending prev in
        let g1 := add_log (set_word g u nw) (EvWord (gid g u) SiteSet prev nw) in
        if sst_beq (st prev) st_suspended then
          let spur := match wake (tasks g u) with
                      | Some p => negb (N.eqb (p + 1) (tag prev))
                      | None => true
                      end in
          ((if spur then add_log g1 (EvSpur (gid g u) (tag prev)) else g1), SEnq u)
        else (g1, SNone)
      else (g, SLoad u)
  | SEnq u => (push (rc_inc g u) u, SNone)     (* thread_id_type -> thread_id_ref_type: the queue entry *)
  end.

(* one step of the body of t on worker me (no set_thread_state in progress) *)
(* do_yield: `thread_id_ref_type id = self_.get_thread_id(); // keep alive`.  The reference is
   taken inside the body (while the worker holds `thrd`) and dropped when do_yield returns in
   the next phase (while the next worker holds `thrd`): neither can be the first or the last
   reference, so the model attaches them to the store that ends the phase and to the
   pending -> active CAS that starts the next one *)
Definition self_ref (g : G) (t : nat) : G := set_sref (rc_inc g t) t (S (sref g t)).
Definition run_act (g : G) (h : nat) (me t : nat) (orig : word) : G * pc :=
  match todo (tasks g t) with
  | HelperBody u prev =>
      let cur := tw_of g u in
      let g1 := set_todo g t (HelperRun u) in
      if sst_beq (st cur) (st prev) && negb (word_eqb cur prev)
      then (add_log g1 (EvAbort (gid g t) (gid g u) prev cur), WRun t orig SNone)
      else (g1, WRun t orig (SLoad u))
  | HelperRun u =>                       (* set_active_state returned: the bound id is released *)
      (rc_dec (set_todo g t (UserBody [])) u, WRun t orig SNone)
  | UserBody [] => (g, WStoreL t orig st_terminated)
  | UserBody (a :: r) =>
      let g1 := set_todo g t (UserBody r) in
      match a with
      | Yield => (g1, WStoreL t orig st_pending)
      | YieldBoost => (g1, WStoreL t orig st_pending_boost)
      | Suspend => (g1, WStoreL t orig st_suspended)
      | Register => (set_reg g1 t (Some (tag (tw_of g t))), WRun t orig SNone)
      | Spawn b now => ((if now then new_task g1 (UserBody b) h else stage g1 (UserBody b)), WRun t orig SNone)
      | Resume u => (g1, WRun t orig (SIssue u))
      | YieldTo _ => (g1, WStoreL t orig st_pending)
      end
  end.

Definition tstep (o : oracle) (me : nat) (g : G) (l : pc) : G * pc :=
  match l with
  | WTop =>
      if ob o then
        match nth_error (pend g) (oi o) with
        | Some t => (set_pend g (remove_nth (oi o) (pend g)), WGot t)
        | None => (g, WTop)
        end
      else
        match nth_error (staged g) (oi o) with
        | Some b => (new_task (set_staged g (remove_nth (oi o) (staged g))) b (oh o), WTop)
        | None =>                          (* idle: cleanup_terminated_locked, one object *)
            match term g with
            | x :: r => (set_heap (set_term g r) (x :: heap g), WTop)
            | [] => (g, WTop)
            end
        end
  | WGot t => (g, WLoaded t (tw_of g t))
  | WLoaded t w0 =>
      match st w0 with
      | st_pending =>
          if word_eqb (tw_of g t) w0 then
            let nw := {| st := st_active; tag := tag w0 + 1 |} in
            let k := tasks g t in
            (* ghost: a new phase starts with no registration and no wake-up issued for it *)
            let g1 := set_task g t {| tw := nw; todo := todo k; ph := S (ph k); reg := None; wake := None |} in
            (* the resumed coroutine returns from do_yield: its keep-alive reference goes away
               (it cannot be the last one: this worker holds `thrd` for the whole phase) *)
            let g2 := match sref g t with
                      | S c => set_sref (set_rc g1 t (pred (rc g t))) t c
                      | O => g1
                      end in
            (add_log (add_log g2 (EvWord (gid g t) SiteAct w0 nw)) (EvEnter (gid g t) (ph k) me), WRun t nw SNone)
          else (g, WRelease t)                 (* "some other worker got in between": no execution *)
      | st_active => (push g t, WTop)          (* still marked active: re-schedule (thrd moved) *)
      | _ => (g, WRelease t)                   (* leftover handle: dropped *)
      end
  | WRun t orig s =>
      match s with
      | SNone => run_act g (oh o) me t orig
      | _ => let '(g', s') := sub_step g s in (g', WRun t orig s')
      end
  | WStoreL t orig ret => (g, WStoreC t orig ret (tw_of g t))
  | WStoreC t orig ret cur =>
      if word_eqb (tw_of g t) orig then
        let nw := {| st := ret; tag := tag cur + 1 |} in
        let g0 := add_log (add_log (set_word g t nw) (EvExit (gid g t) (pred (ph (tasks g t))) me ret))
                          (EvWord (gid g t) SiteStore orig nw) in
        let g1 := if sst_beq ret st_terminated then g0 else self_ref g0 t in
        (g1, match ret with
             | st_pending => WRequeue t
             | st_pending_boost => WBoost t
             | _ => WRelease t                 (* suspended / terminated: the worker's reference is dropped *)
             end)
      else (g, WRelease t)                     (* "no state change" *)
  | WBoost t => (g, WBoostC t (tw_of g t))
  | WBoostC t prev =>
      if word_eqb (tw_of g t) prev then
        let nw := {| st := st_pending; tag := if sst_beq (st prev) st_pending then tag prev else tag prev + 1 |} in
        (add_log (set_word g t nw) (EvWord (gid g t) SiteBoost prev nw), WRequeue t)
      else (g, WBoostC t (tw_of g t))
  | WRequeue t => (push g t, WTop)
  | WRelease t => (rc_dec g t, WTop)
  | XRun acts s =>
      match s with
      | SNone =>
          match acts with
          | [] => (g, l)
          | Spawn b now :: r => ((if now then new_task g (UserBody b) (oh o) else stage g (UserBody b)), XRun r SNone)
          | Resume u :: r => (g, XRun r (SIssue u))
          | _ :: r => (g, XRun r SNone)
          end
      | _ => let '(g', s') := sub_step g s in (g', XRun acts s')
      end
  end.

(* every nat is a thread: ext i = Some acts makes thread i an external OS thread running acts,
   every other thread is a worker of the pool *)
Definition init_ls (ext : nat -> option (list act)) : nat -> pc :=
  fun i => match ext i with Some acts => XRun acts SNone | None => WTop end.

Definition sched_run (sched : list (nat * oracle)) (ext : nat -> option (list act)) : G * (nat -> pc) :=
  run tstep sched (init_g, init_ls ext).

(* nothing can change any more: every step of every thread under every oracle is a no-op *)
Definition stuck (c : G * (nat -> pc)) : Prop :=
  forall a o, tstep o a (fst c) (snd c a) = (fst c, snd c a).

(* ------------------------------------------------------------------ who holds a handle *)
Definition main_of (l : pc) : option nat :=
  match l with
  | WGot t | WLoaded t _ | WRun t _ _ | WStoreL t _ _ | WStoreC t _ _ _ | WBoost t | WBoostC t _
  | WRequeue t => Some t
  | WTop | XRun _ _ | WRelease _ => None
  end.
(* the counted reference a worker holds in `thrd` *)
Definition wref (l : pc) : option nat :=
  match l with WRelease t => Some t | _ => main_of l end.
(* counted references bound into a helper *)
Definition href (b : body) : option nat :=
  match b with HelperBody u _ | HelperRun u => Some u | UserBody _ => None end.
Definition sub_of (l : pc) : sub :=
  match l with WRun _ _ s => s | XRun _ s => s | _ => SNone end.
Definition enq_of (l : pc) : option nat :=
  match sub_of l with SEnq u => Some u | _ => None end.
Definition holds (l : pc) (t : nat) : Prop := main_of l = Some t \/ enq_of l = Some t.
(* between the successful pending->active CAS and the matching store *)
Definition running (l : pc) (t : nat) : Prop :=
  match l with
  | WRun t' _ _ | WStoreL t' _ _ | WStoreC t' _ _ _ => t' = t
  | _ => False
  end.

(* ------------------------------------------------------------------ projections of the log *)
Inductive pev := PEnter (k : nat) | PExit (k : nat).
Definition pev_of (t : nat) (e : ev) : list pev :=
  match e with
  | EvEnter t' k _ => if Nat.eqb t' t then [PEnter k] else []
  | EvExit t' k _ _ => if Nat.eqb t' t then [PExit k] else []
  | _ => []
  end.
(* the phase events of task t, in the order of the list given *)
Definition phases_of (t : nat) (l : list ev) : list pev := flat_map (pev_of t) l.
(* Enter 0, Exit 0, Enter 1, Exit 1, ... (first m items) *)
Definition alt_item (i : nat) : pev := if Nat.even i then PEnter (Nat.div2 i) else PExit (Nat.div2 i).
Definition alt (m : nat) : list pev := map alt_item (seq 0 m).

(* ------------------------------------------------------------------ the trace acceptor (TRACE tie)
   A per-task chain is the list of successful state-word transitions of one thread object
   incarnation, oldest first, as logged by the hooks in thread_data.hpp: (site, old, new).  The
   acceptor checks that each transition is one the model can make from that site and that
   consecutive transitions chain (new_i = old_{i+1}). *)
Definition trans_ok (s : wsite) (old new : word) : bool :=
  match s with
  | SiteAct => sst_beq (st old) st_pending && sst_beq (st new) st_active && N.eqb (tag new) (tag old + 1)
  | SiteStore => sst_beq (st old) st_active && N.eqb (tag new) (tag old + 1) &&
                 (sst_beq (st new) st_pending || sst_beq (st new) st_pending_boost ||
                  sst_beq (st new) st_suspended || sst_beq (st new) st_terminated)
  | SiteBoost => sst_beq (st new) st_pending &&
                 ((sst_beq (st old) st_pending && N.eqb (tag new) (tag old)) ||
                  (sst_beq (st old) st_pending_boost && N.eqb (tag new) (tag old + 1)))
  | SiteSet => sst_beq (st new) st_pending && N.eqb (tag new) (tag old + 1) &&
               (sst_beq (st old) st_suspended || sst_beq (st old) st_pending_boost)
  end.

Fixpoint chain_ok (cur : word) (l : list (wsite * word * word)) : bool :=
  match l with
  | [] => true
  | (s, old, new) :: r => word_eqb old cur && trans_ok s old new && chain_ok new r
  end.
(* a chain starts at the freshly created word (pending, 0) *)
Definition accepts (l : list (wsite * word * word)) : bool := chain_ok w_init l.

(* number of pending->active transitions of a chain: must equal the number of body entries *)
Definition activations (l : list (wsite * word * word)) : nat :=
  length (filter (fun x => match x with (SiteAct, _, _) => true | _ => false end) l).

(* the chain of task t in a model log (newest first) *)
Definition chain_of (t : nat) (l : list ev) : list (wsite * word * word) :=
  flat_map (fun e => match e with
                     | EvWord t' s o n => if Nat.eqb t' t then [(s, o, n)] else []
                     | _ => [] end) (rev l).

(* queue discipline seen by the hooks: a push is logged with the word read just before it *)
Definition push_ok (w : word) : bool := sst_beq (st w) st_pending.

(* ------------------------------------------------------------------ boolean monitors (evaluated by
   the extracted model during the failing-input search: tools/props/c01.py, kind MRUN) *)
Definition pev_eqb (a b : pev) : bool :=
  match a, b with
  | PEnter i, PEnter j => Nat.eqb i j
  | PExit i, PExit j => Nat.eqb i j
  | _, _ => false
  end.
Fixpoint list_eqb {A} (eqb : A -> A -> bool) (l1 l2 : list A) : bool :=
  match l1, l2 with
  | [], [] => true
  | x :: r1, y :: r2 => eqb x y && list_eqb eqb r1 r2
  | _, _ => false
  end.
Definition running_b (l : pc) (t : nat) : bool :=
  match l with
  | WRun t' _ _ | WStoreL t' _ _ | WStoreC t' _ _ _ => Nat.eqb t' t
  | _ => false
  end.
Fixpoint nodup_b (l : list nat) : bool :=
  match l with [] => true | x :: r => negb (existsb (Nat.eqb x) r) && nodup_b r end.
Definition enters_of (t : nat) (l : list ev) : nat :=
  length (filter (fun p => match p with PEnter _ => true | _ => false end) (phases_of t l)).
(* wake-up obligation (C02): no task is suspended although a wake-up was issued for the phase in
   which it registered *)
Definition wake_pending_b (g : G) (t : nat) : bool :=
  match wake (tasks g t) with
  | Some p => sst_beq (st (tw_of g t)) st_suspended && N.eqb (tag (tw_of g t)) (p + 1)
  | None => false
  end.
(* no counted reference to object x among: queue entries, threads 0..T-1, staged helpers, helper
   bodies, do_yield frames *)
Definition opt_is (o : option nat) (x : nat) : bool :=
  match o with Some y => Nat.eqb y x | None => false end.
Definition unreferenced_b (T : nat) (c : G * (nat -> pc)) (x : nat) : bool :=
  let g := fst c in
  negb (existsb (Nat.eqb x) (pend g))
  && negb (existsb (fun a => opt_is (wref (snd c a)) x) (seq 0 T))
  && negb (existsb (fun b => opt_is (href b) x) (staged g))
  && negb (existsb (fun y => opt_is (href (todo (tasks g y))) x) (seq 0 (ntasks g)))
  && Nat.eqb (sref g x) 0.
(* every object waiting for cleanup or sitting in a heap is terminated, has count 0 and is not
   referenced; no object is in there twice *)
Definition recycle_ok_b (T : nat) (c : G * (nat -> pc)) : bool :=
  let g := fst c in
  forallb (fun x => sst_beq (st (tw_of g x)) st_terminated && Nat.eqb (rc g x) 0 && unreferenced_b T c x)
          (term g ++ heap g)
  && nodup_b (term g ++ heap g).
Definition mon_ok (T : nat) (c : G * (nat -> pc)) : bool :=
  let g := fst c in
  (* per incarnation *)
  forallb (fun i =>
             list_eqb pev_eqb (phases_of i (rev (log g))) (alt (length (phases_of i (log g))))
             && accepts (chain_of i (log g))
             && Nat.eqb (activations (chain_of i (log g))) (enters_of i (log g)))
          (seq 0 (ninc g))
  (* per thread object *)
  && forallb (fun t => Nat.leb (length (filter (fun a => running_b (snd c a) t) (seq 0 T))) 1)
             (seq 0 (ntasks g))
  && nodup_b (pend g)
  && recycle_ok_b T c.
(* is the configuration quiescent (as far as threads 0..T-1 are concerned)? *)
Definition idle_b (T : nat) (c : G * (nat -> pc)) : bool :=
  match pend (fst c), staged (fst c) with
  | [], [] => forallb (fun a => match snd c a with WTop | XRun [] SNone => true | _ => false end) (seq 0 T)
  | _, _ => false
  end.
Definition lost_wakeup_b (T : nat) (c : G * (nat -> pc)) : bool :=
  idle_b T c && existsb (wake_pending_b (fst c)) (seq 0 (ntasks (fst c))).
