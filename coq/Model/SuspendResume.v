(* Model/SuspendResume.v — C19: suspending / resuming thread pools and single processing units.
   Code: scheduled_thread_pool_impl.hpp (suspend_processing_unit_direct/_internal,
   resume_processing_unit_direct, suspend_direct/_internal, resume_direct/_internal),
   scheduler_base.cpp (suspend, resume, select_active_pu), scheduling_loop.hpp (idle branch),
   local_priority_queue_scheduler.hpp (create_thread: select_active_pu + enqueue under the PU lock,
   get_next_thread: own queue first, stealing only while `running`).
   Queues (thread_queue.hpp): every queue has a STAGED part (new_tasks_: task descriptions pushed by create_thread, run_now = false)
   and a PENDING part (work_items_: runnable pika threads).  Only pending entries can be executed; staged entries are converted by
   wait_or_add_new.  Queue w < nw is worker w's normal-priority queue (its high-priority queue behaves identically and is merged with
   it); queue [lowq c] = nw is the single pool-wide low-priority queue.  As in local_priority_queue_scheduler:
     get_next_thread(w, running): own pending; if own staged != 0 give up; if !running give up; steal PENDING of a victim (stealing
       only); pop the low-priority PENDING queue (any running worker).
     wait_or_add_new(w, running): convert own staged (WHATEVER running is); if !running return; steal STAGED of a victim into the own
       pending queue (stealing only); worker nw-1 ONLY: convert the low-priority staged tasks.
     get_queue_length(w) = own pending + own staged (+ low-priority pending + staged when w = nw-1).
   Every runtime_state constant and the "refusal is followed by return" facts come from
   Gen/GenRuntimeState.v (regenerated from the source on every run).

   Threads: thread t < nw is worker t (scheduling_loop of virtual core t); every other thread is a client
   (OS thread or task of ANOTHER pool) executing a list of API calls, each expanded into the primitive
   atomic steps the code performs.  One step = one atomic access or one critical section.

   Executable definitions only; proofs are in Proofs/SuspendResumeProofs.v. *)
From Coq Require Import List NArith Bool Arith.
From Pika Require Import Base.Conc Gen.GenRuntimeState.
Import ListNotations.

Definition task := (nat * nat)%type.           (* (submitting thread, its sequence number) *)
Definition task_eqb (a b : task) : bool := Nat.eqb (fst a) (fst b) && Nat.eqb (snd a) (snd b).

Record cfg := { nw : nat; elastic : bool; stealing : bool }.
Definition lowq (c : cfg) : nat := nw c.                       (* index of the pool-wide low-priority queue *)
Definition lastw (c : cfg) (w : nat) : bool := Nat.eqb (S w) (nw c).   (* num_thread == num_queues_ - 1 *)

Inductive callkind := KSuspendPU | KResumePU | KSuspendPool | KResumePool.

(* API calls.  [self]: the caller is a pika thread of this very pool (only used for the refusals;
   accepted calls are issued by OS threads / tasks of other pools). *)
Inductive api :=
| ASuspendPU (w : nat) (self : bool)
| AResumePU (w : nat)
| ASuspendPool (self : bool)
| AResumePool
| ASubmit (hint : option nat)
| ASubmitLow (hint : option nat).     (* thread_priority::low *)

Inductive prim :=
| PRefuse                           (* PIKA_THROWS_IF(ec, ...) with a non-throwing error_code: ec := error *)
| PRet (k : callkind)               (* the call returns *)
| PLockedCas (w : nat)              (* yield_while(!l.try_lock()) ; CAS g_sus_from -> g_sus_to ; unlock *)
| PLockedNop (w : nat)              (* resume_processing_unit_direct: lock, joinable check, unlock *)
| PWaitNot (w : nat) (s : rstate)   (* yield_while(state == s) *)
| PCas (w : nat)                    (* suspend_internal: CAS g_pool_from -> g_pool_to, no lock *)
| PNotify (w : nat)                 (* scheduler_base::resume(w) *)
| PResumeLoop (w : nat)             (* yield_while({ resume(w); return state == g_res_wait; }) *)
| PWaitIdle                         (* suspend_internal: yield_while(get_thread_count() > 0) *)
| PSubmit (hint : option nat) (low : bool).   (* create_thread: pick queue, select_active_pu, enqueue (staged), unlock *)

Definition spu_internal (w : nat) : list prim := [PLockedCas w; PWaitNot w g_sus_wait].

(* suspend_processing_unit_direct, control flow as written: a refusal that is not followed by
   `return` falls through *)
Definition spu_direct (c : cfg) (w : nat) (self : bool) : list prim :=
  let r1 := nth 0 g_spu_refusal_returns false in
  let r2 := nth 1 g_spu_refusal_returns false in
  let body := spu_internal w in
  let chk2 := if self && negb (stealing c) then (if r2 then [PRefuse] else PRefuse :: body) else body in
  if negb (elastic c) then (if r1 then [PRefuse] else PRefuse :: chk2) else chk2.

Definition pool_suspend (c : cfg) (self : bool) : list prim :=
  let body := PWaitIdle :: map PCas (seq 0 (nw c)) ++ flat_map spu_internal (seq 0 (nw c)) in
  if self then (if g_pool_refusal_returns then [PRefuse] else PRefuse :: body) else body.

Definition pool_resume (c : cfg) : list prim :=
  map PNotify (seq 0 (nw c)) ++ flat_map (fun w => [PLockedNop w; PResumeLoop w]) (seq 0 (nw c)).

Definition expand (c : cfg) (a : api) : list prim :=
  match a with
  | ASuspendPU w self => spu_direct c w self ++ [PRet KSuspendPU]
  | AResumePU w => [PLockedNop w; PResumeLoop w; PRet KResumePU]
  | ASuspendPool self => pool_suspend c self ++ [PRet KSuspendPool]
  | AResumePool => pool_resume c ++ [PRet KResumePool]
  | ASubmit h => [PSubmit h false]
  | ASubmitLow h => [PSubmit h true]
  end.

(* the decision function of the API: is the call refused? (compared with the observed error codes) *)
Definition refused (c : cfg) (a : api) : bool :=
  match a with
  | ASuspendPU _ self => negb (elastic c) || (self && negb (stealing c))
  | ASuspendPool self => self
  | _ => false
  end.

(* ---- shared state ---- *)
Record gst := {
  st : nat -> rstate;                 (* states_[w] *)
  pul : nat -> option nat;            (* pu_mtxs_[w]: holder *)
  qs : list (nat * task);             (* PENDING parts (work_items_) of all queues: (queue index, task) in push order *)
  sq : list (nat * task);             (* STAGED parts (new_tasks_) of all queues *)
  heldl : list (nat * task);          (* (worker, task popped and not yet executed) *)
  waiting : nat -> bool;              (* worker w is blocked in suspend_conds_[w].wait and not yet notified *)
  rr : nat;                           (* curr_queue_ *)
  live : nat;                         (* get_thread_count(): tasks created and not yet terminated *)
  nxt : nat -> nat;                   (* per submitting thread: next sequence number *)
  (* ghost *)
  executed : list (task * nat);       (* (task, worker that ran it), newest first *)
  submitted : list task;              (* newest first *)
  fresh : nat -> list task;           (* tasks enqueued on queue w since worker w last saw it empty in the idle branch *)
  calls : list (nat * callkind * bool);  (* (thread, call, error reported), newest first *)
  validated : list task               (* normal-priority tasks enqueued under the PU lock of a worker accepted by select_active_pu with
                                         the initial max_allowed_state (state <= suspended checked under that lock) *)
}.

Definition set_st g x := {| st := x; pul := pul g; qs := qs g; sq := sq g; heldl := heldl g; waiting := waiting g; rr := rr g; live := live g; nxt := nxt g; executed := executed g; submitted := submitted g; fresh := fresh g; calls := calls g; validated := validated g |}.
Definition set_pul g x := {| st := st g; pul := x; qs := qs g; sq := sq g; heldl := heldl g; waiting := waiting g; rr := rr g; live := live g; nxt := nxt g; executed := executed g; submitted := submitted g; fresh := fresh g; calls := calls g; validated := validated g |}.
Definition set_waiting g x := {| st := st g; pul := pul g; qs := qs g; sq := sq g; heldl := heldl g; waiting := x; rr := rr g; live := live g; nxt := nxt g; executed := executed g; submitted := submitted g; fresh := fresh g; calls := calls g; validated := validated g |}.
Definition set_rr g x := {| st := st g; pul := pul g; qs := qs g; sq := sq g; heldl := heldl g; waiting := waiting g; rr := x; live := live g; nxt := nxt g; executed := executed g; submitted := submitted g; fresh := fresh g; calls := calls g; validated := validated g |}.
Definition set_fresh g x := {| st := st g; pul := pul g; qs := qs g; sq := sq g; heldl := heldl g; waiting := waiting g; rr := rr g; live := live g; nxt := nxt g; executed := executed g; submitted := submitted g; fresh := x; calls := calls g; validated := validated g |}.
Definition set_calls g x := {| st := st g; pul := pul g; qs := qs g; sq := sq g; heldl := heldl g; waiting := waiting g; rr := rr g; live := live g; nxt := nxt g; executed := executed g; submitted := submitted g; fresh := fresh g; calls := x; validated := validated g |}.

Definition cas (s from to : rstate) : rstate := if rs_eqb s from then to else s.

Definition nonempty {A : Type} (l : list A) : bool := match l with [] => false | _ :: _ => true end.

Definition qof (w : nat) (l : list (nat * task)) : list task :=
  map snd (filter (fun e => Nat.eqb (fst e) w) l).

(* remove the first entry with index w *)
Fixpoint extract (w : nat) (l : list (nat * task)) : option (task * list (nat * task)) :=
  match l with
  | [] => None
  | e :: r => if Nat.eqb (fst e) w then Some (snd e, r)
              else match extract w r with Some (tk, r') => Some (tk, e :: r') | None => None end
  end.

(* thread_queue::create_thread (run_now = false): push a task description on the STAGED part of queue q, under (or, without
   elasticity, without) the PU lock of the selected worker; v: the selection was validated (ghost) *)
Definition enqueue (g : gst) (t q : nat) (v : bool) : gst :=
  let tk := (t, nxt g t) in
  {| st := st g; pul := pul g; qs := qs g; sq := sq g ++ [(q, tk)]; heldl := heldl g; waiting := waiting g; rr := rr g; live := S (live g); nxt := upd (nxt g) t (S (nxt g t)); executed := executed g; submitted := tk :: submitted g; fresh := upd (fresh g) q (fresh g q ++ [tk]); calls := calls g; validated := if v then tk :: validated g else validated g |}.

(* worker w takes a task out of the PENDING part of queue v *)
Definition take (g : gst) (w v : nat) : option gst :=
  match extract v (qs g) with
  | Some (tk, r) => Some {| st := st g; pul := pul g; qs := r; sq := sq g; heldl := (w, tk) :: heldl g; waiting := waiting g; rr := rr g; live := live g; nxt := nxt g; executed := executed g; submitted := submitted g; fresh := fresh g; calls := calls g; validated := validated g |}
  | None => None
  end.

(* thread_queue::add_new: one staged entry of queue src becomes a pending entry of queue dst *)
Definition move1 (g : gst) (dst src : nat) : option gst :=
  match extract src (sq g) with
  | Some (tk, r) => Some {| st := st g; pul := pul g; qs := qs g ++ [(dst, tk)]; sq := r; heldl := heldl g; waiting := waiting g; rr := rr g; live := live g; nxt := nxt g; executed := executed g; submitted := submitted g; fresh := fresh g; calls := calls g; validated := validated g |}
  | None => None
  end.

(* ... a batch of at most n of them (add_count), in one critical section of the queue mutex *)
Fixpoint moven (n : nat) (g : gst) (dst src : nat) : gst :=
  match n with
  | O => g
  | S k => match move1 g dst src with Some g' => moven k g' dst src | None => g end
  end.

Definition exec (g : gst) (w : nat) : gst :=
  match extract w (heldl g) with
  | Some (tk, r) => {| st := st g; pul := pul g; qs := qs g; sq := sq g; heldl := r; waiting := waiting g; rr := rr g; live := pred (live g); nxt := nxt g; executed := (tk, w) :: executed g; submitted := submitted g; fresh := fresh g; calls := calls g; validated := validated g |}
  | None => g
  end.

(* the tasks get_queue_length(w) counts *)
Definition qlen_tasks (c : cfg) (w : nat) (g : gst) : list task :=
  qof w (qs g) ++ qof w (sq g) ++ (if lastw c w then qof (lowq c) (qs g) ++ qof (lowq c) (sq g) else []).

(* ---- thread-local state ---- *)
Inductive wpc :=
| WTop                      (* loop head: running := state < g_running_below *)
| WPop (r : bool)           (* get_next_thread: own pending queue; own staged != 0 -> give up; !running -> give up *)
| WSteal                    (* running: steal a PENDING task of a victim (stealing only) *)
| WLowPop                   (* running: low_priority_queue_.get_next_thread (pending part) *)
| WExec                     (* run the task *)
| WAdd (r : bool)           (* wait_or_add_new: convert own staged tasks (whatever running is); !running -> return *)
| WAddSteal                 (* running: convert STAGED tasks of a victim into the own pending queue (stealing only) *)
| WAddLow                   (* running, LAST worker only: convert the staged low-priority tasks *)
| WIdle (r : bool)          (* idle branch: can_exit := !running && get_queue_length(w) == 0 *)
| WCheck (ce : bool)        (* if (state == g_sleep_if) { if (can_exit) suspend(); } *)
| WStore                    (* scheduler_base::suspend: states_[w].store(g_sleep_store) *)
| WEnterWait                (* lock suspend_mtxs_[w]; suspend_conds_[w].wait *)
| WWaiting                  (* blocked in wait *)
| WWoken.                   (* CAS g_wake_from -> g_wake_to *)

Inductive phase :=
| Ph0
| PhHold (w : nat)                                  (* owns pu_mtxs_[w] *)
| PhSelA (s k cnt : nat) (m : rstate)               (* select_active_pu, probe k: try_lock + test under the lock *)
| PhSelB (s k cnt : nat) (m : rstate)               (* probe k: unlocked re-read for num_allowed_threads *)
| PhEnq (w : nat).                                  (* enqueue without a lock (no elasticity / gave up) *)

(* vl (ghost): the PU lock now held was taken by select_active_pu with the initial max_allowed_state *)
Record client := { todo : list prim; ph : phase; err : bool; vl : bool }.

Inductive lstate := LWorker (pc : wpc) | LClient (cl : client) | LNone.

Definition oracle := (bool * nat)%type.     (* (try_lock contention / spurious wake-up, victim choice and batch size) *)

Definition escalate (m : rstate) : option rstate :=
  if rs_le m g_sel_esc1_if then Some g_sel_esc1
  else if rs_le m g_sel_esc2_if then Some g_sel_esc2 else None.

Definition sleepy (pc : wpc) : bool :=
  match pc with WCheck true | WStore | WEnterWait | WWaiting | WWoken => true | _ => false end.

Definition victim (c : cfg) (o : oracle) : nat := Nat.modulo (snd o) (nw c).
Definition batch (c : cfg) (o : oracle) : nat := S (Nat.div (snd o) (nw c)).

Definition reset_fresh (c : cfg) (w : nat) (g : gst) : gst :=
  let f1 := upd (fresh g) w [] in
  set_fresh g (if lastw c w then upd f1 (lowq c) [] else f1).

Definition worker_step (c : cfg) (o : oracle) (w : nat) (g : gst) (pc : wpc) : gst * wpc :=
  match pc with
  | WTop => (g, WPop (rs_lt (st g w) g_running_below))
  | WPop r =>
      match take g w w with
      | Some g' => (g', WExec)
      | None => if nonempty (qof w (sq g)) then (g, WAdd r) else if r then (g, WSteal) else (g, WAdd r)
      end
  | WSteal =>
      if stealing c then
        if Nat.eqb (victim c o) w then (g, WLowPop)
        else match take g w (victim c o) with Some g' => (g', WExec) | None => (g, WLowPop) end
      else (g, WLowPop)
  | WLowPop => match take g w (lowq c) with Some g' => (g', WExec) | None => (g, WAdd true) end
  | WExec => (exec g w, WTop)
  | WAdd r =>
      if nonempty (qof w (sq g)) && negb (fst o) then (moven (batch c o) g w w, WTop)
      else if r then (g, WAddSteal) else (g, WIdle false)
  | WAddSteal =>
      if stealing c && negb (Nat.eqb (victim c o) w) && negb (fst o) && nonempty (qof (victim c o) (sq g))
      then (moven (batch c o) g w (victim c o), WTop)
      else (g, WAddLow)
  | WAddLow =>
      if lastw c w && negb (fst o) && nonempty (qof (lowq c) (sq g))
      then (moven (batch c o) g (lowq c) (lowq c), WTop)
      else (g, WIdle true)
  | WIdle r =>
      match qlen_tasks c w g with
      | [] => if r then (g, WCheck false) else (reset_fresh c w g, WCheck true)
      | _ :: _ => (g, WCheck false)
      end
  | WCheck ce => if rs_eqb (st g w) g_sleep_if then (if ce then (g, WStore) else (g, WTop)) else (g, WTop)
  | WStore => (set_st g (upd (st g) w g_sleep_store), WEnterWait)
  | WEnterWait => (set_waiting g (upd (waiting g) w true), WWaiting)
  | WWaiting => if negb (waiting g w) || fst o then (set_waiting g (upd (waiting g) w false), WWoken) else (g, WWaiting)
  | WWoken => (set_st g (upd (st g) w (cas (st g w) g_wake_from g_wake_to)), WTop)
  end.

Definition notify (g : gst) (w : nat) : gst :=
  if g_resume_notifies then set_waiting g (upd (waiting g) w false) else g.

Definition cl_next (cl : client) : client := {| todo := tl (todo cl); ph := Ph0; err := err cl; vl := false |}.
Definition cl_ph (cl : client) (p : phase) : client := {| todo := todo cl; ph := p; err := err cl; vl := false |}.
Definition cl_sel (cl : client) (i : nat) (v : bool) : client := {| todo := todo cl; ph := PhHold i; err := err cl; vl := v |}.

Definition client_step (c : cfg) (o : oracle) (t : nat) (g : gst) (cl : client) : gst * client :=
  match todo cl with
  | [] => (g, cl)
  | p :: rest =>
    match p with
    | PRefuse => (g, {| todo := rest; ph := Ph0; err := true; vl := false |})
    | PRet k => (set_calls g ((t, k, err cl) :: calls g), {| todo := rest; ph := Ph0; err := false; vl := false |})
    | PLockedCas w =>
        match ph cl with
        | PhHold _ => (set_pul (set_st g (upd (st g) w (cas (st g w) g_sus_from g_sus_to))) (upd (pul g) w None), cl_next cl)
        | _ => match pul g w with
               | None => (set_pul g (upd (pul g) w (Some t)), cl_ph cl (PhHold w))
               | Some _ => (g, cl)
               end
        end
    | PLockedNop w =>
        match ph cl with
        | PhHold _ => (set_pul g (upd (pul g) w None), cl_next cl)
        | _ => match pul g w with
               | None => (set_pul g (upd (pul g) w (Some t)), cl_ph cl (PhHold w))
               | Some _ => (g, cl)
               end
        end
    | PWaitNot w s => if rs_eqb (st g w) s then (g, cl) else (g, cl_next cl)
    | PCas w => (set_st g (upd (st g) w (cas (st g w) g_pool_from g_pool_to)), cl_next cl)
    | PNotify w => (notify g w, cl_next cl)
    | PResumeLoop w => if rs_eqb (st g w) g_res_wait then (notify g w, cl) else (notify g w, cl_next cl)
    | PWaitIdle => match live g with O => (g, cl_next cl) | S _ => (g, cl) end
    | PSubmit h low =>
        match ph cl with
        | Ph0 =>
            let '(s, g1) := match h with
                            | Some x => (Nat.modulo x (nw c), g)
                            | None => (Nat.modulo (rr g) (nw c), set_rr g (S (rr g)))
                            end in
            (g1, cl_ph cl (if elastic c then PhSelA s 0 0 g_sel_init else PhEnq s))
        | PhSelA s k cnt m =>
            let i := Nat.modulo (s + k) (nw c) in
            match pul g i with
            | None => if negb (fst o) && rs_le (st g i) m
                      then (set_pul g (upd (pul g) i (Some t)), cl_sel cl i (rs_eqb m g_sel_init))
                      else (g, cl_ph cl (PhSelB s k cnt m))
            | Some _ => (g, cl_ph cl (PhSelB s k cnt m))
            end
        | PhSelB s k cnt m =>
            let i := Nat.modulo (s + k) (nw c) in
            let cnt' := if rs_le (st g i) m then S cnt else cnt in
            if Nat.ltb (S k) (nw c) then (g, cl_ph cl (PhSelA s (S k) cnt' m))
            else match cnt' with
                 | O => match escalate m with
                        | Some m' => (g, cl_ph cl (PhSelA s 0 0 m'))
                        | None => (g, cl_ph cl (PhEnq s))
                        end
                 | S _ => (g, cl_ph cl (PhSelA s 0 0 m))
                 end
        | PhHold i => (set_pul (enqueue g t (if low then lowq c else i) (vl cl && negb low)) (upd (pul g) i None), cl_next cl)
        | PhEnq i => (enqueue g t (if low then lowq c else i) false, cl_next cl)
        end
    end
  end.

Definition sr_tstep (c : cfg) (o : oracle) (t : nat) (g : gst) (l : lstate) : gst * lstate :=
  match l with
  | LWorker pc => if Nat.ltb t (nw c) then let '(g', pc') := worker_step c o t g pc in (g', LWorker pc') else (g, l)
  | LClient cl => if Nat.ltb t (nw c) then (g, l) else let '(g', cl') := client_step c o t g cl in (g', LClient cl')
  | LNone => (g, l)
  end.

Definition sr_g0 : gst :=
  {| st := fun _ => rs_running; pul := fun _ => None; qs := []; sq := []; heldl := []; waiting := fun _ => false; rr := 0; live := 0;
     nxt := fun _ => 0; executed := []; submitted := []; fresh := fun _ => []; calls := []; validated := [] |}.

Definition sr_locals (c : cfg) (progs : nat -> list api) : nat -> lstate :=
  fun t => if Nat.ltb t (nw c) then LWorker WTop
           else LClient {| todo := flat_map (expand c) (progs t); ph := Ph0; err := false; vl := false |}.

Definition sr_run (c : cfg) (progs : nat -> list api) (sched : list (nat * oracle)) : gst * (nat -> lstate) :=
  run (sr_tstep c) sched (sr_g0, sr_locals c progs).

(* ---- enabledness: can the thread make a step that is not idle spinning / blocked waiting? ----
   A worker in its polling cycle is enabled iff the cycle can change the shared state:
     own_work   its own pending/staged queue is not empty (popped / converted whatever `running` is);
     can_sleep  it is not running any more (told to sleep) and get_queue_length(w) == 0 (can_exit);
     run_work   it is running (or still believes so: [stale]) and there is something a running worker may take:
                pending/staged tasks of other workers (stealing only), pending low-priority tasks, staged low-priority tasks
                (LAST worker only). *)
Definition has_normal (c : cfg) (l : list (nat * task)) : bool := existsb (fun e => Nat.ltb (fst e) (nw c)) l.
Definition own_work (w : nat) (g : gst) : bool := nonempty (qof w (qs g)) || nonempty (qof w (sq g)).
Definition steal_p (c : cfg) (g : gst) : bool := stealing c && has_normal c (qs g).
Definition steal_s (c : cfg) (g : gst) : bool := stealing c && has_normal c (sq g).
Definition low_p (c : cfg) (g : gst) : bool := nonempty (qof (lowq c) (qs g)).
Definition low_s (c : cfg) (w : nat) (g : gst) : bool := lastw c w && nonempty (qof (lowq c) (sq g)).
Definition run_work (c : cfg) (w : nat) (g : gst) : bool := steal_p c g || steal_s c g || low_p c g || low_s c w g.
(* can_exit of the next iteration: !running && get_queue_length(w) == 0 *)
Definition can_sleep (c : cfg) (w : nat) (g : gst) : bool := negb (rs_lt (st g w) g_running_below) && negb (nonempty (qlen_tasks c w g)).

(* what the rest of the current iteration can still do on the strength of an old `running = true` / `can_exit = true` *)
Definition stale (c : cfg) (w : nat) (g : gst) (pc : wpc) : bool :=
  match pc with
  | WPop true | WSteal => run_work c w g
  | WLowPop => steal_s c g || low_p c g || low_s c w g
  | WAdd true | WAddSteal => steal_s c g || low_s c w g
  | WAddLow => low_s c w g
  | WPop false | WAdd false | WIdle false => negb (nonempty (qlen_tasks c w g))   (* leads to the ghost reset of [fresh] *)
  | WCheck true => rs_eqb (st g w) g_sleep_if
  | _ => false
  end.

Definition worker_enabled (c : cfg) (w : nat) (g : gst) (pc : wpc) : bool :=
  match pc with
  | WWaiting => negb (waiting g w)
  | WExec | WStore | WEnterWait | WWoken => true
  | _ => own_work w g || can_sleep c w g || (rs_lt (st g w) g_running_below && run_work c w g) || stale c w g pc
  end.

Definition client_enabled (c : cfg) (g : gst) (cl : client) : bool :=
  match todo cl with
  | [] => false
  | p :: _ =>
    match p with
    | PLockedCas w | PLockedNop w =>
        match ph cl with PhHold _ => true | _ => match pul g w with None => true | Some _ => false end end
    | PWaitNot w s => negb (rs_eqb (st g w) s)
    | PResumeLoop w => negb (rs_eqb (st g w) g_res_wait) || (g_resume_notifies && waiting g w)
    | PWaitIdle => match live g with O => true | S _ => false end
    | _ => true
    end
  end.

Definition enabled (c : cfg) (t : nat) (g : gst) (l : lstate) : bool :=
  match l with
  | LWorker pc => Nat.ltb t (nw c) && worker_enabled c t g pc
  | LClient cl => negb (Nat.ltb t (nw c)) && client_enabled c g cl
  | LNone => false
  end.

Definition client_done (l : lstate) : bool :=
  match l with LClient cl => match todo cl with [] => true | _ => false end | _ => true end.

(* a pool-suspend waiting for the pool to drain *)
Definition at_wait_idle (l : lstate) : bool :=
  match l with LClient cl => match todo cl with PWaitIdle :: _ => true | _ => false end | _ => false end.

(* a processing-unit suspend of worker w spinning in yield_while(state == pre_sleep) *)
Definition at_wait_sleep (w : nat) (l : lstate) : bool :=
  match l with
  | LClient cl => match todo cl with PWaitNot w' s :: _ => Nat.eqb w' w && rs_eqb s g_sus_wait | _ => false end
  | _ => false
  end.
