(* Model/SuspendResume.v — C19: suspending / resuming thread pools and single processing units.
   Code: scheduled_thread_pool_impl.hpp (suspend_processing_unit_direct/_internal,
   resume_processing_unit_direct, suspend_direct/_internal, resume_direct/_internal),
   scheduler_base.cpp (suspend, resume, select_active_pu), scheduling_loop.hpp (idle branch),
   local_priority_queue_scheduler.hpp (create_thread: select_active_pu + enqueue under the PU lock,
   get_next_thread: own queue first, stealing only while `running`).
   Every runtime_state constant and the "refusal is followed by return" facts come from
   Gen/GenRuntimeState.v (regenerated from the source on every run).

   Threads: thread t < nw is worker t (scheduling_loop of virtual core t); every other thread is a client
   (OS thread or task of ANOTHER pool) executing a list of API calls, each expanded into the primitive
   atomic steps the code performs.  One step = one atomic access or one critical section.

   Executable definitions only; proofs are in Proofs/SuspendResumeProofs.v. *)
From Coq Require Import List NArith Bool Arith.
From Pika Require Import Base.Conc Gen.GenRuntimeState.
Import ListNotations.

Definition task := (nat * nat)%type.           (* (submitting thread, its sequence number) *)
Definition task_eqb (a b : task) : bool := Nat.eqb (fst a) (fst b) && Nat.eqb (snd a) (snd b).

Record cfg := { nw : nat; elastic : bool; stealing : bool }.

Inductive callkind := KSuspendPU | KResumePU | KSuspendPool | KResumePool.

(* API calls.  [self]: the caller is a pika thread of this very pool (only used for the refusals;
   accepted calls are issued by OS threads / tasks of other pools). *)
Inductive api :=
| ASuspendPU (w : nat) (self : bool)
| AResumePU (w : nat)
| ASuspendPool (self : bool)
| AResumePool
| ASubmit (hint : option nat).

Inductive prim :=
| PRefuse                           (* PIKA_THROWS_IF(ec, ...) with a non-throwing error_code: ec := error *)
| PRet (k : callkind)               (* the call returns *)
| PLockedCas (w : nat)              (* yield_while(!l.try_lock()) ; CAS g_sus_from -> g_sus_to ; unlock *)
| PLockedNop (w : nat)              (* resume_processing_unit_direct: lock, joinable check, unlock *)
| PWaitNot (w : nat) (s : rstate)   (* yield_while(state == s) *)
| PCas (w : nat)                    (* suspend_internal: CAS g_pool_from -> g_pool_to, no lock *)
| PNotify (w : nat)                 (* scheduler_base::resume(w) *)
| PResumeLoop (w : nat)             (* yield_while({ resume(w); return state == g_res_wait; }) *)
| PWaitIdle                         (* suspend_internal: yield_while(get_thread_count() > 0) *)
| PSubmit (hint : option nat).      (* create_thread: pick queue, select_active_pu, enqueue, unlock *)

Definition spu_internal (w : nat) : list prim := [PLockedCas w; PWaitNot w g_sus_wait].

(* suspend_processing_unit_direct, control flow as written: a refusal that is not followed by
   `return` falls through *)
Definition spu_direct (c : cfg) (w : nat) (self : bool) : list prim :=
  let r1 := nth 0 g_spu_refusal_returns false in
  let r2 := nth 1 g_spu_refusal_returns false in
  let body := spu_internal w in
  let chk2 := if self && negb (stealing c) then (if r2 then [PRefuse] else PRefuse :: body) else body in
  if negb (elastic c) then (if r1 then [PRefuse] else PRefuse :: chk2) else chk2.

Definition pool_suspend (c : cfg) (self : bool) : list prim :=
  let body := PWaitIdle :: map PCas (seq 0 (nw c)) ++ flat_map spu_internal (seq 0 (nw c)) in
  if self then (if g_pool_refusal_returns then [PRefuse] else PRefuse :: body) else body.

Definition pool_resume (c : cfg) : list prim :=
  map PNotify (seq 0 (nw c)) ++ flat_map (fun w => [PLockedNop w; PResumeLoop w]) (seq 0 (nw c)).

Definition expand (c : cfg) (a : api) : list prim :=
  match a with
  | ASuspendPU w self => spu_direct c w self ++ [PRet KSuspendPU]
  | AResumePU w => [PLockedNop w; PResumeLoop w; PRet KResumePU]
  | ASuspendPool self => pool_suspend c self ++ [PRet KSuspendPool]
  | AResumePool => pool_resume c ++ [PRet KResumePool]
  | ASubmit h => [PSubmit h]
  end.

(* the decision function of the API: is the call refused? (compared with the observed error codes) *)
Definition refused (c : cfg) (a : api) : bool :=
  match a with
  | ASuspendPU _ self => negb (elastic c) || (self && negb (stealing c))
  | ASuspendPool self => self
  | _ => false
  end.

(* ---- shared state ---- *)
Record gst := {
  st : nat -> rstate;                 (* states_[w] *)
  pul : nat -> option nat;            (* pu_mtxs_[w]: holder *)
  qs : list (nat * task);             (* all queues: (queue index, task) in enqueue order; queue w = entries with index w
                                         (staged and pending tasks are not distinguished) *)
  heldl : list (nat * task);          (* (worker, task popped and not yet executed) *)
  waiting : nat -> bool;              (* worker w is blocked in suspend_conds_[w].wait and not yet notified *)
  rr : nat;                           (* curr_queue_ *)
  live : nat;                         (* get_thread_count(): tasks created and not yet terminated *)
  nxt : nat -> nat;                   (* per submitting thread: next sequence number *)
  (* ghost *)
  executed : list (task * nat);       (* (task, worker that ran it), newest first *)
  submitted : list task;              (* newest first *)
  fresh : nat -> list task;           (* tasks enqueued on queue w since worker w last saw it empty in the idle branch *)
  calls : list (nat * callkind * bool)  (* (thread, call, error reported), newest first *)
}.

Definition set_st g f := {| st := f; pul := pul g; qs := qs g; heldl := heldl g; waiting := waiting g; rr := rr g; live := live g;
  nxt := nxt g; executed := executed g; submitted := submitted g; fresh := fresh g; calls := calls g |}.
Definition set_pul g f := {| st := st g; pul := f; qs := qs g; heldl := heldl g; waiting := waiting g; rr := rr g; live := live g;
  nxt := nxt g; executed := executed g; submitted := submitted g; fresh := fresh g; calls := calls g |}.
Definition set_waiting g f := {| st := st g; pul := pul g; qs := qs g; heldl := heldl g; waiting := f; rr := rr g; live := live g;
  nxt := nxt g; executed := executed g; submitted := submitted g; fresh := fresh g; calls := calls g |}.
Definition set_rr g r := {| st := st g; pul := pul g; qs := qs g; heldl := heldl g; waiting := waiting g; rr := r; live := live g;
  nxt := nxt g; executed := executed g; submitted := submitted g; fresh := fresh g; calls := calls g |}.
Definition set_fresh g f := {| st := st g; pul := pul g; qs := qs g; heldl := heldl g; waiting := waiting g; rr := rr g; live := live g;
  nxt := nxt g; executed := executed g; submitted := submitted g; fresh := f; calls := calls g |}.
Definition set_calls g c := {| st := st g; pul := pul g; qs := qs g; heldl := heldl g; waiting := waiting g; rr := rr g; live := live g;
  nxt := nxt g; executed := executed g; submitted := submitted g; fresh := fresh g; calls := c |}.

Definition cas (s from to : rstate) : rstate := if rs_eqb s from then to else s.

Definition qof (w : nat) (l : list (nat * task)) : list task :=
  map snd (filter (fun e => Nat.eqb (fst e) w) l).

(* remove the first entry with index w *)
Fixpoint extract (w : nat) (l : list (nat * task)) : option (task * list (nat * task)) :=
  match l with
  | [] => None
  | e :: r => if Nat.eqb (fst e) w then Some (snd e, r)
              else match extract w r with Some (tk, r') => Some (tk, e :: r') | None => None end
  end.

(* queue push: create_thread under (or, without elasticity, without) the PU lock *)
Definition enqueue (g : gst) (t i : nat) : gst :=
  let tk := (t, nxt g t) in
  {| st := st g; pul := pul g; qs := qs g ++ [(i, tk)]; heldl := heldl g; waiting := waiting g; rr := rr g; live := S (live g);
     nxt := upd (nxt g) t (S (nxt g t)); executed := executed g; submitted := tk :: submitted g;
     fresh := upd (fresh g) i (fresh g i ++ [tk]); calls := calls g |}.

(* worker w takes a task out of queue v *)
Definition take (g : gst) (w v : nat) : option gst :=
  match extract v (qs g) with
  | Some (tk, r) => Some {| st := st g; pul := pul g; qs := r; heldl := (w, tk) :: heldl g; waiting := waiting g; rr := rr g;
                            live := live g; nxt := nxt g; executed := executed g; submitted := submitted g; fresh := fresh g;
                            calls := calls g |}
  | None => None
  end.

Definition exec (g : gst) (w : nat) : gst :=
  match extract w (heldl g) with
  | Some (tk, r) => {| st := st g; pul := pul g; qs := qs g; heldl := r; waiting := waiting g; rr := rr g; live := pred (live g);
                       nxt := nxt g; executed := (tk, w) :: executed g; submitted := submitted g; fresh := fresh g;
                       calls := calls g |}
  | None => g
  end.

(* ---- thread-local state ---- *)
Inductive wpc :=
| WTop                      (* loop head: running := state < g_running_below *)
| WPop (r : bool)           (* get_next_thread: own queue; other queues only when running and stealing *)
| WExec                     (* run the task *)
| WIdle (r : bool)          (* idle branch: can_exit := !running && queue length == 0 *)
| WCheck (ce : bool)        (* if (state == g_sleep_if) { if (can_exit) suspend(); } *)
| WStore                    (* scheduler_base::suspend: states_[w].store(g_sleep_store) *)
| WEnterWait                (* lock suspend_mtxs_[w]; suspend_conds_[w].wait *)
| WWaiting                  (* blocked in wait *)
| WWoken.                   (* CAS g_wake_from -> g_wake_to *)

Inductive phase :=
| Ph0
| PhHold (w : nat)                                  (* owns pu_mtxs_[w] *)
| PhSelA (s k cnt : nat) (m : rstate)               (* select_active_pu, probe k: try_lock + test under the lock *)
| PhSelB (s k cnt : nat) (m : rstate)               (* probe k: unlocked re-read for num_allowed_threads *)
| PhEnq (w : nat).                                  (* enqueue without a lock (no elasticity / gave up) *)

Record client := { todo : list prim; ph : phase; err : bool }.

Inductive lstate := LWorker (pc : wpc) | LClient (cl : client) | LNone.

Definition oracle := (bool * nat)%type.     (* (try_lock contention / spurious wake-up, victim choice) *)

Definition escalate (m : rstate) : option rstate :=
  if rs_le m g_sel_esc1_if then Some g_sel_esc1
  else if rs_le m g_sel_esc2_if then Some g_sel_esc2 else None.

Definition sleepy (pc : wpc) : bool :=
  match pc with WCheck true | WStore | WEnterWait | WWaiting | WWoken => true | _ => false end.

Definition worker_step (c : cfg) (o : oracle) (w : nat) (g : gst) (pc : wpc) : gst * wpc :=
  match pc with
  | WTop => (g, WPop (rs_lt (st g w) g_running_below))
  | WPop r =>
      match take g w w with
      | Some g' => (g', WExec)
      | None =>
          if r && stealing c then
            let v := Nat.modulo (snd o) (nw c) in
            if Nat.eqb v w then (g, WIdle r)
            else match take g w v with Some g' => (g', WExec) | None => (g, WIdle r) end
          else (g, WIdle r)
      end
  | WExec => (exec g w, WTop)
  | WIdle r =>
      match qof w (qs g) with
      | [] => if r then (g, WCheck false) else (set_fresh g (upd (fresh g) w []), WCheck true)
      | _ :: _ => (g, WCheck false)
      end
  | WCheck ce => if rs_eqb (st g w) g_sleep_if then (if ce then (g, WStore) else (g, WTop)) else (g, WTop)
  | WStore => (set_st g (upd (st g) w g_sleep_store), WEnterWait)
  | WEnterWait => (set_waiting g (upd (waiting g) w true), WWaiting)
  | WWaiting => if negb (waiting g w) || fst o then (set_waiting g (upd (waiting g) w false), WWoken) else (g, WWaiting)
  | WWoken => (set_st g (upd (st g) w (cas (st g w) g_wake_from g_wake_to)), WTop)
  end.

Definition notify (g : gst) (w : nat) : gst :=
  if g_resume_notifies then set_waiting g (upd (waiting g) w false) else g.

Definition cl_next (cl : client) : client := {| todo := tl (todo cl); ph := Ph0; err := err cl |}.
Definition cl_ph (cl : client) (p : phase) : client := {| todo := todo cl; ph := p; err := err cl |}.

Definition client_step (c : cfg) (o : oracle) (t : nat) (g : gst) (cl : client) : gst * client :=
  match todo cl with
  | [] => (g, cl)
  | p :: rest =>
    match p with
    | PRefuse => (g, {| todo := rest; ph := Ph0; err := true |})
    | PRet k => (set_calls g ((t, k, err cl) :: calls g), {| todo := rest; ph := Ph0; err := false |})
    | PLockedCas w =>
        match ph cl with
        | PhHold _ => (set_pul (set_st g (upd (st g) w (cas (st g w) g_sus_from g_sus_to))) (upd (pul g) w None), cl_next cl)
        | _ => match pul g w with
               | None => (set_pul g (upd (pul g) w (Some t)), cl_ph cl (PhHold w))
               | Some _ => (g, cl)
               end
        end
    | PLockedNop w =>
        match ph cl with
        | PhHold _ => (set_pul g (upd (pul g) w None), cl_next cl)
        | _ => match pul g w with
               | None => (set_pul g (upd (pul g) w (Some t)), cl_ph cl (PhHold w))
               | Some _ => (g, cl)
               end
        end
    | PWaitNot w s => if rs_eqb (st g w) s then (g, cl) else (g, cl_next cl)
    | PCas w => (set_st g (upd (st g) w (cas (st g w) g_pool_from g_pool_to)), cl_next cl)
    | PNotify w => (notify g w, cl_next cl)
    | PResumeLoop w => if rs_eqb (st g w) g_res_wait then (notify g w, cl) else (notify g w, cl_next cl)
    | PWaitIdle => match live g with O => (g, cl_next cl) | S _ => (g, cl) end
    | PSubmit h =>
        match ph cl with
        | Ph0 =>
            let '(s, g1) := match h with
                            | Some x => (Nat.modulo x (nw c), g)
                            | None => (Nat.modulo (rr g) (nw c), set_rr g (S (rr g)))
                            end in
            (g1, cl_ph cl (if elastic c then PhSelA s 0 0 g_sel_init else PhEnq s))
        | PhSelA s k cnt m =>
            let i := Nat.modulo (s + k) (nw c) in
            match pul g i with
            | None => if negb (fst o) && rs_le (st g i) m
                      then (set_pul g (upd (pul g) i (Some t)), cl_ph cl (PhHold i))
                      else (g, cl_ph cl (PhSelB s k cnt m))
            | Some _ => (g, cl_ph cl (PhSelB s k cnt m))
            end
        | PhSelB s k cnt m =>
            let i := Nat.modulo (s + k) (nw c) in
            let cnt' := if rs_le (st g i) m then S cnt else cnt in
            if Nat.ltb (S k) (nw c) then (g, cl_ph cl (PhSelA s (S k) cnt' m))
            else match cnt' with
                 | O => match escalate m with
                        | Some m' => (g, cl_ph cl (PhSelA s 0 0 m'))
                        | None => (g, cl_ph cl (PhEnq s))
                        end
                 | S _ => (g, cl_ph cl (PhSelA s 0 0 m))
                 end
        | PhHold i => (set_pul (enqueue g t i) (upd (pul g) i None), cl_next cl)
        | PhEnq i => (enqueue g t i, cl_next cl)
        end
    end
  end.

Definition sr_tstep (c : cfg) (o : oracle) (t : nat) (g : gst) (l : lstate) : gst * lstate :=
  match l with
  | LWorker pc => if Nat.ltb t (nw c) then let '(g', pc') := worker_step c o t g pc in (g', LWorker pc') else (g, l)
  | LClient cl => if Nat.ltb t (nw c) then (g, l) else let '(g', cl') := client_step c o t g cl in (g', LClient cl')
  | LNone => (g, l)
  end.

Definition sr_g0 : gst :=
  {| st := fun _ => rs_running; pul := fun _ => None; qs := []; heldl := []; waiting := fun _ => false; rr := 0; live := 0;
     nxt := fun _ => 0; executed := []; submitted := []; fresh := fun _ => []; calls := [] |}.

Definition sr_locals (c : cfg) (progs : nat -> list api) : nat -> lstate :=
  fun t => if Nat.ltb t (nw c) then LWorker WTop
           else LClient {| todo := flat_map (expand c) (progs t); ph := Ph0; err := false |}.

Definition sr_run (c : cfg) (progs : nat -> list api) (sched : list (nat * oracle)) : gst * (nat -> lstate) :=
  run (sr_tstep c) sched (sr_g0, sr_locals c progs).

(* ---- enabledness: can the thread make a step that is not idle spinning / blocked waiting? ---- *)
Definition any_queue_nonempty (g : gst) : bool := match qs g with [] => false | _ => true end.

Definition worker_enabled (c : cfg) (w : nat) (g : gst) (pc : wpc) : bool :=
  match pc with
  | WTop | WIdle _ | WCheck _ =>
      (* the polling cycle: productive iff there is something to pop, or the worker has been told to sleep *)
      negb (match qof w (qs g) with [] => true | _ => false end)
      || rs_eqb (st g w) g_sleep_if
      || (stealing c && rs_lt (st g w) g_running_below && any_queue_nonempty g)
  | WPop r =>
      negb (match qof w (qs g) with [] => true | _ => false end)
      || rs_eqb (st g w) g_sleep_if
      || (stealing c && (r || rs_lt (st g w) g_running_below) && any_queue_nonempty g)
  | WWaiting => negb (waiting g w)
  | WExec | WStore | WEnterWait | WWoken => true
  end.

Definition client_enabled (c : cfg) (g : gst) (cl : client) : bool :=
  match todo cl with
  | [] => false
  | p :: _ =>
    match p with
    | PLockedCas w | PLockedNop w =>
        match ph cl with PhHold _ => true | _ => match pul g w with None => true | Some _ => false end end
    | PWaitNot w s => negb (rs_eqb (st g w) s)
    | PResumeLoop w => negb (rs_eqb (st g w) g_res_wait) || (g_resume_notifies && waiting g w)
    | PWaitIdle => match live g with O => true | S _ => false end
    | _ => true
    end
  end.

Definition enabled (c : cfg) (t : nat) (g : gst) (l : lstate) : bool :=
  match l with
  | LWorker pc => Nat.ltb t (nw c) && worker_enabled c t g pc
  | LClient cl => negb (Nat.ltb t (nw c)) && client_enabled c g cl
  | LNone => false
  end.

Definition client_done (l : lstate) : bool :=
  match l with LClient cl => match todo cl with [] => true | _ => false end | _ => true end.

(* a pool-suspend waiting for the pool to drain *)
Definition at_wait_idle (l : lstate) : bool :=
  match l with LClient cl => match todo cl with PWaitIdle :: _ => true | _ => false end | _ => false end.
