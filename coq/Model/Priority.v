(* Model/Priority.v — C10: which priority a new task gets, hence which queue family it lands in.
   Executable definitions only; proofs are in Proofs/PriorityProofs.v.

   threads::detail::create_work (every thread_pool_scheduler submission: execute, schedule,
   schedule_from / continues_on, transfer_just, bulk task_functions; register_work) and
   threads::detail::create_thread (pika::thread, register_thread) resolve data.priority by a
   sequence of guarded assignments before they hand the data to scheduler->create_thread.  The
   sequence — its ORDER, the tested constants and the assigned constants — is regenerated from
   the two source files into Gen/GenPriority.v (tools/genmods/c10.py); here it is interpreted.

   [parent] is the STORED priority of the running pika task that submits (thread_data::get_priority()
   of get_self_id()), [None] when the submitter is not a pika task (self == nullptr). *)
From Coq Require Import List NArith Bool ZArith.
From Pika Require Import Gen.GenPriority Model.Placement.
Import ListNotations.

Definition step_prio (parent : option rprio) (cur : rprio) (s : pstep) : rprio :=
  match s with
  | SInherit tested parent_is newp =>
      match parent with
      | Some pp => if rp_eqb cur tested && rp_eqb parent_is pp then newp else cur
      | None => cur
      end
  | SDefault tested newp => if rp_eqb cur tested then newp else cur
  end.

Definition resolve_with (steps : list pstep) (requested : rprio) (parent : option rprio) : rprio :=
  fold_left (step_prio parent) steps requested.

(* create_work *)
Definition resolve_priority (requested : rprio) (parent : option rprio) : rprio :=
  resolve_with g_cw_steps requested parent.
(* create_thread *)
Definition resolve_priority_thread (requested : rprio) (parent : option rprio) : rprio :=
  resolve_with g_ct_steps requested parent.

(* create_work: run_now (the thread object is created at once instead of a staged description) *)
Definition run_now (p : rprio) : bool := existsb (rp_eqb p) g_cw_run_now.

(* local_priority_queue_scheduler::create_thread: high_recursive | high | boost -> high-priority
   queue (boost is stored as normal), low -> the low-priority queue, everything else (normal, and
   bound / default_ / unknown, which the switch does not mention) -> the worker's normal queue.
   This is the priority type of Model/Placement.v. *)
Definition placement_prio (p : rprio) : prio :=
  match p with
  | rp_high_recursive | rp_high => PHigh
  | rp_boost => PBoost
  | rp_low => PLow
  | _ => PNormal
  end.

(* thread_data::get_priority() of the created task: boost is stored as normal *)
Definition stored_rprio (p : rprio) : rprio := match p with rp_boost => rp_normal | x => x end.

(* the queue a new task is pushed on (elasticity off): Placement.v's hint -> queue function applied
   to the RESOLVED priority.  [rr] = curr_queue_ (used only without a hint). *)
Definition child_queue (c : pool_cfg) (p : nat) (requested : rprio) (parent : option rprio)
                       (h : hint) (rr : nat) : qid :=
  queue_of c p (qkind_of c (placement_prio (resolve_priority requested parent)))
           (fst (base_queue (pW c) rr h)).

(* table used by the correspondence driver *)
Definition resolve_table : list (rprio * option rprio * rprio) :=
  flat_map (fun r => map (fun pp => (r, pp, resolve_priority r pp)) (None :: map Some rp_all)) rp_all.
