(* Model/JoinAccess.v — C03: ghost access log over the when_all / when_all_vector join of
   Model/Handoff.v (w_tstep is NOT changed; wa_tstep calls it and appends to a log):
     AFlag    W1: the child's receiver accesses set_stopped_error_called and stores into its value
              slot / the error slot
     ADec     W2: --predecessors_remaining
     AFinish  W2 of the child that reaches 0: finish() reads the flag, the error slot and all
              value slots and calls the receiver (after which the operation state may be gone)
   newest first.  Executable definitions only. *)
From Coq Require Import List ZArith Bool Arith.
From Pika Require Import Base.Conc Model.Sender Model.Handoff.
Import ListNotations.

Inductive wacc := AFlag | ADec | AFinish.

Definition wa_ghost (n t : nat) (g : ws) (l : wpc) (log : list (nat * wacc)) : list (nat * wacc) :=
  if Nat.ltb t n then
    match l with
    | W1 => (t, AFlag) :: log
    | W2 => if (w_rem g - 1 =? 0)%Z then (t, AFinish) :: (t, ADec) :: log else (t, ADec) :: log
    | _ => log
    end
  else log.

Definition wa_tstep (n : nat) (cs : nat -> completion) (o : unit) (t : nat)
    (gl : ws * list (nat * wacc)) (l : wpc) : (ws * list (nat * wacc)) * wpc :=
  let r := w_tstep n cs o t (fst gl) l in ((fst r, wa_ghost n t (fst gl) l (snd gl)), snd r).

Definition wa_run (n : nat) (cs : nat -> completion) (sched : list (nat * unit)) :=
  run (wa_tstep n cs) sched ((w_init n, []), w_locals).
