(* Model/StopWord.v — the 64-bit word pika::detail::stop_state::state_ and the operations the
   code performs on it (libs/pika/synchronization/include/pika/synchronization/stop_token.hpp
   lines 80-160, src/stop_token.cpp), over N with the constants regenerated from the header
   (Gen/GenStopBits.v).  Every definition mirrors one C++ expression; nothing here knows the
   bit positions.  Executable definitions only. *)
From Coq Require Import NArith Bool.
From Pika Require Import Gen.GenStopBits.
Local Open Scope N_scope.

Definition word_mod : N := 2 ^ word_bits.

(* (state & flag) != 0 *)
Definition w_is_locked (w : N) : bool := negb (N.land w locked_flag =? 0).
Definition w_stop_requested (w : N) : bool := negb (N.land w stop_requested_flag =? 0).
(* stop_requested(state) || (state & source_ref_mask) != 0 *)
Definition w_stop_possible (w : N) : bool :=
  w_stop_requested w || negb (N.land w source_ref_mask =? 0).
(* old_state & ~locked_flag *)
Definition w_clear_lock (w : N) : N := N.ldiff w locked_flag.
(* old_state | locked_flag *)
Definition w_set_lock (w : N) : N := N.lor w locked_flag.
(* old_state | stop_requested_flag | locked_flag *)
Definition w_set_req_lock (w : N) : N := N.lor (N.lor w stop_requested_flag) locked_flag.
(* std::atomic<uint64_t>::fetch_add / fetch_sub: modulo 2^64 *)
Definition w_add (w d : N) : N := (w + d) mod word_mod.
Definition w_sub (w d : N) : N := (w + word_mod - d mod word_mod) mod word_mod.
(* (old_state & token_ref_mask) == token_ref_increment : the releasing owner was the last one *)
Definition w_last_owner (old : N) : bool := N.land old token_ref_mask =? token_ref_increment.

(* the two counters, as the masks select them (used by statements and by the count guards) *)
Definition w_tokens (w : N) : N := N.land w token_ref_mask / token_ref_increment.
Definition w_sources (w : N) : N := N.land w source_ref_mask / source_ref_increment.
(* largest value a counter can hold: mask / increment *)
Definition tok_max : N := token_ref_mask / token_ref_increment.
Definition src_max : N := source_ref_mask / source_ref_increment.
