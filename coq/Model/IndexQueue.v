(* Model/IndexQueue.v — pika::concurrency::detail::contiguous_index_queue
   (libs/pika/concurrency/include/pika/concurrency/detail/contiguous_index_queue.hpp).
   One atomic object: the packed range {first,last}.  pop_left / pop_right are
   [load] then a compare_exchange_weak loop.  Atomic steps:
     site 1 (LOAD): relaxed load of the range (+ the emptiness test that follows it)
     site 2 (CAS) : compare_exchange_weak(expected, desired); on failure `expected`
                    is reloaded and the emptiness test is repeated.
   Executable definitions only; proofs live in Proofs/IndexQueueProofs.v. *)
From Coq Require Import List NArith Bool.
From Pika Require Import Base.Conc.
Import ListNotations.
Local Open Scope N_scope.

Inductive side := SL | SR.

Record range := { first : N; last : N }.

Definition range_empty (r : range) : bool := last r <=? first r.      (* first >= last *)
Definition increment_first (r : range) : range := {| first := first r + 1; last := last r |}.
Definition decrement_last (r : range) : range := {| first := first r; last := last r - 1 |}.
Definition range_eqb (a b : range) : bool := (first a =? first b) && (last a =? last b).

(* ghost log entry: thread, end, result *)
Record iq_ev := { ev_tid : nat; ev_side : side; ev_res : option N }.

Record iq_shared := { cur : range; iqlog : list iq_ev }.   (* log: newest first *)

Inductive iq_pc := Idle | Loaded (s : side) (expected : range).

(* thread-local: remaining operations and the program counter *)
Record iq_local := { todo : list side; pc : iq_pc }.

Definition iq_site (l : iq_local) : nat :=
  match pc l, todo l with
  | Idle, [] => 0%nat          (* finished: no step *)
  | Idle, _ => 1%nat           (* LOAD *)
  | Loaded _ _, _ => 2%nat     (* CAS *)
  end.

Definition log_ev (g : iq_shared) (t : nat) (s : side) (r : option N) : iq_shared :=
  {| cur := cur g; iqlog := {| ev_tid := t; ev_side := s; ev_res := r |} :: iqlog g |}.

(* the oracle bit: compare_exchange_weak fails spuriously *)
Definition iq_tstep (spurious : bool) (t : nat) (g : iq_shared) (l : iq_local) : iq_shared * iq_local :=
  match pc l with
  | Idle =>
      match todo l with
      | [] => (g, l)
      | s :: rest =>
          let e := cur g in
          if range_empty e then (log_ev g t s None, {| todo := rest; pc := Idle |})
          else (g, {| todo := todo l; pc := Loaded s e |})
      end
  | Loaded s e =>
      if range_eqb e (cur g) && negb spurious then
        match s with
        | SL => (log_ev {| cur := increment_first e; iqlog := iqlog g |} t s (Some (first e)),
                 {| todo := tl (todo l); pc := Idle |})
        | SR => (log_ev {| cur := decrement_last e; iqlog := iqlog g |} t s (Some (last e - 1)),
                 {| todo := tl (todo l); pc := Idle |})
        end
      else
        let e' := cur g in
        if range_empty e' then (log_ev g t s None, {| todo := tl (todo l); pc := Idle |})
        else (g, {| todo := todo l; pc := Loaded s e' |})
  end.

Definition iq_init (f l : N) : iq_shared := {| cur := {| first := f; last := l |}; iqlog := [] |}.
Definition iq_locals (progs : nat -> list side) : nat -> iq_local :=
  fun t => {| todo := progs t; pc := Idle |}.

Definition iq_run (sched : list (nat * bool)) (f l : N) (progs : nat -> list side) :=
  run iq_tstep sched (iq_init f l, iq_locals progs).

(* projections of the log used by the statements *)
Definition popped (lg : list iq_ev) : list N :=
  flat_map (fun e => match ev_res e with Some x => [x] | None => [] end) lg.
Definition popped_side (sd : side) (lg : list iq_ev) : list N :=
  flat_map (fun e => match ev_side e, sd, ev_res e with
                     | SL, SL, Some x => [x] | SR, SR, Some x => [x] | _, _, _ => [] end) lg.

(* for the correspondence check: run a schedule and also return the site visited by
   every scheduled step (what the lock-step controller observes on the real code) *)
Fixpoint iq_trace (sched : list (nat * bool)) (c : iq_shared * (nat -> iq_local)) (acc : list nat)
  : list nat * (iq_shared * (nat -> iq_local)) :=
  match sched with
  | [] => (rev acc, c)
  | (t, o) :: rest => iq_trace rest (step iq_tstep c (t, o)) (iq_site (snd c t) :: acc)
  end.

(* single-threaded reference: the queue as the list of remaining indices *)
Definition seq_pop (s : side) (r : range) : option N * range :=
  if range_empty r then (None, r)
  else match s with
       | SL => (Some (first r), increment_first r)
       | SR => (Some (last r - 1), decrement_last r)
       end.
