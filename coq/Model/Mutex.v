(* Model/Mutex.v — C06: pika::concurrency::detail::spinlock, pika::detail::recursive_mutex_impl<spinlock>,
   pika::mutex / pika::timed_mutex (libs/pika/synchronization/src/mutex.cpp) over Base/Conc.v and
   Base/Agent.v.  Executable definitions only; proofs live in Proofs/MutexProofs.v.

   Granularity: one step = one access to one atomic object (spinlock, recursive mutex) or one
   critical section of the mutex's internal spinlock mtx_ (owner_id_ and the waiter queue of the
   detail condition variable are touched only under it), or one agent operation (suspend, yield).

   User programs: a list of operations per task.  For the primitives that do NOT check their
   caller (spinlock, recursive mutex) `unlock` is executed only by a task that holds the lock
   (user code of the form `if (got) m.unlock()`); pika::mutex checks its caller, so its programs
   are arbitrary.  *)
From Coq Require Import List NArith Bool Arith.
From Pika Require Import Base.Conc Base.Agent.
Import ListNotations.

Definition onat_eqb (a : option nat) (t : nat) : bool :=
  match a with Some x => Nat.eqb x t | None => false end.

(* ------------------------------------------------------------------------------------------ *)
(* Part 1: spinlock (spinlock.hpp).  lock(): do { yield_while(is_locked) } while (!acquire_lock())
   site 610 = relaxed load in the spin loop, 611 = exchange(true), 612 = store(false).            *)
Inductive sl_op := SLock | STry | SUnlock.
Inductive sl_pc := SIdle | SXchg.
Record sl_ev := { sl_tid : nat; sl_kind : sl_op; sl_res : bool }.
Record sl_shared := { slv : bool; slholder : option nat (* ghost *); sllog : list sl_ev (* newest first *) }.
Record sl_local := { sl_todo : list sl_op; sl_pcv : sl_pc; sl_held : bool (* ghost: in the critical section *) }.

Definition sl_site (l : sl_local) : nat :=
  match sl_pcv l, sl_todo l with
  | SXchg, _ => 611
  | SIdle, SLock :: _ => 610
  | SIdle, STry :: _ => 611
  | SIdle, SUnlock :: _ => if sl_held l then 612 else 0
  | SIdle, [] => 0
  end.

Definition sl_tstep (_ : unit) (t : nat) (g : sl_shared) (l : sl_local) : sl_shared * sl_local :=
  match sl_pcv l, sl_todo l with
  | SIdle, [] => (g, l)
  | SIdle, SLock :: _ =>                      (* 610: load *)
      if slv g then (g, l) else (g, {| sl_todo := sl_todo l; sl_pcv := SXchg; sl_held := sl_held l |})
  | SXchg, _ =>                               (* 611: exchange inside lock() *)
      if slv g then (g, {| sl_todo := sl_todo l; sl_pcv := SIdle; sl_held := sl_held l |})
      else ({| slv := true; slholder := Some t;
               sllog := {| sl_tid := t; sl_kind := SLock; sl_res := true |} :: sllog g |},
            {| sl_todo := tl (sl_todo l); sl_pcv := SIdle; sl_held := true |})
  | SIdle, STry :: rest =>                    (* 611: exchange inside try_lock() *)
      if slv g then ({| slv := true; slholder := slholder g;
                        sllog := {| sl_tid := t; sl_kind := STry; sl_res := false |} :: sllog g |},
                     {| sl_todo := rest; sl_pcv := SIdle; sl_held := sl_held l |})
      else ({| slv := true; slholder := Some t;
               sllog := {| sl_tid := t; sl_kind := STry; sl_res := true |} :: sllog g |},
            {| sl_todo := rest; sl_pcv := SIdle; sl_held := true |})
  | SIdle, SUnlock :: rest =>                 (* 612: store(false) — only by a task that holds it *)
      if sl_held l then
        ({| slv := false; slholder := None;
            sllog := {| sl_tid := t; sl_kind := SUnlock; sl_res := true |} :: sllog g |},
         {| sl_todo := rest; sl_pcv := SIdle; sl_held := false |})
      else (g, {| sl_todo := rest; sl_pcv := SIdle; sl_held := false |})
  end.

Definition sl_init : sl_shared := {| slv := false; slholder := None; sllog := [] |}.
Definition sl_locals (progs : nat -> list sl_op) : nat -> sl_local :=
  fun t => {| sl_todo := progs t; sl_pcv := SIdle; sl_held := false |}.
Definition sl_run (sched : list (nat * unit)) (progs : nat -> list sl_op) :=
  run sl_tstep sched (sl_init, sl_locals progs).

(* ------------------------------------------------------------------------------------------ *)
(* Part 2: recursive_mutex_impl<spinlock> (recursive_mutex.hpp): {recursion_count; locking_context; mtx}.
   sites: 620 load locking_context, 621 ++recursion_count, 610/611 the spinlock's lock()/try_lock(),
   622 locking_context.exchange(ctx), 623 recursion_count.store(1), 624 --recursion_count,
   625 locking_context.exchange(null), 612 the spinlock's unlock().                              *)
Inductive rm_op := RLock | RTry | RUnlock.
Inductive rm_pc := RIdle | RInc | RSpin | RXchg | RTXchg | RPub | RStore | RClr | RRel.
Record rm_ev := { rm_tid : nat; rm_kind : rm_op; rm_res : bool; rm_cnt : N (* depth after the call *) }.
Record rm_shared := { rv : bool; rcount : N; rctx : option nat; rholder : option nat (* ghost *);
                      rmlog : list rm_ev }.
Record rm_local := { rm_todo : list rm_op; rm_pcv : rm_pc; rdepth : nat (* ghost *) }.

Definition rm_site (l : rm_local) : nat :=
  match rm_pcv l with
  | RIdle => match rm_todo l with
             | [] => 0
             | RUnlock :: _ => if Nat.eqb (rdepth l) 0 then 0 else 624
             | _ => 620
             end
  | RInc => 621 | RSpin => 610 | RXchg => 611 | RTXchg => 611
  | RPub => 622 | RStore => 623 | RClr => 625 | RRel => 612
  end.

Definition rm_set_pc (l : rm_local) (p : rm_pc) : rm_local :=
  {| rm_todo := rm_todo l; rm_pcv := p; rdepth := rdepth l |}.
Definition rm_log (g : rm_shared) (t : nat) (k : rm_op) (r : bool) (c : N) : list rm_ev :=
  {| rm_tid := t; rm_kind := k; rm_res := r; rm_cnt := c |} :: rmlog g.
Definition rm_kind_of (l : rm_local) : rm_op := match rm_todo l with k :: _ => k | [] => RLock end.

Definition rm_tstep (_ : unit) (t : nat) (g : rm_shared) (l : rm_local) : rm_shared * rm_local :=
  match rm_pcv l with
  | RIdle =>
      match rm_todo l with
      | [] => (g, l)
      | RUnlock :: rest =>
          if Nat.eqb (rdepth l) 0 then (g, {| rm_todo := rest; rm_pcv := RIdle; rdepth := 0 |})
          else                                  (* 624: --recursion_count *)
            let c := N.pred (rcount g) in
            if N.eqb c 0 then
              ({| rv := rv g; rcount := c; rctx := rctx g; rholder := rholder g; rmlog := rmlog g |},
               {| rm_todo := rm_todo l; rm_pcv := RClr; rdepth := Nat.pred (rdepth l) |})
            else
              ({| rv := rv g; rcount := c; rctx := rctx g; rholder := rholder g;
                  rmlog := rm_log g t RUnlock true c |},
               {| rm_todo := rest; rm_pcv := RIdle; rdepth := Nat.pred (rdepth l) |})
      | RLock :: _ =>                           (* 620: load locking_context *)
          if onat_eqb (rctx g) t then (g, rm_set_pc l RInc) else (g, rm_set_pc l RSpin)
      | RTry :: _ =>
          if onat_eqb (rctx g) t then (g, rm_set_pc l RInc) else (g, rm_set_pc l RTXchg)
      end
  | RInc =>                                     (* 621: ++recursion_count *)
      let c := N.succ (rcount g) in
      ({| rv := rv g; rcount := c; rctx := rctx g; rholder := rholder g;
          rmlog := rm_log g t (rm_kind_of l) true c |},
       {| rm_todo := tl (rm_todo l); rm_pcv := RIdle; rdepth := S (rdepth l) |})
  | RSpin => if rv g then (g, l) else (g, rm_set_pc l RXchg)           (* 610 *)
  | RXchg =>                                    (* 611 inside mtx.lock() *)
      if rv g then (g, rm_set_pc l RSpin)
      else ({| rv := true; rcount := rcount g; rctx := rctx g; rholder := Some t; rmlog := rmlog g |},
            rm_set_pc l RPub)
  | RTXchg =>                                   (* 611 inside mtx.try_lock() *)
      if rv g then
        ({| rv := true; rcount := rcount g; rctx := rctx g; rholder := rholder g;
            rmlog := rm_log g t RTry false 0 |},
         {| rm_todo := tl (rm_todo l); rm_pcv := RIdle; rdepth := rdepth l |})
      else ({| rv := true; rcount := rcount g; rctx := rctx g; rholder := Some t; rmlog := rmlog g |},
            rm_set_pc l RPub)
  | RPub =>                                     (* 622: locking_context.exchange(ctx) *)
      ({| rv := rv g; rcount := rcount g; rctx := Some t; rholder := rholder g; rmlog := rmlog g |},
       rm_set_pc l RStore)
  | RStore =>                                   (* 623: recursion_count.store(1) *)
      ({| rv := rv g; rcount := 1; rctx := rctx g; rholder := rholder g;
          rmlog := rm_log g t (rm_kind_of l) true 1 |},
       {| rm_todo := tl (rm_todo l); rm_pcv := RIdle; rdepth := 1 |})
  | RClr =>                                     (* 625: locking_context.exchange(null) *)
      ({| rv := rv g; rcount := rcount g; rctx := None; rholder := rholder g; rmlog := rmlog g |},
       rm_set_pc l RRel)
  | RRel =>                                     (* 612: mtx.unlock() *)
      ({| rv := false; rcount := rcount g; rctx := rctx g; rholder := None;
          rmlog := rm_log g t RUnlock true 0 |},
       {| rm_todo := tl (rm_todo l); rm_pcv := RIdle; rdepth := rdepth l |})
  end.

Definition rm_init : rm_shared := {| rv := false; rcount := 0; rctx := None; rholder := None; rmlog := [] |}.
Definition rm_locals (progs : nat -> list rm_op) : nat -> rm_local :=
  fun t => {| rm_todo := progs t; rm_pcv := RIdle; rdepth := 0 |}.
Definition rm_run (sched : list (nat * unit)) (progs : nat -> list rm_op) :=
  run rm_tstep sched (rm_init, rm_locals progs).

(* ------------------------------------------------------------------------------------------ *)
(* Part 3: pika::mutex / pika::timed_mutex (mutex.cpp) with the detail condition variable's queue.
   A queue entry's ctx_ is reset exactly when it is popped (both under mtx_), so "entry still
   carries its context" = "task is in the queue".                                               *)
Inductive mx_op :=
  | OLock | OTry | OTimed | OUnlock
  | OWrite      (* user code inside the critical section: `if (I hold it) ++data` (unprotected data) *)
  | OYield      (* this_thread::yield(): a scheduling phase ends *)
  | OSpur.      (* a resume aimed at this task by somebody else earlier in this phase (stale token) *)

Inductive mx_pc :=
  | PIdle
  | PPre        (* lock(): entry pushed, mtx_ released, about to suspend   (hook 705) *)
  | PSusp       (* lock(): inside suspend, or woken and about to re-lock mtx_ *)
  | PSleep      (* try_lock_until(): entry pushed, mtx_ released, inside sleep_until's yield loop *)
  | PWake.      (* try_lock_until(): deadline passed, about to re-lock mtx_ *)

Inductive mx_ev :=
  | EWait (t : nat)                 (* 601 lock(): owned -> wait *)
  | EAcq (t : nat) (v : N)          (* 604 lock(): acquired; v = data version seen *)
  | ETry (t : nat) (r : bool) (v : N)   (* 605 *)
  | ETWait (t : nat)                (* 606 try_lock_until(): owned -> timed wait *)
  | ETimed (t : nat) (r : nat) (v : N)  (* 607: 0 timeout, 1 notified but owned, 2 acquired *)
  | ERel (t : nat) (v : N) (q : nat)    (* 602 unlock(): owner cleared; v = version left behind; q = queue length *)
  | EDead (t : nat)                 (* lock() by the owner: error deadlock *)
  | EErr (t : nat).                 (* unlock() by a non-owner: error lock_error *)

Record mx_shared := { owner : option nat; queue : list nat; ag : nat -> agent_state;
                      ver : N (* the unprotected data *); mxlog : list mx_ev (* newest first *) }.
Record mx_local := { todo : list mx_op; pc : mx_pc; held : bool (* ghost: between acquire and release *) }.

Definition remove_nat (t : nat) (q : list nat) : list nat := filter (fun x => negb (Nat.eqb x t)) q.
Definition mem_nat (t : nat) (q : list nat) : bool := existsb (Nat.eqb t) q.

Definition mx_set (g : mx_shared) (o : option nat) (q : list nat) (e : mx_ev) : mx_shared :=
  {| owner := o; queue := q; ag := ag g; ver := ver g; mxlog := e :: mxlog g |}.
Definition mx_set_ag (g : mx_shared) (t : nat) (a : agent_state) : mx_shared :=
  {| owner := owner g; queue := queue g; ag := upd (ag g) t a; ver := ver g; mxlog := mxlog g |}.
Definition mx_pop (l : mx_local) (h : bool) : mx_local := {| todo := tl (todo l); pc := PIdle; held := h |}.
Definition mx_at (l : mx_local) (p : mx_pc) : mx_local := {| todo := todo l; pc := p; held := held l |}.

(* the `while (owner_id_ != invalid) cond_.wait(l)` test of lock(), executed under mtx_ with the
   queue q (own stale entry already erased) *)
Definition lock_loop (g : mx_shared) (q : list nat) (t : nat) (l : mx_local) : mx_shared * mx_local :=
  match owner g with
  | Some _ => (mx_set g (owner g) (q ++ [t]) (EWait t), mx_at l PPre)
  | None => (mx_set g (Some t) q (EAcq t (ver g)), mx_pop l true)
  end.

(* detail::condition_variable::notify_one under mtx_: pop the front entry and resume its agent *)
Definition notify_one (g : mx_shared) : mx_shared :=
  match queue g with
  | [] => g
  | w :: q' => {| owner := owner g; queue := q'; ag := upd (ag g) w (a_resume (ag g w));
                  ver := ver g; mxlog := mxlog g |}
  end.

(* oracle: `true` = the deadline of the timed wait has passed when the clock is read *)
Definition mx_tstep (late : bool) (t : nat) (g : mx_shared) (l : mx_local) : mx_shared * mx_local :=
  match pc l with
  | PIdle =>
      match todo l with
      | [] => (g, l)
      | OLock :: _ =>
          if onat_eqb (owner g) t then (mx_set g (owner g) (queue g) (EDead t), mx_pop l (held l))
          else lock_loop g (queue g) t l
      | OTry :: _ =>
          match owner g with
          | Some _ => (mx_set g (owner g) (queue g) (ETry t false (ver g)), mx_pop l (held l))
          | None => (mx_set g (Some t) (queue g) (ETry t true (ver g)), mx_pop l true)
          end
      | OTimed :: _ =>
          match owner g with
          | Some _ => (mx_set g (owner g) (queue g ++ [t]) (ETWait t), mx_at l PSleep)
          | None => (mx_set g (Some t) (queue g) (ETimed t 2 (ver g)), mx_pop l true)
          end
      | OUnlock :: _ =>
          if onat_eqb (owner g) t then
            (notify_one (mx_set g None (queue g) (ERel t (ver g) (length (queue g)))), mx_pop l false)
          else (mx_set g (owner g) (queue g) (EErr t), mx_pop l (held l))
      | OWrite :: _ =>
          if held l then
            ({| owner := owner g; queue := queue g; ag := ag g; ver := N.succ (ver g); mxlog := mxlog g |},
             mx_pop l (held l))
          else (g, mx_pop l (held l))
      | OYield :: _ => (mx_set_ag g t (a_phase_end (ag g t)), mx_pop l (held l))
      | OSpur :: _ => (mx_set_ag g t {| tok := true; blocked := false |}, mx_pop l (held l))
      end
  | PPre => (mx_set_ag g t (fst (a_suspend (ag g t))), mx_at l PSusp)
  | PSusp =>
      if blocked (ag g t) then (g, l)
      else lock_loop g (remove_nat t (queue g)) t l
  | PSleep =>
      (mx_set_ag g t (a_phase_end (ag g t)), if late then mx_at l PWake else l)
  | PWake =>
      if mem_nat t (queue g) then
        (mx_set g (owner g) (remove_nat t (queue g)) (ETimed t 0 (ver g)), mx_pop l (held l))
      else
        match owner g with
        | Some _ => (mx_set g (owner g) (queue g) (ETimed t 1 (ver g)), mx_pop l (held l))
        | None => (mx_set g (Some t) (queue g) (ETimed t 2 (ver g)), mx_pop l true)
        end
  end.

Definition mx_init : mx_shared :=
  {| owner := None; queue := []; ag := fun _ => a_init; ver := 0; mxlog := [] |}.
Definition mx_locals (progs : nat -> list mx_op) : nat -> mx_local :=
  fun t => {| todo := progs t; pc := PIdle; held := false |}.
Definition mx_run (sched : list (nat * bool)) (progs : nat -> list mx_op) :=
  run mx_tstep sched (mx_init, mx_locals progs).

(* ---- the statements' vocabulary ---- *)
Definition waiting (p : mx_pc) : Prop := p <> PIdle.

(* an acquisition event and the version it saw *)
Definition ev_acq (e : mx_ev) : option N :=
  match e with
  | EAcq _ v => Some v | ETry _ true v => Some v | ETimed _ 2 v => Some v | _ => None
  end.
Definition ev_rel (e : mx_ev) : option N := match e with ERel _ v _ => Some v | _ => None end.

(* state of the lock according to a log (oldest first fold): (is it held, version at the last release) *)
Fixpoint log_state (lg : list mx_ev) : bool * N :=    (* lg newest first *)
  match lg with
  | [] => (false, 0%N)
  | e :: rest =>
      match ev_acq e, ev_rel e with
      | Some _, _ => (true, snd (log_state rest))
      | None, Some v => (false, v)
      | None, None => log_state rest
      end
  end.
(* every acquisition happens while the log says "free" and sees exactly the version left by the
   previous release (0 initially); every release happens while the log says "held" *)
Fixpoint log_ok (lg : list mx_ev) : Prop :=
  match lg with
  | [] => True
  | e :: rest =>
      log_ok rest /\
      match ev_acq e, ev_rel e with
      | Some v, _ => fst (log_state rest) = false /\ v = snd (log_state rest)
      | None, Some _ => fst (log_state rest) = true
      | None, None => True
      end
  end.

(* nothing can move: every task is finished or blocked inside lock()'s suspend *)
Definition blocked_in_lock (g : mx_shared) (l : mx_local) (t : nat) : Prop :=
  pc l = PSusp /\ blocked (ag g t) = true.
Definition mx_stuck (g : mx_shared) (ls : nat -> mx_local) : Prop :=
  forall t, (pc (ls t) = PIdle /\ todo (ls t) = []) \/ blocked_in_lock g (ls t) t.
