(* Model/WeakAgent.v — the WEAK agent contract as a small labelled transition system, the
   abstraction of the scheduler-core model (Model/Sched.v) onto it, and the reading of
   Base/Agent.v's interface in it.  Definitions only; the proofs are in
   Proofs/WeakAgentProofs.v, the statements in Props/Properties_C02.v.

   The contract (DESIGN.md section 3, Base/Agent.v header):
     (W1) a suspend may return spuriously at any time;
     (W2) a resume issued after the waiter registered itself (enqueued under the primitive's
          lock) is never lost.

   Per task (= thread-object INCARNATION in Sched.v, = agent in Base/Agent.v) the machine keeps
     wmode   MRun (runnable or running) | MBlk (inside suspend) | MDone (terminated)
     wreg    the task is registered as a waiter in its current phase
     wowed   a wake-up is OWED: somebody issued a resume while the task was registered
   and it has six labels:
     Reg   the task registers as a waiter (critical section of the primitive's lock)
     Susp  the task ends its phase by suspending
     Res   somebody issues a resume for the task (pops its entry and calls agent.resume())
     Wake  the task becomes runnable again
     Yield the task ends its phase without suspending
     Term  the task terminates
   W1 is the rule for Wake: it is enabled whenever the task is blocked, owed or not.  W2 is the
   bookkeeping of wowed — it is set by a Res that finds the task registered and it is cleared
   ONLY by a Wake or by a phase end that is not a suspension (Yield, Term) — together with the
   obligation [wa_must]: a Wake of a blocked task with wowed set is not at the implementation's
   discretion, it has to happen; a configuration in which such a step is outstanding is not a
   configuration in which the machine may stop ([wa_stuck]).  There is deliberately no token in
   the machine: a resume aimed at a task that is not registered promises nothing, and whatever
   it later does to the task (wake a suspension of the same or of a later phase) is an instance
   of W1. *)
From Coq Require Import List NArith Bool Arith.
From Pika Require Import Base.Conc Base.Agent Gen.GenEnums Model.Sched.
Import ListNotations.

(* ------------------------------------------------------------------ the machine *)
Inductive wa_mode := MRun | MBlk | MDone.
Record wa_task := { wmode : wa_mode; wreg : bool; wowed : bool }.
Inductive wa_kind := KReg | KSusp | KRes | KWake | KYield | KTerm.
Definition wa_label := (wa_kind * nat)%type.          (* (kind, task) *)

Definition wa_fresh (m : wa_mode) : wa_task := {| wmode := m; wreg := false; wowed := false |}.
Definition wa_init_task : wa_task := wa_fresh MRun.

(* one step of one task; None = the label is not enabled *)
Definition wa_tstep (k : wa_kind) (s : wa_task) : option wa_task :=
  match k, wmode s with
  | KReg, MRun => Some {| wmode := MRun; wreg := true; wowed := wowed s |}
  | KSusp, MRun => Some {| wmode := MBlk; wreg := wreg s; wowed := wowed s |}
  | KRes, m => Some {| wmode := m; wreg := false; wowed := wowed s || wreg s |}
  | KWake, MBlk => Some (wa_fresh MRun)                (* W1: no premise on wowed *)
  | KYield, MRun => Some (wa_fresh MRun)
  | KTerm, MRun => Some (wa_fresh MDone)
  | _, _ => None
  end.

Definition wa_conf := nat -> wa_task.
Definition wa_init : wa_conf := fun _ => wa_init_task.

(* configurations are functions: the successor is given pointwise *)
Definition wa_step (l : wa_label) (c c' : wa_conf) : Prop :=
  exists s', wa_tstep (fst l) (c (snd l)) = Some s' /\
             forall i, c' i = if Nat.eqb i (snd l) then s' else c i.

Inductive wa_run : list wa_label -> wa_conf -> wa_conf -> Prop :=
  | wr_nil c c' : (forall i, c' i = c i) -> wa_run [] c c'
  | wr_cons l tr c c1 c' : wa_step l c c1 -> wa_run tr c1 c' -> wa_run (l :: tr) c c'.

(* W2, the obligation: the steps the implementation MUST eventually take *)
Definition wa_must (l : wa_label) (c : wa_conf) : Prop :=
  fst l = KWake /\ wmode (c (snd l)) = MBlk /\ wowed (c (snd l)) = true.
(* the machine may stop here: no obligatory step is outstanding (tasks may be blocked for ever —
   nobody resumed them after they registered — and client labels may be enabled) *)
Definition wa_stuck (c : wa_conf) : Prop := forall l, ~ wa_must l c.

(* ------------------------------------------------------------------ W2 on traces *)
(* the events of task t, oldest first *)
Definition wa_proj (t : nat) (tr : list wa_label) : list wa_kind :=
  map fst (filter (fun l => Nat.eqb (snd l) t) tr).
Fixpoint wa_replay (p : list wa_kind) (s : wa_task) : option wa_task :=
  match p with
  | [] => Some s
  | k :: r => match wa_tstep k s with Some s' => wa_replay r s' | None => None end
  end.
Definition phase_end (k : wa_kind) : bool :=
  match k with KWake | KYield | KTerm => true | _ => false end.
Definition no_end (p : list wa_kind) : Prop := forall k, In k p -> phase_end k = false.
(* "a registered-and-resumed waiter is still suspended": in its last phase the task registered,
   a resume was issued after that, the phase ended by a suspension, and no Wake followed *)
Definition lost_pattern (p : list wa_kind) : Prop :=
  exists p1 p2 p3, p = p1 ++ KReg :: p2 ++ KRes :: p3 /\ no_end (p2 ++ p3) /\ In KSusp (p2 ++ p3).

(* ------------------------------------------------------------------ abstraction of Sched.v *)
Definition mode_of (s : sst) : wa_mode :=
  match s with st_suspended => MBlk | st_terminated => MDone | _ => MRun end.
(* the task is still in the phase whose active word had tag p, or in the suspension that ended it *)
Definition cur_phase (w : word) (p : N) : bool :=
  (sst_beq (st w) st_active && N.eqb (tag w) p) || (sst_beq (st w) st_suspended && N.eqb (tag w) (p + 1)).
Definition oflag (w : word) (o : option N) : bool :=
  match o with Some p => cur_phase w p | None => false end.
Definition abs_task (k : task) : wa_task :=
  {| wmode := mode_of (st (tw k)); wreg := oflag (tw k) (reg k); wowed := oflag (tw k) (wake k) |}.
(* the thread object incarnation i is bound to at the moment *)
Definition obj_of (g : G) (i : nat) : option nat :=
  find (fun x => Nat.eqb (gid g x) i) (seq 0 (ntasks g)).
(* incarnations are the tasks of the weak machine: one that is bound to an object is what its task
   record says; one whose object has been recycled terminated long ago; one that does not exist
   yet is in the initial state *)
Definition wa_abs (g : G) : wa_conf :=
  fun i => match obj_of g i with
           | Some x => abs_task (tasks g x)
           | None => if i <? ninc g then wa_fresh MDone else wa_init_task
           end.

(* the weak-agent label of a step (zero or one), read off the configuration before the step *)
Definition kind_of_ret (r : sst) : option wa_kind :=
  match r with
  | st_suspended => Some KSusp
  | st_terminated => Some KTerm
  | st_pending | st_pending_boost => Some KYield
  | _ => None
  end.
Definition sub_lbl (g : G) (s : sub) : option wa_label :=
  match s with
  | SIssue u => if u <? ntasks g then Some (KRes, gid g u) else None
  | SCas u prev => if word_eqb (tw_of g u) prev && sst_beq (st prev) st_suspended
                   then Some (KWake, gid g u) else None
  | _ => None
  end.
Definition lbl_of (g : G) (l : pc) : option wa_label :=
  match l with
  | WRun t _ SNone =>
      match todo (tasks g t) with
      | UserBody (Register :: _) => Some (KReg, gid g t)
      | _ => None
      end
  | WRun _ _ s => sub_lbl g s
  | XRun _ s => sub_lbl g s
  | WStoreC t orig ret _ =>
      if word_eqb (tw_of g t) orig
      then match kind_of_ret ret with Some k => Some (k, gid g t) | None => None end
      else None
  | _ => None
  end.
Definition olist {A} (o : option A) : list A := match o with Some x => [x] | None => [] end.
Fixpoint trace_from (s : list (nat * oracle)) (c : G * (nat -> pc)) : list wa_label :=
  match s with
  | [] => []
  | so :: r => olist (lbl_of (fst c) (snd c (fst so))) ++ trace_from r (step tstep c so)
  end.
(* the projection of a Sched run on the weak-agent labels *)
Definition sched_trace (sched : list (nat * oracle)) (ext : nat -> option (list act)) : list wa_label :=
  trace_from sched (init_g, init_ls ext).

(* ------------------------------------------------------------------ Base/Agent.v read in the machine
   The primitive models keep one agent_state per thread and change it by a_suspend (the thread
   itself), a_resume (a notifier that popped the thread's entry), a_phase_end (yield) and the
   environment step "a stale resume arrives now" (Mutex.OSpur, CondVar.CSpur, Latch.OSpur,
   Event.ESpur, Once.OOSpur, Semaphore.StaleResume, Join.AResume), which is a_resume again.
   Registration is the model's own queue; here it is the ghost bit r, and o is the ghost "owed". *)
Inductive ag_op := OpReg | OpSuspend | OpResume | OpStale | OpStaleTok | OpPhaseEnd.
(* what an operation does to the agent_state: literally the function of Base/Agent.v (OpStaleTok is
   the literal `{| tok := true; blocked := false |}` of Mutex.OSpur and CondVar.CSpur) *)
Definition ag_fun (op : ag_op) (a : agent_state) : agent_state :=
  match op with
  | OpReg => a
  | OpSuspend => fst (a_suspend a)
  | OpResume | OpStale => a_resume a
  | OpStaleTok => {| tok := true; blocked := false |}
  | OpPhaseEnd => a_phase_end a
  end.
Record ag_ghost := { ag : agent_state; greg : bool; gowed : bool }.
Definition ag_abs (s : ag_ghost) : wa_task :=
  {| wmode := if blocked (ag s) then MBlk else MRun; wreg := greg s; wowed := gowed s |}.
(* the operations are total: the only side condition is that a thread registers itself while it
   is not blocked.  a_suspend / a_phase_end applied to a BLOCKED agent (no model does that, but
   nothing in Base/Agent.v forbids it) change nothing the machine sees *)
Definition ag_pre (op : ag_op) (s : ag_ghost) : Prop :=
  match op with OpReg => blocked (ag s) = false | _ => True end.
(* a blocked agent holds no token *)
Definition ag_wf (s : ag_ghost) : Prop := tok (ag s) = true -> blocked (ag s) = false.
(* the ghosts follow the weak-agent steps the operation stands for *)
Definition ag_step (op : ag_op) (s : ag_ghost) : ag_ghost :=
  let a' := ag_fun op (ag s) in
  match op with
  | OpReg => {| ag := a'; greg := true; gowed := gowed s |}
  | OpSuspend =>
      if blocked (ag s) then {| ag := a'; greg := greg s; gowed := gowed s |}
      else match snd (a_suspend (ag s)) with
           | Returned => {| ag := a'; greg := false; gowed := false |}
           | Blocked => {| ag := a'; greg := greg s; gowed := gowed s |}
           end
  | OpResume =>
      if blocked (ag s) then {| ag := a'; greg := false; gowed := false |}
      else {| ag := a'; greg := false; gowed := gowed s || greg s |}
  | OpStale | OpStaleTok =>
      if blocked (ag s) then {| ag := a'; greg := false; gowed := false |}
      else {| ag := a'; greg := greg s; gowed := gowed s |}
  | OpPhaseEnd =>
      if blocked (ag s) then {| ag := a'; greg := greg s; gowed := gowed s |}
      else {| ag := a'; greg := false; gowed := false |}
  end.
(* the weak-agent steps an operation stands for *)
Definition ag_kinds (op : ag_op) (s : ag_ghost) : list wa_kind :=
  match op with
  | OpReg => [KReg]
  | OpSuspend =>
      if blocked (ag s) then []
      else match snd (a_suspend (ag s)) with Returned => [KSusp; KWake] | Blocked => [KSusp] end
  | OpResume => if blocked (ag s) then [KRes; KWake] else [KRes]
  | OpStale | OpStaleTok => if blocked (ag s) then [KWake] else []
  | OpPhaseEnd => if blocked (ag s) then [] else [KYield]
  end.
(* what Base/Agent.v guarantees on top of the weak machine: an owed wake-up is held as the token
   of a running agent until the agent consumes it, so the interface is never blocked-and-owed *)
Definition ag_w2 (s : ag_ghost) : Prop :=
  gowed s = true -> blocked (ag s) = false /\ tok (ag s) = true.
(* one step of a primitive model changes an agent by one operation of the interface, or not at all *)
Definition ag_iface_upd (a a' : agent_state) : Prop := exists op, a' = ag_fun op a.

(* any sequence of operations on one agent (each allowed when it is issued), with the weak-agent
   events it stands for *)
Definition ag_init : ag_ghost := {| ag := a_init; greg := false; gowed := false |}.
Inductive ag_runs : list ag_op -> ag_ghost -> ag_ghost -> list wa_kind -> Prop :=
  | ar_nil s : ag_runs [] s s []
  | ar_cons op ops s s' ks : ag_pre op s -> ag_runs ops (ag_step op s) s' ks ->
      ag_runs (op :: ops) s s' (ag_kinds op s ++ ks).
