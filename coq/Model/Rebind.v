(* Model/Rebind.v — C12: per-task state of a recycled thread object, and the per-size heaps
   of thread_queue.  The assignment lists (constructor, rebind_base, exit path, rebind) and
   the size -> heap chains are Gen/GenSwapctx.v, regenerated from the source.  Definitions only. *)
From Coq Require Import ZArith List Bool.
From Pika Require Import Model.CtxSyntax Gen.GenSwapctx.
Import ListNotations.
Local Open Scope Z_scope.

(* ---------------- thread_data ---------------- *)
Inductive tval : Set :=
  | VZ (z : Z)                 (* integer / enum / pointer *)
  | VB (b : bool)
  | VState (st ex : Z)         (* thread_state(state, restart state) *)
  | VNil.                      (* empty container *)

Definition tfield_idx (f : tfield) : Z :=
  match f with
  | F_current_state => 0 | F_priority => 1 | F_requested_interrupt => 2 | F_enabled_interrupt => 3
  | F_ran_exit_funcs => 4 | F_exit_funcs => 5 | F_scheduler_base => 6 | F_last_worker_thread_num => 7
  | F_stacksize_enum => 8 | F_is_stackless => 9 | F_stacksize => 10 | F_queue => 11
  end.
Definition tfield_eqb (a b : tfield) : bool := tfield_idx a =? tfield_idx b.
Definition all_tfields : list tfield :=
  [F_current_state; F_priority; F_requested_interrupt; F_enabled_interrupt; F_ran_exit_funcs;
   F_exit_funcs; F_scheduler_base; F_last_worker_thread_num; F_stacksize_enum; F_is_stackless;
   F_stacksize; F_queue].

(* which members describe the task (must be fresh after rebinding) and which the object *)
Definition per_task (f : tfield) : bool :=
  match f with F_is_stackless | F_stacksize | F_queue => false | _ => true end.

Definition tdata : Type := tfield -> tval.
Definition init_data : Type := ifield -> Z.

Definition signaled : Z := 1.              (* thread_restart_state::signaled *)
Definition no_worker : Z := 18446744073709551615.   (* std::size_t(-1) *)

Definition eval_rv (rv : rvalue) (init : init_data) (args : nat -> Z) : tval :=
  match rv with
  | RInit i => VZ (init i)
  | RStateSignaled => VState (init I_initial_state) signaled
  | RBool b => VB b
  | RNoWorker => VZ no_worker
  | REmpty => VNil
  | RArg n => VZ (args n)
  end.
Definition updf (d : tdata) (f : tfield) (v : tval) : tdata :=
  fun f' => if tfield_eqb f' f then v else d f'.
Definition assign_all (l : list (tfield * rvalue)) (init : init_data) (args : nat -> Z) (d : tdata) : tdata :=
  fold_left (fun d fv => updf d (fst fv) (eval_rv (snd fv) init args)) l d.

(* a newly constructed object: memory content before the constructor is arbitrary ([junk]) *)
Definition construct (init : init_data) (args : nat -> Z) (junk : tdata) : tdata :=
  assign_all td_ctor init args junk.
(* thread_data::rebind_base on an object in any state *)
Definition rebind_base (init : init_data) (d : tdata) : tdata :=
  assign_all td_rebind init (fun _ => 0) d.

(* ---------------- coroutine (context_base / coroutine_impl) ---------------- *)
Inductive cval : Set :=
  | CV (v : crvalue) (task : Z)   (* [task] distinguishes the id / function of different tasks *)
  | CJunk (n : Z).
Definition cfield_idx (f : cfield) : Z :=
  match f with
  | C_thread_id => 0 | C_state => 1 | C_exit_state => 2 | C_exit_status => 3 | C_type_info => 4
  | C_thread_data => 5 | C_result => 6 | C_arg => 7 | C_fun => 8 | C_sp_frame => 9
  | C_continuation_recursion_count => 10
  end.
Definition cfield_eqb (a b : cfield) : bool := cfield_idx a =? cfield_idx b.
Definition cdata : Type := cfield -> cval.
Definition eval_crv (v : crvalue) (task : Z) : cval :=
  match v with CId | CFun => CV v task | _ => CV v 0 end.
Definition updc (d : cdata) (f : cfield) (v : cval) : cdata :=
  fun f' => if cfield_eqb f' f then v else d f'.
Definition cassign_all (l : list (cfield * crvalue)) (task : Z) (d : cdata) : cdata :=
  fold_left (fun d fv => updc d (fst fv) (eval_crv (snd fv) task)) l d.
Definition coro_construct (task : Z) (junk : cdata) : cdata := cassign_all coro_ctor task junk.
(* what the trampoline does after the thread function of [task] returned (reset_tss, reset) *)
Definition coro_at_exit (task : Z) (d : cdata) : cdata := cassign_all coro_exit task d.
Definition coro_do_rebind (task : Z) (d : cdata) : cdata := cassign_all coro_rebind task d.
(* state the running task can have changed: anything in the fields a task writes while running *)
Definition coro_reset_scope (f : cfield) : bool :=
  match f with C_continuation_recursion_count => false | _ => true end.

(* ---------------- stack-size classes and the per-size heaps ---------------- *)
Definition sclass_idx (c : sclass) : Z :=
  match c with Small => 0 | Medium => 1 | Large => 2 | Huge => 3 | Nostack => 4 end.
Definition sclass_eqb (a b : sclass) : bool := sclass_idx a =? sclass_idx b.

(* thread_queue_init_parameters: the five configured sizes; arbitrary, possibly coinciding *)
Definition params : Type := sclass -> Z.
Definition max_ptrdiff : Z := 9223372036854775807.

Fixpoint chain_lookup (chain : list (sclass * sclass)) (p : params) (sz : Z) : option sclass :=
  match chain with
  | [] => None
  | (c, h) :: t => if sz =? p c then Some h else chain_lookup t p sz
  end.
Fixpoint assoc (l : list (sclass * sclass)) (c : sclass) : option sclass :=
  match l with [] => None | (a, b) :: t => if sclass_eqb a c then Some b else assoc t c end.
(* scheduler_base::get_stack_size *)
Definition get_stack_size (p : params) (c : sclass) : Z :=
  match c with
  | Nostack => max_ptrdiff
  | _ => match assoc enum_size c with Some q => p q | None => p Small end
  end.

Record tobj : Type := mkObj { oid : Z; osize : Z }.   (* identity, physical stack size (stacksize_) *)
Definition heaps : Type := sclass -> list tobj.
Definition upd_heap (hs : heaps) (h : sclass) (l : list tobj) : heaps :=
  fun h' => if sclass_eqb h' h then l else hs h'.

Inductive qevent : Type :=
  | EvNew (o : tobj) (cls : sclass) (want : Z)       (* fresh allocation of stack size [want] *)
  | EvRebound (o : tobj) (cls : sclass) (want : Z)   (* recycled object rebound to a task wanting [want] *)
  | EvRecycled (o : tobj) (h : sclass)
  | EvNoHeap (want : Z).                             (* PIKA_ASSERT(heap) / invalid stack size *)

Record qstate : Type := mkQ { qheaps : heaps; qlive : list tobj; qnext : Z; qlog : list qevent }.

Inductive qop : Type :=
  | Create (cls : sclass)          (* create_thread_object for a task of class [cls] *)
  | Terminate (n : nat).           (* the n-th live task terminates: recycle_thread *)

(* The code of one queue implementation, as regenerated from its source: the two if-chains and the
   ends of the std::list a heap is read / written at.  Two instances: [tq_code] (thread_queue.hpp,
   all schedulers but one) and [mc_code] (thread_queue_mc.hpp + queue_holder_thread.hpp, the
   shared-priority scheduler, which has its own copy of creation and recycling). *)
Record qcode : Type := mkCode {
  qc_create : list (sclass * sclass);    (* create_thread_object: size parameter compared -> heap *)
  qc_recycle : list (sclass * sclass);   (* recycle_thread *)
  qc_take : hend;                        (* heap->back(); pop_back()   /  heap->front(); pop_front() *)
  qc_put : hend }.                       (* push_back(thrd)            /  push_front(tid) *)
Definition tq_code : qcode := mkCode create_chain recycle_chain tq_heap_take tq_heap_put.
Definition mc_code : qcode := mkCode mc_create_chain mc_recycle_chain mc_heap_take mc_heap_put.

(* a heap is the std::list in its order: head of the Coq list = front() *)
Definition take_end (e : hend) (l : list tobj) : option (tobj * list tobj) :=
  match e with
  | HFront => match l with o :: r => Some (o, r) | [] => None end
  | HBack => match rev l with o :: r => Some (o, rev r) | [] => None end
  end.
Definition put_end (e : hend) (o : tobj) (l : list tobj) : list tobj :=
  match e with HFront => o :: l | HBack => l ++ [o] end.

Definition q_step_g (k : qcode) (p : params) (q : qstate) (op : qop) : qstate :=
  match op with
  | Create cls =>
      let want := get_stack_size p cls in
      match chain_lookup (qc_create k) p want with
      | None => mkQ (qheaps q) (qlive q) (qnext q) (EvNoHeap want :: qlog q)
      | Some h =>
          match take_end (qc_take k) (qheaps q h) with
          | Some (o, rest) =>        (* if (!heap->empty()): take the object at the code's end; rebind *)
              mkQ (upd_heap (qheaps q) h rest) (o :: qlive q) (qnext q) (EvRebound o cls want :: qlog q)
          | None =>
              let o := mkObj (qnext q) want in
              mkQ (qheaps q) (o :: qlive q) (qnext q + 1) (EvNew o cls want :: qlog q)
          end
      end
  | Terminate n =>
      match nth_error (qlive q) n with
      | None => q
      | Some o =>
          let live' := firstn n (qlive q) ++ skipn (S n) (qlive q) in
          match chain_lookup (qc_recycle k) p (osize o) with
          | None => mkQ (qheaps q) live' (qnext q) (EvNoHeap (osize o) :: qlog q)
          | Some h => mkQ (upd_heap (qheaps q) h (put_end (qc_put k) o (qheaps q h))) live' (qnext q) (EvRecycled o h :: qlog q)
          end
      end
  end.
Definition q_init : qstate := mkQ (fun _ => []) [] 0 [].
Definition q_run_g (k : qcode) (p : params) (ops : list qop) : qstate := fold_left (q_step_g k p) ops q_init.

(* thread_queue *)
Definition q_step : params -> qstate -> qop -> qstate := q_step_g tq_code.
Definition q_run : params -> list qop -> qstate := q_run_g tq_code.
(* thread_queue_mc / queue_holder_thread: one set of heaps per worker's holder, shared by its
   bound / high / normal / low priority queues (all of them call holder_->create_thread_object) *)
Definition mc_q_step : params -> qstate -> qop -> qstate := q_step_g mc_code.
Definition mc_q_run : params -> list qop -> qstate := q_run_g mc_code.

(* the two chains agree and no heap is the target of two entries *)
Fixpoint chain_eqb (a b : list (sclass * sclass)) : bool :=
  match a, b with
  | [], [] => true
  | (x1, y1) :: ta, (x2, y2) :: tb => sclass_eqb x1 x2 && sclass_eqb y1 y2 && chain_eqb ta tb
  | _, _ => false
  end.
Fixpoint mem_class (c : sclass) (l : list sclass) : bool :=
  match l with [] => false | x :: t => sclass_eqb x c || mem_class c t end.
Fixpoint nodup_classes (l : list sclass) : bool :=
  match l with [] => true | x :: t => negb (mem_class x t) && nodup_classes t end.
Definition chains_ok_g (k : qcode) : bool :=
  chain_eqb (qc_create k) (qc_recycle k) && nodup_classes (map snd (qc_create k)).
Definition chains_ok : bool := chains_ok_g tq_code.
Definition mc_chains_ok : bool := chains_ok_g mc_code.

(* ---------------- thread_stacksize::current: which class a created task gets ----------------
   A creation request carries either an explicit class or `current`.  A piece of code runs in a
   CONTEXT: [Some c] = inside a task whose stacksize_enum_ is c, [None] = no task (the scheduling
   loop of a worker, a plain OS thread); get_self_stacksize_enum() is [self_class].
   thread_queue::create_thread runs in the creator's context; it replaces `current` at the place
   the source has it (Gen.current_resolution, regenerated) and then either creates the thread
   object at once (run_now: high / boost priority, register_thread — still the creator's context)
   or stores the init data in a task description, which a worker converts later in ITS context
   (thread_queue::add_new, called from the scheduling loop).  create_thread_object asks
   scheduler_base::get_stack_size(data.stacksize), which resolves a remaining `current` in the
   context of its caller; the new thread_data's stacksize_enum_ is the init data's value
   (td_ctor / td_rebind: F_stacksize_enum := RInit I_stacksize). *)
Inductive sreq : Set := Explicit (c : sclass) | Current.
Inductive cpath : Set := RunNow | Staged.

Definition self_class (ctx : option sclass) : sclass :=
  match ctx with Some c => c | None => no_self_class end.
Definition resolve (ctx : option sclass) (r : sreq) : sclass :=
  match r with Explicit c => c | Current => self_class ctx end.

(* the request as it stands in the thread_init_data when the paths split / when it is stored,
   for a resolution site [site]; the code's site is Gen.current_resolution *)
Definition create_prologue_at (site : cur_site) (path : cpath) (creator : option sclass) (r : sreq) : sreq :=
  match site, path with
  | CurBeforeSplit, _ => Explicit (resolve creator r)
  | CurRunNowOnly, RunNow => Explicit (resolve creator r)
  | CurStagedOnly, Staged => Explicit (resolve creator r)
  | _, _ => r
  end.
Definition create_prologue : cpath -> option sclass -> sreq -> sreq := create_prologue_at current_resolution.
(* context in which create_thread_object runs *)
Definition object_ctx (path : cpath) (creator conv : option sclass) : option sclass :=
  match path with RunNow => creator | Staged => conv end.
(* class whose configured size the new task's stack gets (create_thread_object) *)
Definition created_class_at (site : cur_site) (path : cpath) (creator conv : option sclass) (r : sreq) : sclass :=
  resolve (object_ctx path creator conv) (create_prologue_at site path creator r).
Definition created_class : cpath -> option sclass -> option sclass -> sreq -> sclass := created_class_at current_resolution.
(* what the new task itself reports as its class (stacksize_enum_): [None] = the unresolved
   enumerator `current` was stored (PIKA_ASSERT in debug builds) *)
Definition created_enum_at (site : cur_site) (path : cpath) (creator : option sclass) (r : sreq) : option sclass :=
  match create_prologue_at site path creator r with Explicit c => Some c | Current => None end.
Definition created_enum : cpath -> option sclass -> sreq -> option sclass := created_enum_at current_resolution.

(* thread_queue_mc::create_thread has its own copy of the resolution (Gen.mc_current_resolution,
   regenerated from thread_queue_mc.hpp); the immediate path calls holder_->create_thread_object in
   the creator's context, the staged path pushes the init data itself (task_description =
   thread_init_data) and thread_queue_mc::add_new — the owner of the RECEIVING holder, from the
   scheduling loop — converts it.  shared_priority_queue_scheduler::create_thread and
   queue_holder_thread::create_thread may turn run_now off (target worker <> creating worker) before
   that function is entered, never on: an immediate request can become a staged one, which the
   quantification over [path] covers. *)
Definition mc_created_class : cpath -> option sclass -> option sclass -> sreq -> sclass := created_class_at mc_current_resolution.
Definition mc_created_enum : cpath -> option sclass -> sreq -> option sclass := created_enum_at mc_current_resolution.
(* run_now as thread_queue_mc::create_thread sees it *)
Definition mc_effective_path (same_worker : bool) (path : cpath) : cpath :=
  match path with RunNow => if same_worker then RunNow else Staged | Staged => Staged end.

(* a chain of creations: every generation is created by a task of the previous one, through some
   path, converted (if staged) in some context *)
Fixpoint descend (c : sclass) (gens : list (cpath * option sclass * sreq)) : sclass :=
  match gens with
  | [] => c
  | (path, conv, r) :: t => descend (created_class path (Some c) conv r) t
  end.
Fixpoint mc_descend (c : sclass) (gens : list (cpath * option sclass * sreq)) : sclass :=
  match gens with
  | [] => c
  | (path, conv, r) :: t => mc_descend (mc_created_class path (Some c) conv r) t
  end.
