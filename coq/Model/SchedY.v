(* Model/SchedY.v — the scheduler core of Model/Sched.v extended with this_thread::yield_to
   (scheduling_loop.hpp: `next_thrd`).  Executable definitions only; proofs in
   Proofs/SchedYProofs.v.

   What is transcribed:
     thread.cpp            yield_to(id) = suspend(pending, id.native_handle()): the coroutine
                           returns thread_result_type(pending, nextid) — the thread_id_type is
                           converted into a thread_id_ref_type (count_ + 1); a null id is a plain
                           yield
     scheduling_loop.hpp   the result of the coroutine call is stored the pair in switch_status
                           (next_thread_id_); store_state (restore_state: load, CAS active ->
                           pending); on failure `continue`: thrd_stat is destroyed (releases
                           next_thread_id_), then thrd; on success next_thrd =
                           thrd_stat.move_next_thread(), schedule_thread_last(thrd), and the next
                           iteration starts with `thrd = std::move(next_thrd)` WITHOUT
                           get_next_thread: the state of the target is loaded and the ordinary
                           branches follow (pending: set_state_tagged CAS; active: schedule_thread;
                           anything else: the handle is dropped).  The queue entry of the target —
                           if it has one — stays where it is: the handle in next_thrd is a DUPLICATE.
   Not modelled: nextid on another scheduler (schedule_thread there, plain yield here), the
   pending_boost branch `next_thrd = std::move(thrd)` under max_busy_loop_count (re-run at once:
   same as a push followed by a pop of that entry).

   The extension is conservative: a worker that is not inside a yield_to hand-over is `Base l`
   and steps exactly as in Model/Sched.v; only the act YieldTo (executed as a plain yield by the
   fragment step function tstep) is intercepted.  Proofs/SchedYProofs.v shows that on programs
   without YieldTo the runs of the two models coincide. *)
From Coq Require Import List NArith Bool Arith.
From Pika Require Import Base.Conc Gen.GenEnums Model.Sched.
Import ListNotations.

Inductive pcY :=
  | Base (l : pc)
  | WStoreLY (t : nat) (orig : word) (nx : nat)               (* restore_state: load; next_thread_id_ = nx *)
  | WStoreCY (t : nat) (orig : word) (cur : word) (nx : nat)  (* restore_state: CAS *)
  | WRequeueY (t : nat) (nx : nat)                            (* schedule_thread_last(thrd); next_thrd = nx *)
  | WReleaseY (t : nat) (nx : nat).                           (* store failed: ~switch_status releases nx, then thrd *)

Definition lift (r : G * pc) : G * pcY := (fst r, Base (snd r)).

Definition tstepY (o : oracle) (me : nat) (g : G) (l : pcY) : G * pcY :=
  match l with
  | Base (WRun t orig SNone) =>
      match todo (tasks g t) with
      | UserBody (YieldTo u :: r) =>
          let g1 := set_todo g t (UserBody r) in
          if u <? ntasks g then (rc_inc g1 u, WStoreLY t orig u)    (* thread_id_type -> thread_id_ref_type *)
          else (g1, Base (WStoreL t orig st_pending))               (* null id: plain yield *)
      | _ => lift (tstep o me g (WRun t orig SNone))
      end
  | Base l0 => lift (tstep o me g l0)
  | WStoreLY t orig nx => (g, WStoreCY t orig (tw_of g t) nx)
  | WStoreCY t orig cur nx =>
      if word_eqb (tw_of g t) orig then
        let nw := {| st := st_pending; tag := tag cur + 1 |} in
        let g0 := add_log (add_log (set_word g t nw) (EvExit (gid g t) (pred (ph (tasks g t))) me st_pending))
                          (EvWord (gid g t) SiteStore orig nw) in
        (self_ref g0 t, WRequeueY t nx)
      else (g, WReleaseY t nx)                                      (* "no state change": continue *)
  | WRequeueY t nx => (push g t, Base (WGot nx))                    (* thrd = std::move(next_thrd): no pop *)
  | WReleaseY t nx => (rc_dec g nx, Base (WRelease t))
  end.

Definition init_lsY (ext : nat -> option (list act)) : nat -> pcY := fun i => Base (init_ls ext i).
Definition sched_runY (sched : list (nat * oracle)) (ext : nat -> option (list act)) : G * (nat -> pcY) :=
  run tstepY sched (init_g, init_lsY ext).
Definition stuckY (c : G * (nat -> pcY)) : Prop :=
  forall a o, tstepY o a (fst c) (snd c a) = (fst c, snd c a).

(* between the successful pending->active CAS and the matching store *)
Definition runningY (l : pcY) (t : nat) : Prop :=
  match l with
  | Base l0 => running l0 t
  | WStoreLY t' _ _ | WStoreCY t' _ _ _ => t' = t
  | _ => False
  end.

(* ------------------------------------------------------------------ programs without yield_to *)
Fixpoint nyt (a : act) : bool :=
  match a with
  | YieldTo _ => false
  | Spawn b _ => forallb nyt b
  | _ => true
  end.
Definition nyt_body (b : body) : bool := match b with UserBody l => forallb nyt l | _ => true end.
Definition nyt_pc (l : pc) : bool := match l with XRun acts _ => forallb nyt acts | _ => true end.
Definition nyt_ext (ext : nat -> option (list act)) : Prop :=
  forall a acts, ext a = Some acts -> forallb nyt acts = true.

(* ------------------------------------------------------------------ current handles
   A handle of t that the code will not drop while t stays in the state it is in (w = the
   current word of t): a queue entry is always one; a worker's handle is one unless it has
   already loaded a word with which it will fail its CAS / take the drop branch *)
Definition cholds (w : word) (l : pc) (t : nat) : Prop :=
  match l with
  | WGot t' | WBoost t' | WBoostC t' _ | WRequeue t' => t' = t
  | WLoaded t' w0 => t' = t /\ (st w0 = st_active \/ (w0 = w /\ st w0 = st_pending))
  | WRun t' orig s => (t' = t /\ orig = w) \/ s = SEnq t
  | WStoreL t' orig _ | WStoreC t' orig _ _ => t' = t /\ orig = w
  | XRun _ s => s = SEnq t
  | WTop | WRelease _ => False
  end.
Definition choldsY (w : word) (l : pcY) (t : nat) : Prop :=
  match l with
  | Base l0 => cholds w l0 t
  | WStoreLY t' orig _ | WStoreCY t' orig _ _ => t' = t /\ orig = w
  | WRequeueY t' nx => t' = t \/ nx = t
  | WReleaseY _ _ => False
  end.
Definition boostsY (l : pcY) (t : nat) : Prop :=
  match l with Base (WBoost t') | Base (WBoostC t' _) => t' = t | _ => False end.

(* ------------------------------------------------------------------ boolean monitors for the
   extended model (evaluated by the extracted model on seeded random programs WITH YieldTo:
   tools/props/c01.py, kind MRUNY) *)
Definition sub_enq_b (s : sub) (t : nat) : bool := match s with SEnq u => Nat.eqb u t | _ => false end.
Definition cholds_b (w : word) (l : pc) (t : nat) : bool :=
  match l with
  | WGot t' | WBoost t' | WBoostC t' _ | WRequeue t' => Nat.eqb t' t
  | WLoaded t' w0 =>
      Nat.eqb t' t && (sst_beq (st w0) st_active || (word_eqb w0 w && sst_beq (st w0) st_pending))
  | WRun t' orig s => (Nat.eqb t' t && word_eqb orig w) || sub_enq_b s t
  | WStoreL t' orig _ | WStoreC t' orig _ _ => Nat.eqb t' t && word_eqb orig w
  | XRun _ s => sub_enq_b s t
  | WTop | WRelease _ => false
  end.
Definition choldsY_b (w : word) (l : pcY) (t : nat) : bool :=
  match l with
  | Base l0 => cholds_b w l0 t
  | WStoreLY t' orig _ | WStoreCY t' orig _ _ => Nat.eqb t' t && word_eqb orig w
  | WRequeueY t' nx => Nat.eqb t' t || Nat.eqb nx t
  | WReleaseY _ _ => false
  end.
Definition live_b (s : sst) : bool :=
  sst_beq s st_pending || sst_beq s st_pending_boost || sst_beq s st_active.
(* every live task has a current handle (threads 0..T-1) *)
Definition xcover_b (T : nat) (c : G * (nat -> pcY)) : bool :=
  let g := fst c in
  forallb (fun t => negb (live_b (st (tw_of g t)))
                    || existsb (Nat.eqb t) (pend g)
                    || existsb (fun a => choldsY_b (tw_of g t) (snd c a) t) (seq 0 T))
          (seq 0 (ntasks g)).
Definition idleY_b (T : nat) (c : G * (nat -> pcY)) : bool :=
  match pend (fst c), staged (fst c) with
  | [], [] => forallb (fun a => match snd c a with Base WTop | Base (XRun [] SNone) => true | _ => false end) (seq 0 T)
  | _, _ => false
  end.
(* quiescent => every task is suspended or terminated *)
Definition nodropY_b (T : nat) (c : G * (nat -> pcY)) : bool :=
  negb (idleY_b T c)
  || forallb (fun t => sst_beq (st (tw_of (fst c) t)) st_suspended || sst_beq (st (tw_of (fst c) t)) st_terminated)
             (seq 0 (ntasks (fst c))).
Definition monY_ok (T : nat) (c : G * (nat -> pcY)) : bool := xcover_b T c && nodropY_b T c.
