(* Model/SenderLedger.v — C03: the object ledger and the operation-state accesses of pika's
   sender adaptors, on top of the sequential evaluator [sigs] of Model/Sender.v.

   [lrun t p] evaluates the pipeline [t] whose operation state sits at position [p] of the
   operation-state tree (child i of node p is i :: p) and returns, for that node,
     n_con  : the events of connect() — the operation state and everything emplaced with it
              (ensure_started connects AND runs its predecessor here, as its constructor does);
     n_pre  : the events from start() up to (excluding) the call of the node's receiver;
     n_c    : the completion the receiver is called with;
     n_res  : the events of destroying the node's operation state once it has signalled
              (= what happens if the receiver destroys the state inside set_xxx, and also what
              the owner does later: in the sequential evaluation nothing changes in between);
     n_post : the events after the receiver call has returned (stack unwinding: destructors
              of the receivers that were moved to the stack with `auto r = std::move( *this)`,
              of drop_operation_state's ts_local, ...).
   Events are read off the headers (libs/pika/execution/include/pika/execution/algorithms/*.hpp,
   execution_base/any_sender.hpp): where emplace / reset / the destructors run relative to the
   call of the downstream receiver.

   The evaluator is partial: it gives up (None) when a sub-operation would not deliver exactly
   one signal to its join (the join of when_all / when_all_vector / split does not fire at the
   last child, or fires twice).  That this never happens for well-formed terms is a theorem
   (Proofs/SenderLedgerProofs.v, via the join invariant of SenderProofs.v); the counter, the
   flag, the slots are those of Model/Sender.v ([join_child]) — nothing is presupposed.

   Reference counts of the shared states (split / ensure_started / split_tuple) are explicit:
   RefInc / RefDec events and a count computed from the code's copies; the shared state and
   the stored variant are destroyed iff the computed count reaches 0.

   Executable definitions only. *)
From Coq Require Import List NArith ZArith Bool Arith.
From Pika Require Import Model.Sender.
Import ListNotations.

Definition path := list nat.

Inductive okind :=
  | KState            (* the operation state object of an adaptor node (receiver, flags, counters) *)
  | KLeaf             (* operation state of a leaf sender (just / the harness' channel leaf) *)
  | KSched            (* operation state of schedule(s) *)
  | KFn               (* captured callable, stored inside the operation state (receiver member) *)
  | KStk              (* the receiver incl. the callable moved to the stack: auto r = std::move( *this) *)
  | KVals (i : nat)   (* stored values: when_all slot i / predecessor_ts / schedule_from ts / leaf values *)
  | KErr              (* stored error: when_all(_vector) optional error, let_error predecessor_error *)
  | KSub (i : nat)    (* heap / optional storage of sub operation states: op_states array, any_sender holder *)
  | KLocal            (* drop_operation_state: the tuple ts_local on the stack *)
  | KShared           (* heap shared state of split / ensure_started / split_tuple *)
  | KShVar.           (* the variant v of the shared state holding the stored completion *)

Definition obj := (path * okind)%type.

Inductive lev :=
  | New (o : obj)                    (* constructor / emplace *)
  | Del (o : obj)                    (* destructor / reset *)
  | Acc (p : path)                   (* node p's operation state is read or written (flag, counter, slot, member) *)
  | AccSh (p : path)                 (* the shared state of node p is read or written *)
  | RefInc (p : path) | RefDec (p : path)    (* intrusive_ptr copies / releases of the shared state of node p *)
  | Sg (p : path) (c : completion)   (* the operation of node p calls set_value/error/stopped of its receiver *)
  | Term (c : completion).           (* the receiver connected to the whole pipeline is called *)

Record nrun := { n_con : list lev; n_pre : list lev; n_c : completion; n_res : list lev; n_post : list lev }.

(* what one receiver does with the completion it gets *)
Record recv := { r_ev : list lev;       (* before it calls the downstream receiver *)
                 r_c : completion;      (* what it calls it with *)
                 r_res : list lev;      (* destruction of what it stored in the operation state (members declared after the child state) *)
                 r_post : list lev }.   (* after the downstream call returned *)

(* unode adaptor at node p over the child operation at 0 :: p.
   inside = true: the receiver resets the child's operation state before it signals
   (drop_operation_state: op_state.reset() inside the child's set_xxx) *)
Definition unode (p : path) (own_con own_start own_res : list lev) (inside : bool)
                 (ch : nrun) (rc : completion -> recv) : nrun :=
  let r := rc (n_c ch) in
  {| n_con := own_con ++ n_con ch;
     n_pre := own_start ++ n_pre ch ++ Sg (0 :: p) (n_c ch) :: r_ev r
              ++ (if inside then Acc p :: n_res ch ++ [Acc p] else []);
     n_c := r_c r;
     n_res := r_res r ++ (if inside then [] else n_res ch) ++ own_res;
     n_post := r_post r ++ n_post ch |}.

Definition plain (evs : list lev) (c : completion) : recv :=
  {| r_ev := evs; r_c := c; r_res := []; r_post := [] |}.

(* then / bulk: every set_xxx moves the receiver (with the callable) to the stack first *)
Definition fn_recv (p : path) (c : completion) : recv :=
  {| r_ev := [Acc p; New (p, KStk)]; r_c := c; r_res := []; r_post := [Del (p, KStk)] |}.

Definition leaf (p : path) (k : okind) (vals : bool) (c : completion) : nrun :=
  {| n_con := New (p, k) :: (if vals then [New (p, KVals 0)] else []);
     n_pre := [Acc p];
     n_c := c;
     n_res := (if vals then [Del (p, KVals 0)] else []) ++ [Del (p, k)];
     n_post := [] |}.

(* ------------------------------------------------------------------ joins *)
(* receiver of child i of the join at p: flag access (+ store), then finish(): decrement *)
Definition jrecv_events (p : path) (j : join) (i : nat) (c : completion) : list lev :=
  match c with
  | CVal _ => Acc p :: (if j_flag j then [] else [New (p, KVals i)])
  | CErr _ => Acc p :: (if j_flag j then [] else [New (p, KErr)])
  | CStopped => [Acc p]
  end ++ [Acc p].

(* children started in index order; [loop] = what start() touches per iteration.
   Result: events up to the join's own signal, its completion, the unwinding, the final state *)
Fixpoint jfold (p : path) (off n : nat) (loop : list lev) (i : nat) (chs : list nrun) (j : join)
  : option (list lev * completion * list lev * join) :=
  match chs with
  | [] => None
  | ch :: rest =>
      let j' := join_child n j (i, Sig (n_c ch)) in
      let evs := loop ++ n_pre ch ++ Sg (off + i :: p) (n_c ch) :: jrecv_events p j i (n_c ch) in
      match j_out j', rest with
      | [], _ :: _ =>
          match jfold p off n loop (S i) rest j' with
          | Some (pre, c, post, jf) => Some (evs ++ n_post ch ++ pre, c, post, jf)
          | None => None
          end
      | [Sig c], [] => Some (evs ++ [Acc p], c, n_post ch, j')    (* finish(): flag / error / slots read, then the signal *)
      | _, _ => None
      end
  end.

Definition slot_dels (p : path) (j : join) : list lev :=
  map (fun s => Del (p, KVals (fst s))) (j_slots j)
  ++ match j_err j with Some _ => [Del (p, KErr)] | None => [] end.

(* when_all (vec = false) / when_all_vector (vec = true) over already evaluated children
   (child i at off + i :: p) *)
Definition join_node (p : path) (off : nat) (vec : bool) (extra_con extra_res : list lev) (chs : list nrun) : option nrun :=
  let n := length chs in
  let own_con := New (p, KState) :: (if vec then [New (p, KSub 0)] else []) in
  let own_res := (if vec then [Del (p, KSub 0)] else []) ++ [Del (p, KState)] in
  match chs with
  | [] => if vec
          then Some {| n_con := extra_con ++ own_con; n_pre := [Acc p]; n_c := CVal [];
                       n_res := own_res ++ extra_res; n_post := [] |}
          else None
  | _ =>
      match jfold p off n (if vec then [Acc p] else []) 0 chs (join_init n) with
      | Some (pre, c, post, jf) =>
          Some {| n_con := extra_con ++ own_con ++ flat_map n_con chs;
                  n_pre := (if vec then [Acc p] else []) ++ pre;
                  n_c := c;
                  n_res := flat_map n_res chs ++ slot_dels p jf ++ own_res ++ extra_res;
                  n_post := post |}
      | None => None
      end
  end.

(* ------------------------------------------------------------------ shared states *)
(* the predecessor (at 0 :: p) completes into the shared state of node p:
   receiver moved to the stack (it carries the intrusive_ptr when [ref] = true: split,
   ensure_started, split_tuple — all three today), v.emplace, os.reset(),
   predecessor_done = true, lock_guard, continuations (none stored in the sequential
   evaluation), then r is destroyed *)
Definition pred_run (p : path) (ref : bool) (pr : nrun) : list lev :=
  n_pre pr ++ Sg (0 :: p) (n_c pr) :: [AccSh p; New (p, KShVar)]
  ++ AccSh p :: n_res pr
  ++ [AccSh p; AccSh p; AccSh p]
  ++ (if ref then [RefDec p] else [])
  ++ n_post pr.

(* consumer i (operation state at S i :: p): state->start() (start_called.exchange; the first
   one starts the predecessor), add_continuation: predecessor_done is set, visit(v) *)
Definition consumer (p : path) (ref : bool) (pr : nrun) (i : nat) : nrun :=
  {| n_con := [New (S i :: p, KState); RefInc p];
     n_pre := AccSh p :: (match i with O => pred_run p ref pr | S _ => [] end) ++ [AccSh p; AccSh p];
     n_c := n_c pr;
     n_res := [Del (S i :: p, KState); RefDec p];
     n_post := [] |}.


(* the last intrusive_ptr_release destroys the shared state (with the stored variant) iff the
   count computed from the code's copies has reached 0 *)
Definition shared_release (p : path) (rc : Z) : list lev :=
  if (rc =? 0)%Z then [Del (p, KShVar); Del (p, KShared)] else [].

(* ------------------------------------------------------------------ the evaluator *)
Definition tuple_c (i : nat) (c : completion) : completion :=
  match c with CVal vs => CVal (half i vs) | _ => c end.

Definition let_con (p : path) : list lev := [New (p, KState); New (p, KFn)].
Definition let_res (p : path) : list lev := [Del (p, KFn); Del (p, KState)].

(* let_value / let_error receiver on the channel it handles: the values / the error are stored
   ([st]), f is invoked; it throws ([inl e]) or returns a sender whose operation state is
   emplaced (its connect events) and started; that successor is connected to the moved
   receiver, so its signal is the node's signal *)
Definition let_recv (p : path) (st : okind) (su : exn + nrun) : recv :=
  match su with
  | inl e => {| r_ev := [Acc p; New (p, st); Acc p]; r_c := CErr e; r_res := [Del (p, st)]; r_post := [] |}
  | inr s => {| r_ev := [Acc p; New (p, st); Acc p] ++ n_con s ++ n_pre s ++ [Sg (1 :: p) (n_c s)];
                r_c := n_c s;
                r_res := n_res s ++ [Del (p, st)];
                r_post := n_post s |}
  end.

(* schedule_from's receiver: ts.emplace, scheduler_op_state.emplace + start; the scheduler's
   completion resets scheduler_op_state and forwards the parked values / its error / stopped *)
Definition sched_recv (p : path) (s : sched) (c : completion) : recv :=
  match c with
  | CVal _ =>
      let sch := leaf (1 :: p) KSched false (sched_c s) in
      {| r_ev := [Acc p; New (p, KVals 0); Acc p] ++ n_con sch ++ n_pre sch
                 ++ Sg (1 :: p) (n_c sch) :: Acc p :: n_res sch ++ [Acc p];
         r_c := continues_on_c s c;
         r_res := [Del (p, KVals 0)];
         r_post := n_post sch |}
  | _ => plain [Acc p] c
  end.

(* drop_operation_state: values go to ts_local on the stack, then op_state.reset(), then the signal *)
Definition drop_recv (p : path) (c : completion) : recv :=
  match c with
  | CVal _ => {| r_ev := [New (p, KLocal)]; r_c := c; r_res := []; r_post := [Del (p, KLocal)] |}
  | _ => plain [] c
  end.

Fixpoint lrun (t : term) (p : path) : option nrun :=
  match t with
  | Just vs => Some (leaf p KLeaf true (CVal vs))
  | JustErr e => Some (leaf p KLeaf false (CErr e))
  | JustStopped => Some (leaf p KLeaf false CStopped)
  | Schedule s => Some (leaf p KSched false (sched_c s))
  | Then f t =>
      match lrun t (0 :: p) with
      | Some ch => Some (unode p [New (p, KFn)] [] [Del (p, KFn)] false ch (fun c => fn_recv p (then_c f c)))
      | None => None
      end
  | Bulk n f t =>
      match lrun t (0 :: p) with
      | Some ch => Some (unode p [New (p, KFn)] [] [Del (p, KFn)] false ch (fun c => fn_recv p (bulk_c n f c)))
      | None => None
      end
  | DropValue t =>
      match lrun t (0 :: p) with
      | Some ch => Some (unode p [] [] [] false ch (fun c => plain [Acc p] (drop_value_c c)))
      | None => None
      end
  | Unpack t =>
      match lrun t (0 :: p) with
      | Some ch => Some (unode p [] [] [] false ch (fun c => plain [Acc p] c))
      | None => None
      end
  | RequireStarted t =>      (* own operation state with the started flag, set in start() *)
      match lrun t (0 :: p) with
      | Some ch => Some (unode p [New (p, KState)] [Acc p] [Del (p, KState)] false ch (fun c => plain [Acc p] c))
      | None => None
      end
  | Erased t =>              (* any_operation_state { receiver, receiver_ref, holder -> optional<child state> } *)
      match lrun t (0 :: p) with
      | Some ch => Some (unode p [New (p, KState); New (p, KSub 0)] [Acc p] [Del (p, KSub 0); Del (p, KState)] false ch
                               (fun c => plain [Acc p] c))
      | None => None
      end
  | DropOpState t =>
      match lrun t (0 :: p) with
      | Some ch => Some (unode p [New (p, KState)] [Acc p] [Del (p, KState)] true ch (drop_recv p))
      | None => None
      end
  | ContinuesOn s t =>
      match lrun t (0 :: p) with
      | Some ch => Some (unode p [New (p, KState)] [] [Del (p, KState)] false ch (sched_recv p s))
      | None => None
      end
  | LetValue thr k t =>
      match lrun t (0 :: p) with
      | Some ch =>
          match n_c ch with
          | CVal vs =>
              match thr vs with
              | Some e => Some (unode p (let_con p) [] (let_res p) false ch (fun _ => let_recv p (KVals 0) (inl e)))
              | None =>
                  match lrun (k vs) (1 :: p) with
                  | Some su => Some (unode p (let_con p) [] (let_res p) false ch (fun _ => let_recv p (KVals 0) (inr su)))
                  | None => None
                  end
              end
          | _ => Some (unode p (let_con p) [] (let_res p) false ch (fun c => plain [Acc p] c))
          end
      | None => None
      end
  | LetError thr k t =>
      match lrun t (0 :: p) with
      | Some ch =>
          match n_c ch with
          | CErr x =>
              match thr x with
              | Some e => Some (unode p (let_con p) [] (let_res p) false ch (fun _ => let_recv p KErr (inl e)))
              | None =>
                  match lrun (k x) (1 :: p) with
                  | Some su => Some (unode p (let_con p) [] (let_res p) false ch (fun _ => let_recv p KErr (inr su)))
                  | None => None
                  end
              end
          | _ => Some (unode p (let_con p) [] (let_res p) false ch (fun c => plain [Acc p] c))
          end
      | None => None
      end
  | WhenAll ts =>
      match (fix go (i : nat) (l : list term) : option (list nrun) :=
               match l with
               | [] => Some []
               | t :: r => match lrun t (i :: p), go (S i) r with Some x, Some xs => Some (x :: xs) | _, _ => None end
               end) O ts with
      | Some chs => join_node p 0 false [] [] chs
      | None => None
      end
  | WhenAllVector ts =>
      match (fix go (i : nat) (l : list term) : option (list nrun) :=
               match l with
               | [] => Some []
               | t :: r => match lrun t (i :: p), go (S i) r with Some x, Some xs => Some (x :: xs) | _, _ => None end
               end) O ts with
      | Some chs => join_node p 0 true [] [] chs
      | None => None
      end
  | Split n t =>             (* shared state (heap) owning the predecessor's operation state (os); its
                                split_receiver holds one reference, every consumer operation state one;
                                the n consumers are joined by when_all_vector at the same node.
                                Count after the run: 1 + n, minus 1 when the predecessor completed
                                (r destroyed; needs a consumer to start it), minus n consumers *)
      match lrun t (0 :: p) with
      | Some pr =>
          let rc := (1 + Z.of_nat n - (match n with O => 0 | S _ => 1 end) - Z.of_nat n)%Z in
          join_node p 1 true ([New (p, KShared); RefInc p] ++ n_con pr) (shared_release p rc)
                    (map (consumer p true pr) (seq 0 n))
      | None => None
      end
  | SplitTuple t =>          (* as split: the split_tuple_receiver holds one reference (released with r when the
                                predecessor has completed), each of the two element operation states one; the
                                two element senders are joined by when_all.  Count after the run: 1 + 2 - 1 - 2 *)
      match lrun t (0 :: p) with
      | Some pr =>
          let mk i := let c := consumer p true pr i in
                      {| n_con := n_con c; n_pre := n_pre c; n_c := tuple_c i (n_c c); n_res := n_res c; n_post := n_post c |} in
          join_node p 1 false ([New (p, KShared); RefInc p] ++ n_con pr) (shared_release p (1 + 2 - 1 - 2)%Z) [mk 0; mk 1]
      | None => None
      end
  | EnsureStarted t =>       (* the constructor connects and starts the predecessor; the consumer's
                                start() finds predecessor_done set.  Count: receiver + sender, minus r,
                                minus the consumer's operation state (it took over the sender's pointer) *)
      match lrun t (0 :: p) with
      | Some pr =>
          Some {| n_con := [New (p, KShared); RefInc p] ++ n_con pr ++ [RefInc p; AccSh p] ++ pred_run p true pr ++ [New (p, KState)];
                  n_pre := [AccSh p; AccSh p];
                  n_c := n_c pr;
                  n_res := [Del (p, KState); RefDec p] ++ shared_release p (2 - 1 - 1)%Z;
                  n_post := [] |}
      | None => None
      end
  end.

(* the whole run: connect, start, the terminal receiver; rd = true: the receiver destroys the
   operation state inside set_xxx (what start_detached does; harness mode rd), rd = false: the
   owner destroys it after start() has returned *)
Definition ltrace (rd : bool) (r : nrun) : list lev :=
  n_con r ++ n_pre r ++ Term (n_c r) ::
  (if rd then n_res r ++ n_post r else n_post r ++ n_res r).

Definition ledger (rd : bool) (t : term) : option (list lev) :=
  match lrun t [] with Some r => Some (ltrace rd r) | None => None end.

(* ------------------------------------------------------------------ reading a trace *)
Definition okind_eqb (a b : okind) : bool :=
  match a, b with
  | KState, KState | KLeaf, KLeaf | KSched, KSched | KFn, KFn | KStk, KStk | KErr, KErr
  | KLocal, KLocal | KShared, KShared | KShVar, KShVar => true
  | KVals i, KVals j | KSub i, KSub j => Nat.eqb i j
  | _, _ => false
  end.
Fixpoint path_eqb (a b : path) : bool :=
  match a, b with
  | [], [] => true
  | x :: a', y :: b' => Nat.eqb x y && path_eqb a' b'
  | _, _ => false
  end.
Definition obj_eqb (a b : obj) : bool := path_eqb (fst a) (fst b) && okind_eqb (snd a) (snd b).

Fixpoint cref (p : path) (l : list lev) : Z :=
  match l with
  | [] => 0
  | RefInc x :: r => (if path_eqb p x then 1 else 0) + cref p r
  | RefDec x :: r => (if path_eqb p x then -1 else 0) + cref p r
  | _ :: r => cref p r
  end%Z.

Fixpoint news (l : list lev) : list obj :=
  match l with [] => [] | New o :: r => o :: news r | _ :: r => news r end.
Fixpoint dels (l : list lev) : list obj :=
  match l with [] => [] | Del o :: r => o :: dels r | _ :: r => dels r end.

(* q' lies in the operation-state subtree of q *)
Definition under (q q' : path) : Prop := exists l, q' = l ++ q.

(* kinds that live inside an operation state (not on the stack, not in a shared state) *)
Definition in_state (k : okind) : bool :=
  match k with KStk | KLocal | KShared | KShVar => false | _ => true end.

(* the operation state an event reads or writes (destruction by the owner is not a use) *)
Definition touch (e : lev) : option path :=
  match e with
  | Acc p => Some p
  | New (p, k) => if in_state k then Some p else None
  | _ => None
  end.

(* for the correspondence check: objects of a kind class alive after a prefix of the trace *)
Fixpoint live_count (f : okind -> bool) (l : list lev) (acc : Z) : Z :=
  match l with
  | [] => acc
  | New (_, k) :: r => live_count f r (if f k then acc + 1 else acc)%Z
  | Del (_, k) :: r => live_count f r (if f k then acc - 1 else acc)%Z
  | _ :: r => live_count f r acc
  end.

(* well-formed for the ledger: as [wf], and a split sender is connected (and started) at least
   once — a split whose sender is dropped unstarted keeps its shared state alive through the
   cycle shared_state -> os -> split_receiver -> intrusive_ptr<shared_state> (usage error
   according to ~shared_state's assertion; the sensitivity lemma ledger_split_unstarted_leaks
   shows the model sees the leak) *)
Fixpoint wfl (t : term) : Prop :=
  match t with
  | Just _ | JustErr _ | JustStopped | Schedule _ => True
  | Split n t => n <> O /\ wfl t
  | Then _ t | SplitTuple t | EnsureStarted t | DropValue t | DropOpState t
  | RequireStarted t | Unpack t | ContinuesOn _ t | Bulk _ _ t | Erased t => wfl t
  | LetValue _ k t => wfl t /\ forall vs, wfl (k vs)
  | LetError _ k t => wfl t /\ forall e, wfl (k e)
  | WhenAll ts => ts <> [] /\ (fix all (l : list term) : Prop :=
                                 match l with [] => True | t :: r => wfl t /\ all r end) ts
  | WhenAllVector ts => (fix all (l : list term) : Prop :=
                           match l with [] => True | t :: r => wfl t /\ all r end) ts
  end.

(* executable check of "no use after signal" on one trace (used as a monitor on the model for
   every generated case, and in Examples): after [Sg q c] no event touches an operation state in
   the subtree of q; after the shared state of p has been destroyed nothing accesses it *)
Fixpoint underb (q q' : path) : bool :=
  path_eqb q q' || match q' with [] => false | _ :: r => underb q r end.
Definition touches_under (q : path) (e : lev) : bool :=
  match touch e with Some q' => underb q q' | None => false end.
Definition uses_shared (p : path) (e : lev) : bool :=
  match e with
  | AccSh x | RefInc x | RefDec x => path_eqb p x
  | New (x, KShVar) => path_eqb p x
  | _ => false
  end.
Fixpoint nouse_ok (l : list lev) : bool :=
  match l with
  | [] => true
  | Sg q _ :: r => negb (existsb (touches_under q) r) && nouse_ok r
  | Del (p, KShared) :: r => negb (existsb (uses_shared p) r) && nouse_ok r
  | _ :: r => nouse_ok r
  end.

(* the part of the trace up to and including the call of the terminal receiver *)
Fixpoint upto_term (l : list lev) : list lev :=
  match l with [] => [] | Term c :: _ => [Term c] | e :: r => e :: upto_term r end.
