(* Model/TimedPredLoop.v — C07: the loop of the TIMED PREDICATE waits of the public header, on its own:

     while (!pred()) { if (wait_until(lock, abs_time, ec) == cv_status::timeout) return E; }  return true;

   (condition_variable, condition_variable_any; the stop-token form has `if (should_stop) return E;`), with
   E regenerated from the header into Gen/GenTimedPred.v (OT_Reeval = `pred()`, OT_Const b = a constant).
   Sequential view of ONE call: the predicate is a script (its i-th evaluation returns p i — whatever other
   threads did to the predicate's variables in between is in the script), the inner timed wait is an oracle
   (its j-th call reports time-out iff w j).  Every inner wait releases the user lock and returns with it
   re-acquired (C07_wait_returns_with_lock_and_pred for CWaitFor), so an evaluation that FOLLOWS a wait event in
   the trace is an evaluation with the lock re-acquired after that wait.  Executable definitions only. *)
From Coq Require Import List Bool Arith.
From Pika Require Import Gen.GenTimedPred.
Import ListNotations.

Inductive tp_ev := TpPred (v : bool) | TpWait (timed_out : bool).

(* events newest first; None = out of fuel (the loop is still running) *)
Fixpoint tp_run (ot : on_timeout) (fuel : nat) (p w : nat -> bool) (i j : nat) (tr : list tp_ev)
  : option (bool * list tp_ev) :=
  match fuel with
  | O => None
  | S f =>
      if p i then Some (true, TpPred true :: tr)
      else if w j then
        match ot with
        | OT_Reeval => Some (p (S i), TpPred (p (S i)) :: TpWait true :: TpPred false :: tr)
        | OT_Const b => Some (b, TpWait true :: TpPred false :: tr)
        end
      else tp_run ot f p w (S i) (S j) (TpWait false :: TpPred false :: tr)
  end.

Definition tp_call (ot : on_timeout) (fuel : nat) (p w : nat -> bool) := tp_run ot fuel p w 0 0 [].

(* number of predicate evaluations in a trace *)
Fixpoint tp_evals (tr : list tp_ev) : nat :=
  match tr with [] => 0 | TpPred _ :: r => S (tp_evals r) | TpWait _ :: r => tp_evals r end.

(* scripts given as lists (last element repeated; the empty script is constantly false / never times out) *)
Definition script (l : list bool) (d : bool) : nat -> bool := fun i => nth i l (last l d).
