(* Model/Sender.v — C03: pika's sender factories and adaptors
   (libs/pika/execution/include/pika/execution/algorithms/*.hpp, execution_base/any_sender.hpp).

   [term]  : pipelines as data.  User callables are total Coq functions into value + exception.
   [den]   : the set of completions a pipeline denotes (compositional, no storage, no counters).
   [sigs]   : operational evaluator: the list of events that reach the receiver connected to the
             pipeline when every leaf completes inline in start() (children of when_all are
             started in index order, as the code does).  It follows the operation states:
             each adaptor's receiver is a function from ONE upstream signal to the events it
             causes downstream, and it is applied to EVERY upstream event, so "exactly one
             signal" is a theorem about the join counter / the shared state / the receivers,
             not something built into the shape of the evaluator.
   [Abort] : PIKA_UNREACHABLE reached (the process aborts).

   Values travel as lists of N (the harness uses one C++ value type, std::vector<P> of ledgered
   payloads, glued to multi-value adaptors by flattening).  Executable definitions only. *)
From Coq Require Import List NArith ZArith Bool.
Import ListNotations.

Definition val := N.
Definition exn := N.

Inductive completion := CVal (vs : list val) | CErr (e : exn) | CStopped.
Inductive ev := Sig (c : completion) | Abort.

Definition fn := list val -> list val + exn.          (* then: value or thrown exception *)
Definition thrower := list val -> option exn.          (* does the sender factory throw? *)
Definition bfn := N -> list val -> option exn.         (* bulk body at index i: throws? *)
(* what schedule(s) of the scheduler given to continues_on / schedule completes with *)
Inductive sched := SchedOk | SchedErr (e : exn) | SchedStopped.

Inductive term :=
  | Just (vs : list val) | JustErr (e : exn) | JustStopped
  | Schedule (s : sched)
  | Then (f : fn) (t : term)
  | LetValue (thr : thrower) (k : list val -> term) (t : term)
  | LetError (thr : exn -> option exn) (k : exn -> term) (t : term)
  | WhenAll (ts : list term)
  | WhenAllVector (ts : list term)
  | Split (n : nat) (t : term)        (* split(t) connected n times; consumers joined by when_all_vector *)
  | SplitTuple (t : term)             (* split_tuple of (front half, back half); the 2 senders joined by when_all *)
  | EnsureStarted (t : term)
  | DropValue (t : term) | DropOpState (t : term) | RequireStarted (t : term) | Unpack (t : term)
  | ContinuesOn (s : sched) (t : term)
  | Bulk (n : N) (f : bfn) (t : term)
  | Erased (t : term).                (* unique_any_sender<V>(t) *)

(* ---------------------------------------------------------------- the sends_done trait
   as the (non-stdexec) code computes it: only a leaf type that declares it advertises
   stopped; just() and every adaptor hard-code false; any_sender erases it.  Before the
   repair of F16 when_all_vector::finish and split_tuple's visitor branched on it. *)
Definition sends_done (t : term) : bool :=
  match t with
  | JustErr _ | JustStopped => true      (* the harness' channel leaf type declares sends_done = true *)
  | Schedule _ => true
  | _ => false
  end.

(* ---------------------------------------------------------------- receivers (one upstream signal) *)
Definition is_val (c : completion) : bool := match c with CVal _ => true | _ => false end.
Definition is_abort (e : ev) : bool := match e with Abort => true | _ => false end.

Definition then_c (f : fn) (c : completion) : completion :=
  match c with
  | CVal vs => match f vs with inl v => CVal v | inr e => CErr e end      (* try { set_value(f(ts)) } catch → set_error *)
  | CErr e => CErr e
  | CStopped => CStopped
  end.

Definition drop_value_c (c : completion) : completion :=
  match c with CVal _ => CVal [] | _ => c end.

Definition sched_c (s : sched) : completion :=
  match s with SchedOk => CVal [] | SchedErr e => CErr e | SchedStopped => CStopped end.

(* schedule_from: values parked in the operation state, scheduler's sender started; its
   completion forwards the parked values / the scheduler's error / stopped *)
Definition continues_on_c (s : sched) (c : completion) : completion :=
  match c with
  | CVal vs => match s with SchedOk => CVal vs | SchedErr e => CErr e | SchedStopped => CStopped end
  | _ => c
  end.

Fixpoint bulk_loop (f : bfn) (i : N) (cnt : nat) (vs : list val) : option exn :=
  match cnt with
  | O => None
  | S c => match f i vs with Some e => Some e | None => bulk_loop f (i + 1)%N c vs end
  end.

Definition bulk_c (n : N) (f : bfn) (c : completion) : completion :=
  match c with
  | CVal vs => match bulk_loop f 0%N (N.to_nat n) vs with Some e => CErr e | None => CVal vs end
  | _ => c
  end.

(* apply a receiver to every upstream event *)
Definition bind (evs : list ev) (k : completion -> list ev) : list ev :=
  flat_map (fun e => match e with Sig c => k c | Abort => [Abort] end) evs.
Definition lift (f : completion -> completion) (evs : list ev) : list ev :=
  bind evs (fun c => [Sig (f c)]).

(* ---------------------------------------------------------------- when_all / when_all_vector join
   operation state: predecessors_remaining (size_t, here Z), set_stopped_error_called,
   optional error, one value slot per child *)
Record join := { j_rem : Z; j_flag : bool; j_err : option exn;
                 j_slots : list (nat * list val); j_out : list ev }.

Definition join_init (n : nat) : join :=
  {| j_rem := Z.of_nat n; j_flag := false; j_err := None; j_slots := []; j_out := [] |}.

Fixpoint lookup (k : nat) (sl : list (nat * list val)) : list val :=
  match sl with
  | [] => []
  | (i, vs) :: r => if Nat.eqb i k then vs else lookup k r
  end.
Definition collect (n : nat) (sl : list (nat * list val)) : list val :=
  flat_map (fun k => lookup k sl) (seq 0 n).

(* finish(): after the last decrement *)
Definition join_emit (n : nat) (j : join) : ev :=
  if negb (j_flag j) then Sig (CVal (collect n (j_slots j)))
  else match j_err j with
       | Some e => Sig (CErr e)
       | None => Sig CStopped   (* when_all; when_all_vector after the repair of F16 (was: Abort unless sends_done) *)
       end.

(* receiver of child i gets one signal: flag/store step, then finish() *)
Definition join_child (n : nat) (j : join) (ie : nat * ev) : join :=
  let '(i, e) := ie in
  match e with
  | Abort => {| j_rem := j_rem j; j_flag := j_flag j; j_err := j_err j; j_slots := j_slots j;
                j_out := j_out j ++ [Abort] |}
  | Sig c =>
      let j1 :=
        match c with
        | CVal vs => if j_flag j then j
                     else {| j_rem := j_rem j; j_flag := false; j_err := j_err j;
                             j_slots := (i, vs) :: j_slots j; j_out := j_out j |}
        | CErr x => if j_flag j then j      (* exchange(true) returned true: error not recorded *)
                    else {| j_rem := j_rem j; j_flag := true; j_err := Some x;
                            j_slots := j_slots j; j_out := j_out j |}
        | CStopped => {| j_rem := j_rem j; j_flag := true; j_err := j_err j;
                         j_slots := j_slots j; j_out := j_out j |}
        end in
      let r := (j_rem j1 - 1)%Z in
      let j2 := {| j_rem := r; j_flag := j_flag j1; j_err := j_err j1; j_slots := j_slots j1;
                   j_out := j_out j1 |} in
      if (r =? 0)%Z
      then {| j_rem := r; j_flag := j_flag j2; j_err := j_err j2; j_slots := j_slots j2;
              j_out := j_out j2 ++ [join_emit n j2] |}
      else j2
  end.

Definition join_run (n : nat) (ievs : list (nat * ev)) : list ev :=
  j_out (fold_left (join_child n) ievs (join_init n)).

(* when_all_vector::start signals an empty vector at once when there is no predecessor *)
Definition wav_run (n : nat) (ievs : list (nat * ev)) : list ev :=
  match n with O => [Sig (CVal [])] | _ => join_run n ievs end.

(* ---------------------------------------------------------------- split / ensure_started shared state
   v : monostate | stopped | error | value  (None = monostate) *)
Definition split_store (c : completion) : option completion :=
  Some c.       (* after the repair of F3 set_stopped emplaces stopped_type (was: CStopped => None) *)

Definition visit (v : option completion) : ev :=
  match v with None => Abort (* monostate: PIKA_UNREACHABLE *) | Some c => Sig c end.

(* None: predecessor_done never set; Some v: set, with the variant's content *)
Definition stored_of (pred : list ev) : option (option completion) :=
  fold_left (fun st e => match e with Sig c => Some (split_store c) | Abort => st end) pred None.

(* what ONE consumer's receiver gets (sequentially: the first consumer's start runs the
   predecessor to completion, then every add_continuation finds predecessor_done set; if the
   predecessor never completes the continuation is stored and never run) *)
Definition consumer_events (pred : list ev) : list ev :=
  if existsb is_abort pred then [Abort]
  else match stored_of pred with None => [] | Some v => [visit v] end.

Definition indexed (n : nat) (evs : list ev) : list (nat * ev) :=
  flat_map (fun i => map (pair i) evs) (seq 0 n).

Definition half (i : nat) (vs : list val) : list val :=
  match i with O => firstn (length vs / 2) vs | _ => skipn (length vs / 2) vs end.
Definition tuple_elem (i : nat) (e : ev) : ev :=
  match e with Sig (CVal vs) => Sig (CVal (half i vs)) | _ => e end.

(* ---------------------------------------------------------------- the evaluator *)
Fixpoint sigs (t : term) : list ev :=
  match t with
  | Just vs => [Sig (CVal vs)]
  | JustErr e => [Sig (CErr e)]
  | JustStopped => [Sig CStopped]
  | Schedule s => [Sig (sched_c s)]
  | Then f t => lift (then_c f) (sigs t)
  | LetValue thr k t =>
      bind (sigs t) (fun c => match c with
                             | CVal vs => match thr vs with Some e => [Sig (CErr e)] | None => sigs (k vs) end
                             | _ => [Sig c]
                             end)
  | LetError thr k t =>
      bind (sigs t) (fun c => match c with
                             | CErr e => match thr e with Some e' => [Sig (CErr e')] | None => sigs (k e) end
                             | _ => [Sig c]
                             end)
  | WhenAll ts =>
      join_run (length ts)
        ((fix go (i : nat) (l : list term) : list (nat * ev) :=
            match l with [] => [] | t :: r => map (pair i) (sigs t) ++ go (S i) r end) O ts)
  | WhenAllVector ts =>
      wav_run (length ts)
        ((fix go (i : nat) (l : list term) : list (nat * ev) :=
            match l with [] => [] | t :: r => map (pair i) (sigs t) ++ go (S i) r end) O ts)
  | Split n t => wav_run n (indexed n (consumer_events (sigs t)))
  | SplitTuple t =>
      join_run 2 (flat_map (fun i => map (fun e => (i, tuple_elem i e)) (consumer_events (sigs t))) (seq 0 2))
  | EnsureStarted t => consumer_events (sigs t)
  | DropValue t => lift drop_value_c (sigs t)
  | DropOpState t => lift (fun c => c) (sigs t)
  | RequireStarted t => lift (fun c => c) (sigs t)
  | Unpack t => lift (fun c => c) (sigs t)
  | ContinuesOn s t => lift (continues_on_c s) (sigs t)
  | Bulk n f t => lift (bulk_c n f) (sigs t)
  | Erased t => lift (fun c => c) (sigs t)
  end.

(* ---------------------------------------------------------------- the denotation (a set) *)
Definition val_of (c : completion) : list val := match c with CVal vs => vs | _ => [] end.

(* one choice of completion per child: value iff all children have a value, otherwise any of
   the failing children's completions may be the one reported *)
Definition join_den (combo : list completion) : list completion :=
  if forallb is_val combo then [CVal (flat_map val_of combo)]
  else filter (fun c => negb (is_val c)) combo.

Fixpoint combos (ds : list (list completion)) : list (list completion) :=
  match ds with
  | [] => [[]]
  | d :: r => flat_map (fun c => map (cons c) (combos r)) d
  end.

Fixpoint den (t : term) : list completion :=
  match t with
  | Just vs => [CVal vs]
  | JustErr e => [CErr e]
  | JustStopped => [CStopped]
  | Schedule s => [sched_c s]
  | Then f t => map (then_c f) (den t)
  | LetValue thr k t =>
      flat_map (fun c => match c with
                         | CVal vs => match thr vs with Some e => [CErr e] | None => den (k vs) end
                         | _ => [c]
                         end) (den t)
  | LetError thr k t =>
      flat_map (fun c => match c with
                         | CErr e => match thr e with Some e' => [CErr e'] | None => den (k e) end
                         | _ => [c]
                         end) (den t)
  | WhenAll ts => flat_map join_den (combos (map den ts))
  | WhenAllVector ts => flat_map join_den (combos (map den ts))
  | Split n t => flat_map (fun c => join_den (repeat c n)) (den t)
  | SplitTuple t => den t
  | EnsureStarted t => den t
  | DropValue t => map drop_value_c (den t)
  | DropOpState t => den t
  | RequireStarted t => den t
  | Unpack t => den t
  | ContinuesOn s t => map (continues_on_c s) (den t)
  | Bulk n f t => map (bulk_c n f) (den t)
  | Erased t => den t
  end.

(* sequential join: what the code reports when children complete in index order *)
Fixpoint first_fail (cs : list completion) : option completion :=
  match cs with
  | [] => None
  | c :: r => if is_val c then first_fail r else Some c
  end.
Definition join_seq (cs : list completion) : completion :=
  match first_fail cs with Some c => c | None => CVal (flat_map val_of cs) end.

(* well-formed: when_all has at least one predecessor (static_assert in when_all.hpp) *)
Fixpoint wf (t : term) : Prop :=
  match t with
  | Just _ | JustErr _ | JustStopped | Schedule _ => True
  | Then _ t | Split _ t | SplitTuple t | EnsureStarted t | DropValue t | DropOpState t
  | RequireStarted t | Unpack t | ContinuesOn _ t | Bulk _ _ t | Erased t => wf t
  | LetValue _ k t => wf t /\ forall vs, wf (k vs)
  | LetError _ k t => wf t /\ forall e, wf (k e)
  | WhenAll ts => ts <> [] /\ (fix all (l : list term) : Prop :=
                                 match l with [] => True | t :: r => wf t /\ all r end) ts
  | WhenAllVector ts => (fix all (l : list term) : Prop :=
                           match l with [] => True | t :: r => wf t /\ all r end) ts
  end.

(* ---------------------------------------------------------------- consumers at the end of a pipeline *)
(* sync_wait: the receiver stores value / error and releases the semaphore; set_stopped
   releases it with nothing stored and get_value() then reaches PIKA_UNREACHABLE (F18) *)
Inductive sw_out := SwRet (vs : list val) | SwThrow (e : exn) | SwAbort | SwHang.
Definition sync_wait (evs : list ev) : sw_out :=
  match evs with
  | [] => SwHang
  | Abort :: _ => SwAbort
  | Sig (CVal vs) :: _ => SwRet vs
  | Sig (CErr e) :: _ => SwThrow e
  | Sig CStopped :: _ => SwAbort
  end.

(* start_detached: the heap operation state is released by the receiver; an error is
   rethrown out of a noexcept function (documented: terminate) *)
Inductive sd_out := SdReleased (times : nat) | SdTerminate | SdAbort.
Definition start_detached (evs : list ev) : sd_out :=
  if existsb is_abort evs then SdAbort
  else if existsb (fun e => match e with Sig (CErr _) => true | _ => false end) evs then SdTerminate
  else SdReleased (length evs).
