(* Model/AddNewBatch.v — C01, round p13a: the conversion batch loop
     thread_queue::add_new(add_count, addfrom, lk, steal)      (thread_queue.hpp)
     thread_queue_mc::add_new(add_count, addfrom, stealing)    (thread_queue_mc.hpp)
   Staged task descriptions (addfrom->new_tasks_ / new_task_items_) are converted into runnable
   threads (pushed on the pending queue) in batches with a budget `add_count` (std::int64_t;
   -1 = no budget: add_new_always when max_thread_count is 0; 64 / 32 for thread_queue_mc).

       while (A && B) { body }          (C++ short-circuit: B is evaluated only when A is true)

   The SHAPE of the loop — the early-return guard, which of the two operands (budget test
   `add_count--`, pop `addfrom->Q.pop(task, steal)`) comes first, post- or pre-decrement, the
   counter / queue updates of the body in source order — is regenerated from the source on every
   run (Gen/GenAddNew.v, tools/genmods/c01.py) and INTERPRETED here.  With the pop first, the pop
   that precedes a failing budget test has already moved a description into the local variable
   `task`; the loop ends, `task` goes out of scope: the description is dropped exactly as the C++
   would drop it (it is in neither queue, new_tasks_count_ still counts it).

   Executable definitions only (no proofs).  One call = one critical section of the caller (the
   thread_queue mutex is held / thread_queue_mc::add_new is owner-only); descriptions pushed
   concurrently by other threads land behind the ones seen here (FIFO) and are not modelled.
   The budget is a mathematical integer: a negative budget never reaches 0 (the int64 wrap-around
   would need 2^63 pops).  Pop order is FIFO (`In order`); the queue back-ends are C17. *)
From Coq Require Import ZArith List Bool.
From Pika Require Import Gen.GenAddNew.
Import ListNotations.
Local Open Scope Z_scope.

Section AddNew.
  Context {D : Type}.                 (* task descriptions / the thread objects made from them *)

  Record bst : Type := mkB {
    b_pending : list D;     (* work_items_ of `this` (pushes at the back) *)
    b_count : Z;            (* addfrom->new_tasks_count_ *)
    b_map : list D;         (* thread_map_ (most recent first) *)
    b_mapcount : Z;         (* thread_map_count_ as written by add_new itself (thread_queue only) *)
    b_added : nat;          (* the local `added` = return value *)
    b_cur : option D        (* the local thrd / tid: thread object made from the popped description *)
  }.

  (* one statement of the loop body acting on the description `t` that the pop left in `task` *)
  Definition run_op (t : D) (o : an_op) (s : bst) : bst :=
    match o with
    | OpCreate => mkB (b_pending s) (b_count s) (b_map s) (b_mapcount s) (b_added s) (Some t)
    | OpMapAdd =>
        match b_cur s with
        | Some x => mkB (b_pending s) (b_count s) (x :: b_map s) (b_mapcount s) (b_added s) (b_cur s)
        | None => s                       (* an empty id: nothing meaningful is inserted *)
        end
    | OpMapCount => mkB (b_pending s) (b_count s) (b_map s) (b_mapcount s + 1) (b_added s) (b_cur s)
    | OpCountDec => mkB (b_pending s) (b_count s - 1) (b_map s) (b_mapcount s) (b_added s) (b_cur s)
    | OpAddedInc => mkB (b_pending s) (b_count s) (b_map s) (b_mapcount s) (S (b_added s)) (b_cur s)
    | OpSchedule =>
        match b_cur s with
        | Some x => mkB (b_pending s ++ [x]) (b_count s) (b_map s) (b_mapcount s) (b_added s) None
        | None => s                       (* std::move of an empty id: nothing is queued *)
        end
    end.

  Definition run_body (ops : list an_op) (t : D) (s : bst) : bst :=
    fold_left (fun s o => run_op t o s) ops s.

  (* the budget operand: (value of the test, budget afterwards) *)
  Definition test_budget (k : an_test) (b : Z) : bool * Z :=
    match k with
    | PostDec => (negb (b =? 0), b - 1)          (* add_count-- *)
    | PreDec => (negb (b - 1 =? 0), b - 1)       (* --add_count *)
    end.

  (* the loop; structural on the staged list (every iteration that continues has popped).
     Result: (staged list afterwards, state, budget afterwards). *)
  Fixpoint add_new_loop (sh : add_new_shape) (b : Z) (staged : list D) (s : bst) {struct staged}
    : list D * bst * Z :=
    match sh_order sh with
    | BudgetThenPop =>
        let '(ok, b') := test_budget (sh_test sh) b in
        if ok then
          match staged with
          | [] => ([], s, b')                                   (* pop fails *)
          | t :: rest => add_new_loop sh b' rest (run_body (sh_body sh) t s)
          end
        else (staged, s, b')                                    (* budget exhausted: pop NOT evaluated *)
    | PopThenBudget =>
        match staged with
        | [] => ([], s, b)                                      (* pop fails: budget test NOT evaluated *)
        | t :: rest =>
            let '(ok, b') := test_budget (sh_test sh) b in
            if ok then add_new_loop sh b' rest (run_body (sh_body sh) t s)
            else (rest, s, b')          (* t was popped into `task` and is never converted: dropped *)
        end
    end.

  (* the whole function: guard, `added = 0`, loop, `return added` *)
  Definition add_new (sh : add_new_shape) (budget : Z) (staged : list D) (s : bst) : list D * bst :=
    let s0 := mkB (b_pending s) (b_count s) (b_map s) (b_mapcount s) 0%nat None in
    let skip :=
      match sh_guard sh with
      | GuardNone => false
      | GuardBudgetZero => budget =? 0
      | GuardCountZero => b_count s =? 0
      end in
    if skip then (staged, s0) else fst (add_new_loop sh budget staged s0).

  (* number of descriptions a batch should move *)
  Definition batch_size (budget : Z) (len : nat) : nat :=
    if budget <? 0 then len else Nat.min (Z.to_nat budget) len.

  (* the same shape with the two operands of the loop condition exchanged *)
  Definition swap_order (sh : add_new_shape) : add_new_shape :=
    {| sh_guard := sh_guard sh;
       sh_order := match sh_order sh with BudgetThenPop => PopThenBudget | PopThenBudget => BudgetThenPop end;
       sh_test := sh_test sh; sh_body := sh_body sh; sh_err_decs := sh_err_decs sh |}.
End AddNew.

Arguments bst : clear implicits.
