(* Model/Once.v — pika::call_once / once_flag
   (libs/pika/synchronization/include/pika/synchronization/once.hpp), with the event of
   Model/Event.v inside.  The status constants come from the generated GenOnce.v.
   call_once(flag, f), atomic steps:
     C0    status_.load == complete ? return : C1                         (loop head)
     C1    status_.compare_exchange_strong(0 -> running): success -> R1;
           failure: observed == complete ? return : event_.wait() (steps of Event.v) -> C0
     R1    event_.reset()              BODY  f runs (ends by returning or throwing: oracle)
     success:  ST  status_.store(complete);  SET  event_.set() (steps of Event.v);  return
     throw  :  SET event_.set();  ST  status_.store(0);  rethrow
               (the repaired order; the original code stored 0 first, so that the next runner's
                event_.reset() could be overtaken by this set(): finding F19 in notes/design/C09.md)
   Ghost: orun (the thread between a successful CAS and its status store), the log.
   Oracle: OONorm throws (the outcome of f if this step ends the body) | OOSpur (stale resume). *)
From Coq Require Import List Bool Arith NArith.
From Pika Require Import Base.Conc Base.Agent Gen.GenOnce Model.Event.
Import ListNotations.

Inductive oorc := OONorm (throws : bool) | OOSpur.
Inductive oevt := OBegin (t : nat) | OEnd (t : nat) (ok : bool) | ORet (t : nat) | OThrown (t : nat).

Inductive opcT :=
| OC0 | OC1 | OR1 | OBody | OStore (ok : bool) | OSet (ok : bool) (sub : epc) | OWaitE (sub : epc).

Record once := { status : N; oev : evs; orun : option nat; olog : list oevt }.
Record olocal := { calls : nat; opc : option opcT }.

Definition o_done (l : olocal) : olocal := {| calls := calls l; opc := None |}.
Definition o_at (l : olocal) (pc : opcT) : olocal := {| calls := calls l; opc := Some pc |}.

Definition o_tstep (o : oorc) (t : nat) (g : once) (l : olocal) : once * olocal :=
  match o with
  | OOSpur => ({| status := status g; oev := ev_spur (oev g) t; orun := orun g; olog := olog g |}, l)
  | OONorm throws =>
    match opc l with
    | None => match calls l with 0 => (g, l) | S k => (g, {| calls := k; opc := Some OC0 |}) end
    | Some OC0 =>
        if N.eqb (status g) once_complete
        then ({| status := status g; oev := oev g; orun := orun g; olog := ORet t :: olog g |}, o_done l)
        else (g, o_at l OC1)
    | Some OC1 =>
        if N.eqb (status g) once_cas_expected
        then ({| status := once_running; oev := oev g; orun := Some t; olog := olog g |}, o_at l OR1)
        else if N.eqb (status g) once_complete
        then ({| status := status g; oev := oev g; orun := orun g; olog := ORet t :: olog g |}, o_done l)
        else (g, o_at l (OWaitE EW0))
    | Some OR1 =>
        ({| status := status g; oev := fst (ev_step t (oev g) ER0); orun := orun g;
            olog := OBegin t :: olog g |}, o_at l OBody)
    | Some OBody =>
        ({| status := status g; oev := oev g; orun := orun g; olog := OEnd t (negb throws) :: olog g |},
         o_at l (if throws then OSet false ES0 else OStore true))
    | Some (OStore ok) =>
        if ok
        then ({| status := once_complete; oev := oev g; orun := None; olog := olog g |}, o_at l (OSet true ES0))
        else ({| status := once_after_throw; oev := oev g; orun := None; olog := OThrown t :: olog g |}, o_done l)
    | Some (OSet ok sub) =>
        let '(e', sub') := ev_step t (oev g) sub in
        match sub' with
        | EDone =>
            if ok
            then ({| status := status g; oev := e'; orun := orun g; olog := ORet t :: olog g |}, o_done l)
            else ({| status := status g; oev := e'; orun := orun g; olog := olog g |}, o_at l (OStore false))
        | _ => ({| status := status g; oev := e'; orun := orun g; olog := olog g |}, o_at l (OSet ok sub'))
        end
    | Some (OWaitE sub) =>
        let '(e', sub') := ev_step t (oev g) sub in
        match sub' with
        | EDone => ({| status := status g; oev := e'; orun := orun g; olog := olog g |}, o_at l OC0)
        | _ => ({| status := status g; oev := e'; orun := orun g; olog := olog g |}, o_at l (OWaitE sub'))
        end
    end
  end.

Definition o_init : once := {| status := once_init; oev := ev_init; orun := None; olog := [] |}.
Definition o_locals (ncalls : nat -> nat) : nat -> olocal := fun t => {| calls := ncalls t; opc := None |}.
Definition o_run (sched : list (nat * oorc)) (ncalls : nat -> nat) :=
  run o_tstep sched (o_init, o_locals ncalls).

Definition nbegin (lg : list oevt) : nat := length (filter (fun e => match e with OBegin _ => true | _ => false end) lg).
Definition nend (lg : list oevt) : nat := length (filter (fun e => match e with OEnd _ _ => true | _ => false end) lg).
Definition nok (lg : list oevt) : nat := length (filter (fun e => match e with OEnd _ true => true | _ => false end) lg).

Definition o_enabled (g : once) (t : nat) (l : olocal) : bool :=
  match opc l with
  | None => match calls l with 0 => false | _ => true end
  | Some (OSet _ sub) | Some (OWaitE sub) => ev_enabled t (oev g) sub
  | Some _ => true
  end.
