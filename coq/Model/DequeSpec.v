(* Model/DequeSpec.v — the specification the lock-free deque and the queue back-ends are
   measured against: a two-ended list of values.  Left end = head of the list.
   Executable definitions only. *)
From Coq Require Import List NArith Bool.
From Pika Require Import Model.IndexQueue.      (* side := SL | SR *)
Import ListNotations.
Local Open Scope N_scope.

Inductive dop := Push (s : side) (v : N) | Pop (s : side).

Definition opp (s : side) : side := match s with SL => SR | SR => SL end.

(* the list as seen from end [s]: the element at that end first *)
Definition view (s : side) (l : list N) : list N := match s with SL => l | SR => rev l end.

(* result of an operation: pushes return None (they always succeed), pops return the value
   or None on empty *)
Definition spec_step (o : dop) (l : list N) : option N * list N :=
  match o with
  | Push s v => (None, view s (v :: view s l))
  | Pop s => match view s l with
             | [] => (None, l)
             | x :: r => (Some x, view s r)
             end
  end.

Fixpoint spec_run (ops : list dop) (l : list N) : list (option N) * list N :=
  match ops with
  | [] => ([], l)
  | o :: rest => let '(r, l') := spec_step o l in
                 let '(rs, l'') := spec_run rest l' in (r :: rs, l'')
  end.
