(* Model/CondVarAbortStuck.v — C07, round p12a: enabledness (hence `stuck`) for the abort_all model Model/CondVarAbort.v.
   A thread is enabled iff its next step is not a wait: the internal lock I is free (QLockI / QRelock / ALockI / ARelock), the
   suspended waiter has been resumed (QSusp: not blocked; a spurious return is an oracle choice and does not count), the target of
   default_agent::abort is suspended (AAbort of an OS thread waits until the target is not running).
   Executable definitions only; proofs in Proofs/CondVarAbortGlobal.v. *)
From Coq Require Import List Bool Arith.
From Pika Require Import Base.Conc Base.Agent Model.CondVarAbort.
Import ListNotations.

Definition ab_enabled (a : nat) (isos : nat -> bool) (t : nat) (g : ab_shared) (l : ab_local) : bool :=
  if Nat.eqb t a then
    match apc l with
    | ALockI | ARelock => match ai g with None => true | Some _ => false end
    | ASwap | APop => true
    | AAbort w => negb (isos w && negb (blocked (aag g w)))
    | _ => false
    end
  else
    match apc l with
    | QLockI | QRelock => match ai g with None => true | Some _ => false end
    | QPush | QPreSusp | QCheck => true
    | QSusp => negb (blocked (aag g t))
    | _ => false
    end.

(* program points of a waiter / at which a thread owns the internal lock I *)
Definition is_q (p : ab_pc) : bool :=
  match p with QLockI | QPush | QPreSusp | QSusp | QRelock | QCheck | QDone => true | _ => false end.
Definition holds_q (p : ab_pc) : bool := match p with QPush | QCheck => true | _ => false end.
Definition holds_a (p : ab_pc) : bool := match p with ASwap | APop => true | _ => false end.
