(* Model/Mpi.v — pika's MPI request polling (libs/pika/async_mpi/src/mpi_polling.cpp) and the
   completion routes of transform_mpi (transform_mpi.hpp, mpi_helpers.hpp).
   Executable definitions only; proofs live in Proofs/MpiProofs.v.

   PART A  the poller (multi-threaded mode), over Base/Conc.v.  Atomic steps:
     submitter (add_to_request_callback_queue):
       Idle/OSubmit : the MPI call has produced a fresh request r;  increment_global_activity_count()
       SCnt r       : ++all_in_flight_
       SEnq r       : request_callback_queue_.enqueue({r, cb_r})
     poller (poll_multithreaded):
       PReady ph    : ready_requests_.try_dequeue   (ph=false: loop at entry, ph=true: loop after the lock scope)
       PDec         : --all_in_flight_
       PCall        : PIKA_INVOKE(cb, err)                       (ghost: EvCall)
       PFin         : decrement_global_activity_count()
       PCheck       : all_in_flight_.load() == 0 ?  -> return idle
       PLock        : try_lock(polling_vector_mtx_)
       PDrain       : request_callback_queue_.try_dequeue -> add_to_request_callback_vector   (under the lock)
       PTest ev     : one completed index reported by MPI_Testsome/MPI_Testany: ready_requests_.enqueue,
                      requests_[i] = MPI_REQUEST_NULL                                          (under the lock)
       PCompact     : compact_vectors(); unlock
     MPI is an oracle: [OMpi r e] completes request r with error flag e at any moment; a test can report
     only requests that MPI has completed.  ConcurrentQueue (moodycamel) is a bag: try_dequeue removes an
     oracle-chosen element or reports "empty" (also spuriously).
   Callbacks are opaque in the code; in the model the callback registered together with request r is
   identified by r, so "the right callback" = [rc_cb x = rc_req x].
   Request identifiers are allocation sequence numbers (nat, small).

   PART B  one transform_mpi operation (receiver::set_value = dispatch; trigger) as a state machine
   driven by environment events; the poller's guarantee (callback at most once) is its contract.
   PART C  start_polling/stop_polling registration of the scheduler's polling function. *)
From Coq Require Import List Arith Bool NArith.
From Pika Require Import Base.Conc Gen.GenMpi.
Import ListNotations.

(* ------------------------------------------------------------------ PART A *)
Definition req := nat.

Inductive stg :=
| StNone | StAct (t : nat) | StCnt (t : nat) | StQueued | StVec | StReady
| StHeld (t : nat) | StDec (t : nat) | StCalled (t : nat) | StFin.

Definition transient_stage (s : stg) : bool :=
  match s with StCnt _ | StHeld _ => true | _ => false end.
Definition active_stage (s : stg) : bool :=
  match s with StNone | StFin => false | _ => true end.
Definition tested_stage (s : stg) : bool :=
  match s with StReady | StHeld _ | StDec _ | StCalled _ | StFin => true | _ => false end.
Definition called_stage (s : stg) : bool :=
  match s with StCalled _ | StFin => true | _ => false end.

Record rcb := { rc_cb : req; rc_req : req; rc_err : bool }.

Inductive event :=
| EvReg (r : req) | EvDone (r : req) (e : bool) | EvTest (r : req) | EvCall (cb r : req) (e : bool).

Record mstate := {
  next_req : nat;                    (* next fresh MPI_Request *)
  mpi_done : list (req * bool);      (* requests MPI has completed (oracle), with error flag *)
  rq : list (req * req);             (* request_callback_queue_ : (request_, callback) *)
  vreq : list (option req);          (* requests_  (None = MPI_REQUEST_NULL) *)
  vcb : list (req * req);            (* callbacks_ : (cb_, request_) *)
  ready : list rcb;                  (* ready_requests_ *)
  in_flight : nat;                   (* all_in_flight_ *)
  activity : nat;                    (* global activity count (MPI's share) *)
  lock : option nat;                 (* polling_vector_mtx_ (owner is ghost) *)
  stage : req -> stg;                (* ghost *)
  mlog : list event                  (* ghost, newest first *)
}.

Definition supd (s : req -> stg) (r : req) (v : stg) : req -> stg :=
  fun r' => if Nat.eqb r' r then v else s r'.

Definition w_stage g r v := {| next_req := next_req g; mpi_done := mpi_done g; rq := rq g; vreq := vreq g;
  vcb := vcb g; ready := ready g; in_flight := in_flight g; activity := activity g; lock := lock g;
  stage := supd (stage g) r v; mlog := mlog g |}.
Definition w_log g e := {| next_req := next_req g; mpi_done := mpi_done g; rq := rq g; vreq := vreq g;
  vcb := vcb g; ready := ready g; in_flight := in_flight g; activity := activity g; lock := lock g;
  stage := stage g; mlog := e :: mlog g |}.
Definition w_rq g q := {| next_req := next_req g; mpi_done := mpi_done g; rq := q; vreq := vreq g;
  vcb := vcb g; ready := ready g; in_flight := in_flight g; activity := activity g; lock := lock g;
  stage := stage g; mlog := mlog g |}.
Definition w_vec g v c := {| next_req := next_req g; mpi_done := mpi_done g; rq := rq g; vreq := v;
  vcb := c; ready := ready g; in_flight := in_flight g; activity := activity g; lock := lock g;
  stage := stage g; mlog := mlog g |}.
Definition w_ready g q := {| next_req := next_req g; mpi_done := mpi_done g; rq := rq g; vreq := vreq g;
  vcb := vcb g; ready := q; in_flight := in_flight g; activity := activity g; lock := lock g;
  stage := stage g; mlog := mlog g |}.
Definition w_inflight g n := {| next_req := next_req g; mpi_done := mpi_done g; rq := rq g; vreq := vreq g;
  vcb := vcb g; ready := ready g; in_flight := n; activity := activity g; lock := lock g;
  stage := stage g; mlog := mlog g |}.
Definition w_activity g n := {| next_req := next_req g; mpi_done := mpi_done g; rq := rq g; vreq := vreq g;
  vcb := vcb g; ready := ready g; in_flight := in_flight g; activity := n; lock := lock g;
  stage := stage g; mlog := mlog g |}.
Definition w_lock g l := {| next_req := next_req g; mpi_done := mpi_done g; rq := rq g; vreq := vreq g;
  vcb := vcb g; ready := ready g; in_flight := in_flight g; activity := activity g; lock := l;
  stage := stage g; mlog := mlog g |}.
Definition w_next g n := {| next_req := n; mpi_done := mpi_done g; rq := rq g; vreq := vreq g;
  vcb := vcb g; ready := ready g; in_flight := in_flight g; activity := activity g; lock := lock g;
  stage := stage g; mlog := mlog g |}.
Definition w_done g d := {| next_req := next_req g; mpi_done := d; rq := rq g; vreq := vreq g;
  vcb := vcb g; ready := ready g; in_flight := in_flight g; activity := activity g; lock := lock g;
  stage := stage g; mlog := mlog g |}.

Inductive pc :=
| Idle | SCnt (r : req) | SEnq (r : req)
| PReady (ph : bool) | PDec (ph : bool) (x : rcb) | PCall (ph : bool) (x : rcb) | PFin (ph : bool) (r : req)
| PCheck | PLock | PDrain | PTest (ev : bool) | PCompact.

Inductive oracle :=
| OSubmit | OPoll
| OPick (k : nat)                 (* which element a try_dequeue returns; k >= size: "empty" *)
| OTest (chunk idx : nat)         (* MPI_Testsome window [chunk] reports index [idx] *)
| ONoTest                         (* the test reports nothing (more) *)
| OMpi (r : req) (e : bool).      (* environment: MPI completes r *)

(* try_dequeue of a concurrent bag *)
Fixpoint take_nth {A} (k : nat) (l : list A) {struct l} : option (A * list A) :=
  match l, k with
  | [], _ => None
  | x :: l', O => Some (x, l')
  | x :: l', S k' => match take_nth k' l' with Some (y, r) => Some (y, x :: r) | None => None end
  end.

Fixpoint set_nth {A} (k : nat) (v : A) (l : list A) {struct l} : list A :=
  match l, k with
  | [], _ => []
  | _ :: l', O => v :: l'
  | x :: l', S k' => x :: set_nth k' v l'
  end.

Fixpoint done_status (r : req) (d : list (req * bool)) : option bool :=
  match d with
  | [] => None
  | (r', e) :: d' => if Nat.eqb r r' then Some e else done_status r d'
  end.

(* compact_vectors: drop the slots whose request is MPI_REQUEST_NULL from BOTH vectors, keeping
   the order (the code does it in place with a read and a write index) *)
Fixpoint compact (rs : list (option req)) (cs : list (req * req)) : list (option req) * list (req * req) :=
  match rs, cs with
  | Some r :: rs', c :: cs' => let '(a, b) := compact rs' cs' in (Some r :: a, c :: b)
  | None :: rs', _ :: cs' => compact rs' cs'
  | _, _ => ([], [])
  end.

(* the in-place algorithm of compact_vectors, index by index: [first_null] is the first loop
   (pos = index of the first MPI_REQUEST_NULL, or size), [compact_loop] the second loop
   (for i = pos+1 .. size-1; fuel = size - (pos+1) = its iteration count), [firstn p] the two resize(pos).
   Proved equal to [compact] for vectors of equal length (MpiProofs.compact_inplace_correct) and
   still DIFFed against it on every run. *)
Fixpoint compact_loop (fuel i pos : nat) (rs : list (option req)) (cs : list (req * req))
  : nat * list (option req) * list (req * req) :=
  match fuel with
  | O => (pos, rs, cs)
  | S f =>
      match nth_error rs i, nth_error cs i with
      | Some (Some r), Some c => compact_loop f (S i) (S pos) (set_nth pos (Some r) rs) (set_nth pos c cs)
      | Some None, Some _ => compact_loop f (S i) pos rs cs
      | _, _ => (pos, rs, cs)
      end
  end.
Fixpoint first_null (i : nat) (rs : list (option req)) : nat :=
  match rs with
  | [] => i
  | None :: _ => i
  | Some _ :: rs' => first_null (S i) rs'
  end.
Definition compact_inplace (rs : list (option req)) (cs : list (req * req)) : list (option req) * list (req * req) :=
  let pos := first_null 0 rs in
  let '(p, rs', cs') := compact_loop (length rs - (pos + 1)) (pos + 1) pos rs cs in
  (firstn p rs', firstn p cs').

(* GHOST (not extracted, not used by [mstep]): the intermediate states of the second loop of
   compact_vectors, one entry per loop head: (read index i, (write index pos, requests_, callbacks_)).
   Same recursion as [compact_loop]; the last entry is the state the loop exits with
   (MpiProofs.compact_trace_last). *)
Fixpoint compact_trace (fuel i pos : nat) (rs : list (option req)) (cs : list (req * req))
  : list (nat * (nat * list (option req) * list (req * req))) :=
  (i, (pos, rs, cs)) ::
  match fuel with
  | O => []
  | S f =>
      match nth_error rs i, nth_error cs i with
      | Some (Some r), Some c => compact_trace f (S i) (S pos) (set_nth pos (Some r) rs) (set_nth pos c cs)
      | Some None, Some _ => compact_trace f (S i) pos rs cs
      | _, _ => []
      end
  end.
Definition compact_inplace_trace (rs : list (option req)) (cs : list (req * req)) :=
  let pos := first_null 0 rs in
  compact_trace (length rs - (pos + 1)) (pos + 1) pos rs cs.

Definition mpi_complete (g : mstate) (r : req) (e : bool) : mstate :=
  match done_status r (mpi_done g) with
  | Some _ => g
  | None => w_log (w_done g ((r, e) :: mpi_done g)) (EvDone r e)
  end.

Definition dequeue_ready (ph : bool) (k : nat) (t : nat) (g : mstate) : mstate * pc :=
  match take_nth k (ready g) with
  | Some (x, rest) => (w_stage (w_ready g rest) (rc_req x) (StHeld t), PDec ph x)
  | None => (g, if ph then Idle else PCheck)
  end.

Definition mstep (o : oracle) (t : nat) (g : mstate) (l : pc) : mstate * pc :=
  match o with
  | OMpi r e => (mpi_complete g r e, l)
  | _ =>
    match l with
    | Idle =>
        match o with
        | OSubmit =>
            let r := next_req g in
            (w_log (w_stage (w_activity (w_next g (S r)) (S (activity g))) r (StAct t)) (EvReg r), SCnt r)
        | OPoll => dequeue_ready false 0 t g
        | OPick k => dequeue_ready false k t g
        | _ => (g, Idle)
        end
    | SCnt r => (w_stage (w_inflight g (S (in_flight g))) r (StCnt t), SEnq r)
    | SEnq r => (w_stage (w_rq g (rq g ++ [(r, r)])) r StQueued, Idle)
    | PReady ph => dequeue_ready ph (match o with OPick k => k | _ => 0 end) t g
    | PDec ph x => (w_stage (w_inflight g (in_flight g - 1)) (rc_req x) (StDec t), PCall ph x)
    | PCall ph x =>
        (w_log (w_stage g (rc_req x) (StCalled t)) (EvCall (rc_cb x) (rc_req x) (rc_err x)), PFin ph (rc_req x))
    | PFin ph r => (w_stage (w_activity g (activity g - 1)) r StFin, PReady ph)
    | PCheck => (g, if Nat.eqb (in_flight g) 0 then Idle else PLock)
    | PLock => match lock g with
               | Some _ => (g, Idle)
               | None => (w_lock g (Some t), PDrain)
               end
    | PDrain =>
        match take_nth (match o with OPick k => k | _ => 0 end) (rq g) with
        | Some ((r, c), rest) =>
            (w_stage (w_vec (w_rq g rest) (vreq g ++ [Some r]) (vcb g ++ [(c, r)])) r StVec, PDrain)
        | None => (g, PTest false)
        end
    | PTest ev =>
        match o with
        | OTest chunk idx =>
            let pos := chunk * max_poll_requests + idx in
            if Nat.ltb idx max_poll_requests then
              match nth_error (vreq g) pos, nth_error (vcb g) pos with
              | Some (Some r), Some (c, rr) =>
                  match done_status r (mpi_done g) with
                  | Some e =>
                      (w_log (w_stage (w_vec (w_ready g (ready g ++ [{| rc_cb := c; rc_req := rr; rc_err := e |}]))
                                             (set_nth pos None (vreq g)) (vcb g)) r StReady) (EvTest r),
                       PTest true)
                  | None => (g, PTest ev)
                  end
              | _, _ => (g, PTest ev)
              end
            else (g, PTest ev)
        | _ => (g, if ev then PDrain else PCompact)
        end
    | PCompact =>
        let '(a, b) := compact (vreq g) (vcb g) in
        (w_lock (w_vec g a b) None, PReady true)
    end
  end.

Definition m_init : mstate :=
  {| next_req := 0; mpi_done := []; rq := []; vreq := []; vcb := []; ready := []; in_flight := 0;
     activity := 0; lock := None; stage := fun _ => StNone; mlog := [] |}.
Definition m_locals : nat -> pc := fun _ => Idle.
Definition m_run (sched : list (nat * oracle)) : mstate * (nat -> pc) := run mstep sched (m_init, m_locals).

Definition in_cs (l : pc) : bool := match l with PDrain | PTest _ | PCompact => true | _ => false end.
Definition somes (v : list (option req)) : list req :=
  flat_map (fun x => match x with Some r => [r] | None => [] end) v.
Definition nonnull (v : list (option req)) : nat := length (somes v).
Definition cnt (P : stg -> bool) (s : req -> stg) (n : nat) : nat :=
  length (filter (fun r => P (s r)) (seq 0 n)).
Definition calls (lg : list event) : list req :=
  flat_map (fun e => match e with EvCall _ r _ => [r] | _ => [] end) lg.
Definition regs (lg : list event) : list req :=
  flat_map (fun e => match e with EvReg r => [r] | _ => [] end) lg.

(* ------------------------------------------------------------------ PART B *)
Inductive method := YieldWhile | SuspendResume | NewTask | Continuation.
Record cmode := { m_method : method; m_req_inline : bool; m_comp_inline : bool; m_prio : bool }.

Definition decode_mode (flags : N) : option cmode :=
  let mm := N.land flags hm_method_mask in
  let mk m := Some {| m_method := m;
                      m_req_inline := negb (N.eqb (N.land flags hm_request_inline) 0);
                      m_comp_inline := negb (N.eqb (N.land flags hm_completion_inline) 0);
                      m_prio := negb (N.eqb (N.land flags hm_high_priority) 0) |} in
  if N.eqb mm hm_yield_while then mk YieldWhile
  else if N.eqb mm hm_suspend_resume then mk SuspendResume
  else if N.eqb mm hm_new_task then mk NewTask
  else if N.eqb mm hm_continuation then mk Continuation
  else None.   (* mpix_continuation needs an MPI extension that is not compiled here; others: PIKA_UNREACHABLE *)

(* can_run_singlethreaded / register_polling's choice of polling function *)
Definition single_threaded (pool : bool) (m : cmode) : bool := pool && negb (m_req_inline m).
(* register_polling(pool): single_thread_mode_ = can_run_singlethreaded(mode) && pool.get_os_thread_count() == 1
   ([workers] = get_os_thread_count() of the pool named in start_polling; the second conjunct exists in the code
   iff the translator found it: Gen.GenMpi.single_mode_one_worker) *)
Definition single_thread_mode (pool : bool) (workers : nat) (m : cmode) : bool :=
  single_threaded pool m && (if single_mode_one_worker then Nat.eqb workers 1 else true).

Inductive dres := DOk | DErr | DThrow.    (* the MPI call returned MPI_SUCCESS / an error status / threw *)
Inductive sig := SigValue | SigError.
Inductive tpc :=
| TStart          (* set_value entered, MPI function not yet invoked *)
| TTrigger        (* dispatch done, trigger() entered: eager poll next *)
| TYield          (* yield_while loop *)
| TWait           (* suspend_resume: callback registered, waiting on cond_var for [completed] *)
| TPending        (* new_task / continuation: callback registered, set_value has returned *)
| TSpawned        (* new_task: continuation task scheduled, not yet run *)
| TDone.

Record tstate := {
  t_pc : tpc;
  t_sigs : list sig;        (* signals delivered to the downstream receiver, newest first *)
  t_reqnull : bool;         (* op_state.request is still MPI_REQUEST_NULL (failed call) *)
  t_registered : bool;      (* a callback is registered with the poller and has not run *)
  t_completed : bool;       (* op_state.completed *)
  t_err : bool;             (* op_state.status != MPI_SUCCESS *)
  t_tested : bool           (* ghost: some MPI test reported the request complete *)
}.

Inductive tev :=
| EDispatch (d : dres)      (* the MPI function returns *)
| EPoll (flag : bool)       (* poll_request: MPI_Test of the request (eager poll / yield_while loop) *)
| ECallback (err : bool)    (* the poller invokes the registered callback *)
| EWake                     (* the waiting task runs again (notify or spurious) and re-evaluates the predicate *)
| ERunTask.                 (* the task spawned by the new_task callback runs *)

Definition t_init : tstate :=
  {| t_pc := TStart; t_sigs := []; t_reqnull := true; t_registered := false; t_completed := false;
     t_err := false; t_tested := false |}.

Definition t_signal (s : tstate) (x : sig) (p : tpc) : tstate :=
  {| t_pc := p; t_sigs := x :: t_sigs s; t_reqnull := t_reqnull s; t_registered := t_registered s;
     t_completed := t_completed s; t_err := t_err s; t_tested := t_tested s |}.
Definition t_goto (s : tstate) (p : tpc) : tstate :=
  {| t_pc := p; t_sigs := t_sigs s; t_reqnull := t_reqnull s; t_registered := t_registered s;
     t_completed := t_completed s; t_err := t_err s; t_tested := t_tested s |}.

(* [guard]: does set_value skip trigger() when dispatch() already signalled (GenMpi.trigger_guarded) *)
Definition tm_step (guard : bool) (m : cmode) (s : tstate) (e : tev) : tstate :=
  match t_pc s, e with
  | TStart, EDispatch DOk =>
      {| t_pc := TTrigger; t_sigs := t_sigs s; t_reqnull := false; t_registered := false;
         t_completed := false; t_err := false; t_tested := t_tested s |}
  | TStart, EDispatch DErr =>
      (* dispatch: status != MPI_SUCCESS -> set_error; the request was never created *)
      let s' := {| t_pc := TDone; t_sigs := SigError :: t_sigs s; t_reqnull := true; t_registered := false;
                   t_completed := false; t_err := true; t_tested := t_tested s |} in
      if guard then s' else t_goto s' TTrigger
  | TStart, EDispatch DThrow => t_signal s SigError TDone     (* try_catch_exception_ptr -> set_error *)
  | TTrigger, EPoll flag =>
      (* MPI_Test of MPI_REQUEST_NULL always reports flag = true *)
      if flag || t_reqnull s then
        t_signal {| t_pc := t_pc s; t_sigs := t_sigs s; t_reqnull := t_reqnull s; t_registered := false;
                    t_completed := t_completed s; t_err := t_err s; t_tested := negb (t_reqnull s) || t_tested s |}
                 SigValue TDone
      else match m_method m with
           | YieldWhile => t_goto s TYield
           | SuspendResume =>
               {| t_pc := TWait; t_sigs := t_sigs s; t_reqnull := false; t_registered := true;
                  t_completed := false; t_err := t_err s; t_tested := t_tested s |}
           | NewTask | Continuation =>
               {| t_pc := TPending; t_sigs := t_sigs s; t_reqnull := false; t_registered := true;
                  t_completed := false; t_err := t_err s; t_tested := t_tested s |}
           end
  | TYield, EPoll true =>
      t_signal {| t_pc := t_pc s; t_sigs := t_sigs s; t_reqnull := t_reqnull s; t_registered := false;
                  t_completed := t_completed s; t_err := t_err s; t_tested := true |} SigValue TDone
  | TWait, ECallback err =>
      if t_registered s then
        {| t_pc := TWait; t_sigs := t_sigs s; t_reqnull := t_reqnull s; t_registered := false;
           t_completed := true; t_err := err; t_tested := true |}
      else s
  | TWait, EWake =>
      if t_completed s then t_signal s (if t_err s then SigError else SigValue) TDone else s
  | TPending, ECallback err =>
      if t_registered s then
        let s' := {| t_pc := t_pc s; t_sigs := t_sigs s; t_reqnull := t_reqnull s; t_registered := false;
                     t_completed := t_completed s; t_err := err; t_tested := true |} in
        match m_method m with
        | NewTask => if err then t_signal s' SigError TDone else t_goto s' TSpawned
        | _ => t_signal s' (if err then SigError else SigValue) TDone
        end
      else s
  | TSpawned, ERunTask => t_signal s SigValue TDone
  | _, _ => s
  end.

Definition tm_run (guard : bool) (m : cmode) (evs : list tev) : tstate :=
  fold_left (tm_step guard m) evs t_init.

(* the operation as compiled: guard taken from the translated source *)
Definition tm_run_cur := tm_run trigger_guarded.

Definition all_methods := [YieldWhile; SuspendResume; NewTask; Continuation].
Definition all_modes : list cmode :=
  flat_map (fun me => flat_map (fun a => flat_map (fun b => map (fun c =>
    {| m_method := me; m_req_inline := a; m_comp_inline := b; m_prio := c |}) [false; true]) [false; true]) [false; true])
    all_methods.

(* ------------------------------------------------------------------ PART C *)
(* the scheduler's mpi polling function slot: None = null_polling_function,
   Some st = poll_singlethreaded (st = true) / poll_multithreaded; PStart pool workers m = start_polling on a
   pool with [workers] OS threads ([pool] = enable_pool_ after register_pool: the pool is not the default pool) *)
Record pstate := { p_fn : option bool; p_depth : nat }.
Definition p_init : pstate := {| p_fn := None; p_depth := 0 |}.
Inductive pop := PStart (pool : bool) (workers : nat) (m : cmode) | PStop.
(* start_polling -> detail::register_polling(): only when the handler method is not yield_while;
   stop_polling -> detail::unregister_polling(pool): always clears *)
Definition p_step (s : pstate) (o : pop) : pstate :=
  match o with
  | PStart pool w m =>
      {| p_fn := match m_method m with YieldWhile => p_fn s | _ => Some (single_thread_mode pool w m) end;
         p_depth := S (p_depth s) |}
  | PStop => {| p_fn := None; p_depth := p_depth s - 1 |}
  end.
Definition p_run (ops : list pop) : pstate := fold_left p_step ops p_init.
Fixpoint balanced (d : nat) (ops : list pop) : bool :=
  match ops with
  | [] => Nat.eqb d 0
  | PStart _ _ _ :: r => Nat.eqb d 0 && balanced 1 r      (* enable_polling scopes do not nest *)
  | PStop :: r => Nat.eqb d 1 && balanced 0 r
  end.

(* ------------------------------------------------------------------ PART D *)
(* poll_singlethreaded (mpi_polling.cpp) — the polling function register_polling installs when
   single_thread_mode_ = can_run_singlethreaded(mode) = enable_pool_ && !use_inline_request(mode), together
   with the branch of add_to_request_callback_queue that this flag selects (push straight into the two
   vectors, no queue, NO LOCK anywhere).  Same shared state [mstate], same ghost stages and log as PART A
   ([ready] and [lock] are not used by this code and stay empty / None).  Atomic steps:
     submitter (add_to_request_callback_queue, single_thread_mode_ branch):
       SIdle/SoSubmit : the MPI call has produced a fresh request r; increment_global_activity_count()
       SSCnt r k      : ++all_in_flight_
       SSPush r k     : add_to_request_callback_vector: requests_.push_back, callbacks_.push_back
     poller (poll_singlethreaded):
       SIdle/SoPoll   : the scheduling loop calls the polling function
       SCheck         : all_in_flight_.load() == 0 ? -> return idle
       SDrain         : request_callback_queue_.try_dequeue -> add_to_request_callback_vector (the loop
                        exists in the code; in this mode nothing is ever enqueued: MpiSingleProofs.si_rq)
       STest          : MPI_Testany over requests_: rindex = idx (MPI frees the request and the code stores
                        MPI_REQUEST_NULL in the slot), or MPI_UNDEFINED (SoNoTest: leave the do-while)
       SDec idx r e   : --all_in_flight_
       SCall idx r e  : PIKA_INVOKE(std::move(callbacks_[idx].cb_), status): the callable is invoked IN PLACE,
                        i.e. the function object that runs is the element idx of callbacks_ at this moment
                        (the model reads [nth_error (vcb g) idx] here, not at test time)
       SInCb idx r    : the body of the callback runs.  What it does is chosen by the oracle, restricted by
                        [inl]: SoSubmit is accepted only if [inl r] (the callback registered with r calls
                        add_request_callback inline: the nested submitter steps carry the context
                        k = Some (idx, r) and come back here), SoRet returns from the callback
       SFin r         : decrement_global_activity_count(); event_handled = true -> loop again (SDrain)
       SCompact       : compact_vectors(); return
   [k : option (nat * req)] = the callback (slot, request) inside which a nested submission runs.
   Every thread id may run every step (Base/Conc.v); the theorems assume [one_thread]: all steps are taken by
   one OS thread.  The code enforces it: this poller is installed only when [single_thread_mode pool workers m],
   i.e. the polling pool has exactly one worker (MpiSingleProofs.single_mode_one_worker_lemma) and non-inline
   requests are transferred to that pool.  *)
Inductive spc :=
| SIdle
| SSCnt (r : req) (k : option (nat * req))
| SSPush (r : req) (k : option (nat * req))
| SCheck | SDrain | STest
| SDec (idx : nat) (r : req) (e : bool)
| SCall (idx : nat) (r : req) (e : bool)
| SInCb (idx : nat) (r : req)
| SFin (r : req)
| SCompact.

Inductive soracle :=
| SoSubmit | SoPoll
| SoPick (k : nat)                (* which element try_dequeue returns (the queue is empty in this mode) *)
| SoTest (idx : nat)              (* MPI_Testany reports index idx *)
| SoNoTest                        (* MPI_Testany reports MPI_UNDEFINED *)
| SoRet                           (* the running callback returns *)
| SoMpi (r : req) (e : bool).     (* environment: MPI completes r *)

Definition s_submit (t : nat) (g : mstate) (k : option (nat * req)) : mstate * spc :=
  let r := next_req g in
  (w_log (w_stage (w_activity (w_next g (S r)) (S (activity g))) r (StAct t)) (EvReg r), SSCnt r k).

Definition sstep (inl : req -> bool) (o : soracle) (t : nat) (g : mstate) (l : spc) : mstate * spc :=
  match o with
  | SoMpi r e => (mpi_complete g r e, l)
  | _ =>
    match l with
    | SIdle => match o with
               | SoSubmit => s_submit t g None
               | SoPoll => (g, SCheck)
               | _ => (g, SIdle)
               end
    | SSCnt r k => (w_stage (w_inflight g (S (in_flight g))) r (StCnt t), SSPush r k)
    | SSPush r k =>
        (w_stage (w_vec g (vreq g ++ [Some r]) (vcb g ++ [(r, r)])) r StVec,
         match k with None => SIdle | Some (idx, r0) => SInCb idx r0 end)
    | SCheck => (g, if Nat.eqb (in_flight g) 0 then SIdle else SDrain)
    | SDrain =>
        match take_nth (match o with SoPick k => k | _ => 0 end) (rq g) with
        | Some ((r, c), rest) =>
            (w_stage (w_vec (w_rq g rest) (vreq g ++ [Some r]) (vcb g ++ [(c, r)])) r StVec, SDrain)
        | None => (g, STest)
        end
    | STest =>
        match o with
        | SoTest idx =>
            match nth_error (vreq g) idx with
            | Some (Some r) =>
                match done_status r (mpi_done g) with
                | Some e =>
                    (w_log (w_stage (w_vec g (set_nth idx None (vreq g)) (vcb g)) r (StHeld t)) (EvTest r),
                     SDec idx r e)
                | None => (g, STest)
                end
            | _ => (g, STest)
            end
        | SoNoTest => (g, SCompact)
        | _ => (g, STest)
        end
    | SDec idx r e => (w_stage (w_inflight g (in_flight g - 1)) r (StDec t), SCall idx r e)
    | SCall idx r e =>
        match nth_error (vcb g) idx with
        | Some (c, rr) => (w_log (w_stage g r (StCalled t)) (EvCall c rr e), SInCb idx r)
        | None => (g, SInCb idx r)    (* index out of bounds: never taken (MpiSingleProofs.single_call_in_place) *)
        end
    | SInCb idx r =>
        match o with
        | SoSubmit => if inl r then s_submit t g (Some (idx, r)) else (g, SInCb idx r)
        | SoRet => (g, SFin r)
        | _ => (g, SInCb idx r)
        end
    | SFin r => (w_stage (w_activity g (activity g - 1)) r StFin, SDrain)
    | SCompact => let '(a, b) := compact (vreq g) (vcb g) in (w_vec g a b, SIdle)
    end
  end.

Definition s_locals : nat -> spc := fun _ => SIdle.
Definition s_run (inl : req -> bool) (sched : list (nat * soracle)) : mstate * (nat -> spc) :=
  run (sstep inl) sched (m_init, s_locals).

(* all steps of the schedule are taken by the OS thread t0 *)
Definition one_thread (t0 : nat) (sched : list (nat * soracle)) : Prop := Forall (fun so => fst so = t0) sched.
(* a callback stored in callbacks_ is executing on the thread whose pc this is *)
Definition in_callback (l : spc) : bool :=
  match l with SInCb _ _ | SSCnt _ (Some _) | SSPush _ (Some _) => true | _ => false end.
(* no callback performs an inline registration: what holds for every callback transform_mpi registers *)
Definition no_inline_add (inl : req -> bool) : Prop := forall r, inl r = false.
