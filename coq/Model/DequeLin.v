(* Model/DequeLin.v — ghost instrumentation of Model/Deque.v for the no-reuse theorems
   (Proofs/DequeConcProofs.v).  NOTHING here changes the deque model: [dq_tstep_i] runs
   [dq_tstep] unchanged on the first component of the shared state and only records, in a
   second (ghost) component,
     - [glin]   the linearization log: one event per LINEARIZATION POINT, newest first —
                the successful anchor CAS of a push (result None), the successful anchor CAS of
                a pop (result = the data of the node that the CAS unlinks), and the anchor load
                of a pop that sees a null end pointer (result None = "empty");
     - [greuse] whether the pool has ever handed out a chunk whose epoch was not 0, i.e. a
                chunk that had been handed out before (the guard of the no-reuse theorems is
                [greuse = false] at the end of the run; the flag is monotone).
   Erasure ([Proofs/DequeConcProofs.run_i_erase]): the first component and the locals of an
   instrumented run are exactly the plain run.  Executable definitions only. *)
From Coq Require Import List NArith Bool.
From Pika Require Import Base.Conc Model.IndexQueue Model.DequeSpec Model.Deque.
Import ListNotations.
Local Open Scope N_scope.

Record dq_ghost := { glin : list dq_ev; greuse : bool }.

Definition ev (t : nat) (o : dop) (r : option N) : dq_ev := {| dv_tid := t; dv_op := o; dv_res := r |}.

(* the linearization event (if any) of the step that thread t is about to take in state g *)
Definition lin_pop_load (t : nat) (g : dq_shared) (s : side) : list dq_ev :=
  if aend s (anc g) =? 0 then [ev t (Pop s) None] else [].

Definition lin_event (t : nat) (g : dq_shared) (l : dq_local) : list dq_ev :=
  match dpc l with
  | DIdle => match dtodo l with Pop s :: _ => lin_pop_load t g s | _ => [] end
  | QLoad s => lin_pop_load t g s
  | PCas s n lrs emp => if anchor_eqb (anc g) lrs then [ev t (cur_op l) None] else []
  | QCas s lrs np =>
      if anchor_eqb (anc g) lrs then [ev t (Pop s) (Some (ndata (heap g (aend s lrs))))] else []
  | _ => []
  end.

(* does the step hand out a chunk that was handed out before? *)
Definition reuse_event (g : dq_shared) (l : dq_local) : bool :=
  match dpc l, dtodo l with
  | DIdle, Push _ _ :: _ => negb (epoch g (snd (fl_alloc g)) =? 0)
  | _, _ => false
  end.

Definition dq_tstep_i (o : unit) (t : nat) (gg : dq_shared * dq_ghost) (l : dq_local)
  : (dq_shared * dq_ghost) * dq_local :=
  let g := fst gg in
  let '(g', l') := dq_tstep o t g l in
  ((g', {| glin := lin_event t g l ++ glin (snd gg);
           greuse := greuse (snd gg) || reuse_event g l |}), l').

Definition ghost0 : dq_ghost := {| glin := []; greuse := false |}.

Definition dq_run_i (sched : list (nat * unit)) (k : N) (progs : nat -> list dop) :=
  run dq_tstep_i sched ((dq_init k, ghost0), dq_locals progs).

(* the operations / results of a log, oldest first *)
Definition log_ops (lg : list dq_ev) : list dop := rev (map dv_op lg).
Definition log_res (lg : list dq_ev) : list (option N) := rev (map dv_res lg).
Definition of_tid (t : nat) (lg : list dq_ev) : list dq_ev := filter (fun e => Nat.eqb (dv_tid e) t) lg.

(* a pop whose anchor CAS has succeeded but whose value has not been read/logged yet *)
Definition pending (t : nat) (g : dq_shared) (l : dq_local) : list dq_ev :=
  match dpc l with
  | QFree s a => [ev t (Pop s) (Some (ndata (heap g a)))]
  | _ => []
  end.
Definition holds (l : dq_local) : list addr :=
  match dpc l with QFree _ a => [a] | _ => [] end.

(* ---- a concrete concurrent run that satisfies the no-reuse guard (non-vacuity example of
   Props/Properties_C17.v): thread 0 does push_right 1, push_right 2; thread 1 push_left 3;
   thread 2 pop_left; thread 3 pop_right; pool of 4 chunks.  The schedule contains a helper
   stabilising another thread's push (the pusher's own link CAS wins, the helper's fails, a third
   thread's anchor CAS to "stable" wins and the pusher's fails), two pops racing for different
   ends with failed anchor CASes, a push_left that has to retry twice, and two FREE steps that
   happen in the opposite order of the pops' linearization points. ---- *)
Definition nr_progs (t : nat) : list dop :=
  match t with
  | 0%nat => [Push SR 1; Push SR 2] | 1%nat => [Push SL 3] | 2%nat => [Pop SL] | 3%nat => [Pop SR]
  | _ => []
  end.
Definition nr_sched_tids : list nat :=
  ([0;0;0;0] ++ [0;0;1;1] ++ [0;0;0] ++ [1;1;1;1;1] ++ [0;0;0;0;0] ++ [1] ++ [3;3;3;3;3] ++ [0] ++
   [2;2;2;3;3;3;1;1] ++ [2] ++ [3;1] ++ [1;1;1] ++ [3;3;3;3;3;3;3] ++ [3;3;3;3] ++ [1;1] ++ [3;2])%nat.
Definition nr_sched : list (nat * unit) := map (fun t => (t, tt)) nr_sched_tids.

(* ---- a concrete concurrent run WITH node reuse in which no link CAS hits a recycled node
   (non-vacuity example of the aba-guarded theorems): three threads, ten operations, a pool of one
   chunk; six pushes are served by three chunks ---- *)
Definition rr_progs (t : nat) : list dop :=
  match t with
  | 0%nat => [Push SR 1; Pop SL; Push SR 2; Push SL 3]
  | 1%nat => [Push SL 4; Pop SR; Push SR 5; Pop SL]
  | 2%nat => [Pop SR; Push SL 6]
  | _ => []
  end.
Fixpoint rr_sched (n : nat) : list (nat * unit) :=
  match n with
  | O => []
  | S m => (0%nat, tt) :: (1%nat, tt) :: (1%nat, tt) :: (2%nat, tt) :: (0%nat, tt) :: rr_sched m
  end.
