(* Model/Affinity.v — C15: executable model of pika's worker-to-PU binding pipeline.
   Source (pika d5f7faa + fix commit on ag-c15):
     libs/pika/affinity/src/parse_affinity_options.cpp   decoders, check_num_threads, pu_in_process_mask
     libs/pika/affinity/src/affinity_data.cpp            init (count check), get_pu_num, get_pu_mask, none
     libs/pika/topology/src/topology.cpp                 get_pu_number, init_thread_affinity_mask(core,pu),
                                                         get_number_of_core_pus, set_cpubind_mask_main_thread
     libs/pika/resource_partitioner/src/detail_partitioner.cpp
                                                         fill_topology_vectors, add_resource, setup_pools,
                                                         reconfigure_affinities_locked
   Definitions only (no proofs).

   Representation choices (each justified by the code's access pattern):
   * topology = list of sockets, each a list of cores, each core = its number of PUs; hwloc logical
     numbering: cores of socket s follow those of socket s-1, PUs of core c follow those of core c-1.
   * a CPU mask is the list of its set bits (logical PU numbers); the process mask is a predicate.
   * the array [affinities] of a decoder is represented by the list of (core,pu) pairs assigned to
     threads 0,1,2,... : every decoder writes affinities[num_thread] and increments num_thread
     immediately afterwards, starting from 0, on an array affinity_data::init has just cleared.  (The
     "affinity mask for thread N has already been set" branch reads the not yet written entry
     affinities[num_thread]; it is dead and not modelled.)
   * used_cores = 0: affinity_data::init is only called with used_cores = 0 (init_runtime.cpp:308). *)
From Coq Require Import List Arith Bool Lia.
Import ListNotations.

Definition topology := list (list nat).
Definition cores (t : topology) : list nat := concat t.
Definition ncores (t : topology) : nat := length (cores t).
Definition total_pus (t : topology) : nat := list_sum (cores t).   (* hardware_concurrency() *)

(* topology::get_number_of_core_pus: 1 when there is no such core object *)
Definition core_pus (t : topology) (c : nat) : nat := nth c (cores t) 1.
Definition prefix (t : topology) (c : nat) : nat := list_sum (firstn c (cores t)).

(* topology::get_pu_number(core, pu) and the single bit set by init_thread_affinity_mask(core, pu):
   num_core %= num_cores; num_pu %= core_obj->arity; children[num_pu]->logical_index *)
Definition pu_number (t : topology) (core pu : nat) : nat :=
  let c := core mod ncores t in prefix t c + pu mod core_pus t c.

Definition mem (x : nat) (l : list nat) : bool := existsb (Nat.eqb x) l.

(* ---- process mask (command_line_handling.cpp:446-453, topology::set_cpubind_mask_main_thread) ---- *)
Inductive err :=
  | EMaskPastHw | EMaskEmpty | EOversubMask | EOversubHw | ECountMismatch | EHang | EOutOfBounds
  | EPuTaken | EDefaultPoolEmpty | EPoolEmpty.

Inductive result (A : Type) := Ok (a : A) | Err (e : err).
Arguments Ok {A} a.
Arguments Err {A} e.

(* topology::set_cpubind_mask_main_thread(mask) (topology.cpp:1152-1204), called with
   from_string<mask_type>(--pika:process-mask) also when --pika:ignore-process-mask is given.
   phys: set bits of the user's mask, OS (physical) indices; osidx: OS index of logical PU i
   (pu_obj->os_index of hwloc_get_obj_by_depth(topo, pu_depth, i)), ANY numbering.
   * "bits past the hardware concurrency": the user's mask is compared with the NUMBER of PUs
     (hardware_concurrency() = get_number_of_pus()), not with the largest OS index:
       size < concurrency -> resize;  else if size > concurrency && any(mask >> concurrency) -> throw.
     A mask of 4*digits bits has no set bit >= its size, so both branches together are
     "some set bit b with total_pus <= b".
   * "CPU mask is empty": tested on the USER's (OS) mask, before the conversion.  An empty RESULT of
     the conversion is not rejected here (sparse numbering, bits that name no PU).
   * conversion loop: for (i = 0; i != get_number_of_pus(); ++i) if (test(mask, os_index(i))) set(logical, i).
     test(mask, idx) with idx >= mask_size(mask) (possible exactly when OS indices are sparse) is outside
     the contract of the bitset (PIKA_ASSERT(idx < mask_size(mask)) in debug builds); the release code reads
     the storage word idx/64: 0 while that word exists (unused bits of a dynamic_bitset are kept 0), past
     the end of the heap block otherwise (valgrind: invalid read).  Modelled as "reads as unset":
     [mem _ phys] is false for every index that is not a set bit. *)
Definition set_process_mask (t : topology) (osidx : list nat) (phys : list nat) : result (nat -> bool) :=
  if existsb (fun b => total_pus t <=? b) phys then Err EMaskPastHw
  else match phys with
       | [] => Err EMaskEmpty
       | _ => Ok (fun i => (i <? total_pus t) && mem (nth i osidx i) phys)
       end.

Definition count_mask (t : topology) (pm : nat -> bool) : nat := length (filter pm (seq 0 (total_pus t))).

(* the set bits of main_thread_affinity_mask_ (logical indices, ascending) after set_process_mask:
   what topology::get_cpubind_mask_main_thread() returns from then on *)
Definition mask_bits (t : topology) (pm : nat -> bool) : list nat := filter pm (seq 0 (total_pus t)).
Definition process_mask_bits (t : topology) (osidx phys : list nat) : result (list nat) :=
  match set_process_mask t osidx phys with
  | Err e => Err e
  | Ok pm => Ok (mask_bits t pm)
  end.

(* pu_in_process_mask *)
Definition in_mask (t : topology) (use : bool) (pm : nat -> bool) (core pu : nat) : bool :=
  if use then pm (pu_number t core pu) else true.

(* check_num_threads: None = passes *)
Definition check_num_threads (t : topology) (use : bool) (pm : nat -> bool) (n : nat) : option err :=
  if use then (if count_mask t pm <? n then Some EOversubMask else None)
  else (if total_pus t <? n then Some EOversubHw else None).

Definition num_cores_used (t : topology) (use : bool) (max_cores : nat) : nat :=
  Nat.min (if use then ncores t else max_cores) (ncores t).

(* ---- decode_compact_distribution ---- *)
Definition core_pairs (t : topology) (off c : nat) : list (nat * nat) :=
  map (pair (c + off)) (seq 0 (core_pus t (c + off))).
Definition all_pairs (t : topology) (k : nat) : list (nat * nat) :=
  flat_map (core_pairs t 0) (seq 0 k).

(* the two inner for loops, flattened; acc = pairs assigned so far, newest first; true = returned *)
Fixpoint compact_sweep (inm : nat -> nat -> bool) (target : nat) (ps acc : list (nat * nat))
  : list (nat * nat) * bool :=
  match ps with
  | [] => (acc, false)
  | (c, p) :: r =>
      if inm c p then
        let acc' := (c, p) :: acc in
        if length acc' =? target then (acc', true) else compact_sweep inm target r acc'
      else compact_sweep inm target r acc
  end.

(* for (num_thread = 0; num_thread < num_threads; /**/) { sweep }   None = never terminates *)
Fixpoint compact_loop (inm : nat -> nat -> bool) (target : nat) (ps : list (nat * nat)) (fuel : nat)
  (acc : list (nat * nat)) : option (list (nat * nat)) :=
  if length acc <? target then
    match fuel with
    | 0 => None
    | S f => let '(acc', done) := compact_sweep inm target ps acc in
             if done then Some acc' else compact_loop inm target ps f acc'
    end
  else Some acc.

(* ---- the per-core search shared (textually triplicated in the source) by scatter, balanced and
        numa-balanced:  while (pu_index < num_core_pus) { use_pu = in_mask; ++pu_index; if (use_pu) break; } *)
Fixpoint find_next (inm : nat -> bool) (ncp idx fuel : nat) : bool * nat :=
  match fuel with
  | 0 => (false, idx)
  | S f => if idx <? ncp then (if inm idx then (true, S idx) else find_next inm ncp (S idx) f)
           else (false, idx)
  end.

Definition upd (f : nat -> nat) (k v : nat) : nat -> nat := fun x => if x =? k then v else f x.

Record sst := { nxt : nat -> nat;                 (* next_pu_index, by local core *)
                picks : list (nat * nat) }.       (* (global core, pu index) chosen, newest first *)
Definition sst0 : sst := {| nxt := fun _ => 0; picks := [] |}.

(* one iteration of  for (num_core = 0; num_core < num_cores; ++num_core)  ; off = core_offset *)
Definition core_step (t : topology) (inm : nat -> nat -> bool) (off : nat) (st : sst) (c : nat) : sst * bool :=
  let ncp := core_pus t (c + off) in
  let '(use, idx) := find_next (inm (c + off)) ncp (nxt st c) ncp in
  if use then ({| nxt := upd (nxt st) c idx; picks := (c + off, idx - 1) :: picks st |}, true)
  else ({| nxt := upd (nxt st) c idx; picks := picks st |}, false).

(* the for loop over the cores; leaves (return / break) when ++num_thread == target *)
Fixpoint sweep (t : topology) (inm : nat -> nat -> bool) (off target : nat) (cs : list nat) (st : sst) : sst :=
  match cs with
  | [] => st
  | c :: r => let '(st', picked) := core_step t inm off st c in
              if picked && (length (picks st') =? target) then st' else sweep t inm off target r st'
  end.

(* for (num_thread = 0; num_thread < target; /**/) { sweep }    None = never terminates *)
Fixpoint sweeps (t : topology) (inm : nat -> nat -> bool) (off target ncs fuel : nat) (st : sst) : option sst :=
  if length (picks st) <? target then
    match fuel with
    | 0 => None
    | S f => sweeps t inm off target ncs f (sweep t inm off target (seq 0 ncs) st)
    end
  else Some st.

(* second loop of balanced / numa-balanced: for core, for num_pu < num_pus_cores[core]: pu_indexes[core][num_pu].
   pu_indexes[core] = the picks made on that core, in push order *)
Definition by_core (off ncs : nat) (l : list (nat * nat)) : list (nat * nat) :=
  flat_map (fun c => filter (fun x => fst x =? c + off) l) (seq 0 ncs).

(* ---- numa-balanced ---- *)
Definition socket_ncores (t : topology) (s : nat) : nat := length (nth s t []).

(* std::round(double(a) / double(b)) for the small non-negative integers that occur here *)
Definition round_div (a b : nat) : nat := (2 * a + b) / (2 * b).

Fixpoint socket_pu_counts (t : topology) (inm : nat -> nat -> bool) (socks : list (list nat)) (off : nat) : list nat :=
  match socks with
  | [] => []
  | s :: r =>
      length (filter (fun x => inm (fst x) (snd x)) (flat_map (core_pairs t off) (seq 0 (length s))))
      :: socket_pu_counts t inm r (off + length s)
  end.

Fixpoint shares (n pus_t : nat) (ps : list nat) (t2 : nat) : list nat :=
  match ps with
  | [] => []
  | p :: r => let temp := round_div (n * p) pus_t in
              let temp := if n <? t2 + temp then n - t2 else temp in
              temp :: shares n pus_t r (t2 + temp)
  end.

(* the socket loop that assigns; returns the pairs in thread order together with the decoder's own
   num_pus entry (get_pu_number(num_core + used_cores, ..) — WITHOUT core_offset, observation E3) *)
Fixpoint numa_sockets (t : topology) (inm : nat -> nat -> bool) (socks : list (list nat)) (shs : list nat)
  (off : nat) (acc : list (nat * nat)) (nums : list nat) : option (list (nat * nat) * list nat) :=
  match socks with
  | [] => Some (acc, nums)
  | s :: r =>
      let sh := hd 0 shs in
      match sweeps t inm off sh (length s) (S sh) sst0 with
      | None => None
      | Some st =>
          let blk := by_core off (length s) (rev (picks st)) in
          numa_sockets t inm r (tl shs) (off + length s) (acc ++ blk)
            (nums ++ map (fun x => pu_number t (fst x - off) (snd x)) blk)
      end
  end.

Inductive mode := Compact | Scatter | Balanced | NumaBalanced.

(* decode_distribution: pairs in thread order and the decoder's own num_pus *)
Definition decode (t : topology) (m : mode) (use : bool) (pm : nat -> bool) (n max_cores : nat)
  : result (list (nat * nat) * list nat) :=
  match check_num_threads t use pm n with
  | Some e => Err e                   (* PIKA_THROWS_IF with ec == throws: an exception *)
  | None =>
    let inm := in_mask t use pm in
    let k := num_cores_used t use max_cores in
    let own := fun sel => map (fun x => pu_number t (fst x) (snd x)) sel in
    match m with
    | Compact =>
        match compact_loop inm n (all_pairs t k) (S n) [] with
        | None => Err EHang
        | Some acc => Ok (rev acc, own (rev acc))
        end
    | Scatter =>
        match sweeps t inm 0 n k (S n) sst0 with
        | None => Err EHang
        | Some st => Ok (rev (picks st), own (rev (picks st)))
        end
    | Balanced =>
        match sweeps t inm 0 n k (S n) sst0 with
        | None => Err EHang
        | Some st => let sel := by_core 0 k (rev (picks st)) in Ok (sel, own sel)
        end
    | NumaBalanced =>
        let cnts := socket_pu_counts t inm t 0 in
        let shs := shares n (list_sum cnts) cnts 0 in
        match numa_sockets t inm t shs 0 [] [] with
        | None => Err EHang
        | Some r => Ok r
        end
    end
  end.

(* ---- affinity_data ---- *)
Record aff_data := { ad_masks : list (list nat);     (* affinity_masks_ *)
                     ad_pu_nums : list nat;          (* pu_nums_ *)
                     ad_noaff : list nat;            (* set bits of no_affinity_ *)
                     ad_n : nat }.                   (* num_threads_ *)

Definition masks_of (t : topology) (n : nat) (sel : list (nat * nat)) : list (list nat) :=
  map (fun x => [pu_number t (fst x) (snd x)]) sel ++ repeat [] (n - length sel).

Definition any_bit (m : list nat) : bool := match m with [] => false | _ => true end.
Definition count_initialized (ms : list (list nat)) : nat := length (filter any_bit ms).

(* affinity_data::get_pu_num(num_thread, hardware_concurrency) *)
Definition get_pu_num (pu_offset pu_step hw i : nat) : nat :=
  let num_pu := pu_offset + pu_step * i in
  let offset := (num_pu / hw) mod pu_step in
  (num_pu + offset) mod hw.

Inductive bind := BindMode (m : mode) | BindNone.

(* affinity_data::init *)
Definition affinity_init (t : topology) (b : bind) (use : bool) (pm : nat -> bool) (n max_cores : nat)
  : result aff_data :=
  match b with
  | BindNone =>
      Ok {| ad_masks := []; ad_pu_nums := map (get_pu_num 0 1 (total_pus t)) (seq 0 n);
            ad_noaff := map (get_pu_num 0 1 (total_pus t)) (seq 0 n); ad_n := n |}
  | BindMode m =>
      match decode t m use pm n max_cores with
      | Err e => Err e
      | Ok (sel, nums) =>
          if n <? length sel then Err EOutOfBounds   (* would write past the array *)
          else
            let ms := masks_of t n sel in
            if count_initialized ms =? n then
              Ok {| ad_masks := ms; ad_pu_nums := nums; ad_noaff := []; ad_n := n |}
            else Err ECountMismatch
      end
  end.

(* affinity_data::get_pu_mask *)
Definition get_pu_mask (ad : aff_data) (i : nat) : list nat :=
  if mem i (ad_noaff ad) then [] else nth i (ad_masks ad) [].

(* partitioner::pu_exposed = bit pid of affinity_data::get_used_pus_mask(topo, pid) *)
Definition pu_exposed (ad : aff_data) (pid : nat) : bool :=
  if mem pid (ad_noaff ad) then true
  else existsb (fun i => mem pid (get_pu_mask ad i)) (seq 0 (ad_n ad)).

(* fill_topology_vectors: the pid counter runs over sockets, their cores (global core index =
   core_offset + j, the fix) and the PUs of each core *)
Fixpoint fill_pids (t : topology) (socks : list (list nat)) (off pid : nat) : list nat :=
  match socks with
  | [] => []
  | s :: r => let cnt := list_sum (map (fun j => core_pus t (off + j)) (seq 0 (length s))) in
              seq pid cnt ++ fill_pids t r (off + length s) (pid + cnt)
  end.
Definition exposed (t : topology) (ad : aff_data) : list nat := filter (pu_exposed ad) (fill_pids t t 0 0).

(* rp_callback of the harness: pool k takes the exposed PUs at the given positions;
   partitioner::add_resource throws when the PU's occupancy counter is already 1 *)
Fixpoint take_positions (ex : list nat) (taken : list nat) (poss : list nat) (got : list nat)
  : result (list nat * list nat) :=
  match poss with
  | [] => Ok (taken, got)
  | q :: r => match nth_error ex q with
              | None => take_positions ex taken r got
              | Some p => if mem p taken then Err EPuTaken
                          else take_positions ex (p :: taken) r (got ++ [p])
              end
  end.
Fixpoint user_pools (ex : list nat) (taken : list nat) (specs : list (list nat)) : result (list nat * list (list nat)) :=
  match specs with
  | [] => Ok (taken, [])
  | s :: r => match take_positions ex taken s [] with
              | Err e => Err e
              | Ok (taken', got) =>
                  match user_pools ex taken' r with
                  | Err e => Err e
                  | Ok (tk, ps) => Ok (tk, got :: ps)
                  end
              end
  end.

Record worker := { w_mask : list nat; w_pu : nat }.

(* setup_pools + reconfigure_affinities_locked + get_pu_mask/get_pu_num of the final affinity_data:
   pools in creation order, default first; worker numbers are consecutive over that order *)
Definition configure_pools (ad : aff_data) (ex : list nat) (specs : list (list nat)) : result (list (list nat)) :=
  match user_pools ex [] specs with
  | Err e => Err e
  | Ok (taken, ups) =>
      let dflt := filter (fun p => negb (mem p taken)) ex in
      match dflt with
      | [] => Err EDefaultPoolEmpty
      | _ => if existsb (fun l => negb (any_bit l)) ups then Err EPoolEmpty else Ok (dflt :: ups)
      end
  end.

Definition workers_of (ad : aff_data) (pools : list (list nat)) : list worker :=
  let pus := concat pools in
  map (fun ip => {| w_mask := if mem (fst ip) (ad_noaff ad) then [] else [snd ip]; w_pu := snd ip |})
      (combine (seq 0 (length pus)) pus).

(* pool of worker i: the pools whose [thread_offset, thread_offset + count) contains i *)
Fixpoint owners (pools : list (list nat)) (off k i : nat) : list nat :=
  match pools with
  | [] => []
  | p :: r => (if (off <=? i) && (i <? off + length p) then [k] else []) ++ owners r (off + length p) (S k) i
  end.

Record started := { st_pools : list (list nat); st_workers : list worker; st_ad : aff_data }.

Definition startup (t : topology) (b : bind) (use : bool) (pm : nat -> bool) (n max_cores : nat)
  (specs : list (list nat)) : result started :=
  match affinity_init t b use pm n max_cores with
  | Err e => Err e
  | Ok ad => match configure_pools ad (exposed t ad) specs with
             | Err e => Err e
             | Ok pools => Ok {| st_pools := pools; st_workers := workers_of ad pools; st_ad := ad |}
             end
  end.

(* start-up from the user's OS-index mask: command_line_handling::handle_arguments converts
   --pika:process-mask first (an exception there ends the start-up), everything later reads the
   converted logical mask through get_cpubind_mask_main_thread() *)
Definition startup_os (t : topology) (osidx phys : list nat) (b : bind) (use : bool) (n max_cores : nat)
  (specs : list (list nat)) : result started :=
  match set_process_mask t osidx phys with
  | Err e => Err e
  | Ok pm => startup t b use pm n max_cores specs
  end.

(* --pika:threads=cores / all  (handle_num_threads, get_number_of_default_cores/threads) *)
Definition default_threads (t : topology) (use : bool) (pm : nat -> bool) : nat :=
  if use then count_mask t pm else total_pus t.
Definition default_cores (t : topology) (use : bool) (pm : nat -> bool) : nat :=
  if use then length (filter (fun c => existsb (fun x => pm (pu_number t (fst x) (snd x))) (core_pairs t 0 c))
                             (seq 0 (ncores t)))
  else ncores t.

(* every core has at least one PU (hwloc never reports an empty core) *)
Definition wf_topo (t : topology) : Prop := Forall (fun c => 1 <= c) (cores t).
