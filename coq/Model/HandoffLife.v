(* Model/HandoffLife.v — C03: the LIFETIME of the shared state of split / ensure_started /
   split_tuple (split.hpp, ensure_started.hpp, split_tuple.hpp: intrusive_ptr_add_ref /
   intrusive_ptr_release, the receivers' `auto r = std::move( *this );`).

   A ghost layer over the hand-off model of Model/Handoff.v.  The base step [h_tstep] is NOT
   changed (it is the one the lock-step harness compares with the real code); [hl_tstep] calls
   it and threads a ghost record [life] through the shared state:

     l_rc     reference_count of the shared state
     l_alive  the shared state has not been destroyed + deallocated
     l_rel    the holders that have released their reference, newest first:
                0     = the stack copy `r` of the predecessor's receiver (the receiver owns an
                        intrusive_ptr<shared_state> in all three adaptors),
                t > 0 = the operation state of consumer t (one intrusive_ptr from connect until
                        the operation state is destroyed)
     l_reads  every read of the variant v, newest first:
                (consumer signalled, by thread, v stored?, predecessor_done?, state alive?)
     l_bad    (thread, pc) of every access to a member of the shared state made while it was
              not alive

   Who releases when:
     * a consumer's operation state may only be destroyed after its receiver has been
       signalled.  The oracle [o : nat -> bool] of the step in which consumer cn is signalled
       decides whether cn's receiver destroys the operation state INSIDE the signal (as
       start_detached's receiver does): then cn's reference is dropped in that very step.
       Otherwise the owner of the operation state drops it in some later step of thread cn
       (pc CEnd, signalled, not yet released).  Thread 0 cannot write another thread's locals
       in Base/Conc, so "consumer cn has released" is membership in [l_rel]; cn's own later
       release step is a no-op then.
     * `r` is destroyed when set_value/set_error/set_stopped returns,
       i.e. after set_predecessor_done() has run the continuations and cleared them.  This
       decrement is coalesced with the P3 step: between the loop and the release the thread
       touches only its own stack and the state it still holds a reference to.
     * intrusive_ptr_release: if (--reference_count == 0) destroy + deallocate.

   Accesses (members of the shared state touched by a step):
     P0 (only when the predecessor has been started: v.emplace, os.reset()), P1
     (predecessor_done = true), P2 (every attempt on mtx), P3 (continuations.empty() /
     std::move(continuations); one access + read of v per stored continuation; for split /
     ensure_started continuations.clear() / continuation.reset() after the loop; split_tuple
     moves the continuations to a local and touches nothing of `this` after the last one — the
     model logs one more access there, which is harmless: r still holds its reference),
     C0 (start_called.exchange), C1 (predecessor_done, v), C2 (mtx, predecessor_done, v),
     C3 (continuations, mtx).

   [n] is the number of connected consumer operation states (threads 1..n); threads > n do
   not exist: their steps stutter.  Executable definitions only. *)
From Coq Require Import List NArith Bool Arith.
From Pika Require Import Base.Conc Model.Sender Model.Handoff.
Import ListNotations.

(* all three receivers carry an intrusive_ptr<shared_state> (split_tuple's held a plain
   `shared_state&` until the repair recorded in KNOWN_FINDINGS.txt: the predecessor thread's
   lock_guard / std::move(continuations) could then run on a freed state — replayed on the real
   code by the LIFE cases of harness/c03_lock.cpp, which report it again when the repair is
   reverted) *)
Definition holds_ref (k : hkind) : bool := match k with HSplit => true | HEnsure => true | HTuple => true end.

Record life := {
  l_rc : nat;
  l_alive : bool;
  l_rel : list nat;
  l_reads : list (nat * nat * bool * bool * bool);
  l_bad : list (nat * hpc)
}.

Definition is_some {A : Type} (x : option A) : bool := match x with Some _ => true | None => false end.
Definition mem (x : nat) (l : list nat) : bool := existsb (Nat.eqb x) l.
(* executable copy of [In t (consumers g)] of Proofs/HandoffProofs.v *)
Definition signalled (g : hs) (t : nat) : bool := existsb (fun x => Nat.eqb (fst (fst x)) t) (h_log g).

(* intrusive_ptr_release by holder h *)
Definition release (h : nat) (lf : life) : life :=
  {| l_rc := l_rc lf - 1;
     l_alive := l_alive lf && negb (Nat.eqb (l_rc lf - 1) 0);
     l_rel := h :: l_rel lf;
     l_reads := l_reads lf;
     l_bad := l_bad lf |}.

(* thread t at pc touches a member of the shared state *)
Definition access (t : nat) (pc : hpc) (lf : life) : life :=
  if l_alive lf then lf
  else {| l_rc := l_rc lf; l_alive := l_alive lf; l_rel := l_rel lf; l_reads := l_reads lf;
          l_bad := (t, pc) :: l_bad lf |}.

(* visit(v) on behalf of consumer cn by thread b; g is the shared state at the time *)
Definition read_v (cn b : nat) (g : hs) (lf : life) : life :=
  {| l_rc := l_rc lf; l_alive := l_alive lf; l_rel := l_rel lf;
     l_reads := (cn, b, is_some (h_v g), h_done g, l_alive lf) :: l_reads lf;
     l_bad := l_bad lf |}.

(* thread b (at pc) runs the continuation of consumer cn: touches the state, reads v, signals
   cn's receiver, which may destroy cn's operation state inside the signal *)
Definition deliver (o : nat -> bool) (g : hs) (b : nat) (pc : hpc) (lf : life) (cn : nat) : life :=
  let lf1 := read_v cn b g (access b pc lf) in
  if o cn then release cn lf1 else lf1.

(* the ghost part of one step; l is the pc before, l' the pc after the base step *)
Definition hl_ghost (k : hkind) (o : nat -> bool) (t : nat) (g : hs) (lf : life) (l l' : hpc) : life :=
  match t with
  | O =>
      match l with
      | P0 => if h_started g then access 0 P0 lf else lf
      | P1 => access 0 P1 lf
      | P2 => access 0 P2 lf
      | P3 => let lf2 := fold_left (deliver o g 0 P3) (h_conts g) (access 0 P3 lf) in
              if holds_ref k then release 0 (access 0 P3 lf2) else lf2
      | _ => lf
      end
  | S _ =>
      match l with
      | C0 => access t C0 lf
      | C1 => match l' with CEnd => deliver o g t C1 lf t | _ => access t C1 lf end
      | C2 => match l' with CEnd => deliver o g t C2 lf t | _ => access t C2 lf end
      | C3 => access t C3 lf
      | CEnd => if signalled g t && negb (mem t (l_rel lf)) then release t lf else lf
      | _ => lf
      end
  end.

(* thread-local ghost flag: this holder's reference is gone *)
Definition hl_flag (k : hkind) (o : nat -> bool) (t : nat) (g : hs) (l l' : hpc) (rel : bool) : bool :=
  match t with
  | O => match l with P3 => holds_ref k | _ => rel end
  | S _ =>
      match l with
      | C1 | C2 => match l' with CEnd => o t | _ => rel end
      | CEnd => rel || signalled g t
      | _ => rel
      end
  end.

Definition hl_tstep (k : hkind) (c : completion) (n : nat) (o : nat -> bool) (t : nat)
    (gl : hs * life) (lr : hpc * bool) : (hs * life) * (hpc * bool) :=
  if Nat.ltb n t then (gl, lr)
  else
    let r := h_tstep k c tt t (fst gl) (fst lr) in
    ((fst r, hl_ghost k o t (fst gl) (snd gl) (fst lr) (snd r)),
     (snd r, hl_flag k o t (fst gl) (fst lr) (snd r) (snd lr))).

Definition holders (k : hkind) (n : nat) : nat := n + (if holds_ref k then 1 else 0).

Definition hl_init (k : hkind) (n : nat) : life :=
  {| l_rc := holders k n; l_alive := true; l_rel := []; l_reads := []; l_bad := [] |}.
Definition hl_locals : nat -> hpc * bool := fun t => (h_locals t, false).

Definition hl_run (k : hkind) (c : completion) (n : nat) (sched : list (nat * (nat -> bool)))
  : (hs * life) * (nat -> hpc * bool) :=
  run (hl_tstep k c n) sched ((h_init k, hl_init k n), hl_locals).

(* schedules from thread ids, with one oracle for every step *)
Definition with_oracle (o : nat -> bool) (ts : list nat) : list (nat * (nat -> bool)) :=
  map (fun t => (t, o)) ts.

(* for the correspondence check (LIFE cases of harness/c03_lock.cpp): as [h_trace], the critical
   section of add_continuation (C2 keeping the lock, then C3) is one step of the real code; one
   oracle per case.  Returns the site every scheduled thread was parked at and the final state. *)
Fixpoint hl_trace (k : hkind) (c : completion) (n : nat) (o : nat -> bool) (sched : list nat)
    (st : (hs * life) * (nat -> hpc * bool)) (acc : list nat)
  : list nat * ((hs * life) * (nat -> hpc * bool)) :=
  match sched with
  | [] => (rev acc, st)
  | t :: rest =>
      let st1 := step (hl_tstep k c n) st (t, o) in
      let st2 := match fst (snd st1 t) with C3 => step (hl_tstep k c n) st1 (t, o) | _ => st1 end in
      hl_trace k c n o rest st2 (h_site (fst (snd st t)) :: acc)
  end.
