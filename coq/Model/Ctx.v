(* Model/Ctx.v — C12: a small x86-64 machine that executes the regenerated context-switch
   routine Gen/GenSwapctx.swapcontext (the asm text of swapcontext64.ipp), and the initial
   frame built by x86_linux_context_impl::init / rebind_stack.  Definitions only.

   Scope of the machine: 16 general purpose registers holding 64-bit values, memory as a map
   from byte address to the 8-byte word stored there (every access of the routine is an 8-byte
   access; an access whose address is not 8-byte aligned is a [Fault] of the model — not
   modelled rather than assumed away), address arithmetic modulo 2^64, MXCSR and the x87
   control word as two extra registers that only ldmxcsr / fldcw write.  RFLAGS are not
   modelled ([add] sets them; they are dead across a call by the ABI).  Control flow: the
   routine is straight-line code that ends in an indirect jump, so execution of an
   instruction list yields the jump target and the machine state at the jump. *)
From Coq Require Import ZArith List Bool.
From Pika Require Import Model.CtxSyntax Gen.GenSwapctx.
Import ListNotations.
Local Open Scope Z_scope.

Definition W : Z := 18446744073709551616.   (* 2^64 *)
Definition wrap (x : Z) : Z := x mod W.
Definition aligned8 (a : Z) : bool := a mod 8 =? 0.

Definition reg_idx (r : reg) : Z :=
  match r with
  | RAX => 0 | RBX => 1 | RCX => 2 | RDX => 3 | RSI => 4 | RDI => 5 | RBP => 6 | RSP => 7
  | R8 => 8 | R9 => 9 | R10 => 10 | R11 => 11 | R12 => 12 | R13 => 13 | R14 => 14 | R15 => 15
  end.
Definition reg_eqb (a b : reg) : bool := reg_idx a =? reg_idx b.
Definition all_regs : list reg :=
  [RAX; RBX; RCX; RDX; RSI; RDI; RBP; RSP; R8; R9; R10; R11; R12; R13; R14; R15].
(* the registers a callee must preserve (System V AMD64 ABI), apart from rsp *)
Definition callee_saved : list reg := [RBX; RBP; R12; R13; R14; R15].

Record state : Type := mkState {
  regs : reg -> Z;
  mem : Z -> Z;          (* byte address of an aligned 8-byte word -> its value *)
  mxcsr : Z;             (* SSE control/status register (rounding mode, masks, flush-to-zero) *)
  fpcw : Z               (* x87 control word *)
}.

Definition updm (m : Z -> Z) (a v : Z) : Z -> Z := fun a' => if a' =? a then v else m a'.
Definition setr (s : state) (r : reg) (v : Z) : state :=
  mkState (fun r' => if reg_eqb r' r then v else regs s r') (mem s) (mxcsr s) (fpcw s).
Definition setm (s : state) (a v : Z) : state :=
  mkState (regs s) (updm (mem s) a v) (mxcsr s) (fpcw s).

(* 32-bit / 16-bit stores of the FP control registers into the word that contains them *)
Definition word_of (a : Z) : Z := a - a mod 8.
Definition put_bits (old lo width v : Z) : Z :=
  let low := old mod 2 ^ lo in
  let high := old / 2 ^ (lo + width) in
  low + (v mod 2 ^ width) * 2 ^ lo + high * 2 ^ (lo + width).
Definition get_bits (old lo width : Z) : Z := (old / 2 ^ lo) mod 2 ^ width.

Definition step (i : instr) (s : state) : option state :=
  match i with
  | MovLoad off b d =>
      let a := wrap (regs s b + off) in
      if aligned8 a then Some (setr s d (mem s a)) else None
  | MovStore src off b =>
      let a := wrap (regs s b + off) in
      if aligned8 a then Some (setm s a (regs s src)) else None
  | MovRR a b => Some (setr s b (regs s a))
  | Push r =>
      let a := wrap (regs s RSP - 8) in
      if aligned8 a then Some (setm (setr s RSP a) a (regs s r)) else None
  | Pop r =>
      let a := regs s RSP in
      if aligned8 a then Some (setr (setr s RSP (wrap (a + 8))) r (mem s a)) else None
  | AddImm imm d => Some (setr s d (wrap (regs s d + imm)))
  | Lea off b d => Some (setr s d (wrap (regs s b + off)))
  | Nop => Some s
  | Stmxcsr off b =>
      let a := wrap (regs s b + off) in
      if a mod 4 =? 0 then Some (setm s (word_of a) (put_bits (mem s (word_of a)) (8 * (a mod 8)) 32 (mxcsr s)))
      else None
  | Ldmxcsr off b =>
      let a := wrap (regs s b + off) in
      if a mod 4 =? 0
      then Some (mkState (regs s) (mem s) (get_bits (mem s (word_of a)) (8 * (a mod 8)) 32) (fpcw s))
      else None
  | Fnstcw off b =>
      let a := wrap (regs s b + off) in
      if a mod 2 =? 0 then Some (setm s (word_of a) (put_bits (mem s (word_of a)) (8 * (a mod 8)) 16 (fpcw s)))
      else None
  | Fldcw off b =>
      let a := wrap (regs s b + off) in
      if a mod 2 =? 0
      then Some (mkState (regs s) (mem s) (mxcsr s) (get_bits (mem s (word_of a)) (8 * (a mod 8)) 16))
      else None
  | JmpReg _ | Ret | Ud2 => None     (* control transfers: handled by [exec] *)
  end.

Inductive outcome : Type :=
  | Jump (target : Z) (s : state)   (* control left the routine to [target] in state [s] *)
  | Fault                           (* ud2, misaligned access, or an instruction failed *)
  | Fall (s : state).               (* ran off the end of the list *)

Fixpoint exec (l : list instr) (s : state) : outcome :=
  match l with
  | [] => Fall s
  | JmpReg r :: _ => Jump (regs s r) s
  | Ret :: _ =>
      let a := regs s RSP in
      if aligned8 a then Jump (mem s a) (setr s RSP (wrap (a + 8))) else Fault
  | Ud2 :: _ => Fault
  | i :: l' => match step i s with Some s' => exec l' s' | None => Fault end
  end.

(* `call routine` executed by the context that switches away: pushes the return address *)
Definition call (ret : Z) (s : state) : option state :=
  let a := wrap (regs s RSP - 8) in
  if aligned8 a then Some (setm (setr s RSP a) a ret) else None.

Definition switch_with (l : list instr) (ret : Z) (s : state) : outcome :=
  match call ret s with Some s' => exec l s' | None => Fault end.

(* the routine of the source tree *)
Definition switch (ret : Z) (s : state) : outcome := switch_with swapcontext ret s.

(* how many bytes below its stack pointer a context that calls the routine must be able to
   write (return address + pushed registers); the routine uses 72 of them *)
Definition room : Z := 128.

(* the context that switches away: register file and memory arbitrary, stack pointer aligned
   with [room] writable bytes below it, [&from.m_sp] (rdi) an aligned cell outside the part
   [rsp - room, hi) of its own stack, [to.m_sp] (rsi) an aligned address *)
Definition caller_ok (s : state) (hi : Z) : Prop :=
  let r := regs s RSP in
  room <= r /\ r <= hi /\ hi < W /\ r mod 8 = 0 /\
  0 <= regs s RDI < W /\ regs s RDI mod 8 = 0 /\ (regs s RDI < r - room \/ hi <= regs s RDI) /\
  0 <= regs s RSI < W - room /\ regs s RSI mod 8 = 0.


(* ---- x86_linux_context_impl::init() / rebind_stack():
     m_sp = (void** )m_stack + m_stack_size / sizeof(void* ) - context_size;
     m_sp[cb_idx] = this;  m_sp[funp_idx] = funp;                                       *)
Definition frame_sp (stack size : Z) : Z := stack + 8 * (size / 8) - 8 * context_size.
Definition init_frame (stack size this funp : Z) (m : Z -> Z) : Z -> Z :=
  let sp := frame_sp stack size in
  updm (updm m (sp + 8 * cb_idx) this) (sp + 8 * funp_idx) funp.

(* does the routine contain an instruction that writes MXCSR / the x87 control word? *)
Definition writes_fpctl (i : instr) : bool :=
  match i with Ldmxcsr _ _ | Fldcw _ _ => true | _ => false end.
Definition reads_fpctl (i : instr) : bool :=
  match i with Stmxcsr _ _ | Fnstcw _ _ => true | _ => false end.

(* ---- executable entry points for the correspondence check (extracted) ----
   run the routine once on a concrete machine state given as lists *)
Definition regs_of_list (l : list Z) : reg -> Z :=
  fun r => nth (Z.to_nat (reg_idx r)) l 0.
Fixpoint mem_of_list (l : list (Z * Z)) : Z -> Z :=
  match l with [] => fun _ => 0 | (a, v) :: t => updm (mem_of_list t) a v end.
Definition run_switch (ret : Z) (rl : list Z) (ml : list (Z * Z)) (probe : list Z)
  : option (Z * list Z * list Z) :=
  match switch ret (mkState (regs_of_list rl) (mem_of_list ml) 0 0) with
  | Jump t s => Some (t, map (regs s) all_regs, map (mem s) probe)
  | _ => None
  end.
(* first entry into a fresh frame *)
Definition run_first_entry (ret : Z) (rl : list Z) (ml : list (Z * Z)) (stack size this funp : Z)
  : option (Z * list Z) :=
  let m := init_frame stack size this funp (mem_of_list ml) in
  let r := fun q => if reg_eqb q RSI then frame_sp stack size else regs_of_list rl q in
  match switch ret (mkState r m 0 0) with
  | Jump t s => Some (t, map (regs s) all_regs)
  | _ => None
  end.

(* A switches to a prepared frame (context B's entry), B switches back to A: both runs of the
   routine on the memory left by the first; B's rsi is read from A's cell as the C++ code does *)
Definition run_two (retA : Z) (rlA : list Z) (ml : list (Z * Z)) (mxA cwA : Z)
                   (retB : Z) (rlB : list Z) (mxB cwB : Z) (cellA : Z) (probe : list Z)
  : option ((Z * list Z) * (Z * list Z) * (list Z * (Z * Z))) :=
  match switch retA (mkState (regs_of_list rlA) (mem_of_list ml) mxA cwA) with
  | Jump t1 s1 =>
      let r2 := fun q => if reg_eqb q RSI then mem s1 cellA else regs_of_list rlB q in
      match switch retB (mkState r2 (mem s1) mxB cwB) with
      | Jump t2 s3 =>
          Some ((t1, map (regs s1) all_regs), (t2, map (regs s3) all_regs),
                (map (mem s3) probe, (mxcsr s3, fpcw s3)))
      | _ => None
      end
  | _ => None
  end.

(* first entry: the frame as init()/rebind_stack() builds it; reports the frame pointer, the
   two slot indices, the jump target, rdi and rsp at the trampoline's entry *)
Definition run_fe (ret : Z) (rl : list Z) (stack size this funp : Z)
  : option (Z * (Z * Z) * (Z * Z * Z)) :=
  let m := init_frame stack size this funp (fun _ => 0) in
  let r := fun q => if reg_eqb q RSI then frame_sp stack size else regs_of_list rl q in
  match switch ret (mkState r m 0 0) with
  | Jump t s => Some (frame_sp stack size, (cb_idx, funp_idx), (t, regs s RDI, regs s RSP))
  | _ => None
  end.
