(* Model/Event.v — pika::experimental::event
   (libs/pika/synchronization/include/pika/synchronization/event.hpp) over Base/Agent.v.
   State: event_ (atomic bool), the spinlock mtx_, the condition variable's queue, agents.
   Atomic steps (lock-needing steps stutter while the lock is held):
     W0   wait(): event_.load -> true: return                              (fast path)
     W1   lock; wait_locked: event_.load ? unlock, return : enqueue, unlock -> SUSP
     SUSP / BLK   agent suspend (consumes a token or blocks) / blocked until resumed
     RW   after suspend: lock; remove the own queue entry if still queued; the `while` re-checks
          event_: true -> unlock, return; false -> enqueue, unlock -> SUSP
     S0   set(): event_.store(true)
     S1   lock; notify_all: swap the queue into a local list (lock stays held)
     SN   resume the next entry of the local list; when it is empty: unlock, return
     R0   reset(): event_.store(false)
     OCC  occurred(): event_.load, one step, the value read goes to the log
   Oracle ESpur: a stale resume from the environment reaches the thread's agent (any time).
   The functions ev_* work on the event state and a sub-program-counter so that Model/Once.v can
   run them as part of call_once.  Executable definitions only. *)
From Coq Require Import List Bool Arith.
From Pika Require Import Base.Conc Base.Agent.
Import ListNotations.

Record evs := { flag : bool; elk : option nat; ewq : list nat; eag : nat -> agent_state }.

Inductive epc :=
| EW0 | EW1 | ESusp | EBlk | ERw            (* wait() *)
| ES0 | ES1 | ESN (pending : list nat)       (* set() *)
| ER0                                        (* reset() *)
| EDone.

Definition elocked (e : evs) : bool := match elk e with Some _ => true | None => false end.

Fixpoint eremove (t : nat) (l : list nat) : list nat :=
  match l with [] => [] | x :: r => if Nat.eqb x t then r else x :: eremove t r end.

Definition ev_resume (e : evs) (w : nat) : evs :=
  {| flag := flag e; elk := elk e; ewq := ewq e;
     eag := fun t' => if Nat.eqb t' w then a_resume (eag e w) else eag e t' |}.

Definition ev_spur (e : evs) (t : nat) : evs := ev_resume e t.

(* one step of an event operation of thread t; EDone = the operation has returned *)
Definition ev_step (t : nat) (e : evs) (pc : epc) : evs * epc :=
  match pc with
  | EW0 => if flag e then (e, EDone) else (e, EW1)
  | EW1 =>
      if elocked e then (e, pc)
      else if flag e then (e, EDone)
      else ({| flag := flag e; elk := None; ewq := ewq e ++ [t]; eag := eag e |}, ESusp)
  | ESusp =>
      let '(a, r) := a_suspend (eag e t) in
      ({| flag := flag e; elk := elk e; ewq := ewq e;
          eag := fun t' => if Nat.eqb t' t then a else eag e t' |},
       match r with Returned => ERw | Blocked => EBlk end)
  | EBlk => if blocked (eag e t) then (e, pc) else (e, ERw)
  | ERw =>
      if elocked e then (e, pc)
      else
        let q1 := eremove t (ewq e) in
        if flag e then ({| flag := flag e; elk := None; ewq := q1; eag := eag e |}, EDone)
        else ({| flag := flag e; elk := None; ewq := q1 ++ [t]; eag := eag e |}, ESusp)
  | ES0 => ({| flag := true; elk := elk e; ewq := ewq e; eag := eag e |}, ES1)
  | ES1 =>
      if elocked e then (e, pc)
      else ({| flag := flag e; elk := Some t; ewq := []; eag := eag e |}, ESN (ewq e))
  | ESN [] => ({| flag := flag e; elk := None; ewq := ewq e; eag := eag e |}, EDone)
  | ESN (w :: rest) => (ev_resume e w, ESN rest)
  | ER0 => ({| flag := false; elk := elk e; ewq := ewq e; eag := eag e |}, EDone)
  | EDone => (e, EDone)
  end.

Definition ev_enabled (t : nat) (e : evs) (pc : epc) : bool :=
  match pc with
  | EW1 | ERw | ES1 => negb (elocked e)
  | EBlk => negb (blocked (eag e t))
  | EDone => false
  | _ => true
  end.

Definition ev_init : evs := {| flag := false; elk := None; ewq := []; eag := fun _ => a_init |}.

(* ---------- the event on its own: threads run programs of wait / set / reset ---------- *)
Inductive eop := EWait | ESet | EReset | EOcc.
Inductive eorc := ENorm | ESpur.
Inductive eev := ERet (t : nat) (seen : bool) | ESetDone (t : nat) | EOccurred (t : nat) (b : bool).

Record eshared := { est : evs; elog : list eev }.
Record elocal := { eprog : list eop; epcs : option epc }.

Definition e_tstep (o : eorc) (t : nat) (g : eshared) (l : elocal) : eshared * elocal :=
  match o with
  | ESpur => ({| est := ev_spur (est g) t; elog := elog g |}, l)
  | ENorm =>
    match epcs l with
    | None =>
        match eprog l with
        | [] => (g, l)
        | EWait :: _ => (g, {| eprog := eprog l; epcs := Some EW0 |})
        | ESet :: _ => (g, {| eprog := eprog l; epcs := Some ES0 |})
        | EReset :: _ => (g, {| eprog := eprog l; epcs := Some ER0 |})
        | EOcc :: _ => ({| est := est g; elog := EOccurred t (flag (est g)) :: elog g |},
                        {| eprog := tl (eprog l); epcs := None |})
        end
    | Some pc =>
        let '(e', pc') := ev_step t (est g) pc in
        match pc' with
        | EDone =>
            let ev := match eprog l with
                      | EWait :: _ => [ERet t (flag (est g))]
                      | ESet :: _ => [ESetDone t]
                      | _ => [] end in
            ({| est := e'; elog := ev ++ elog g |}, {| eprog := tl (eprog l); epcs := None |})
        | _ => ({| est := e'; elog := elog g |}, {| eprog := eprog l; epcs := Some pc' |})
        end
    end
  end.

Definition e_init : eshared := {| est := ev_init; elog := [] |}.
Definition e_locals (progs : nat -> list eop) : nat -> elocal := fun t => {| eprog := progs t; epcs := None |}.
Definition e_run (sched : list (nat * eorc)) (progs : nat -> list eop) :=
  run e_tstep sched (e_init, e_locals progs).

Definition e_enabled (g : eshared) (t : nat) (l : elocal) : bool :=
  match epcs l with
  | None => match eprog l with [] => false | _ => true end
  | Some pc => ev_enabled t (est g) pc
  end.
