(* Model/BarrierTree.v — pika::detail::barrier_algorithm_base::arrive
   (libs/pika/synchronization/src/barrier.cpp) and pika::barrier<Completion>
   (libs/pika/synchronization/include/pika/synchronization/barrier.hpp), as the source is.

   Tree.  tickets: state[node].tickets[round].phase, one byte each (phase_bits from the
   generated GenBarrier.v), indexed here [tk round node].  An arrival carries the locals of
   the C++ function: round, current, current_expected.  Atomic steps:
     site 900 (START) : entry of arrive(): the start node (a hash value reduced modulo
                        (expected+1)>>1) is chosen; `current_expected <= 1 -> return true`
     site 901 (CAS1)  : `if (current == end_node) current = 0` and the first
                        compare_exchange_strong on tickets[round] of node current
                        (old_phase -> full_step on the odd last node, old_phase -> half_step
                        otherwise); on failure `expect` holds the value read
     site 902 (CAS2)  : after CAS1 failed with expect == half_step: the second
                        compare_exchange_strong (half_step -> full_step)
   compare_exchange_strong never fails spuriously.  After a successful full step:
   current_expected = last_node + 1; current >>= 1; next round (or return true).
   Ghost fields (never read by the algorithm): started, wins, act (who is inside which round).
   Executable definitions only; proofs are in Proofs/BarrierTreeProofs.v. *)
From Coq Require Import List NArith Arith Bool ZArith.
From Pika Require Import Base.Conc Gen.GenBarrier.
Import ListNotations.

Definition pmod : N := (2 ^ phase_bits)%N.
Definition half_of (p : N) : N := ((p + half_inc) mod pmod)%N.
Definition full_of (p : N) : N := ((p + full_inc) mod pmod)%N.
Definition next_phase (p : N) : N := ((p + publish_inc) mod pmod)%N.

Fixpoint remove_one (t : nat) (l : list nat) : list nat :=
  match l with
  | [] => []
  | x :: r => if Nat.eqb x t then r else x :: remove_one t r
  end.

Record tree := { tk : nat -> nat -> N; started : nat; wins : nat; act : nat -> list nat }.

Definition set_tk (tr : tree) (r n : nat) (v : N) : tree :=
  {| tk := fun r' n' => if Nat.eqb r' r && Nat.eqb n' n then v else tk tr r' n';
     started := started tr; wins := wins tr; act := act tr |}.
Definition enter (tr : tree) (r t : nat) : tree :=
  {| tk := tk tr; started := started tr; wins := wins tr;
     act := fun r' => if Nat.eqb r' r then t :: act tr r' else act tr r' |}.
Definition leave (tr : tree) (r t : nat) : tree :=
  {| tk := tk tr; started := started tr; wins := wins tr;
     act := fun r' => if Nat.eqb r' r then remove_one t (act tr r') else act tr r' |}.
Definition win (tr : tree) : tree :=
  {| tk := tk tr; started := started tr; wins := S (wins tr); act := act tr |}.
Definition start1 (tr : tree) : tree :=
  {| tk := tk tr; started := S (started tr); wins := wins tr; act := act tr |}.

(* program counter of one arrival: the C++ locals round, current, current_expected *)
Inductive tpc := TScan (r cur ce : nat) | TSecond (r cur ce : nat) | TRet (b : bool).

(* after a successful full step on node cur of round r *)
Definition advance (t : nat) (tr : tree) (r cur ce : nat) : tree * tpc :=
  let ce' := (ce + 1) / 2 in                       (* last_node + 1 *)
  let tr1 := leave tr r t in
  if ce' <=? 1 then (win tr1, TRet true)
  else (enter tr1 (S r) t, TScan (S r) (cur / 2) ce').

Definition tree_start (E : nat) (t : nat) (tr : tree) (start : nat) : tree * tpc :=
  let tr1 := start1 tr in
  if E <=? 1 then (win tr1, TRet true)
  else (enter tr1 0 t, TScan 0 (start mod ((E + 1) / 2)) E).

Definition tree_step (p : N) (t : nat) (tr : tree) (pc : tpc) : tree * tpc :=
  match pc with
  | TScan r cur0 ce =>
      let en := (ce + 1) / 2 in
      let last := en - 1 in
      let cur := if Nat.eqb cur0 en then 0 else cur0 in
      let v := tk tr r cur in
      if Nat.eqb cur last && Nat.odd ce then
        if N.eqb v p then advance t (set_tk tr r cur (full_of p)) r cur ce
        else (tr, TScan r (S cur) ce)
      else if N.eqb v p then (leave (set_tk tr r cur (half_of p)) r t, TRet false)
      else if N.eqb v (half_of p) then (tr, TSecond r cur ce)
      else (tr, TScan r (S cur) ce)
  | TSecond r cur ce =>
      if N.eqb (tk tr r cur) (half_of p) then advance t (set_tk tr r cur (full_of p)) r cur ce
      else (tr, TScan r (S cur) ce)
  | TRet _ => (tr, pc)
  end.

Definition tpc_site (o : option tpc) : nat :=
  match o with
  | None => 900
  | Some (TScan _ _ _) => 901
  | Some (TSecond _ _ _) => 902
  | Some (TRet _) => 0
  end.

Definition tree_init (p : N) : tree :=
  {| tk := fun _ _ => p; started := 0; wins := 0; act := fun _ => [] |}.

(* ---------------------------------------------------------------------------------------
   Stand-alone tree model over Base/Conc.v: one phase (expected E, old_phase p); every thread
   performs [todo] arrivals one after the other (barrier::arrive(update) is such a loop).
   Oracle = the start node hash of an arrival (used by START steps only).
   Ghost log entry: (thread, result, number of arrivals started when the result was produced). *)
Record tr_shared := { tre : tree; trlog : list (nat * bool * nat) }.
Record tr_local := { todo : nat; tp : option tpc }.

Definition finish (g : tree) (lg : list (nat * bool * nat)) (t : nat) (pc : tpc) (todo' : nat)
  : tr_shared * tr_local :=
  match pc with
  | TRet b => ({| tre := g; trlog := (t, b, started g) :: lg |}, {| todo := todo'; tp := None |})
  | _ => ({| tre := g; trlog := lg |}, {| todo := todo'; tp := Some pc |})
  end.

Definition tr_tstep (E : nat) (p : N) (start : nat) (t : nat) (g : tr_shared) (l : tr_local)
  : tr_shared * tr_local :=
  match tp l with
  | None =>
      match todo l with
      | 0 => (g, l)
      | S k => let '(g', pc) := tree_start E t (tre g) start in finish g' (trlog g) t pc k
      end
  | Some pc => let '(g', pc') := tree_step p t (tre g) pc in finish g' (trlog g) t pc' (todo l)
  end.

Definition tr_init (p : N) : tr_shared := {| tre := tree_init p; trlog := [] |}.
Definition tr_locals (progs : nat -> nat) : nat -> tr_local := fun t => {| todo := progs t; tp := None |}.
Definition tr_run (E : nat) (p : N) (sched : list (nat * nat)) (progs : nat -> nat) :=
  run (tr_tstep E p) sched (tr_init p, tr_locals progs).

(* ---------------------------------------------------------------------------------------
   The barrier: phase byte, expected (plain member, written only by the completing thread),
   expected_adjustment (atomic), completion function, the tree.  Operations of a thread:
   arrive(n) [keeps the token], wait(token), arrive_and_wait, arrive_and_drop.  Atomic steps:
     BDROP   expected_adjustment.fetch_sub(1)             (arrive_and_drop entry, then BLOAD)
     BLOAD   phase.load                                   (arrive entry)
     tree steps 900/901/902 with `expected` read at 900
     BC1     completion()      BC2  expected += expected_adjustment.load
     BC3     expected_adjustment.store(0)      BC4  phase.store(old_phase + 2)
     BPOLL   phase.load == token ? keep polling : return  (wait; a spin loop: stutter steps)
     BSPIN   wait(token, busy_wait_timeout) / arrive_and_wait(busy_wait_timeout) with
             busy_wait_timeout > 0 (operations OWaitBusy / OArriveWaitBusy; with a timeout <= 0 the
             code takes the BPOLL path directly = OWait / OArriveWait): one iteration of
             pika::util::detail::yield_while_timeout(poll, busy_wait_timeout, ..., false):
               if (elapsed > timeout) return false;   -> the oracle says the timer has expired:
                                                         fall back to yield_while(poll) = BPOLL
               if (!poll()) return true;              -> phase.load != token: wait() returns
               else spin_k(k);                        -> stay (bounded spin, no shared access)
             The clock is not modelled: whether the timer has expired at an iteration is the
             step's oracle (any number of polls, including none, may precede the expiry).
   Ghost: phno (number of completed phases), eph (the expected count of the current phase),
   compl (completions run in the current phase), drops (arrive_and_drop calls of the current
   phase), cstage/completer (who is inside the completion step, and where), the event log, and
   bad: the documented preconditions were violated (more than `expected` arrivals in a phase,
   an arrival carrying the phase value of an already completed phase, or arrive /
   arrive_and_drop entered while the completion step is in progress [thread.barrier]). *)
Inductive bop := OArrive (n : nat) | OWait | OArriveWait | ODrop | OWaitBusy | OArriveWaitBusy.

Inductive bev :=
| EvArrive (t : nat) (k : nat)                       (* arrival started in phase instance k *)
| EvCompl (t : nat) (k : nat) (arrived expected_ : nat) (* completion function runs *)
| EvPublish (k : nat) (compl_ arrived eold drops_ enew : nat)   (* phase.store *)
| EvDepart (t : nat) (k : nat) (cur : nat).          (* wait for phase k returned when phno = cur *)

Record bar := { btree : tree; phase : N; expected : nat; adj : Z;
                phno : nat; eph : nat; compl : nat; drops : nat;
                cstage : nat; completer : option nat; bad : bool; blog : list bev }.

Inductive bpc :=
| BIdle
| BLoad (n : nat) (w : bool)                       (* about to load the phase *)
| BArr (n : nat) (old : N) (k : nat) (w : bool) (sub : option tpc)  (* n arrivals left *)
| BC (stage : nat) (n : nat) (old : N) (k : nat) (w : bool)
| BPoll (old : N) (k : nat)
| BSpin (old : N) (k : nat).                        (* inside the busy wait of wait(token, timeout > 0) *)

Record blocal := { bprog : list bop; pcb : bpc; token : N; tokk : nat }.

Definition completing (g : bar) : bool := negb (Nat.eqb (cstage g) 0).

Definition set_tree (g : bar) (tr : tree) : bar :=
  {| btree := tr; phase := phase g; expected := expected g; adj := adj g; phno := phno g; eph := eph g;
     compl := compl g; drops := drops g; cstage := cstage g; completer := completer g; bad := bad g; blog := blog g |}.
Definition blog_add (g : bar) (e : bev) : bar :=
  {| btree := btree g; phase := phase g; expected := expected g; adj := adj g; phno := phno g; eph := eph g;
     compl := compl g; drops := drops g; cstage := cstage g; completer := completer g; bad := bad g; blog := e :: blog g |}.
Definition set_bad (g : bar) (b : bool) : bar :=
  {| btree := btree g; phase := phase g; expected := expected g; adj := adj g; phno := phno g; eph := eph g;
     compl := compl g; drops := drops g; cstage := cstage g; completer := completer g; bad := bad g || b; blog := blog g |}.
Definition set_stage (g : bar) (st : nat) (c : option nat) : bar :=
  {| btree := btree g; phase := phase g; expected := expected g; adj := adj g; phno := phno g; eph := eph g;
     compl := compl g; drops := drops g; cstage := st; completer := c; bad := bad g; blog := blog g |}.

(* the operation a thread executes stays at the head of its program until it returns; the
   busy_wait_timeout argument of that call selects the first loop of wait() *)
Definition busy_op (p : list bop) : bool :=
  match p with OWaitBusy :: _ => true | OArriveWaitBusy :: _ => true | _ => false end.
Definition wait_pc (p : list bop) (old : N) (k : nat) : bpc := if busy_op p then BSpin old k else BPoll old k.
(* the oracle of a busy-wait iteration: has the timer expired? *)
Definition timed_out (o : nat) : bool := negb (Nat.eqb o 0).

(* after the arrive loop body: --update; loop or return old_phase *)
Definition arr_next (l : blocal) (n : nat) (old : N) (k : nat) (w : bool) : blocal :=
  match n with
  | S (S m) => {| bprog := bprog l; pcb := BArr (S m) old k w None; token := token l; tokk := tokk l |}
  | _ => if w then {| bprog := bprog l; pcb := wait_pc (bprog l) old k; token := old; tokk := k |}
         else {| bprog := tl (bprog l); pcb := BIdle; token := old; tokk := k |}
  end.

Definition setpc (l : blocal) (pc : bpc) : blocal :=
  {| bprog := bprog l; pcb := pc; token := token l; tokk := tokk l |}.

(* result of a tree step inside barrier::arrive *)
Definition after_tree (g2 : bar) (l : blocal) (t n : nat) (old : N) (k : nat) (w : bool) (pc : tpc)
  : bar * blocal :=
  match pc with
  | TRet true => (set_stage g2 1 (Some t), setpc l (BC 1 n old k w))
  | TRet false => (g2, arr_next l n old k w)
  | _ => (g2, setpc l (BArr n old k w (Some pc)))
  end.

Definition b_tstep (start : nat) (t : nat) (g : bar) (l : blocal) : bar * blocal :=
  match pcb l with
  | BIdle =>
      match bprog l with
      | [] => (g, l)
      | OArrive n :: _ => (g, setpc l (BLoad n false))
      | OArriveWait :: _ => (g, setpc l (BLoad 1 true))
      | ODrop :: _ =>
          ({| btree := btree g; phase := phase g; expected := expected g; adj := (adj g - 1)%Z;
              phno := phno g; eph := eph g; compl := compl g; drops := S (drops g);
              cstage := cstage g; completer := completer g;
              bad := bad g || completing g; blog := blog g |}, setpc l (BLoad 1 false))
      | OWait :: _ => (g, setpc l (BPoll (token l) (tokk l)))
      | OWaitBusy :: _ => (g, setpc l (BSpin (token l) (tokk l)))
      | OArriveWaitBusy :: _ => (g, setpc l (BLoad 1 true))
      end
  | BLoad n w =>
      match n with
      | 0 => (g, {| bprog := tl (bprog l); pcb := BIdle; token := phase g; tokk := phno g |})
      | _ => (set_bad g (completing g), setpc l (BArr n (phase g) (phno g) w None))
      end
  | BArr n old k w None =>
      (* site 900: base.arrive(expected, old_phase) entered *)
      let g1 := set_bad g (Nat.leb (expected g) (started (btree g)) || negb (N.eqb old (phase g)) || completing g) in
      let '(tr', pc) := tree_start (expected g) t (btree g) start in
      (* ghost: the arrival belongs to the phase instance it starts in *)
      after_tree (blog_add (set_tree g1 tr') (EvArrive t (phno g))) l t n old (phno g) w pc
  | BArr n old k w (Some pc) =>
      let '(tr', pc') := tree_step old t (btree g) pc in
      after_tree (set_tree g tr') l t n old k w pc'
  | BC 1 n old k w =>
      ({| btree := btree g; phase := phase g; expected := expected g; adj := adj g; phno := phno g; eph := eph g;
          compl := S (compl g); drops := drops g; cstage := 2; completer := completer g; bad := bad g;
          blog := EvCompl t k (started (btree g)) (expected g) :: blog g |}, setpc l (BC 2 n old k w))
  | BC 2 n old k w =>
      ({| btree := btree g; phase := phase g;
          expected := Z.to_nat (Z.of_nat (expected g) + adj g); adj := adj g; phno := phno g; eph := eph g;
          compl := compl g; drops := drops g; cstage := 3; completer := completer g; bad := bad g;
          blog := blog g |}, setpc l (BC 3 n old k w))
  | BC 3 n old k w =>
      ({| btree := btree g; phase := phase g; expected := expected g; adj := 0%Z; phno := phno g; eph := eph g;
          compl := compl g; drops := drops g; cstage := 4; completer := completer g; bad := bad g;
          blog := blog g |}, setpc l (BC 4 n old k w))
  | BC _ n old k w =>
      (* phase.store(old_phase + 2): the next phase starts; ghost counters of the phase reset *)
      ({| btree := {| tk := tk (btree g); started := 0; wins := 0; act := act (btree g) |};
          phase := next_phase old; expected := expected g; adj := adj g; phno := S (phno g);
          eph := expected g; compl := 0; drops := 0; cstage := 0; completer := None; bad := bad g;
          blog := EvPublish k (compl g) (started (btree g)) (eph g) (drops g) (expected g) :: blog g |},
       arr_next l n old k w)
  | BPoll old k =>
      if N.eqb (phase g) old then (g, l)
      else (blog_add g (EvDepart t k (phno g)),
            {| bprog := tl (bprog l); pcb := BIdle; token := token l; tokk := tokk l |})
  | BSpin old k =>
      if timed_out start then (g, setpc l (BPoll old k))
      else if N.eqb (phase g) old then (g, l)
      else (blog_add g (EvDepart t k (phno g)),
            {| bprog := tl (bprog l); pcb := BIdle; token := token l; tokk := tokk l |})
  end.

Definition bar_init (E : nat) : bar :=
  {| btree := tree_init phase_init; phase := phase_init; expected := E; adj := 0%Z; phno := 0; eph := E;
     compl := 0; drops := 0; cstage := 0; completer := None; bad := false; blog := [] |}.
Definition bar_locals (progs : nat -> list bop) : nat -> blocal :=
  fun t => {| bprog := progs t; pcb := BIdle; token := phase_init; tokk := 0 |}.
Definition bar_run (E : nat) (sched : list (nat * nat)) (progs : nat -> list bop) :=
  run b_tstep sched (bar_init E, bar_locals progs).

(* what the lock-step harness observes of a thread that is about to take a step: the hooked
   sites 900/901/902 with the hook arguments (round, node); 0 = finished; other numbers are
   steps without a hook (they run together with the preceding hooked step of the thread) *)
Definition bpc_site (l : blocal) : nat :=
  match pcb l with
  | BArr _ _ _ _ sub => tpc_site sub
  | BIdle => match bprog l with [] => 0 | _ => 903 end
  | BLoad _ _ => 904
  | BC _ _ _ _ _ => 905
  | BPoll _ _ => 909
  | BSpin _ _ => 908
  end.
Definition bpc_args (l : blocal) : nat * nat :=
  match pcb l with
  | BArr _ _ _ _ (Some (TScan r c ce)) => (r, if Nat.eqb c ((ce + 1) / 2) then 0 else c)
  | BArr _ _ _ _ (Some (TSecond r c _)) => (r, c)
  | _ => (0, 0)
  end.

(* ---------------------------------------------------------------------------------------
   Source-shaped ticket claims.  The three ticket claims of arrive() — old -> full on the
   unpaired last node ("1 in 1"), old -> half ("1 in 2"), half -> full ("2 in 2") — are one
   atomic step each in [tree_step] because the source claims them with
   compare_exchange_strong.  Whether it does is re-read from barrier.cpp on every run
   (Gen.GenBarrier: claim_last_is_cas, claim_first_is_cas, claim_second_is_cas).
   [treex_step cl] is the tree step for an arbitrary shape [cl] of the claims: a claim that
   is a compare_exchange is the step of [tree_step]; a claim written as load; store is TWO
   steps with the intermediate program counter [XStore] ("read the expected value, about to
   store") — another arrival may run in between.  [src_claims] is the shape the source has.
   Proofs/BarrierClaimsProofs.v: for src_claims the two step functions coincide (which is
   what entitles the lock-step tie and the theorems to use [tree_step]); for a load; store
   claim the property fails (concrete schedules). *)
Record claims := { c_last : bool; c_first : bool; c_second : bool }.
Definition src_claims : claims :=
  {| c_last := claim_last_is_cas; c_first := claim_first_is_cas; c_second := claim_second_is_cas |}.
Definition all_cas : claims := {| c_last := true; c_first := true; c_second := true |}.

Inductive which_claim := CLast | CFirst | CSecond.
Inductive xpc := XP (pc : tpc) | XStore (w : which_claim) (r cur ce : nat).

Definition liftx (x : tree * tpc) : tree * xpc := (fst x, XP (snd x)).

Definition treex_step (cl : claims) (p : N) (t : nat) (tr : tree) (x : xpc) : tree * xpc :=
  match x with
  | XP (TScan r cur0 ce) =>
      let en := (ce + 1) / 2 in
      let last := en - 1 in
      let cur := if Nat.eqb cur0 en then 0 else cur0 in
      let v := tk tr r cur in
      if Nat.eqb cur last && Nat.odd ce then
        if c_last cl then liftx (tree_step p t tr (TScan r cur0 ce))
        else (* ticket.load() == old_phase ? *)
          if N.eqb v p then (tr, XStore CLast r cur ce) else (tr, XP (TScan r (S cur) ce))
      else
        if c_first cl then liftx (tree_step p t tr (TScan r cur0 ce))
        else (* expect = ticket.load(); == old_phase ? ... : == half_step ? ... *)
          if N.eqb v p then (tr, XStore CFirst r cur ce)
          else if N.eqb v (half_of p) then (tr, XP (TSecond r cur ce))
          else (tr, XP (TScan r (S cur) ce))
  | XP (TSecond r cur ce) =>
      if c_second cl then liftx (tree_step p t tr (TSecond r cur ce))
      else if N.eqb (tk tr r cur) (half_of p) then (tr, XStore CSecond r cur ce)
           else (tr, XP (TScan r (S cur) ce))
  | XP (TRet _) => (tr, x)
  (* the store half of a load; store claim: unconditional *)
  | XStore CLast r cur ce => liftx (advance t (set_tk tr r cur (full_of p)) r cur ce)
  | XStore CFirst r cur ce => (leave (set_tk tr r cur (half_of p)) r t, XP (TRet false))
  | XStore CSecond r cur ce => liftx (advance t (set_tk tr r cur (full_of p)) r cur ce)
  end.

Record trx_local := { todox : nat; tpx : option xpc }.

Definition finishx (g : tree) (lg : list (nat * bool * nat)) (t : nat) (x : xpc) (todo' : nat)
  : tr_shared * trx_local :=
  match x with
  | XP (TRet b) => ({| tre := g; trlog := (t, b, started g) :: lg |}, {| todox := todo'; tpx := None |})
  | _ => ({| tre := g; trlog := lg |}, {| todox := todo'; tpx := Some x |})
  end.

Definition trx_tstep (cl : claims) (E : nat) (p : N) (start : nat) (t : nat) (g : tr_shared) (l : trx_local)
  : tr_shared * trx_local :=
  match tpx l with
  | None =>
      match todox l with
      | 0 => (g, l)
      | S k => let '(g', pc) := tree_start E t (tre g) start in finishx g' (trlog g) t (XP pc) k
      end
  | Some x => let '(g', x') := treex_step cl p t (tre g) x in finishx g' (trlog g) t x' (todox l)
  end.

Definition trx_locals (progs : nat -> nat) : nat -> trx_local := fun t => {| todox := progs t; tpx := None |}.
Definition trx_run (cl : claims) (E : nat) (p : N) (sched : list (nat * nat)) (progs : nat -> nat) :=
  run (trx_tstep cl E p) sched (tr_init p, trx_locals progs).
