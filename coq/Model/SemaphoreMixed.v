(* Model/SemaphoreMixed.v — LAYER over Model/Semaphore.v: several semaphore OBJECTS (some counting,
   some sliding) used by the same threads.  The base model has one semaphore object; a program of
   the base model uses one family.  Here every operation of a program is tagged with the object it
   acts on, the data of the objects (value_, lower_limit_, max_difference_, cv queue, spinlock,
   ghosts) are independent records, and a step of thread t is the UNCHANGED base step [sem_tstep]
   of its current operation on the object of that operation.

   What is shared between the objects — the agent state.  pika has one agent per thread
   (execution_base this_thread agent / the pika task), not one per (thread, semaphore): a thread
   blocked in suspend() is blocked whatever object it waits on, a resume token left by object A
   (a timed waiter popped by release() never suspends: its token stays) is consumed by the next
   suspend() on object B, and a stale resume hits the thread wherever it is.  So the shared state is
       objs : object -> sem_g      (the [ag] field of a stored object is DEAD: never read)
       mag  : thread -> agent_state (the one agent table)
   and the state the base step sees for object ob is [view G ob] = the stored object with its [ag]
   field overwritten by the one table [mag]; after the step the table is read back from the
   result ([mag := ag (fst r)]).  Nothing is masked or copied per object: the base step of object
   A may read/write the agent of ANY thread (StaleResume w: any w; notify: the queue head of A;
   ResWait w: the popped waiter it waits for; Susp/Blk: the thread itself).

   Thread-local state: the remaining tagged program and ONE pc (a thread is inside at most one
   semaphore operation at a time).  The base step is run on the current operation alone
   ([cur_view]: todo = [op]); the base step reads [todo] only through its head and shortens it by
   exactly one when the operation returns ([done_l]), which is when the tagged program advances.
   A thread whose program is empty does nothing.

   [family] is descriptive (which operations are legal on an object: see pub_progs_mixed in
   Proofs/SemaphoreMixedProofs.v); the step function does not depend on it — exactly like the
   C++ objects, whose code does not know about each other.
   Executable definitions only. *)
From Coq Require Import List ZArith Bool Arith.
From Pika Require Import Base.Conc Base.Agent Model.Semaphore.
Import ListNotations.
Local Open Scope Z_scope.

Inductive family := Counting | Sliding.

Record mx_g := { objs : nat -> sem_g; mag : nat -> agent_state }.
Record mx_l := { mtodo : list (nat * sop); mpc : spc }.

Definition updo (f : nat -> sem_g) (ob : nat) (g : sem_g) : nat -> sem_g :=
  fun x => if Nat.eqb x ob then g else f x.

(* the state of object ob as the base step sees it: its own data + the one agent table *)
Definition view (G : mx_g) (ob : nat) : sem_g := set_ag (objs G ob) (mag G).

(* the thread as the base step sees it: the current operation alone, and the pc *)
Definition cur_view (L : mx_l) : sem_l :=
  {| todo := match mtodo L with [] => [] | x :: _ => [snd x] end; pc := mpc L |}.

Definition mx_tstep (kind : nat -> akind) (passed : bool) (t : nat) (G : mx_g) (L : mx_l) : mx_g * mx_l :=
  match mtodo L with
  | [] => (G, L)
  | x :: rest =>
      let r := sem_tstep kind passed t (view G (fst x)) (cur_view L) in
      ({| objs := updo (objs G) (fst x) (fst r); mag := ag (fst r) |},
       {| mtodo := match todo (snd r) with [] => rest | _ :: _ => mtodo L end; mpc := pc (snd r) |})
  end.

Definition mx_init (v lo md : nat -> Z) : mx_g :=
  {| objs := fun ob => sem_init (v ob) (lo ob) (md ob); mag := fun _ => a_init |}.
Definition mx_locals (progs : nat -> list (nat * sop)) : nat -> mx_l :=
  fun t => {| mtodo := progs t; mpc := Idle |}.

Definition mx_run (kind : nat -> akind) (sched : list (nat * bool)) (v lo md : nat -> Z)
           (progs : nat -> list (nat * sop)) :=
  run (mx_tstep kind) sched (mx_init v lo md, mx_locals progs).

(* no thread can change anything, whatever the clock says: every thread has finished its program
   or the base step of its current operation on its current object is a stutter.  (Stated through
   the base step because states contain functions: [mx_tstep ... = (G, L)] is not decidable by
   computation; mx_stuck_is_stutter in the proofs file shows that it means exactly that.) *)
Definition mx_stuck (kind : nat -> akind) (G : mx_g) (Ls : nat -> mx_l) : Prop :=
  forall t o, match mtodo (Ls t) with
              | [] => True
              | x :: _ => sem_tstep kind o t (view G (fst x)) (cur_view (Ls t)) = (view G (fst x), cur_view (Ls t))
              end.

(* the object thread t is currently operating on (or about to) *)
Definition cur_obj (L : mx_l) : option nat :=
  match mtodo L with [] => None | x :: _ => Some (fst x) end.

Definition mx_finished (L : mx_l) : Prop := mpc L = Idle /\ mtodo L = [].

(* thread t waits on object ob for condition c *)
Definition mx_waiting_for (L : mx_l) (ob : nat) (c : wcond) : Prop :=
  cur_obj L = Some ob /\ waiting_for (cur_view L) c.
