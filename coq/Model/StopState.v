(* Model/StopState.v — pika::detail::stop_state (libs/pika/synchronization/src/stop_token.cpp,
   include/pika/synchronization/stop_token.hpp) and the stop_callback constructor/destructor,
   at the granularity of the atomic accesses to state_ (one step = one load, one
   compare_exchange_weak, one fetch_add/fetch_sub, or one store of
   callback_finished_executing_).  The data touched only while the lock bit is held
   (callbacks_ list, prev_/next_, signalling thread ids) is updated in the step of the CAS that
   takes the lock.  Every step corresponds to one PIKA_VERIF_POINT site (st_site), so the
   lock-step controller's schedule on the real code is replayed step for step.

   Threads run programs of operations; callback c, when invoked, runs [cb_body c] ON THE
   INVOKING THREAD (nested frames), so callbacks may register and deregister callbacks
   (including themselves) and call request_stop.

   Thread identity is what the code computes: pika thread id (None = invalid id, every
   non-pika OS thread) and, for threads without a pika id, the OS thread id.

   Executable definitions only; proofs are in Proofs/StopStateProofs.v. *)
From Coq Require Import List NArith Bool Arith.
From Pika Require Import Base.Conc Gen.GenStopBits Model.StopWord.
Import ListNotations.

Inductive op :=
| OpReq                 (* request_stop() through a stop_source held by the thread *)
| OpAdd (c : nat)       (* construct stop_callback c on a token of the state *)
| OpRem (c : nat)       (* destroy stop_callback c *)
| OpTokCopy | OpTokDrop (* copy a stop_token / destroy a copy held by the thread *)
| OpSrcCopy | OpSrcDrop.

Record params := {
  cb_body : nat -> list op;       (* what callback c does when it is invoked *)
  pika_id : nat -> option nat;    (* threads::detail::get_self_id(): None = invalid_thread_id *)
  os_id : nat -> nat              (* std::this_thread::get_id() *)
}.

Inductive ctx :=
| KTop                (* the thread's own program *)
| KReq (c : nat)      (* body of c invoked from request_stop: returns to QEnd c *)
| KAdd (c : nat).     (* body of c invoked from the stop_callback constructor: returns to AEnd c *)

Inductive pcs :=
| Idle
(* stop_state::request_stop *)
| QLoad | QCas (old : N) | QSpin
| QUnlock (c : nat) | QBegin (c : nat) | QEnd (c : nat)
| QRLoad | QRCas (old : N) | QRSpin
| QFinal
(* stop_callback::stop_callback -> add_callback -> lock_if_not_stopped *)
| AAddRef (c : nat) | ALoad (c : nat) | ACas (c : nat) (old : N) | ASpin (c : nat)
| AUnlock (c : nat) | ABegin (c : nat) | AEnd (c : nat) | ARelease (c : nat)
(* stop_callback::~stop_callback -> remove_callback *)
| RLoad (c : nat) | RCas (c : nat) (old : N) | RSpin (c : nat) | RUnlock (c : nat) (removed : bool)
| RCheck (c : nat) | RWait (c : nat) | RRelease (c : nat)
(* copies of handles *)
| TAddRef | TRelease | SAddRef | SInc | SDec | SRelease.

Record cbrec := {
  cb_queued : bool;          (* prev_ != nullptr: linked into callbacks_ *)
  cb_finished : bool;        (* callback_finished_executing_ *)
  cb_isrem : option nat;     (* is_removed_: Some t = address of the is_removed local of thread t *)
  (* ghost *)
  cb_runs : nat;             (* how often execute() was entered *)
  cb_running : option nat;   (* thread between entering execute() and the end of the hand-shake *)
  cb_ctor : nat;             (* 0 not constructed, 1 constructor running, 2 constructor returned *)
  cb_reg : bool;             (* add_callback returned true: the object keeps its state_ pointer *)
  cb_dtor : nat;             (* 0 alive, 1 destructor running, 2 destructor returned *)
  cb_inctor : bool;          (* the (only) invocation happened inside the constructor *)
  cb_cthr : option nat;      (* thread that runs / ran the constructor *)
  cb_deq : bool              (* dequeued by request_stop's loop (as opposed to unlinked by the destructor) *)
}.

Definition cb0 : cbrec :=
  {| cb_queued := false; cb_finished := false; cb_isrem := None; cb_runs := 0; cb_running := None;
     cb_ctor := 0; cb_reg := false; cb_dtor := 0; cb_inctor := false; cb_cthr := None; cb_deq := false |}.

Inductive ev :=
| EvReq (t : nat) (r : bool)         (* request_stop returned r *)
| EvRun (c t : nat) (inctor : bool)  (* execute() of c entered on thread t *)
| EvCtor (c t : nat) (reg : bool)    (* constructor of c returned *)
| EvDtor (c t : nat).                (* destructor of c returned *)

Record shared := {
  word : N;                      (* state_ *)
  cbs : list nat;                (* callbacks_, head first *)
  cb : nat -> cbrec;
  sig_pika : option nat;         (* signalling_thread_ (default: invalid id) *)
  sig_os : option nat;           (* OS thread id of the signalling thread (default: no thread) *)
  remflag : nat -> bool;         (* the local `is_removed` of thread t's request_stop frame *)
  (* ghost *)
  holder : option nat;           (* who holds the lock bit *)
  winner : option nat;           (* whose lock_and_request_stop CAS succeeded *)
  winner_ret : bool;             (* that request_stop has returned *)
  bad_run_after_dtor : bool;     (* execute() entered after the destructor returned *)
  bad_dtor_during_run : bool;    (* destructor returned while another thread was inside execute() *)
  log : list ev                  (* newest first *)
}.

Record local := {
  pc : pcs;
  frames : list (ctx * list op); (* head = innermost frame: (kind, remaining operations) *)
  htok : nat;                    (* copies of the token held by this thread *)
  hsrc : nat                     (* stop_sources held by this thread *)
}.

(* --- setters --- *)
Definition set_word (g : shared) (w : N) : shared :=
  {| word := w; cbs := cbs g; cb := cb g; sig_pika := sig_pika g; sig_os := sig_os g;
     remflag := remflag g; holder := holder g; winner := winner g; winner_ret := winner_ret g;
     bad_run_after_dtor := bad_run_after_dtor g; bad_dtor_during_run := bad_dtor_during_run g;
     log := log g |}.
Definition set_holder (g : shared) (h : option nat) : shared :=
  {| word := word g; cbs := cbs g; cb := cb g; sig_pika := sig_pika g; sig_os := sig_os g;
     remflag := remflag g; holder := h; winner := winner g; winner_ret := winner_ret g;
     bad_run_after_dtor := bad_run_after_dtor g; bad_dtor_during_run := bad_dtor_during_run g;
     log := log g |}.
Definition set_cbs (g : shared) (l : list nat) : shared :=
  {| word := word g; cbs := l; cb := cb g; sig_pika := sig_pika g; sig_os := sig_os g;
     remflag := remflag g; holder := holder g; winner := winner g; winner_ret := winner_ret g;
     bad_run_after_dtor := bad_run_after_dtor g; bad_dtor_during_run := bad_dtor_during_run g;
     log := log g |}.
Definition set_cb (g : shared) (c : nat) (r : cbrec) : shared :=
  {| word := word g; cbs := cbs g; cb := upd (cb g) c r; sig_pika := sig_pika g; sig_os := sig_os g;
     remflag := remflag g; holder := holder g; winner := winner g; winner_ret := winner_ret g;
     bad_run_after_dtor := bad_run_after_dtor g; bad_dtor_during_run := bad_dtor_during_run g;
     log := log g |}.
Definition set_sig (g : shared) (p o : option nat) : shared :=
  {| word := word g; cbs := cbs g; cb := cb g; sig_pika := p; sig_os := o;
     remflag := remflag g; holder := holder g; winner := winner g; winner_ret := winner_ret g;
     bad_run_after_dtor := bad_run_after_dtor g; bad_dtor_during_run := bad_dtor_during_run g;
     log := log g |}.
Definition set_remflag (g : shared) (t : nat) (b : bool) : shared :=
  {| word := word g; cbs := cbs g; cb := cb g; sig_pika := sig_pika g; sig_os := sig_os g;
     remflag := upd (remflag g) t b; holder := holder g; winner := winner g; winner_ret := winner_ret g;
     bad_run_after_dtor := bad_run_after_dtor g; bad_dtor_during_run := bad_dtor_during_run g;
     log := log g |}.
Definition set_winner (g : shared) (w : option nat) (r : bool) : shared :=
  {| word := word g; cbs := cbs g; cb := cb g; sig_pika := sig_pika g; sig_os := sig_os g;
     remflag := remflag g; holder := holder g; winner := w; winner_ret := r;
     bad_run_after_dtor := bad_run_after_dtor g; bad_dtor_during_run := bad_dtor_during_run g;
     log := log g |}.
Definition set_bad (g : shared) (a d : bool) : shared :=
  {| word := word g; cbs := cbs g; cb := cb g; sig_pika := sig_pika g; sig_os := sig_os g;
     remflag := remflag g; holder := holder g; winner := winner g; winner_ret := winner_ret g;
     bad_run_after_dtor := bad_run_after_dtor g || a; bad_dtor_during_run := bad_dtor_during_run g || d;
     log := log g |}.
Definition add_log (g : shared) (e : ev) : shared :=
  {| word := word g; cbs := cbs g; cb := cb g; sig_pika := sig_pika g; sig_os := sig_os g;
     remflag := remflag g; holder := holder g; winner := winner g; winner_ret := winner_ret g;
     bad_run_after_dtor := bad_run_after_dtor g; bad_dtor_during_run := bad_dtor_during_run g;
     log := e :: log g |}.

Definition cq (r : cbrec) (b : bool) : cbrec :=
  {| cb_queued := b; cb_finished := cb_finished r; cb_isrem := cb_isrem r; cb_runs := cb_runs r;
     cb_running := cb_running r; cb_ctor := cb_ctor r; cb_reg := cb_reg r; cb_dtor := cb_dtor r;
     cb_inctor := cb_inctor r; cb_cthr := cb_cthr r; cb_deq := cb_deq r |}.
Definition cfin (r : cbrec) (b : bool) : cbrec :=
  {| cb_queued := cb_queued r; cb_finished := b; cb_isrem := cb_isrem r; cb_runs := cb_runs r;
     cb_running := cb_running r; cb_ctor := cb_ctor r; cb_reg := cb_reg r; cb_dtor := cb_dtor r;
     cb_inctor := cb_inctor r; cb_cthr := cb_cthr r; cb_deq := cb_deq r |}.
Definition cisrem (r : cbrec) (p : option nat) : cbrec :=
  {| cb_queued := cb_queued r; cb_finished := cb_finished r; cb_isrem := p; cb_runs := cb_runs r;
     cb_running := cb_running r; cb_ctor := cb_ctor r; cb_reg := cb_reg r; cb_dtor := cb_dtor r;
     cb_inctor := cb_inctor r; cb_cthr := cb_cthr r; cb_deq := cb_deq r |}.
(* execute() entered on thread t *)
Definition centered (r : cbrec) (t : nat) (inctor : bool) : cbrec :=
  {| cb_queued := cb_queued r; cb_finished := cb_finished r; cb_isrem := cb_isrem r;
     cb_runs := S (cb_runs r); cb_running := Some t; cb_ctor := cb_ctor r; cb_reg := cb_reg r;
     cb_dtor := cb_dtor r; cb_inctor := inctor; cb_cthr := cb_cthr r; cb_deq := cb_deq r |}.
Definition cleft (r : cbrec) : cbrec :=
  {| cb_queued := cb_queued r; cb_finished := cb_finished r; cb_isrem := cb_isrem r;
     cb_runs := cb_runs r; cb_running := None; cb_ctor := cb_ctor r; cb_reg := cb_reg r;
     cb_dtor := cb_dtor r; cb_inctor := cb_inctor r; cb_cthr := cb_cthr r; cb_deq := cb_deq r |}.
Definition cctor (r : cbrec) (n : nat) (reg : bool) : cbrec :=
  {| cb_queued := cb_queued r; cb_finished := cb_finished r; cb_isrem := cb_isrem r;
     cb_runs := cb_runs r; cb_running := cb_running r; cb_ctor := n; cb_reg := reg;
     cb_dtor := cb_dtor r; cb_inctor := cb_inctor r; cb_cthr := cb_cthr r; cb_deq := cb_deq r |}.
Definition cdtor (r : cbrec) (n : nat) : cbrec :=
  {| cb_queued := cb_queued r; cb_finished := cb_finished r; cb_isrem := cb_isrem r;
     cb_runs := cb_runs r; cb_running := cb_running r; cb_ctor := cb_ctor r; cb_reg := cb_reg r;
     cb_dtor := n; cb_inctor := cb_inctor r; cb_cthr := cb_cthr r; cb_deq := cb_deq r |}.
(* ghost only *)
Definition ccthr (r : cbrec) (o : option nat) : cbrec :=
  {| cb_queued := cb_queued r; cb_finished := cb_finished r; cb_isrem := cb_isrem r;
     cb_runs := cb_runs r; cb_running := cb_running r; cb_ctor := cb_ctor r; cb_reg := cb_reg r;
     cb_dtor := cb_dtor r; cb_inctor := cb_inctor r; cb_cthr := o; cb_deq := cb_deq r |}.
Definition cdeq (r : cbrec) (b : bool) : cbrec :=
  {| cb_queued := cb_queued r; cb_finished := cb_finished r; cb_isrem := cb_isrem r;
     cb_runs := cb_runs r; cb_running := cb_running r; cb_ctor := cb_ctor r; cb_reg := cb_reg r;
     cb_dtor := cb_dtor r; cb_inctor := cb_inctor r; cb_cthr := cb_cthr r; cb_deq := b |}.

Definition set_pc (l : local) (p : pcs) : local :=
  {| pc := p; frames := frames l; htok := htok l; hsrc := hsrc l |}.
Definition set_frames (l : local) (p : pcs) (f : list (ctx * list op)) : local :=
  {| pc := p; frames := f; htok := htok l; hsrc := hsrc l |}.
Definition set_held (l : local) (p : pcs) (a b : nat) : local :=
  {| pc := p; frames := frames l; htok := a; hsrc := b |}.

(* the thread identity comparison of remove_callback:
     signalling_thread_ == self && (self is a pika thread || signalling OS thread == this OS thread) *)
Definition same_thread (P : params) (g : shared) (t : nat) : bool :=
  match sig_pika g, pika_id P t with
  | Some a, Some b => Nat.eqb a b
  | None, None => match sig_os g with Some o => Nat.eqb o (os_id P t) | None => false end
  | _, _ => false
  end.

(* a callback whose body is exhausted returns into the code that invoked it *)
Definition norm (l : local) : local :=
  match pc l, frames l with
  | Idle, (KReq c, []) :: fs => set_frames l (QEnd c) fs
  | Idle, (KAdd c, []) :: fs => set_frames l (AEnd c) fs
  | _, _ => l
  end.

(* the critical section at the head of request_stop's loop, executed by the thread that has
   just taken the lock: `while (callbacks_ != nullptr) { dequeue head; cb->prev_ = nullptr; ...` *)
Definition q_loop_head (g : shared) (l : local) : shared * local :=
  match cbs g with
  | [] => (g, set_pc l QFinal)
  | c :: rest => (set_cb (set_cbs g rest) c (cdeq (cq (cb g c) false) true), set_pc l (QUnlock c))
  end.

(* destructor of c returns on thread t *)
Definition dtor_returns (g : shared) (t c : nat) : shared :=
  let viol := match cb_running (cb g c) with Some t' => negb (Nat.eqb t' t) | None => false end in
  add_log (set_bad (set_cb g c (cdtor (cb g c) 2)) false viol) (EvDtor c t).

(* constructor of c returns on thread t *)
Definition ctor_returns (g : shared) (t c : nat) (reg : bool) : shared :=
  add_log (set_cb g c (cctor (cb g c) 2 reg)) (EvCtor c t reg).

Definition tok_room (w : N) : bool := (w_tokens w <? tok_max)%N.
Definition tok_spare (w : N) : bool := (1 <? w_tokens w)%N.
Definition src_room (w : N) : bool := (w_sources w <? src_max)%N.
Definition src_some (w : N) : bool := (0 <? w_sources w)%N.

Definition dispatch (P : params) (t : nat) (g : shared) (l : local) (o : op) : shared * local :=
  match o with
  | OpReq => if (0 <? hsrc l)%nat then (g, set_pc l QLoad) else (g, l)
  | OpAdd c =>
      if Nat.eqb (cb_ctor (cb g c)) 0
      then (set_cb g c (ccthr (cctor (cb g c) 1 false) (Some t)), set_pc l (AAddRef c))
      else (g, l)
  | OpRem c =>
      if Nat.eqb (cb_ctor (cb g c)) 2 && Nat.eqb (cb_dtor (cb g c)) 0
      then if cb_reg (cb g c)
           then (set_cb g c (cdtor (cb g c) 1), set_pc l (RLoad c))
           else (dtor_returns g t c, l)     (* state_ was reset in the constructor: nothing to do *)
      else (g, l)
  | OpTokCopy => (g, set_pc l TAddRef)
  | OpTokDrop => if (0 <? htok l)%nat then (g, set_pc l TRelease) else (g, l)
  | OpSrcCopy => if (0 <? hsrc l)%nat then (g, set_pc l SAddRef) else (g, l)
  | OpSrcDrop => if (0 <? hsrc l)%nat then (g, set_pc l SDec) else (g, l)
  end.

(* lock_if_not_stopped: what follows a value [old] of state_ that was just read (initial load,
   reload in the spin loop, or the value a failed CAS left in `expected`) *)
Definition a_after_read (g : shared) (l : local) (t c : nat) (old : N) (spinning : bool) : shared * local :=
  if w_stop_requested old then (g, set_pc l (ABegin c))
  else if negb (w_stop_possible old) then (g, set_pc l (ARelease c))   (* refused; nothing ran *)
  else if spinning && w_is_locked old then (g, set_pc l (ASpin c))
  else (g, set_pc l (ACas c old)).

Definition st_tstep (P : params) (spurious : bool) (t : nat) (g : shared) (l0 : local) : shared * local :=
  let l := norm l0 in
  match pc l with
  | Idle =>
      match frames l with
      | (k, o :: rest) :: fs => dispatch P t g (set_frames l Idle ((k, rest) :: fs)) o
      | _ => (g, l)
      end
  (* ---------------- request_stop ---------------- *)
  | QLoad =>
      let old := word g in
      if w_stop_requested old then (add_log g (EvReq t false), set_pc l Idle)
      else (g, set_pc l (QCas old))
  | QCas old =>
      if (word g =? w_clear_lock old)%N && negb spurious then
        let g1 := set_winner (set_sig (set_holder (set_word g (w_set_req_lock old)) (Some t))
                                (pika_id P t) (Some (os_id P t))) (Some t) false in
        q_loop_head g1 l
      else
        let old' := word g in
        if w_stop_requested old' then (add_log g (EvReq t false), set_pc l Idle)
        else if w_is_locked old' then (g, set_pc l QSpin)
        else (g, set_pc l (QCas old'))
  | QSpin =>
      let old := word g in
      if w_stop_requested old then (add_log g (EvReq t false), set_pc l Idle)
      else if w_is_locked old then (g, l)
      else (g, set_pc l (QCas old))
  | QUnlock c =>
      (set_holder (set_word g (w_sub (word g) locked_flag)) None, set_pc l (QBegin c))
  | QBegin c =>
      let g1 := set_remflag g t false in
      let bad := Nat.eqb (cb_dtor (cb g1 c)) 2 in
      let g2 := set_cb g1 c (centered (cisrem (cb g1 c) (Some t)) t false) in
      (add_log (set_bad g2 bad false) (EvRun c t false),
       set_frames l Idle ((KReq c, cb_body P c) :: frames l))
  | QEnd c =>
      let g1 := if remflag g t then set_cb g c (cleft (cb g c))
                else set_cb g c (cleft (cfin (cisrem (cb g c) None) true)) in
      (g1, set_pc l QRLoad)
  | QRLoad => (g, set_pc l (QRCas (word g)))
  | QRCas old =>
      if (word g =? w_clear_lock old)%N && negb spurious then
        q_loop_head (set_holder (set_word g (w_set_lock old)) (Some t)) l
      else
        let old' := word g in
        if w_is_locked old' then (g, set_pc l QRSpin) else (g, set_pc l (QRCas old'))
  | QRSpin =>
      let old := word g in
      if w_is_locked old then (g, l) else (g, set_pc l (QRCas old))
  | QFinal =>
      (add_log (set_winner (set_holder (set_word g (w_sub (word g) locked_flag)) None) (winner g) true)
               (EvReq t true), set_pc l Idle)
  (* ---------------- stop_callback constructor ---------------- *)
  | AAddRef c =>
      if tok_room (word g) then (set_word g (w_add (word g) token_ref_increment), set_pc l (ALoad c))
      else (g, l)
  | ALoad c => a_after_read g l t c (word g) false
  | ACas c old =>
      if (word g =? w_clear_lock old)%N && negb spurious then
        (* lock taken; add_this_callback pushes c at the head *)
        (set_cb (set_cbs (set_holder (set_word g (w_set_lock old)) (Some t)) (c :: cbs g)) c
                (cq (cb g c) true), set_pc l (AUnlock c))
      else a_after_read g l t c (word g) true
  | ASpin c => a_after_read g l t c (word g) true
  | AUnlock c =>
      (ctor_returns (set_holder (set_word g (w_sub (word g) locked_flag)) None) t c true, set_pc l Idle)
  | ABegin c =>
      let bad := Nat.eqb (cb_dtor (cb g c)) 2 in
      let g2 := set_cb g c (centered (cb g c) t true) in
      (add_log (set_bad g2 bad false) (EvRun c t true),
       set_frames l Idle ((KAdd c, cb_body P c) :: frames l))
  | AEnd c =>
      (set_cb g c (cleft (cfin (cb g c) true)), set_pc l (ARelease c))
  | ARelease c =>
      (* add_callback returned false: the constructor drops its reference to the state *)
      if tok_spare (word g)
      then (ctor_returns (set_word g (w_sub (word g) token_ref_increment)) t c false, set_pc l Idle)
      else (g, l)
  (* ---------------- stop_callback destructor ---------------- *)
  | RLoad c => (g, set_pc l (RCas c (word g)))
  | RCas c old =>
      if (word g =? w_clear_lock old)%N && negb spurious then
        let g1 := set_holder (set_word g (w_set_lock old)) (Some t) in
        if cb_queued (cb g1 c)
        then (set_cb (set_cbs g1 (remove Nat.eq_dec c (cbs g1))) c (cq (cb g1 c) false),
              set_pc l (RUnlock c true))
        else (g1, set_pc l (RUnlock c false))
      else
        let old' := word g in
        if w_is_locked old' then (g, set_pc l (RSpin c)) else (g, set_pc l (RCas c old'))
  | RSpin c =>
      let old := word g in
      if w_is_locked old then (g, l) else (g, set_pc l (RCas c old))
  | RUnlock c removed =>
      (set_holder (set_word g (w_sub (word g) locked_flag)) None,
       set_pc l (if removed then RRelease c else RCheck c))
  | RCheck c =>
      if same_thread P g t then
        match cb_isrem (cb g c) with
        | Some t' => (set_remflag g t' true, set_pc l (RRelease c))
        | None => (g, set_pc l (RRelease c))
        end
      else (g, set_pc l (RWait c))
  | RWait c =>
      if cb_finished (cb g c) then (g, set_pc l (RRelease c)) else (g, l)
  | RRelease c =>
      if tok_spare (word g)
      then (dtor_returns (set_word g (w_sub (word g) token_ref_increment)) t c, set_pc l Idle)
      else (g, l)
  (* ---------------- handle copies ---------------- *)
  | TAddRef =>
      if tok_room (word g)
      then (set_word g (w_add (word g) token_ref_increment), set_held l Idle (S (htok l)) (hsrc l))
      else (g, l)
  | TRelease =>
      if tok_spare (word g)
      then (set_word g (w_sub (word g) token_ref_increment), set_held l Idle (pred (htok l)) (hsrc l))
      else (g, l)
  | SAddRef =>
      if tok_room (word g) then (set_word g (w_add (word g) token_ref_increment), set_pc l SInc)
      else (g, l)
  | SInc =>
      if src_room (word g)
      then (set_word g (w_add (word g) source_ref_increment), set_held l Idle (htok l) (S (hsrc l)))
      else (g, l)
  | SDec =>
      if src_some (word g) then (set_word g (w_sub (word g) source_ref_increment), set_pc l SRelease)
      else (g, l)
  | SRelease =>
      if tok_spare (word g)
      then (set_word g (w_sub (word g) token_ref_increment), set_held l Idle (htok l) (pred (hsrc l)))
      else (g, l)
  end.

(* the PIKA_VERIF_POINT site a thread is parked at (0: finished; 1400: harness-level point
   before every operation) *)
Definition st_site (l0 : local) : nat :=
  let l := norm l0 in
  match pc l with
  | Idle => match frames l with (_, _ :: _) :: _ => 1400 | _ => 0 end
  | QLoad => 1404 | QCas _ => 1405 | QSpin => 1406
  | QUnlock _ => 1411 | QBegin _ => 1413 | QEnd _ => 1416
  | QRLoad => 1401 | QRCas _ => 1402 | QRSpin => 1403
  | QFinal => 1411
  | AAddRef _ => 1420 | ALoad _ => 1407 | ACas _ _ => 1408 | ASpin _ => 1409
  | AUnlock _ => 1411 | ABegin _ => 1412 | AEnd _ => 1410 | ARelease _ => 1421
  | RLoad _ => 1401 | RCas _ _ => 1402 | RSpin _ => 1403 | RUnlock _ _ => 1411
  | RCheck _ => 1414 | RWait _ => 1415 | RRelease _ => 1421
  | TAddRef => 1420 | TRelease => 1421 | SAddRef => 1420 | SInc => 1422 | SDec => 1423
  | SRelease => 1421
  end.

(* initial configuration: the word holds [ntok] owners and [nsrc] sources, no flag *)
Definition st_init (w0 : N) : shared :=
  {| word := w0; cbs := []; cb := fun _ => cb0; sig_pika := None; sig_os := None;
     remflag := fun _ => false; holder := None; winner := None; winner_ret := false;
     bad_run_after_dtor := false; bad_dtor_during_run := false; log := [] |}.
Definition st_locals (progs : nat -> list op) (srcs : nat -> nat) : nat -> local :=
  fun t => {| pc := Idle; frames := [(KTop, progs t)]; htok := 0; hsrc := srcs t |}.

Definition st_run (P : params) (sched : list (nat * bool)) (w0 : N) (progs : nat -> list op)
  (srcs : nat -> nat) := run (st_tstep P) sched (st_init w0, st_locals progs srcs).

Fixpoint st_trace (P : params) (sched : list (nat * bool)) (c : shared * (nat -> local)) (acc : list nat)
  : list nat * (shared * (nat -> local)) :=
  match sched with
  | [] => (rev acc, c)
  | (t, o) :: rest => st_trace P rest (step (st_tstep P) c (t, o)) (st_site (snd c t) :: acc)
  end.

(* observations used by statements and by the driver *)
Definition count_req_true (lg : list ev) : nat :=
  length (filter (fun e => match e with EvReq _ true => true | _ => false end) lg).
Definition some_req (lg : list ev) : bool :=
  existsb (fun e => match e with EvReq _ _ => true | _ => false end) lg.
Definition thread_done (l : local) : bool :=
  match pc l, frames l with Idle, [(KTop, [])] => true | _, _ => false end.
