(* Model/Lifecycle.v — C05, runtime life cycle.  Executable definitions only.

   Part 1: the automaton of the public API (libs/pika/init_runtime/src/init_runtime.cpp,
   libs/pika/runtime/src/runtime.cpp): pika::start / finalize / wait / suspend / resume / stop
   with the checks the code makes (runtime pointer null?, state_ == running / sleeping?,
   called from a pika task?) and what each call answers.

   Part 2: over Base/Conc.v, the idle-detection protocol at the granularity of its atomic steps:
     create_thread   C1  increment_global_activity_count()      (task not yet visible)
                     C2  queue insertion (one critical section)  (task visible to workers)
     scheduling loop     get_next_thread, run the task one action at a time, yield = re-queue,
                     T   body returned: state := terminated (run_helper also stores result_)
                     D1  last reference dropped: queue's destroy_thread (recycle the object)
                     D2  decrement_global_activity_count()
     thread_manager::wait   one read of the counter per iteration, predicate from Gen/GenLifecycle.v
     external operations (CUDA/MPI polling) increment / decrement the same counter
     pika::stop          wait_finalize; thread_manager::wait; read result_
     suspend             thread_manager::wait; CAS running->pre_sleep on every worker (twice, as
                         suspend_internal + suspend_processing_unit_internal do); spin while pre_sleep
     worker              in pre_sleep with nothing to do: state := sleeping, block; woken by resume:
                         CAS sleeping->running
     resume              per worker: notify while state == sleeping
   Thread 0 is the (single) thread that calls suspend/resume, threads 1..W are the workers, all
   other threads are plain OS threads submitting work / finalizing / waiting / stopping.

   Abstractions (all widen the behaviours, so safety theorems transfer): one bag instead of
   per-worker queues (the oracle picks which queued task a worker gets = any stealing policy);
   a worker in pre_sleep may go to sleep whenever it holds no task (the code additionally requires
   its own queue to be empty); pool-level `get_thread_count() > 0` wait in suspend_internal omitted;
   reference counts: the D1/D2 steps are performed by the worker that ran the task (in the code: by
   whichever thread drops the last thread_id_ref).  std::condition_variable::wait in
   scheduler_base::suspend is assumed not to wake spuriously (the code has no predicate loop). *)
From Coq Require Import List NArith ZArith Bool Arith.
From Pika Require Import Base.Conc Gen.GenLifecycle.
Import ListNotations.

(* ------------------------------------------------------------------ Part 1: API automaton *)
Inductive phase := NoRt | Running | Sleeping.        (* runtime pointer null / state_ running / state_ sleeping *)
Inductive caller := FromOs | FromTask.               (* get_self_ptr() == nullptr / != nullptr *)
Inductive call :=
  | CStart (cfg : N) (res : Z)      (* pika::start(f, argc, argv): configuration, value the entry function returns *)
  | CSubmit (n : N)                 (* n self-terminating tasks are handed to the runtime *)
  | CFinalize | CWait | CSuspend | CResume | CStop.
Inductive resp := ROk | RRet (v : Z) | RErr | RBlock.  (* RErr = pika::exception(invalid_status); RBlock = does not return *)

Record api := { ph : phase; fin : bool; eres : Z; conf : N; pend : N }.
Definition api0 : api := {| ph := NoRt; fin := false; eres := 0%Z; conf := 0%N; pend := 0%N |}.

Definition api_step (s : api) (c : caller) (k : call) : api * resp :=
  match k with
  | CStart cfg r =>
      match ph s with
      | NoRt => ({| ph := Running; fin := false; eres := r; conf := cfg; pend := 0%N |}, ROk)
      | _ => (s, RErr)                                   (* "runtime already initialized" *)
      end
  | CSubmit n =>
      match ph s with
      | NoRt => (s, RErr)
      | _ => ({| ph := ph s; fin := fin s; eres := eres s; conf := conf s; pend := (pend s + n)%N |}, ROk)
      end
  | CFinalize =>
      match ph s with
      | Running => ({| ph := Running; fin := true; eres := eres s; conf := conf s; pend := pend s |}, ROk)
      | _ => (s, RErr)                                   (* !is_running() *)
      end
  | CWait =>
      match ph s with
      | NoRt => (s, RErr)
      | Running => ({| ph := Running; fin := fin s; eres := eres s; conf := conf s; pend := 0%N |}, ROk)
      | Sleeping => if (pend s =? 0)%N then (s, ROk) else (s, RBlock)
      end
  | CSuspend =>
      match c, ph s with
      | FromTask, _ => (s, RErr)
      | _, NoRt => (s, RErr)
      | _, Sleeping => (s, ROk)
      | _, Running => ({| ph := Sleeping; fin := fin s; eres := eres s; conf := conf s; pend := 0%N |}, ROk)
      end
  | CResume =>
      match c, ph s with
      | FromTask, _ => (s, RErr)
      | _, NoRt => (s, RErr)
      | _, Running => (s, ROk)
      | _, Sleeping => ({| ph := Running; fin := fin s; eres := eres s; conf := conf s; pend := pend s |}, ROk)
      end
  | CStop =>
      match c, ph s with
      | FromTask, _ => (s, RErr)
      | _, NoRt => (s, RErr)
      | _, Running => if fin s then (api0, RRet (eres s)) else (s, RBlock)
      | _, Sleeping => if fin s && (pend s =? 0)%N then (api0, RRet (eres s)) else (s, RBlock)
      end
  end.

Fixpoint api_run (h : list (caller * call)) (s : api) : api :=
  match h with [] => s | (c, k) :: r => api_run r (fst (api_step s c k)) end.
Fixpoint api_resps (h : list (caller * call)) (s : api) : list resp :=
  match h with [] => [] | (c, k) :: r => snd (api_step s c k) :: api_resps r (fst (api_step s c k)) end.

(* the documented preconditions (init_runtime.hpp) as the code enforces them *)
Definition violates_pre (s : api) (c : caller) (k : call) : bool :=
  match k with
  | CStart _ _ => match ph s with NoRt => false | _ => true end
  | CSubmit _ | CWait => match ph s with NoRt => true | _ => false end
  | CFinalize => match ph s with Running => false | _ => true end
  | CSuspend | CResume | CStop =>
      match c, ph s with FromTask, _ => true | _, NoRt => true | _, _ => false end
  end.

(* the preconditions as DOCUMENTED in init_runtime.hpp: start: "the runtime is not initialized";
   stop: "initialized, caller not a pika task"; finalize: "initialized"; wait: "initialized";
   suspend/resume: "caller not a pika task, runtime running or suspended" *)
Definition documented_pre (s : api) (c : caller) (k : call) : bool :=
  match k with
  | CStart _ _ => match ph s with NoRt => true | _ => false end
  | CSubmit _ | CWait | CFinalize => match ph s with NoRt => false | _ => true end
  | CSuspend | CResume | CStop =>
      match c, ph s with FromTask, _ => false | _, NoRt => false | _, _ => true end
  end.

(* ------------------------------------------------------------------ Part 2: concurrent model *)
Inductive action := AWork | AYield | ASpawn (p : list action) | AWait | AFinalize.
Definition prog := list action.

Inductive tstate :=
  | Unborn | Created (by_ : nat) | Queued | Active (w : nat) | Terminated (w : nat) | Recycled (w : nat)
  | ExtOp (by_ : nat) | ExtDone | Destroyed.
Inductive wstate := WsRunning | WsPreSleep | WsSleeping.
Inductive xop := XSubmit (p : prog) | XFinalize | XExt | XStop | XWait.
Inductive cop := KSuspend | KResume.

Inductive event :=
  | EvBody (id : nat) | EvTerm (id : nat) | EvWaitRet (self : option nat) | EvStopRet (v : Z)
  | EvSuspended | EvResumed.

Record shared := {
  count : N;                       (* global_activity_count *)
  nextid : nat;                    (* ghost: ids handed out so far (tasks and external operations) *)
  tst : nat -> tstate;
  tprog : nat -> prog;             (* remaining actions of a queued task *)
  parent : nat -> option nat;      (* ghost: who spawned it (None: a plain OS thread) *)
  queue : list nat;
  finalized : bool;                (* stop_done_ *)
  result : Z;                      (* result_ *)
  entry_res : Z;                   (* what the entry function (task 0) returns *)
  nworkers : nat;
  wst : nat -> wstate;             (* per-worker scheduler state *)
  wake : nat -> bool;              (* pending notify on suspend_conds_[i] *)
  suspended : bool;                (* ghost: suspend() has returned and resume() has not been called *)
  bad : bool;                      (* ghost: a worker touched a task while [suspended] *)
  log : list event }.              (* ghost, newest first *)

Inductive pc :=
  | PIdle
  | PRun (id : nat) (rest : prog) | PSpawn2 (id : nat) (rest : prog) (child : nat)
  | PTerm (id : nat) | PRecyc (id : nat) | PAsleep
  | XSpawn2 (child : nat) | XInflight (id : nat) | XStopFin | XStopCnt | XWaiting
  | KSusWait | KCas1 (i : nat) | KCas2 (i : nat) | KSpin (i : nat) | KRes (i : nat).
Record local := { lpc : pc; xtodo : list xop; ktodo : list cop }.

(* field updates *)
Definition with_tst (g : shared) (f : nat -> tstate) : shared :=
  {| count := count g; nextid := nextid g; tst := f; tprog := tprog g; parent := parent g; queue := queue g;
     finalized := finalized g; result := result g; entry_res := entry_res g; nworkers := nworkers g;
     wst := wst g; wake := wake g; suspended := suspended g; bad := bad g; log := log g |}.
Definition with_count (g : shared) (c : N) : shared :=
  {| count := c; nextid := nextid g; tst := tst g; tprog := tprog g; parent := parent g; queue := queue g;
     finalized := finalized g; result := result g; entry_res := entry_res g; nworkers := nworkers g;
     wst := wst g; wake := wake g; suspended := suspended g; bad := bad g; log := log g |}.
Definition with_queue (g : shared) (q : list nat) : shared :=
  {| count := count g; nextid := nextid g; tst := tst g; tprog := tprog g; parent := parent g; queue := q;
     finalized := finalized g; result := result g; entry_res := entry_res g; nworkers := nworkers g;
     wst := wst g; wake := wake g; suspended := suspended g; bad := bad g; log := log g |}.
Definition with_tprog (g : shared) (f : nat -> prog) : shared :=
  {| count := count g; nextid := nextid g; tst := tst g; tprog := f; parent := parent g; queue := queue g;
     finalized := finalized g; result := result g; entry_res := entry_res g; nworkers := nworkers g;
     wst := wst g; wake := wake g; suspended := suspended g; bad := bad g; log := log g |}.
Definition with_fin (g : shared) (b : bool) : shared :=
  {| count := count g; nextid := nextid g; tst := tst g; tprog := tprog g; parent := parent g; queue := queue g;
     finalized := b; result := result g; entry_res := entry_res g; nworkers := nworkers g;
     wst := wst g; wake := wake g; suspended := suspended g; bad := bad g; log := log g |}.
Definition with_result (g : shared) (v : Z) : shared :=
  {| count := count g; nextid := nextid g; tst := tst g; tprog := tprog g; parent := parent g; queue := queue g;
     finalized := finalized g; result := v; entry_res := entry_res g; nworkers := nworkers g;
     wst := wst g; wake := wake g; suspended := suspended g; bad := bad g; log := log g |}.
Definition with_wst (g : shared) (f : nat -> wstate) : shared :=
  {| count := count g; nextid := nextid g; tst := tst g; tprog := tprog g; parent := parent g; queue := queue g;
     finalized := finalized g; result := result g; entry_res := entry_res g; nworkers := nworkers g;
     wst := f; wake := wake g; suspended := suspended g; bad := bad g; log := log g |}.
Definition with_wake (g : shared) (f : nat -> bool) : shared :=
  {| count := count g; nextid := nextid g; tst := tst g; tprog := tprog g; parent := parent g; queue := queue g;
     finalized := finalized g; result := result g; entry_res := entry_res g; nworkers := nworkers g;
     wst := wst g; wake := f; suspended := suspended g; bad := bad g; log := log g |}.
Definition with_susp (g : shared) (b : bool) : shared :=
  {| count := count g; nextid := nextid g; tst := tst g; tprog := tprog g; parent := parent g; queue := queue g;
     finalized := finalized g; result := result g; entry_res := entry_res g; nworkers := nworkers g;
     wst := wst g; wake := wake g; suspended := b; bad := bad g; log := log g |}.
Definition with_bad (g : shared) (b : bool) : shared :=
  {| count := count g; nextid := nextid g; tst := tst g; tprog := tprog g; parent := parent g; queue := queue g;
     finalized := finalized g; result := result g; entry_res := entry_res g; nworkers := nworkers g;
     wst := wst g; wake := wake g; suspended := suspended g; bad := b; log := log g |}.
Definition add_log (g : shared) (e : event) : shared :=
  {| count := count g; nextid := nextid g; tst := tst g; tprog := tprog g; parent := parent g; queue := queue g;
     finalized := finalized g; result := result g; entry_res := entry_res g; nworkers := nworkers g;
     wst := wst g; wake := wake g; suspended := suspended g; bad := bad g; log := e :: log g |}.

(* C1: fetch_add on the counter; the new object gets the next ghost id *)
Definition alloc (g : shared) (st : tstate) (p : prog) (par : option nat) : shared :=
  {| count := (count g + 1)%N; nextid := S (nextid g); tst := upd (tst g) (nextid g) st;
     tprog := upd (tprog g) (nextid g) p; parent := upd (parent g) (nextid g) par; queue := queue g;
     finalized := finalized g; result := result g; entry_res := entry_res g; nworkers := nworkers g;
     wst := wst g; wake := wake g; suspended := suspended g; bad := bad g; log := log g |}.

Definition set_tst (g : shared) (id : nat) (st : tstate) : shared := with_tst g (upd (tst g) id st).
(* C2 / yield: the task becomes visible to the workers *)
Definition enqueue (g : shared) (id : nat) : shared := with_queue (set_tst g id Queued) (queue g ++ [id]).
(* D2 *)
Definition release (g : shared) (id : nat) : shared := with_count (set_tst g id Destroyed) (N.pred (count g)).
(* completion of an external operation *)
Definition release_ext (g : shared) (id : nat) : shared := with_count (set_tst g id ExtDone) (N.pred (count g)).
(* a worker touches a task: must not happen while suspended *)
Definition touch (g : shared) : shared := if suspended g then with_bad g true else g.

Fixpoint remove_nth (k : nat) (l : list nat) : list nat :=
  match l, k with
  | [], _ => []
  | _ :: r, O => r
  | x :: r, S k' => x :: remove_nth k' r
  end.

Definition is_worker (g : shared) (t : nat) : bool := (1 <=? t) && (t <=? nworkers g).
Definition set_pc (l : local) (p : pc) : local := {| lpc := p; xtodo := xtodo l; ktodo := ktodo l |}.

Definition wstate_eqb (a b : wstate) : bool :=
  match a, b with WsRunning, WsRunning | WsPreSleep, WsPreSleep | WsSleeping, WsSleeping => true | _, _ => false end.
(* state.compare_exchange_strong(running, pre_sleep) *)
Definition cas_presleep (g : shared) (i : nat) : shared :=
  if wstate_eqb (wst g i) WsRunning then with_wst g (upd (wst g) i WsPreSleep) else g.

Definition pop_or_idle (pick : nat) (t : nat) (g : shared) (l : local) : shared * local :=
  match queue g with
  | [] => (g, l)
  | _ :: _ =>
      let k := pick mod length (queue g) in
      let id := nth k (queue g) 0 in
      (touch (with_queue (set_tst g id (Active t)) (remove_nth k (queue g))), set_pc l (PRun id (tprog g id)))
  end.

Definition worker_step (o : nat * bool) (t : nat) (g : shared) (l : local) : shared * local :=
  match lpc l with
  | PIdle =>
      match wst g t with
      | WsPreSleep =>
          if snd o then (with_wst g (upd (wst g) t WsSleeping), set_pc l PAsleep)
          else pop_or_idle (fst o) t g l
      | _ => pop_or_idle (fst o) t g l
      end
  | PAsleep =>
      if wake g t then (with_wake (with_wst g (upd (wst g) t WsRunning)) (upd (wake g) t false), set_pc l PIdle)
      else (g, l)
  | PRun id [] =>
      let g1 := add_log (set_tst g id (Terminated t)) (EvTerm id) in
      (touch (if Nat.eqb id 0 then with_result g1 (entry_res g) else g1), set_pc l (PTerm id))
  | PRun id (AWork :: r) => (touch (add_log g (EvBody id)), set_pc l (PRun id r))
  | PRun id (AYield :: r) => (touch (enqueue (with_tprog g (upd (tprog g) id r)) id), set_pc l PIdle)
  | PRun id (ASpawn p :: r) =>
      (touch (alloc g (Created t) p (Some id)), set_pc l (PSpawn2 id r (nextid g)))
  | PSpawn2 id r ch => (touch (enqueue g ch), set_pc l (PRun id r))
  | PRun id (AWait :: r) =>
      if gen_wait_continue (count g) true
      then (touch (enqueue (with_tprog g (upd (tprog g) id (AWait :: r))) id), set_pc l PIdle)
      else (touch (add_log g (EvWaitRet (Some id))), set_pc l (PRun id r))
  | PRun id (AFinalize :: r) => (touch (with_fin g true), set_pc l (PRun id r))
  | PTerm id => (set_tst g id (Recycled t), set_pc l (PRecyc id))
  | PRecyc id => (release g id, set_pc l PIdle)
  | _ => (g, l)
  end.

Definition ext_step (t : nat) (g : shared) (l : local) : shared * local :=
  match lpc l with
  | PIdle =>
      match xtodo l with
      | [] => (g, l)
      | XSubmit p :: r =>
          (alloc g (Created t) p None, {| lpc := XSpawn2 (nextid g); xtodo := r; ktodo := ktodo l |})
      | XFinalize :: r => (with_fin g true, {| lpc := PIdle; xtodo := r; ktodo := ktodo l |})
      | XExt :: r => (alloc g (ExtOp t) [] None, {| lpc := XInflight (nextid g); xtodo := r; ktodo := ktodo l |})
      | XStop :: r => (g, {| lpc := XStopFin; xtodo := r; ktodo := ktodo l |})
      | XWait :: r => (g, {| lpc := XWaiting; xtodo := r; ktodo := ktodo l |})
      end
  | XSpawn2 ch => (enqueue g ch, set_pc l PIdle)
  | XInflight id => (release_ext g id, set_pc l PIdle)
  | XStopFin => if finalized g then (g, set_pc l XStopCnt) else (g, l)
  | XStopCnt =>
      if gen_wait_continue (count g) false then (g, l)
      else (add_log g (EvStopRet (result g)), set_pc l PIdle)
  | XWaiting =>
      if gen_wait_continue (count g) false then (g, l)
      else (add_log g (EvWaitRet None), set_pc l PIdle)
  | _ => (g, l)
  end.

Definition ctl_step (g : shared) (l : local) : shared * local :=
  match lpc l with
  | PIdle =>
      match ktodo l with
      | [] => (g, l)
      | KSuspend :: r =>
          if suspended g then (g, {| lpc := PIdle; xtodo := xtodo l; ktodo := r |})       (* already sleeping *)
          else (g, {| lpc := KSusWait; xtodo := xtodo l; ktodo := r |})
      | KResume :: r =>
          if suspended g then (with_susp g false, {| lpc := KRes 1; xtodo := xtodo l; ktodo := r |})
          else (g, {| lpc := PIdle; xtodo := xtodo l; ktodo := r |})                      (* already running *)
      end
  | KSusWait => if gen_wait_continue (count g) false then (g, l) else (g, set_pc l (KCas1 1))
  | KCas1 i => if i <=? nworkers g then (cas_presleep g i, set_pc l (KCas1 (S i))) else (g, set_pc l (KCas2 1))
  | KCas2 i =>
      if i <=? nworkers g then (cas_presleep g i, set_pc l (KSpin i))
      else (add_log (with_susp g true) EvSuspended, set_pc l PIdle)
  | KSpin i => if wstate_eqb (wst g i) WsPreSleep then (g, l) else (g, set_pc l (KCas2 (S i)))
  | KRes i =>
      if i <=? nworkers g then
        if wstate_eqb (wst g i) WsSleeping then (with_wake g (upd (wake g) i true), l)
        else (g, set_pc l (KRes (S i)))
      else (add_log g EvResumed, set_pc l PIdle)
  | _ => (g, l)
  end.

Definition lc_tstep (o : nat * bool) (t : nat) (g : shared) (l : local) : shared * local :=
  if Nat.eqb t 0 then ctl_step g l
  else if is_worker g t then worker_step o t g l
  else ext_step t g l.

(* initial state: runtime::start has registered the entry task (id 0, counted, queued) *)
Definition lc_init (w : nat) (entry : prog) (r : Z) : shared :=
  {| count := 1%N; nextid := 1; tst := upd (fun _ => Unborn) 0 Queued; tprog := upd (fun _ => []) 0 entry;
     parent := fun _ => None; queue := [0]; finalized := false; result := 0%Z; entry_res := r; nworkers := w;
     wst := fun _ => WsRunning; wake := fun _ => false; suspended := false; bad := false; log := [] |}.
Definition lc_locals (xs : nat -> list xop) (ks : list cop) : nat -> local :=
  fun t => {| lpc := PIdle; xtodo := xs t; ktodo := if Nat.eqb t 0 then ks else [] |}.
Definition lc_run (sched : list (nat * (nat * bool))) (w : nat) (entry : prog) (r : Z)
    (xs : nat -> list xop) (ks : list cop) : shared * (nat -> local) :=
  run lc_tstep sched (lc_init w entry r, lc_locals xs ks).

(* observations used by the statements *)
Definition is_live (s : tstate) : bool := match s with Unborn | Destroyed | ExtDone => false | _ => true end.
Definition is_dead (s : tstate) : bool :=
  match s with Terminated _ | Recycled _ | Destroyed => true | _ => false end.
Definition is_destroyed (s : tstate) : bool := match s with Destroyed | ExtDone => true | _ => false end.
Fixpoint nlive (n : nat) (f : nat -> tstate) : nat :=
  match n with O => O | S k => (if is_live (f k) then 1 else 0) + nlive k f end.
Fixpoint ndestroyed (n : nat) (f : nat -> tstate) : nat :=
  match n with O => O | S k => (if is_destroyed (f k) then 1 else 0) + ndestroyed k f end.

(* ------------------------------------------------------------------ simulator for the tie *)
(* round-robin schedule with a pseudo-random oracle: runs [fuel] steps over threads 0..T-1 and
   reports the quantities that do not depend on the schedule (compared with the real runtime) *)
Fixpoint rr_sched (fuel : nat) (nthreads : nat) (seed : nat) : list (nat * (nat * bool)) :=
  match fuel with
  | O => []
  | S f => (fuel mod nthreads, ((seed + 7 * fuel) mod 5, Nat.even (seed + fuel))) :: rr_sched f nthreads seed
  end.
Fixpoint count_bodies (l : list event) : nat :=
  match l with [] => O | EvBody _ :: r => S (count_bodies r) | _ :: r => count_bodies r end.
Fixpoint stop_rets (l : list event) : list Z :=
  match l with [] => [] | EvStopRet v :: r => v :: stop_rets r | _ :: r => stop_rets r end.
Definition sim_summary (g : shared) : (nat * nat) * (nat * N) * (list Z * bool) :=
  ((nextid g, ndestroyed (nextid g) (tst g)), (count_bodies (log g), count g), (stop_rets (log g), bad g)).
