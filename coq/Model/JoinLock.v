(* Model/JoinLock.v — C13: Model/Join.v plus the internal spinlock of the pika::thread object (thread::mtx_).
   Executable definitions only.  A LAYER over Join.v: the base step function [Join.tstep] is not changed; this file
   adds, per handle (o,k), the owner of its mtx_, and third parties that call members of a handle they do not own.
   Transcribed from libs/pika/threading/src/thread.cpp (join, interrupt, swap, move) and
   libs/pika/threading/include/pika/threading/thread.hpp (joinable, detach, native_handle: one
   `std::lock_guard<mutex_type> l(mtx_)` critical section each).

   join() on handle (t,k), as the source has it:
       std::unique_lock l(mtx_);                 acquired by the step that enters join        (Body/AJoin, PDtorJoin)
       joinable? self?  -> unlock, throw          ... same step
       interruption_point()                       PJoinIP    (a throw unwinds: unlock)
       add_thread_exit_callback(...)              PJoinAdd   (still under mtx_)
       { unlock_guard ul(l);                      OWN STEP: the lock is released here          [unl]
         while (!done) suspend();                 PJoinChk / PJoinSusp / PJoinWake
       }                                          ~unlock_guard: l.lock() (also when an exception unwinds: [relock])
       detach_locked();  // ~unique_lock          PJoinDet   (lock, id_ := invalid, unlock: one critical section)
   [unl] is read from the source by tools/genmods/c13.py (Gen/GenJoin.v: join_unlocks_before_wait); with
   [unl = false] the joiner keeps mtx_ while it is suspended.

   Third parties (every thread that is not a task of the base model, [pc = PIdle]; a pika task or an OS thread —
   the difference does not matter here) run a list of member calls on handles of OTHER tasks:
       HObs o k      joinable / get_id / native_handle / interruption_requested / swap / move: lock, read id_, unlock
       HDetach o k   detach(): lock, id_ := invalid, unlock
       HIntr o k     interrupt(): native_handle() (lock, read id_, unlock), then interrupt_thread(id): the two base
                     steps of [AIntr] (request under the target's lock, then the wake-up)
       HIntrId u     thread::interrupt(id): no handle involved
   A step that needs a lock that is not free does not move (the spinlock spins). *)
From Coq Require Import List Arith Bool.
From Pika Require Import Base.Conc Base.Agent Model.Join.
Import ListNotations.

Inductive hop := HObs (o k : nat) | HDetach (o k : nat) | HIntr (o k : nat) | HIntrId (u : nat).

Inductive hev :=
  | HObserved (t o k : nat) (valid : bool)
  | HDetached (t o k : nat)
  | HIntrNoThread (t o k : nat).        (* interrupt() on an empty handle (null_thread_id) *)

Record LG := mkLG {
  bg : G;                               (* state of Model/Join.v *)
  hlk : nat -> nat -> option nat;       (* owner of mtx_ of handle (o,k) *)
  hlog : list hev }.

Record LL := mkLL {
  bl : L;                               (* local state in Model/Join.v ([PIdle]: a third party) *)
  relock : option nat;                  (* ~unlock_guard pending: thread_interrupted unwinds join() on handle k *)
  hops : list hop;                      (* member calls a third party still has to make *)
  hint : option (nat * bool) }.         (* interrupt_thread(u) in progress; true: request recorded, wake-up to issue *)

Definition w_bg g x := mkLG x (hlk g) (hlog g).
Definition w_hlk g o k v := mkLG (bg g) (set2 (hlk g) o k v) (hlog g).
Definition w_hlog g e := mkLG (bg g) (hlk g) (e :: hlog g).

Definition lk_free (g : LG) (o k : nat) : bool := match hlk g o k with None => true | Some _ => false end.
Definition holds (g : LG) (t k : nat) : bool := match hlk g t k with Some h => Nat.eqb h t | None => false end.

(* the handle whose mtx_ a base step at this point locks first *)
Definition needs_lock (l : L) : option nat :=
  match pc l with
  | PBody => match prog l with
             | AJoin k :: _ => Some k | ADetach k :: _ => Some k | AJoinable k :: _ => Some k | ADtor k :: _ => Some k
             | _ => None
             end
  | PDtorJoin k => Some k
  | _ => None
  end.

(* program points at which a task may own the mtx_ of its handle k *)
Definition mayhold (p : pcs) (k : nat) : bool :=
  match p with
  | PJoinIP k' _ => Nat.eqb k' k
  | PJoinAdd k' _ => Nat.eqb k' k
  | PJoinChk k' _ false => Nat.eqb k' k
  | PJoinDet k' _ => Nat.eqb k' k
  | _ => false
  end.

Definition is_joinip (p : pcs) : bool := match p with PJoinIP _ _ => true | _ => false end.
Definition is_joinadd (p : pcs) : bool := match p with PJoinAdd _ _ => true | _ => false end.
Definition is_body (p : pcs) : bool := match p with PBody => true | _ => false end.
Definition is_intrwake (p : pcs) : bool := match p with PIntrWake _ => true | _ => false end.

(* the local state of the base model's two interrupt steps *)
Definition hint_l (u : nat) (stage : bool) : L := if stage then mkL (PIntrWake u) [] else mkL PBody [AIntr u].

Section JoinLock.
  Variable unl : bool.                 (* join() releases mtx_ before it waits *)
  Variable tgt : nat -> nat -> nat.

  Definition bstep (t : nat) (g : G) (l : L) : G * L := tstep true true tgt tt t g l.

  Definition plain (t : nat) (g : LG) (l : LL) : LG * LL :=
    let r := bstep t (bg g) (bl l) in (w_bg g (fst r), mkLL (snd r) None (hops l) (hint l)).

  Definition ltstep (_ : unit) (t : nat) (g : LG) (l : LL) : LG * LL :=
    if blocked (ag (bg g) t) then (g, l) else
    match relock l with
    | Some k => if lk_free g t k then (g, mkLL (bl l) None (hops l) (hint l)) else (g, l)
    | None =>
      match pc (bl l) with
      | PIdle =>
        match hint l with
        | Some (u, stage) =>
          let r := bstep t (bg g) (hint_l u stage) in
          (w_bg g (fst r),
           mkLL (bl l) None (hops l) (if negb stage && is_intrwake (pc (snd r)) then Some (u, true) else None))
        | None =>
          match hops l with
          | [] => (g, l)
          | HObs o k :: r =>
            if lk_free g o k then (w_hlog g (HObserved t o k (hid (bg g) o k)), mkLL (bl l) None r None) else (g, l)
          | HDetach o k :: r =>
            if lk_free g o k
            then (w_hlog (w_bg g (w_hid (bg g) (set2 (hid (bg g)) o k false))) (HDetached t o k), mkLL (bl l) None r None)
            else (g, l)
          | HIntr o k :: r =>
            if lk_free g o k then
              if hid (bg g) o k then (g, mkLL (bl l) None r (Some (tgt o k, false)))
              else (w_hlog g (HIntrNoThread t o k), mkLL (bl l) None r None)
            else (g, l)
          | HIntrId u :: r => (g, mkLL (bl l) None r (Some (u, false)))
          end
        end
      | PBody | PDtorJoin _ =>
        match needs_lock (bl l) with
        | Some k =>
          if lk_free g t k then
            let r := bstep t (bg g) (bl l) in
            let g1 := w_bg g (fst r) in
            (if is_joinip (pc (snd r)) then w_hlk g1 t k (Some t) else g1, mkLL (snd r) None (hops l) (hint l))
          else (g, l)
        | None => plain t g l
        end
      | PJoinIP k d =>
        let r := bstep t (bg g) (bl l) in
        let g1 := w_bg g (fst r) in
        (if is_joinadd (pc (snd r)) then g1 else w_hlk g1 t k None, mkLL (snd r) None (hops l) (hint l))
      | PJoinChk k d w =>
        if holds g t k && unl then (w_hlk g t k None, l)            (* unlock_guard ul(l) *)
        else plain t g l
      | PJoinSusp k d | PJoinWake k d =>
        let r := bstep t (bg g) (bl l) in
        let g1 := w_bg g (fst r) in
        if is_body (pc (snd r))                                        (* thread_interrupted thrown *)
        then if holds g t k then (w_hlk g1 t k None, mkLL (snd r) None (hops l) (hint l))
             else (g1, mkLL (snd r) (Some k) (hops l) (hint l))
        else (g1, mkLL (snd r) None (hops l) (hint l))
      | PJoinDet k d =>
        if holds g t k then
          let r := bstep t (bg g) (bl l) in (w_hlk (w_bg g (fst r)) t k None, mkLL (snd r) None (hops l) (hint l))
        else if lk_free g t k then plain t g l
        else (g, l)
      | _ => plain t g l
      end
    end.

  Definition lg_init (h0 : nat -> nat -> bool) : LG := mkLG (g_init h0) (fun _ _ => None) [].

  Definition ll_init (n : nat) (progs : nat -> list act) (hprogs : nat -> list hop) : nat -> LL :=
    fun t => mkLL (l_init n progs t) None (if Nat.ltb t n then [] else hprogs t) None.

  Definition ljrun (h0 : nat -> nat -> bool) (n : nat) (progs : nat -> list act) (hprogs : nat -> list hop)
             (sched : list (nat * unit)) : LG * locals LL :=
    run ltstep sched (lg_init h0, ll_init n progs hprogs).

  Definition lstuck (c : LG * locals LL) : Prop :=
    forall t, ltstep tt t (fst c) (snd c t) = (fst c, snd c t).

  (* the handle lock thread t is waiting for (spinning), if any *)
  Definition waits_for (g : LG) (t : nat) (l : LL) : option (nat * nat) :=
    if blocked (ag (bg g) t) then None else
    match relock l with
    | Some k => if lk_free g t k then None else Some (t, k)
    | None =>
      match pc (bl l) with
      | PIdle =>
        match hint l, hops l with
        | None, HObs o k :: _ => if lk_free g o k then None else Some (o, k)
        | None, HDetach o k :: _ => if lk_free g o k then None else Some (o, k)
        | None, HIntr o k :: _ => if lk_free g o k then None else Some (o, k)
        | _, _ => None
        end
      | PBody | PDtorJoin _ =>
        match needs_lock (bl l) with
        | Some k => if lk_free g t k then None else Some (t, k)
        | None => None
        end
      | PJoinDet k _ => if holds g t k || lk_free g t k then None else Some (t, k)
      | _ => None
      end
    end.

  (* all member calls of a third party have returned *)
  Definition calls_returned (l : LL) : bool :=
    match hops l, hint l with [], None => true | _, _ => false end.
End JoinLock.

(* ---- helpers for the driver: run one thread until it cannot move, round-robin *)
Definition l_final (l : LL) : bool :=
  match pc (bl l) with
  | PDone => true
  | PIdle => match hops l, hint l with [], None => true | _, _ => false end
  | _ => false
  end.

Fixpoint lrun_task (unl : bool) (tgt : nat -> nat -> nat) (fuel t : nat) (c : LG * (nat -> LL)) : LG * (nat -> LL) :=
  match fuel with
  | O => c
  | S f =>
    if blocked (ag (bg (fst c)) t) || l_final (snd c t) then c
    else match waits_for (fst c) t (snd c t) with
         | Some _ => c
         | None => lrun_task unl tgt f t (step (ltstep unl tgt) c (t, tt))
         end
  end.

Fixpoint lround_robin (unl : bool) (tgt : nat -> nat -> nat) (rounds n : nat) (c : LG * (nat -> LL)) : LG * (nat -> LL) :=
  match rounds with
  | O => c
  | S r => lround_robin unl tgt r n (fold_left (fun c t => lrun_task unl tgt 1000 t c) (seq 0 n) c)
  end.

(* the monitor of the property on the model: the first thread < n that waits for a handle lock *)
Definition first_waiter (unl : bool) (tgt : nat -> nat -> nat) (n : nat) (c : LG * (nat -> LL)) : option (nat * (nat * nat)) :=
  fold_left (fun acc t => match acc with
                          | Some _ => acc
                          | None => match waits_for (fst c) t (snd c t) with Some ok => Some (t, ok) | None => None end
                          end) (seq 0 n) None.
