(* Model/StopHandles.v — sequential histories of pika::stop_source / pika::stop_token handle
   operations over a heap of stop states (C14, "handle histories").

   Code modelled (read it next to this file):
     libs/pika/synchronization/include/pika/synchronization/stop_token.hpp
         class stop_token (l.197-279), class stop_source (l.299-410),
         stop_state::add_source_count / remove_source_count / unlock
     libs/pika/synchronization/src/stop_token.cpp
         intrusive_ptr_add_ref / intrusive_ptr_release (the "token ref count" counts ALL owners,
         the state is deleted by the owner that sees old & token_ref_mask == token_ref_increment),
         lock_and_request_stop / request_stop (sequential: no contention, no callbacks)
     libs/pika/memory/include/pika/memory/intrusive_ptr.hpp
         copy ctor = add_ref; move ctor = steal; every assignment = this_type(rhs).swap( *this);
         destructor = release

   Every word operation is one of Model/StopWord.v (w_add / w_sub / w_last_owner / w_set_req_lock /
   w_stop_requested / w_stop_possible) with the constants of Gen/GenStopBits.v; nothing here knows
   the bit layout.

   Structure: the C++ member functions are compositions of a few primitive object operations
   (construct / copy-construct / move-construct / swap / destroy), the assignments go through a
   TEMPORARY object exactly as the code does (copy-and-swap).  The temporary is slot number 0 of the
   slot tables (user slot i is table index S i), so the ownership held by a temporary is counted
   like any other handle while it lives.  `h_prims` gives, for each history operation, the exact
   sequence of primitive operations; `p_step` gives each primitive's word operations in code order.

   Executable definitions only. *)
From Coq Require Import NArith Bool List Arith.
From Pika Require Import Gen.GenStopBits Model.StopWord.
Import ListNotations.

(* ---- finite tables with a default: index -> option A (None = absent) ---- *)
Section Tables.
  Context {A : Type}.
  Fixpoint sl_set (i : nat) (v : option A) (l : list (option A)) : list (option A) :=
    match i, l with
    | O, [] => [v]
    | O, _ :: t => v :: t
    | S i', [] => None :: sl_set i' v []
    | S i', x :: t => x :: sl_set i' v t
    end.
  Definition sl_get (i : nat) (l : list (option A)) : option A := nth i l None.
  (* number of entries satisfying f *)
  Fixpoint sl_cnt (f : option A -> bool) (l : list (option A)) : nat :=
    match l with
    | [] => O
    | x :: t => (if f x then 1 else 0) + sl_cnt f t
    end.
End Tables.

(* a handle slot: None = no object lives there; Some None = object alive, state_ == nullptr;
   Some (Some s) = object alive, state_ points to stop state number s *)
Definition slot := option (option nat).
Definition slots := list slot.
(* heap of stop states: state id -> its 64-bit word; None = never allocated or deleted.
   `new stop_state` takes the next id = length of the table (ids are never reused). *)
Definition heap_t := list (option N).

Record hstate := mkH {
  heap : heap_t;
  srcs : slots;                       (* stop_source objects; index 0 = the temporary *)
  toks : slots;                       (* stop_token objects;  index 0 = the temporary *)
  reqlog : list (option nat * bool)   (* request_stop calls, newest first: (state, returned value) *)
}.

Definition h_init : hstate := mkH [] [] [] [].

(* ---- the four reference-count operations on one state ---- *)
(* intrusive_ptr_add_ref: state_.fetch_add(token_ref_increment) *)
Definition h_add_ref (a : nat) (h : heap_t) : heap_t :=
  match sl_get a h with
  | Some w => sl_set a (Some (w_add w token_ref_increment)) h
  | None => h      (* use after free: undefined in C++; excluded by counts_exact *)
  end.
(* stop_state::add_source_count: state_.fetch_add(source_ref_increment) *)
Definition h_add_src (a : nat) (h : heap_t) : heap_t :=
  match sl_get a h with
  | Some w => sl_set a (Some (w_add w source_ref_increment)) h
  | None => h
  end.
(* stop_state::remove_source_count: state_.fetch_sub(source_ref_increment) *)
Definition h_rem_src (a : nat) (h : heap_t) : heap_t :=
  match sl_get a h with
  | Some w => sl_set a (Some (w_sub w source_ref_increment)) h
  | None => h
  end.
(* intrusive_ptr_release: old = state_.fetch_sub(token_ref_increment);
   if ((old & token_ref_mask) == token_ref_increment) delete p; *)
Definition h_release (a : nat) (h : heap_t) : heap_t :=
  match sl_get a h with
  | Some old => if w_last_owner old then sl_set a None h
                else sl_set a (Some (w_sub old token_ref_increment)) h
  | None => h
  end.

(* ---- primitive object operations; k = true: stop_source, k = false: stop_token ---- *)
Inductive prim : Type :=
| PSNew (i : nat)              (* stop_source() into dead slot i *)
| PNone (k : bool) (i : nat)   (* stop_source(nostopstate) / stop_token() into dead slot i *)
| PCopy (k : bool) (i j : nat) (* copy-construct dead slot i from alive slot j *)
| PMove (k : bool) (i j : nat) (* move-construct dead slot i from alive slot j (j stays alive, empty) *)
| PSwap (k : bool) (i j : nat) (* i.swap(j), both alive *)
| PDestroy (k : bool) (i : nat)(* destructor of alive slot i *)
| PSRequest (i : nat)          (* source i .request_stop() *)
| PTGet (i j : nat).           (* token slot i (dead) constructed from source j .get_token() *)

Definition slots_of (k : bool) (st : hstate) : slots := if k then srcs st else toks st.
Definition set_slots (k : bool) (v : slots) (st : hstate) : hstate :=
  if k then mkH (heap st) v (toks st) (reqlog st) else mkH (heap st) (srcs st) v (reqlog st).
Definition set_heap (h : heap_t) (st : hstate) : hstate := mkH h (srcs st) (toks st) (reqlog st).
Definition add_log (e : option nat * bool) (st : hstate) : hstate :=
  mkH (heap st) (srcs st) (toks st) (e :: reqlog st).

(* copy constructor: state_(rhs.state_) [add_ref]; stop_source additionally
   `if (state_) state_->add_source_count();` *)
Definition copy_heap (k : bool) (s : nat) (h : heap_t) : heap_t :=
  if k then h_add_src s (h_add_ref s h) else h_add_ref s h.
(* destructor: stop_source body `if (state_) state_->remove_source_count();` then the member
   intrusive_ptr is destroyed [release] *)
Definition destroy_heap (k : bool) (s : nat) (h : heap_t) : heap_t :=
  if k then h_release s (h_rem_src s h) else h_release s h.

Definition p_step (p : prim) (st : hstate) : hstate :=
  match p with
  | PSNew i =>
      match sl_get i (srcs st) with
      | None =>
          (* state_(new detail::stop_state, false): word = initial_state, no add_ref;
             then state_->add_source_count() *)
          let s := length (heap st) in
          mkH (h_add_src s (sl_set s (Some initial_state) (heap st)))
              (sl_set i (Some (Some s)) (srcs st)) (toks st) (reqlog st)
      | Some _ => st
      end
  | PNone k i =>
      match sl_get i (slots_of k st) with
      | None => set_slots k (sl_set i (Some None) (slots_of k st)) st
      | Some _ => st
      end
  | PCopy k i j =>
      match sl_get i (slots_of k st), sl_get j (slots_of k st) with
      | None, Some None => set_slots k (sl_set i (Some None) (slots_of k st)) st
      | None, Some (Some s) =>
          set_slots k (sl_set i (Some (Some s)) (slots_of k st))
            (set_heap (copy_heap k s (heap st)) st)
      | _, _ => st
      end
  | PMove k i j =>
      (* intrusive_ptr(intrusive_ptr&& rhs): px(rhs.px), rhs.px = nullptr — no count changes *)
      match sl_get i (slots_of k st), sl_get j (slots_of k st) with
      | None, Some vj => set_slots k (sl_set j (Some None) (sl_set i (Some vj) (slots_of k st))) st
      | _, _ => st
      end
  | PSwap k i j =>
      (* std::swap(state_, s.state_): three moves of intrusive_ptr — no count changes *)
      match sl_get i (slots_of k st), sl_get j (slots_of k st) with
      | Some vi, Some vj => set_slots k (sl_set j (Some vi) (sl_set i (Some vj) (slots_of k st))) st
      | _, _ => st
      end
  | PDestroy k i =>
      match sl_get i (slots_of k st) with
      | Some None => set_slots k (sl_set i None (slots_of k st)) st
      | Some (Some s) =>
          set_slots k (sl_set i None (slots_of k st)) (set_heap (destroy_heap k s (heap st)) st)
      | None => st
      end
  | PSRequest i =>
      (* return !!state_ && state_->request_stop();  sequentially: lock_and_request_stop loads,
         returns false when stop_requested(old), else CAS to old | stop_requested_flag | locked_flag
         (succeeds: nobody holds the lock), no callbacks registered, unlock = fetch_sub(locked_flag) *)
      match sl_get i (srcs st) with
      | Some None => add_log (None, false) st
      | Some (Some s) =>
          match sl_get s (heap st) with
          | Some w =>
              if w_stop_requested w then add_log (Some s, false) st
              else add_log (Some s, true)
                     (set_heap (sl_set s (Some (w_sub (w_set_req_lock w) locked_flag)) (heap st)) st)
          | None => st
          end
      | None => st
      end
  | PTGet i j =>
      (* if (!stop_possible()) return stop_token(); return stop_token(state_);
         stop_source::stop_possible() = !!state_;  stop_token(intrusive_ptr const&) = add_ref *)
      match sl_get i (toks st), sl_get j (srcs st) with
      | None, Some None => set_slots false (sl_set i (Some None) (toks st)) st
      | None, Some (Some s) =>
          set_slots false (sl_set i (Some (Some s)) (toks st)) (set_heap (h_add_ref s (heap st)) st)
      | _, _ => st
      end
  end.

(* ---- history operations (user slot numbers) ---- *)
Inductive hop : Type :=
| SrcNew (i : nat) | SrcNoState (i : nat) | SrcCopy (i j : nat) | SrcMove (i j : nat)
| SrcAssign (i j : nat) | SrcMoveAssign (i j : nat) | SrcSwap (i j : nat) | SrcDestroy (i : nat)
| SrcRequest (i : nat)
| TokDefault (i : nat) | TokGet (i j : nat) | TokCopy (i j : nat) | TokMove (i j : nat)
| TokAssign (i j : nat) | TokMoveAssign (i j : nat) | TokSwap (i j : nat) | TokDestroy (i : nat).

Definition tmp : nat := O.
Definition u (i : nat) : nat := S i.
Definition alive (k : bool) (i : nat) (st : hstate) : bool :=
  match sl_get (u i) (slots_of k st) with Some _ => true | None => false end.

(* i = j  : operator=(T const&)  = T(rhs).swap( *this)            [stop_source: explicit;
                                                                  stop_token: via intrusive_ptr]
   i = std::move(j) : operator=(T&&) = T(std::move(rhs)).swap( *this)
   the temporary is destroyed at the end of the full expression *)
Definition assign_prims (k : bool) (i j : nat) (st : hstate) : list prim :=
  if alive k i st && alive k j st
  then [PCopy k tmp (u j); PSwap k tmp (u i); PDestroy k tmp] else [].
Definition move_assign_prims (k : bool) (i j : nat) (st : hstate) : list prim :=
  if alive k i st && alive k j st
  then [PMove k tmp (u j); PSwap k tmp (u i); PDestroy k tmp] else [].

Definition h_prims (st : hstate) (op : hop) : list prim :=
  match op with
  | SrcNew i => [PSNew (u i)]
  | SrcNoState i => [PNone true (u i)]
  | SrcCopy i j => [PCopy true (u i) (u j)]
  | SrcMove i j => [PMove true (u i) (u j)]
  | SrcAssign i j => assign_prims true i j st
  | SrcMoveAssign i j => move_assign_prims true i j st
  | SrcSwap i j => [PSwap true (u i) (u j)]
  | SrcDestroy i => [PDestroy true (u i)]
  | SrcRequest i => [PSRequest (u i)]
  | TokDefault i => [PNone false (u i)]
  | TokGet i j => [PTGet (u i) (u j)]
  | TokCopy i j => [PCopy false (u i) (u j)]
  | TokMove i j => [PMove false (u i) (u j)]
  | TokAssign i j => assign_prims false i j st
  | TokMoveAssign i j => move_assign_prims false i j st
  | TokSwap i j => [PSwap false (u i) (u j)]
  | TokDestroy i => [PDestroy false (u i)]
  end.

Definition p_run (ps : list prim) (st : hstate) : hstate := fold_left (fun s p => p_step p s) ps st.
Definition h_step (st : hstate) (op : hop) : hstate := p_run (h_prims st op) st.
Definition h_run_from (st : hstate) (h : list hop) : hstate := fold_left h_step h st.
Definition h_run (h : list hop) : hstate := h_run_from h_init h.

(* ---- observations: what the C++ accessors return ---- *)
(* state_->stop_requested() / state_->stop_possible() on state s (a dangling pointer reads as
   false/false here; counts_exact shows it does not occur) *)
Definition st_requested (h : heap_t) (s : nat) : bool :=
  match sl_get s h with Some w => w_stop_requested w | None => false end.
Definition st_possible (h : heap_t) (s : nat) : bool :=
  match sl_get s h with Some w => w_stop_possible w | None => false end.
(* (stop_possible(), stop_requested()) of an alive object holding v *)
Definition src_view (h : heap_t) (v : option nat) : bool * bool :=
  match v with
  | None => (false, false)
  | Some s => (true, st_requested h s)          (* !!state_ ,  !!state_ && state_->stop_requested() *)
  end.
Definition tok_view (h : heap_t) (v : option nat) : bool * bool :=
  match v with
  | None => (false, false)
  | Some s => (st_possible h s, st_requested h s)  (* !!state_ && state_->stop_possible(), ... *)
  end.

Definition src_possible (st : hstate) (i : nat) : bool :=
  match sl_get i (srcs st) with Some v => fst (src_view (heap st) v) | None => false end.
Definition src_requested (st : hstate) (i : nat) : bool :=
  match sl_get i (srcs st) with Some v => snd (src_view (heap st) v) | None => false end.
Definition tok_possible (st : hstate) (i : nat) : bool :=
  match sl_get i (toks st) with Some v => fst (tok_view (heap st) v) | None => false end.
Definition tok_requested (st : hstate) (i : nat) : bool :=
  match sl_get i (toks st) with Some v => snd (tok_view (heap st) v) | None => false end.

(* every alive slot, in slot order: (user slot number, (stop_possible, stop_requested)) *)
Fixpoint obs_slots (f : option nat -> bool * bool) (i : nat) (l : slots) : list (nat * (bool * bool)) :=
  match l with
  | [] => []
  | None :: t => obs_slots f (S i) t
  | Some v :: t => (i, f v) :: obs_slots f (S i) t
  end.
Definition obs : Type := (list (nat * (bool * bool)) * list (nat * (bool * bool)))%type.
Definition h_obs (st : hstate) : obs :=
  (obs_slots (src_view (heap st)) O (tl (srcs st)), obs_slots (tok_view (heap st)) O (tl (toks st))).

(* for the driver: observation after every step, and the request_stop results in call order *)
Fixpoint h_trace_from (st : hstate) (h : list hop) : list obs * list bool :=
  match h with
  | [] => ([], map snd (rev (reqlog st)))
  | op :: t => let st' := h_step st op in
               let (os, rs) := h_trace_from st' t in (h_obs st' :: os, rs)
  end.
Definition h_trace (h : list hop) : list obs * list bool := h_trace_from h_init h.
