(* Model/BulkPlacement.v — C10 <-> C11: where the invocations f(i, ...) of `bulk` on a
   thread_pool_scheduler run.  Executable definitions only; proofs in Proofs/BulkPlacementProofs.v.

   Code: libs/pika/executors/include/pika/executors/thread_pool_scheduler_bulk.hpp,
   bulk_receiver::set_value / do_work_task / do_work_local:

     set_value(ts...)                          -- runs INLINE in the context in which the predecessor
       if (shape == 0) { set_value(receiver); return; }                          sender completes
       chunk size, emplace ts, init_queue(w) for all w < num_worker_threads
       local_worker_thread = pika::get_local_worker_thread_num();   -- worker on which this context runs NOW
       for (worker_thread = 0; worker_thread < num_worker_threads; ++worker_thread)
         if (worker_thread == local_worker_thread) continue;
         do_work_task(worker_thread):
            if (queues[worker_thread].empty()) { finish(); return; }              -- no task
            hint = get_hint(scheduler); if (hint == thread_schedule_hint()) hint = {thread, worker_thread};
            register_work(task_function{worker_thread}, get_priority(scheduler), hint, pool of scheduler)
       do_work_local(local_worker_thread)      -- task_function{local_worker_thread}() called inline

   There is no `first_thread` offset in this version of the code: the hint of the task for queue k is
   k itself, unless the scheduler carries a hint of its own, which then goes to EVERY worker task.
   The pool's num_worker_threads W = get_os_thread_count() of the scheduler's pool.

   The model is a layer over Model/Placement.v: the shared state is (Placement state, bulk ghost
   state); a bulk step performs at most one Placement step ([pl_tstep]) with an oracle derived from
   the bulk program:
     BSetValue   the predecessor completes in the task that thread t is running (PIKA_ASSERT(get_self_id())
                 — set_value outside a pika task is a violated precondition: queues[size_t(-1)]);
                 records the task, the thread and its local worker number
     BLoop       one iteration of the spawn loop (skip local / skip empty queue / ASpawn with the hint above)
     BF i        the task_function running in the current task calls f(i): only in a task created by the
                 spawn loop, or (after the loop) in the task that ran set_value  [= ACall]
     BO o        any other step of any thread (the rest of the program, other tasks, the workers' loops,
                 yields / suspensions inside f, ...): passed to Placement unchanged.
   Which indices a task_function calls (own queue, stealing from the neighbours' index queues) is C11
   (Model/Bulk.v); here it is left to the oracle, i.e. every chunk-to-task assignment is covered.
   Which queues are non-empty after init_queue comes from Model/Bulk.v's arithmetic. *)
From Coq Require Import List Arith Lia Bool ZArith NArith.
From Pika Require Import Base.Conc Model.Placement.
From Pika Require Model.Bulk.
Import ListNotations.

(* queue k holds at least one chunk after init_queue (part_begin < part_end), for shape n on W workers *)
Definition part_nonempty (W : nat) (n : N) (k : nat) : bool :=
  match Bulk.get_chunk_size (N.of_nat W) n with
  | None => false
  | Some c =>
      let nc := Bulk.get_num_chunks n c in
      (Bulk.part_begin (N.of_nat W) (N.of_nat k) nc <? Bulk.part_end (N.of_nat W) (N.of_nat k) nc)%N
  end.

Record bulk_par := {
  bp_pool : nat;      (* pool of the scheduler the bulk sender was customised for *)
  bp_prio : prio;     (* get_priority(scheduler) *)
  bp_hint : hint;     (* get_hint(scheduler); HNone = thread_schedule_hint() *)
  bp_n : N            (* shape *)
}.

(* "Only apply hint if none was given." *)
Definition bulk_task_hint (sh : hint) (k : nat) : hint :=
  match sh with HNone => worker_hint k | HThread _ => sh end.

Record fcall := { fc_i : N; fc_k : nat; fc_task : nat; fc_thr : nat }.
   (* f(fc_i) called by task_function{worker_thread = fc_k} running in Placement task fc_task on thread fc_thr *)

Record bk_state := {
  bk_sv : option (nat * nat * nat);   (* set_value ran in task a0, on thread t0, get_local_worker_thread_num() = lw *)
  bk_loop : nat;                      (* loop variable worker_thread of the spawn loop *)
  bk_tasks : list (nat * nat);        (* (Placement task id, worker_thread k) of the registered task_functions *)
  bk_calls : list fcall               (* ghost: newest first *)
}.
Definition bk_init : bk_state := {| bk_sv := None; bk_loop := 0; bk_tasks := []; bk_calls := [] |}.

Inductive boracle := BO (o : oracle) | BSetValue | BLoop | BF (i : N).

Fixpoint lookup (a : nat) (l : list (nat * nat)) : option nat :=
  match l with [] => None | (a', k) :: r => if Nat.eqb a' a then Some k else lookup a r end.

Section WithCfg.
  Variable cfg : nat -> pool_cfg.
  Variable bp : bulk_par.
  Let W := pW (cfg (bp_pool bp)).

  (* which task_function (worker_thread value) may currently run in Placement task a *)
  Definition fcall_k (b : bk_state) (a : nat) : option nat :=
    match bk_sv b with
    | None => None
    | Some (a0, _, lw) =>
        if Nat.eqb a a0 then (if W <=? bk_loop b then Some lw else None)    (* do_work_local, after the loop *)
        else lookup a (bk_tasks b)
    end.

  Definition bk_tstep (o : boracle) (t : nat) (G : gstate * bk_state) (l : local)
    : (gstate * bk_state) * local :=
    let g := fst G in let b := snd G in
    match o with
    | BO o' => let '(g', l') := pl_tstep cfg o' t g l in ((g', b), l')
    | BSetValue =>
        match pc l, lrole l, cur l, bk_sv b with
        | Idle, RWorker _ w, Some a, None =>
            if (bp_n bp =? 0)%N then (G, l)                   (* shape == 0: no f, no task *)
            else ((g, {| bk_sv := Some (a, t, w); bk_loop := 0; bk_tasks := bk_tasks b; bk_calls := bk_calls b |}), l)
        | _, _, _, _ => (G, l)
        end
    | BLoop =>
        match pc l, lrole l, cur l, bk_sv b with
        | Idle, RWorker _ _, Some a, Some (a0, t0, lw) =>
            let k := bk_loop b in
            if Nat.eqb a a0 && Nat.eqb t t0 && (k <? W) then
              if Nat.eqb k lw || negb (part_nonempty W (bp_n bp) k) then
                ((g, {| bk_sv := bk_sv b; bk_loop := S k; bk_tasks := bk_tasks b; bk_calls := bk_calls b |}), l)
              else
                let '(g', l') := pl_tstep cfg (OAct (ASpawn (bp_pool bp) (bp_prio bp) (bulk_task_hint (bp_hint bp) k))) t g l in
                ((g', {| bk_sv := bk_sv b; bk_loop := S k; bk_tasks := (length (tasks g), k) :: bk_tasks b;
                         bk_calls := bk_calls b |}), l')
            else (G, l)
        | _, _, _, _ => (G, l)
        end
    | BF i =>
        match pc l, lrole l, cur l with
        | Idle, RWorker _ _, Some a =>
            match fcall_k b a with
            | Some k =>
                let '(g', l') := pl_tstep cfg (OAct (ACall (N.to_nat i))) t g l in
                ((g', {| bk_sv := bk_sv b; bk_loop := bk_loop b; bk_tasks := bk_tasks b;
                         bk_calls := {| fc_i := i; fc_k := k; fc_task := a; fc_thr := t |} :: bk_calls b |}), l')
            | None => (G, l)
            end
        | _, _, _ => (G, l)
        end
    end.

  Definition bk_run (roles : nat -> role) (sched : list (nat * boracle)) :=
    run bk_tstep sched ((g_init, bk_init), l_init roles).
End WithCfg.

(* ---------------------------------------------------------------- acceptor (for the harness) *)
Definition prio_low (pr : prio) : bool := match pr with PLow => true | _ => false end.
(* the hypotheses of C10_static_hint_pinned as a boolean: static policy, elasticity off, H = W (or no
   priority queues), 0 < W <= 32767, and the task is not a low-priority task of a priority scheduler *)
Definition static_okb (c : pool_cfg) (pr : prio) : bool :=
  negb (pSteal c) && negb (pElastic c) && (negb (pPrio c) || Nat.eqb (pH c) (pW c)) && (0 <? pW c) &&
  (Z.of_nat (pW c) <=? 32767)%Z && (negb (pPrio c) || negb (prio_low pr)).

(* worker on which task_function{k} must run; None = any worker of the pool.
   pr0 = priority of the task in which set_value runs, lw = its worker at that moment *)
Definition bulk_worker (c : pool_cfg) (bp : bulk_par) (pr0 : prio) (lw k : nat) : option nat :=
  if Nat.eqb k lw then (if static_okb c pr0 then Some lw else None)
  else if static_okb c (bp_prio bp) then
    match hint_num (bulk_task_hint (bp_hint bp) k) with
    | Some u => Some (Z.to_nat (u mod Z.of_nat (pW c)))
    | None => None
    end
  else None.

(* is "f called by task_function{k} on worker w of pool pw" admitted by the model? *)
Definition bulk_allowed (cfg : nat -> pool_cfg) (bp : bulk_par) (pr0 : prio) (lw k pw w : nat) : bool :=
  let c := cfg (bp_pool bp) in
  Nat.eqb pw (bp_pool bp) &&
  (Nat.eqb k lw || ((k <? pW c) && part_nonempty (pW c) (bp_n bp) k)) &&
  match bulk_worker c bp pr0 lw k with Some e => Nat.eqb w e | None => true end.
