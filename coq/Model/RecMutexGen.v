(* Model/RecMutexGen.v — C06, round p12b: pika::detail::recursive_mutex_impl<Mutex> (recursive_mutex.hpp) as a LAYER
   over ANY underlying lock given as a step machine.  Executable definitions only; proofs live in
   Proofs/RecMutexGenProofs.v.

   The recursive layer is the one of Model/Mutex.v (rm_tstep), access by access:
     620 load locking_context, 621 ++recursion_count, <underlying lock() / try_lock()>, 622 locking_context.exchange(self),
     623 recursion_count.store(1), 624 --recursion_count, 625 locking_context.exchange(null), <underlying unlock()>.
   What differs: the three calls into `Mutex mtx` are not inlined spinlock accesses but CALLS into an arbitrary underlying
   step machine [ustep] with its own shared state UG, its own per-thread local state UL (kept inside the layer's local
   state, field [gul]) and its own oracle UO.  A call is started by [ucall op] (a purely local action of the caller, done
   in the same step as the layer's preceding access), then every step of the thread is one step of [ustep] until
   [uidle] says the call has returned; the result of try_lock() is read off the underlying model's observation [holds]
   of the caller's own local state (the callers of try_lock do not hold, so "holds afterwards" = "returned true").
   The underlying lock() may take any number of steps and may block (steps that change nothing) or suspend.

   Environment operations GOEnv x: user code between the calls that runs steps of the underlying machine which are not
   lock operations (for pika::mutex: this_thread::yield, a stale wake-up token arriving, a write to unprotected data).

   Two instances: the spinlock (sl_tstep) and pika::mutex (mx_tstep: waiter queue, agent suspend / resume, stale tokens). *)
From Coq Require Import List NArith Bool Arith.
From Pika Require Import Base.Conc Base.Agent Model.Mutex.
Import ListNotations.

(* operations of the underlying lock the layer (or, for UEnv, user code) calls *)
Inductive uop (X : Type) := ULock | UTry | UUnlock | UEnv (x : X).
Arguments ULock {X}. Arguments UTry {X}. Arguments UUnlock {X}. Arguments UEnv {X} x.

(* user programs of the recursive mutex *)
Inductive rg_op (X : Type) := GOLock | GOTry | GOUnlock | GOEnv (x : X).
Arguments GOLock {X}. Arguments GOTry {X}. Arguments GOUnlock {X}. Arguments GOEnv {X} x.

Inductive rg_pc :=
  | GIdle
  | GInc        (* 621 *)
  | GLock       (* inside mtx.lock() *)
  | GTry        (* inside mtx.try_lock() *)
  | GPub        (* 622 *)
  | GStore      (* 623 *)
  | GClr        (* 625 *)
  | GRel        (* inside mtx.unlock() *)
  | GEnv.       (* inside an environment operation of the underlying machine *)

Record rg_shared (UG : Type) := { gcount : N; gctx : option nat; gu : UG; glog : list rm_ev (* newest first *) }.
Arguments gcount {UG}. Arguments gctx {UG}. Arguments gu {UG}. Arguments glog {UG}.
Record rg_local (X UL : Type) := { g_todo : list (rg_op X); g_pc : rg_pc; gdepth : nat (* ghost *); gul : UL }.
Arguments g_todo {X UL}. Arguments g_pc {X UL}. Arguments gdepth {X UL}. Arguments gul {X UL}.

Section RecGen.
  Variables (X UG UL UO : Type).
  Variable ustep : UO -> nat -> UG -> UL -> UG * UL.     (* one atomic step of thread t inside the underlying machine *)
  Variable ucall : uop X -> UL -> UL.                    (* start a call (local) *)
  Variable uidle : UL -> bool.                           (* no call in progress / the call has returned *)
  Variable holds : UL -> bool.                           (* the underlying model's own "this thread holds the lock" *)
  Variable ug0 : UG.
  Variable ul0 : nat -> UL.

  Definition rg_at (l : rg_local X UL) (p : rg_pc) : rg_local X UL :=
    {| g_todo := g_todo l; g_pc := p; gdepth := gdepth l; gul := gul l |}.
  Definition rg_call (l : rg_local X UL) (p : rg_pc) (op : uop X) : rg_local X UL :=
    {| g_todo := g_todo l; g_pc := p; gdepth := gdepth l; gul := ucall op (gul l) |}.
  Definition rg_ev (t : nat) (k : rm_op) (r : bool) (c : N) : rm_ev :=
    {| rm_tid := t; rm_kind := k; rm_res := r; rm_cnt := c |}.
  Definition rg_kind_of (l : rg_local X UL) : rm_op :=
    match g_todo l with GOTry :: _ => RTry | GOUnlock :: _ => RUnlock | _ => RLock end.
  Definition rg_setu (g : rg_shared UG) (u : UG) : rg_shared UG :=
    {| gcount := gcount g; gctx := gctx g; gu := u; glog := glog g |}.

  Definition rg_tstep (o : UO) (t : nat) (g : rg_shared UG) (l : rg_local X UL) : rg_shared UG * rg_local X UL :=
    match g_pc l with
    | GIdle =>
        match g_todo l with
        | [] => (g, l)
        | GOUnlock :: rest =>
            (* user code unlocks only what it holds (the class does not check) *)
            if Nat.eqb (gdepth l) 0 then (g, {| g_todo := rest; g_pc := GIdle; gdepth := 0; gul := gul l |})
            else                                  (* 624: --recursion_count *)
              let c := N.pred (gcount g) in
              if N.eqb c 0 then
                ({| gcount := c; gctx := gctx g; gu := gu g; glog := glog g |},
                 {| g_todo := g_todo l; g_pc := GClr; gdepth := Nat.pred (gdepth l); gul := gul l |})
              else
                ({| gcount := c; gctx := gctx g; gu := gu g; glog := rg_ev t RUnlock true c :: glog g |},
                 {| g_todo := rest; g_pc := GIdle; gdepth := Nat.pred (gdepth l); gul := gul l |})
        | GOLock :: _ =>                          (* 620: load locking_context; not the owner -> call mtx.lock() *)
            if onat_eqb (gctx g) t then (g, rg_at l GInc) else (g, rg_call l GLock ULock)
        | GOTry :: _ =>                           (* 620; not the owner -> call mtx.try_lock() *)
            if onat_eqb (gctx g) t then (g, rg_at l GInc) else (g, rg_call l GTry UTry)
        | GOEnv x :: _ => (g, rg_call l GEnv (UEnv x))
        end
    | GInc =>                                     (* 621: ++recursion_count *)
        let c := N.succ (gcount g) in
        ({| gcount := c; gctx := gctx g; gu := gu g; glog := rg_ev t (rg_kind_of l) true c :: glog g |},
         {| g_todo := tl (g_todo l); g_pc := GIdle; gdepth := S (gdepth l); gul := gul l |})
    | GLock =>                                    (* one step inside mtx.lock() *)
        let r := ustep o t (gu g) (gul l) in
        (rg_setu g (fst r),
         {| g_todo := g_todo l; g_pc := if uidle (snd r) then GPub else GLock; gdepth := gdepth l; gul := snd r |})
    | GTry =>                                     (* one step inside mtx.try_lock() *)
        let r := ustep o t (gu g) (gul l) in
        if uidle (snd r) then
          if holds (snd r) then
            (rg_setu g (fst r), {| g_todo := g_todo l; g_pc := GPub; gdepth := gdepth l; gul := snd r |})
          else
            ({| gcount := gcount g; gctx := gctx g; gu := fst r; glog := rg_ev t RTry false 0 :: glog g |},
             {| g_todo := tl (g_todo l); g_pc := GIdle; gdepth := gdepth l; gul := snd r |})
        else (rg_setu g (fst r), {| g_todo := g_todo l; g_pc := GTry; gdepth := gdepth l; gul := snd r |})
    | GPub =>                                     (* 622: locking_context.exchange(self) *)
        ({| gcount := gcount g; gctx := Some t; gu := gu g; glog := glog g |}, rg_at l GStore)
    | GStore =>                                   (* 623: recursion_count.store(1) *)
        ({| gcount := 1; gctx := gctx g; gu := gu g; glog := rg_ev t (rg_kind_of l) true 1 :: glog g |},
         {| g_todo := tl (g_todo l); g_pc := GIdle; gdepth := 1; gul := gul l |})
    | GClr =>                                     (* 625: locking_context.exchange(null); then call mtx.unlock() *)
        ({| gcount := gcount g; gctx := None; gu := gu g; glog := glog g |}, rg_call l GRel UUnlock)
    | GRel =>                                     (* one step inside mtx.unlock() *)
        let r := ustep o t (gu g) (gul l) in
        if uidle (snd r) then
          ({| gcount := gcount g; gctx := gctx g; gu := fst r; glog := rg_ev t RUnlock true 0 :: glog g |},
           {| g_todo := tl (g_todo l); g_pc := GIdle; gdepth := gdepth l; gul := snd r |})
        else (rg_setu g (fst r), {| g_todo := g_todo l; g_pc := GRel; gdepth := gdepth l; gul := snd r |})
    | GEnv =>                                     (* one step of an environment operation *)
        let r := ustep o t (gu g) (gul l) in
        (rg_setu g (fst r),
         {| g_todo := if uidle (snd r) then tl (g_todo l) else g_todo l;
            g_pc := if uidle (snd r) then GIdle else GEnv; gdepth := gdepth l; gul := snd r |})
    end.

  Definition rg_init : rg_shared UG := {| gcount := 0; gctx := None; gu := ug0; glog := [] |}.
  Definition rg_locals (progs : nat -> list (rg_op X)) : nat -> rg_local X UL :=
    fun t => {| g_todo := progs t; g_pc := GIdle; gdepth := 0; gul := ul0 t |}.
  Definition rg_run (sched : list (nat * UO)) (progs : nat -> list (rg_op X)) :=
    run rg_tstep sched (rg_init, rg_locals progs).
End RecGen.

(* between an outermost acquisition (the underlying lock()/try_lock() returned true) and the return of the final
   underlying unlock(): nesting depth > 0, or publishing / retracting the ownership *)
Definition rg_owns {X UL : Type} (l : rg_local X UL) : Prop :=
  gdepth l <> 0 \/ g_pc l = GPub \/ g_pc l = GStore \/ g_pc l = GClr \/ g_pc l = GRel.

(* ------------------------------------------------------------------------------------------ *)
(* Instance 1: recursive_mutex_impl<spinlock> — the underlying machine is sl_tstep (no environment operations) *)
Definition sl_uop (op : uop Empty_set) : sl_op :=
  match op with ULock => SLock | UTry => STry | UUnlock => SUnlock | UEnv x => match x with end end.
Definition sl_ucall (op : uop Empty_set) (l : sl_local) : sl_local :=
  {| sl_todo := [sl_uop op]; sl_pcv := sl_pcv l; sl_held := sl_held l |}.
Definition sl_uidle (l : sl_local) : bool :=
  match sl_pcv l, sl_todo l with SIdle, [] => true | _, _ => false end.
Definition sl_ul0 : nat -> sl_local := fun _ => {| sl_todo := []; sl_pcv := SIdle; sl_held := false |}.

Definition rsl_tstep := rg_tstep Empty_set sl_shared sl_local unit sl_tstep sl_ucall sl_uidle sl_held.
Definition rsl_run (sched : list (nat * unit)) (progs : nat -> list (rg_op Empty_set)) :=
  rg_run Empty_set sl_shared sl_local unit sl_tstep sl_ucall sl_uidle sl_held sl_init sl_ul0 sched progs.

(* the instance IS the model of Model/Mutex.v that the lock-step harness replays (rm_tstep): abstraction of an instance
   state to an rm state (Proofs/RecMutexGenProofs.rsl_is_rm: it commutes with every step of every reachable state) *)
Definition rm_of_rg (k : rg_op Empty_set) : rm_op :=
  match k with GOLock => RLock | GOTry => RTry | GOUnlock => RUnlock | GOEnv x => match x with end end.
Definition rg_of_rm (k : rm_op) : rg_op Empty_set :=
  match k with RLock => GOLock | RTry => GOTry | RUnlock => GOUnlock end.
Definition rsl_abs_pc (p : rg_pc) (q : sl_pc) : rm_pc :=
  match p with
  | GIdle | GEnv => RIdle | GInc => RInc
  | GLock => match q with SIdle => RSpin | SXchg => RXchg end
  | GTry => RTXchg | GPub => RPub | GStore => RStore | GClr => RClr | GRel => RRel
  end.
Definition rsl_abs_g (g : rg_shared sl_shared) : rm_shared :=
  {| rv := slv (gu g); rcount := gcount g; rctx := gctx g; rholder := slholder (gu g); rmlog := glog g |}.
Definition rsl_abs_l (l : rg_local Empty_set sl_local) : rm_local :=
  {| rm_todo := map rm_of_rg (g_todo l); rm_pcv := rsl_abs_pc (g_pc l) (sl_pcv (gul l)); rdepth := gdepth l |}.

(* ------------------------------------------------------------------------------------------ *)
(* Instance 2: recursive_mutex_impl<pika::mutex> on tasks — the underlying machine is mx_tstep, with its waiter queue,
   agent suspend / resume and stale wake-up tokens; the layer calls lock, try_lock, unlock only (no timed operations) *)
Inductive mx_env := EWrite | EYield | ESpur.
Definition mx_envop (x : mx_env) : mx_op := match x with EWrite => OWrite | EYield => OYield | ESpur => OSpur end.
Definition mx_uop (op : uop mx_env) : mx_op :=
  match op with ULock => OLock | UTry => OTry | UUnlock => OUnlock | UEnv x => mx_envop x end.
Definition mx_ucall (op : uop mx_env) (l : mx_local) : mx_local :=
  {| todo := [mx_uop op]; pc := pc l; held := held l |}.
Definition mx_uidle (l : mx_local) : bool :=
  match pc l, todo l with PIdle, [] => true | _, _ => false end.
Definition mx_ul0 : nat -> mx_local := fun _ => {| todo := []; pc := PIdle; held := false |}.

Definition rmx_tstep := rg_tstep mx_env mx_shared mx_local bool mx_tstep mx_ucall mx_uidle held.
Definition rmx_run (sched : list (nat * bool)) (progs : nat -> list (rg_op mx_env)) :=
  rg_run mx_env mx_shared mx_local bool mx_tstep mx_ucall mx_uidle held mx_init mx_ul0 sched progs.

(* the recursive layer never provokes the errors pika::mutex reports for misuse *)
Definition mx_is_error (e : mx_ev) : bool := match e with EDead _ | EErr _ => true | _ => false end.

(* nothing can move: every task has finished its program or is blocked inside the underlying lock()'s suspend *)
Definition rmx_finished (l : rg_local mx_env mx_local) : Prop := g_pc l = GIdle /\ g_todo l = [].
Definition rmx_blocked_in_lock (g : rg_shared mx_shared) (l : rg_local mx_env mx_local) (t : nat) : Prop :=
  g_pc l = GLock /\ blocked_in_lock (gu g) (gul l) t.
Definition rmx_stuck (g : rg_shared mx_shared) (ls : nat -> rg_local mx_env mx_local) : Prop :=
  forall t, rmx_finished (ls t) \/ rmx_blocked_in_lock g (ls t) t.
