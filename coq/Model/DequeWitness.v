(* Model/DequeWitness.v — the former F15 witness as data (used by Proofs/DequeProofs.v for
   [aba_witness_immune] and, extracted, by the check, which compares it with the schedule the
   harness executes on the real deque).  Before the repair of deque.hpp (link tags restarted at 0
   on reuse) A's final link CAS succeeded against the re-created node and the drain returned
   100,5,4; on the repaired code it fails and the drain returns 100,5,6.
   Thread 2 (the harness's main thread, running alone before the others start) prepares
   100,1 and a stale link: push_right 100, push_right 1, push_right 2, pop_right, push_left 3.
   Thread 0 (A) does push_right 4 and is stalled in stabilize_right between its second
   anchor check and its link CAS.  Thread 1 (B) does pop_right, pop_left, pop_right,
   push_right 5, push_right 6, which frees and re-creates the same two addresses through the
   LIFO freelist.  Then A continues: its link CAS fails and push_right returns (one step).
   Thread 3 drains from the left. *)
From Coq Require Import List NArith.
From Pika Require Import Base.Conc Model.IndexQueue Model.DequeSpec Model.Deque.
Import ListNotations.
Local Open Scope N_scope.

Definition aba_k : N := 4.
Definition aba_progs (t : nat) : list dop :=
  match t with
  | 2%nat => [Push SR 100; Push SR 1; Push SR 2; Pop SR; Push SL 3]
  | 0%nat => [Push SR 4]
  | 1%nat => [Pop SR; Pop SL; Pop SR; Push SR 5; Push SR 6]
  | 3%nat => [Pop SL; Pop SL; Pop SL; Pop SL; Pop SL]
  | _ => []
  end.
(* schedule of the concurrent phase (threads 0 and 1): A runs 9 steps (alloc, init, load,
   store, anchor CAS, link load, check, link load, check — now before the link CAS), B runs its
   five operations, A finishes with the (failing) link CAS *)
Definition aba_sched : list nat :=
  repeat 0%nat 9 ++ repeat 1%nat 42 ++ repeat 0%nat 1.

(* ---- second schedule: the other half of the repair.  Here the target link R0.right is written by
   the PRIVATE STORE of push_left in both incarnations of R0: the main thread builds
   [3(X); 51; 50; 1(R0)] with R0.right = (X, t+1) stale — R0 was pushed on the left of 100 (store
   (Z, t)), 50 and 51 were pushed left of it, 100 was popped, 2 was pushed right of it on chunk X
   (stabilize_right CAS (Z,t) -> (X,t+1)) and popped again, 3 re-uses X on the left.  A = push_right 4
   is stalled before its link CAS with expected value (X, t+1).  B pops 4, 3, 1, re-pushes R0 (5) and
   X (6) on the left, pops 50, 51, 6 and pushes 7 on the right, which re-uses X: stabilize_right
   CASes R0.right from what push_left stored to (X, that tag + 1).  If alloc_node OR the private
   store restarts the tag this is (X, t+1) again and A's CAS succeeds (drain 5,4: 4 twice, 7 lost —
   observed on the real deque with either half of the fix reverted); on the repaired code the drain
   is 5,7. ---- *)
Definition aba2_progs (t : nat) : list dop :=
  match t with
  | 2%nat => [Push SR 100; Push SL 1; Push SL 50; Pop SR; Push SL 51; Push SR 2; Pop SR; Push SL 3]
  | 0%nat => [Push SR 4]
  | 1%nat => [Pop SR; Pop SL; Pop SR; Push SL 5; Push SL 6; Pop SR; Pop SR; Pop SL; Push SR 7]
  | 3%nat => [Pop SL; Pop SL; Pop SL; Pop SL; Pop SL]
  | _ => []
  end.
Definition aba2_sched : list nat :=
  repeat 0%nat 9 ++ repeat 1%nat 70 ++ repeat 0%nat 1.

(* ---- the mirror images of both schedules (left and right exchanged in the main thread's and in A's
   and B's programs): they exercise stabilize_left and the LEFT link's tag — word 0 of the chunk,
   whose pointer bits the freelist overwrites.  A corrupted left link is invisible to the drain from
   the left (pop_left follows right links), so A pops [extra] times from the right after its push.
   The code is symmetric, so B needs the same number of steps; A's tail is longer. ---- *)
Definition mirror_op (o : dop) : dop :=
  match o with Push s v => Push (opp s) v | Pop s => Pop (opp s) end.
Definition mirror_progs (p : nat -> list dop) (extra : nat) (t : nat) : list dop :=
  match t with
  | 3%nat => p t
  | 0%nat => map mirror_op (p t) ++ repeat (Pop SR) extra
  | _ => map mirror_op (p t)
  end.
Definition aba3_progs := mirror_progs aba_progs 3.
Definition aba4_progs := mirror_progs aba2_progs 2.
Definition aba3_sched : list nat := repeat 0%nat 9 ++ repeat 1%nat 42 ++ repeat 0%nat 14.
Definition aba4_sched : list nat := repeat 0%nat 9 ++ repeat 1%nat 70 ++ repeat 0%nat 9.
