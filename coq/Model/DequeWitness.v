(* Model/DequeWitness.v — the F15 witness as data (used by Proofs/DequeProofs.v for
   [deque_aba_refuted] and, extracted, by the check, which compares it with the schedule the
   harness executes on the real deque).
   Thread 2 (the harness's main thread, running alone before the others start) prepares
   100,1 and a stale link: push_right 100, push_right 1, push_right 2, pop_right, push_left 3.
   Thread 0 (A) does push_right 4 and is stalled in stabilize_right between its second
   anchor check and its link CAS.  Thread 1 (B) does pop_right, pop_left, pop_right,
   push_right 5, push_right 6, which frees and re-creates the same two addresses through the
   LIFO freelist.  Then A continues.  Thread 3 drains from the left. *)
From Coq Require Import List NArith.
From Pika Require Import Base.Conc Model.IndexQueue Model.DequeSpec Model.Deque.
Import ListNotations.
Local Open Scope N_scope.

Definition aba_k : N := 4.
Definition aba_progs (t : nat) : list dop :=
  match t with
  | 2%nat => [Push SR 100; Push SR 1; Push SR 2; Pop SR; Push SL 3]
  | 0%nat => [Push SR 4]
  | 1%nat => [Pop SR; Pop SL; Pop SR; Push SR 5; Push SR 6]
  | 3%nat => [Pop SL; Pop SL; Pop SL; Pop SL; Pop SL]
  | _ => []
  end.
(* schedule of the concurrent phase (threads 0 and 1): A runs 9 steps (alloc, init, load,
   store, anchor CAS, link load, check, link load, check — now before the link CAS), B runs its
   five operations, A finishes *)
Definition aba_sched : list nat :=
  repeat 0%nat 9 ++ repeat 1%nat 42 ++ repeat 0%nat 2.
