(* Proofs/CondVarProofs.v — C07: the theorems about Model/CondVar.v *)
From Coq Require Import List NArith Bool Arith Lia.
From Pika Require Import Base.Conc Base.Agent Model.CondVar Proofs.CondVarInvA Proofs.CondVarInvB Proofs.CondVarInvC.
Import ListNotations.

Lemma list_neq_cons {A} (x : A) l : l <> x :: l.
Proof. intros H. apply (f_equal (@length A)) in H. cbn in H. lia. Qed.

(* ---- atomic release ---- *)
Lemma cv_released_is_queued : forall isos progs sched t,
  let c := cv_run isos sched progs in
  released_waiting (cpc (snd c t)) = true ->
  In t (cqueue (fst c)) \/ sig (fst c) t = true.
Proof.
  intros isos progs sched t c Hr. pose proof (cv_reach_inv isos progs sched) as I. fold c in I.
  assert (Hw : in_wait (cpc (snd c t)) = true) by (destruct (cpc (snd c t)); try discriminate; reflexivity).
  destruct (in_dec Nat.eq_dec t (cqueue (fst c))) as [Hi|Hi]; [left; exact Hi|right].
  apply (c_s _ _ _ I t Hw). exact Hi.
Qed.

Lemma cv_atomic_release : forall isos progs sched t n,
  let c := cv_run isos sched progs in
  hu (snd c t) = false ->
  (cpc (snd c t) = CPush \/ released_waiting (cpc (snd c t)) = true) ->
  holds_i (cpc (snd c n)) = true -> n <> t ->
  In t (cqueue (fst c)) \/ sig (fst c) t = true.
Proof.
  intros isos progs sched t n c _ [Hp|Hr] Hn Hne; [|now apply cv_released_is_queued].
  pose proof (cv_reach_inv isos progs sched) as I. fold c in I.
  apply (c_i _ _ _ I) in Hn. assert (Ht : holds_i (cpc (snd c t)) = true) by (rewrite Hp; reflexivity).
  apply (c_i _ _ _ I) in Ht. congruence.
Qed.

(* ---- no notification is lost ---- *)
Lemma cv_blocked_registered : forall isos progs sched t,
  let c := cv_run isos sched progs in
  blocked (cag (fst c) t) = true ->
  cpc (snd c t) = CSusp /\
  ((In t (cqueue (fst c)) /\ sig (fst c) t = false) \/
   (In t (pend (fst c)) /\ exists n, ilock (fst c) = Some n /\ is_nres (cpc (snd c n)) = true)).
Proof.
  intros isos progs sched t c Hb. pose proof (cv_reach_inv isos progs sched) as I. fold c in I.
  destruct (c_b _ _ _ I t Hb) as [Hp Hin]. split; [exact Hp|].
  rewrite in_app_iff in Hin. destruct Hin as [Hin|Hin].
  - left. split; [exact Hin|]. assert (Hw : in_wait (cpc (snd c t)) = true) by (rewrite Hp; reflexivity).
    destruct (sig (fst c) t) eqn:Es; [|reflexivity]. apply (c_s _ _ _ I t Hw) in Es. contradiction.
  - right. split; [exact Hin|]. apply (c_p _ _ _ I). intros Hn. rewrite Hn in Hin. exact Hin.
Qed.

(* a waiter that a notifier popped is not blocked once the notifier has left its critical section *)
Lemma cv_notified_not_blocked : forall isos progs sched t,
  let c := cv_run isos sched progs in
  sig (fst c) t = true -> in_wait (cpc (snd c t)) = true -> ilock (fst c) = None ->
  blocked (cag (fst c) t) = false.
Proof.
  intros isos progs sched t c Hs Hw Hi. destruct (blocked (cag (fst c) t)) eqn:Hb; [|reflexivity].
  destruct (cv_blocked_registered isos progs sched t Hb) as [_ [[_ H]|[_ [n [H _]]]]]; fold c in H; congruence.
Qed.

(* notify_one: the critical section takes exactly the head of the queue, marks it notified and resumes it;
   notify_all: all of them *)
Lemma notify_one_pops_head : forall isos late t g td reps il h r w q,
  cqueue g = w :: q ->
  let l := {| ctodo := td; cpc := NPop false reps il; hu := h; reg := r |} in
  let s := cv_tstep isos late t g l in
  cqueue (fst s) = q /\ pend (fst s) = [w] /\ sig (fst s) w = true /\
  cvlog (fst s) = ENotify t false 1 :: cvlog g /\ cpc (snd s) = NRes false reps il.
Proof.
  intros isos late t g td reps il h r w q Hq. cbn. rewrite Hq. cbn. rewrite Nat.eqb_refl. cbn. repeat split.
Qed.

Lemma notify_all_pops_all : forall isos late t g td reps il h r,
  let l := {| ctodo := td; cpc := NPop true reps il; hu := h; reg := r |} in
  let s := cv_tstep isos late t g l in
  cqueue (fst s) = [] /\ pend (fst s) = cqueue g /\ (forall w, In w (cqueue g) -> sig (fst s) w = true) /\
  cvlog (fst s) = ENotify t true (length (cqueue g)) :: cvlog g /\ cpc (snd s) = NRes true reps il.
Proof.
  intros isos late t g td reps il h r. cbn. repeat split. intros w Hw. apply cmem_true in Hw. now rewrite Hw.
Qed.

Lemma resume_unblocks_head : forall isos late t g l a reps il w rest,
  cpc l = NRes a reps il -> pend g = w :: rest -> (isos w = false \/ blocked (cag g w) = true) ->
  let s := cv_tstep isos late t g l in
  pend (fst s) = rest /\ blocked (cag (fst s) w) = false /\ cqueue (fst s) = cqueue g /\ snd s = l.
Proof.
  intros isos late t g l a reps il w rest Hp Hq Hw. unfold cv_tstep. rewrite Hp, Hq.
  destruct (isos w) eqn:Eo.
  - destruct Hw as [Hw|Hw]; [discriminate|]. rewrite Hw. cbn. rewrite upd_same. repeat split.
  - cbn. rewrite upd_same. repeat split.
Qed.

(* ---- return values ---- *)
Lemma ret_with_lock_and_pred_inv : forall isos late t op b g (ls : locals cv_local), cv_inv isos g ls ->
  let s := cv_tstep isos late t g (ls t) in
  cvlog (fst s) = ERet t op b :: cvlog g -> op <> CDWait ->
  uowner (fst s) = Some t /\ hu (snd s) = true /\ (is_pred_op op = true -> b = flag (fst s)).
Proof.
  intros isos late t op b g ls I.
  pose proof (c_lu _ _ _ I t) as Hlu. pose proof (proj1 (c_u _ _ _ I t)) as Hu. pose proof (c_pf _ _ _ I t) as Hpf.
  cbv zeta.
  cv_cases isos t g ls E; rewrite ?E in *; lsimp; cbn [cvlog g_log g_u g_i g_q g_stop uowner flag];
    intros Hl Hop; try (exfalso; exact (list_neq_cons _ _ Hl));
    try discriminate Hl; inversion Hl; subst; try (exfalso; apply Hop; reflexivity);
    cbn [is_pred_op]; repeat split; auto; try discriminate; try congruence.
  all: try (symmetry; apply Hpf; reflexivity).
Qed.

Lemma wait_returns_with_lock_and_pred : forall isos progs sched late t op b,
  let c := cv_run isos sched progs in
  let s := cv_tstep isos late t (fst c) (snd c t) in
  cvlog (fst s) = ERet t op b :: cvlog (fst c) -> op <> CDWait ->
  uowner (fst s) = Some t /\ hu (snd s) = true /\ (is_pred_op op = true -> b = flag (fst s)).
Proof.
  intros isos progs sched late t op b c. apply ret_with_lock_and_pred_inv. apply cv_reach_inv.
Qed.

(* the value a timed wait reports is exactly "a notifier cleared my entry" *)
Lemma timed_check_is_notified : forall isos progs sched t,
  let c := cv_run isos sched progs in
  cpc (snd c t) = CCheck ->
  negb (cmem t (cqueue (fst c))) = sig (fst c) t.
Proof.
  intros isos progs sched t c Hp. pose proof (cv_reach_inv isos progs sched) as I. fold c in I.
  assert (Hw : in_wait (cpc (snd c t)) = true) by (rewrite Hp; reflexivity).
  pose proof (c_s _ _ _ I t Hw) as Hs.
  destruct (cmem t (cqueue (fst c))) eqn:Em; cbn.
  - apply cmem_true in Em. destruct (sig (fst c) t); [|reflexivity]. exfalso. apply (proj1 Hs); auto.
  - apply cmem_false in Em. symmetry. apply Hs. exact Em.
Qed.

Lemma timed_wait_reports : forall isos late t g td h r sg,
  uowner g = None ->
  let l := {| ctodo := CWaitFor :: td; cpc := CLockU sg; hu := h; reg := r |} in
  cvlog (fst (cv_tstep isos late t g l)) = ERet t CWaitFor sg :: cvlog g.
Proof. intros isos late t g td h r sg Hu. cbn. rewrite Hu. cbn. destruct r; reflexivity. Qed.

(* ---- stuck states (pika tasks only: resume never blocks) ---- *)
Lemma tasks_stuck_no_i_holder : forall isos g (ls : locals cv_local),
  (forall w, isos w = false) -> cv_inv isos g ls -> cv_stuck isos g ls -> ilock g = None.
Proof.
  intros isos g ls Hos I Hst. destruct (ilock g) as [n|] eqn:Ei; [|reflexivity]. exfalso.
  pose proof (proj2 (c_i _ _ _ I n) Ei) as Hh. specialize (Hst n). unfold cv_enabled in Hst.
  destruct (cpc (ls n)); try discriminate.
  destruct (pend g) as [|w ?]; [discriminate|]. rewrite Hos in Hst. discriminate.
Qed.

(* no notification is lost: whoever is still blocked when nothing can move has never been notified in
   its current wait (its entry is still queued and no notifier ever cleared it) *)
Lemma stuck_blocked_never_notified : forall isos progs sched t,
  (forall w, isos w = false) ->
  let c := cv_run isos sched progs in
  cv_stuck isos (fst c) (snd c) -> blocked (cag (fst c) t) = true ->
  In t (cqueue (fst c)) /\ sig (fst c) t = false /\ pend (fst c) = [].
Proof.
  intros isos progs sched t Hos c Hst Hb. pose proof (cv_reach_inv isos progs sched) as I. fold c in I.
  pose proof (tasks_stuck_no_i_holder isos _ _ Hos I Hst) as Hi.
  destruct (cv_blocked_registered isos progs sched t Hb) as [_ [[H1 H2]|[_ [n [H _]]]]]; [|unfold c in Hi; congruence].
  repeat split; auto. destruct (pend (fst c)) eqn:Ep; [reflexivity|].
  destruct (c_p _ _ _ I) as [m [Hn _]]; [rewrite Ep; discriminate|congruence].
Qed.

(* resume of a pika task never blocks: a notifier inside its critical section can always move *)
Lemma task_notify_never_blocks : forall isos t g l,
  (forall w, isos w = false) -> holds_i (cpc l) = true -> cv_enabled isos t g l = true.
Proof.
  intros isos t g l Hos Hh. unfold cv_enabled. destruct (cpc l); try discriminate Hh; try reflexivity.
  destruct (pend g); [reflexivity|]. now rewrite Hos.
Qed.

(* F14 — plain OS threads: X waits with a deadline, Y notifies before the deadline.  Y pops X's entry and
   blocks inside default_agent::resume holding the internal lock (X is sleeping, i.e. "running"); when X's
   deadline passes it needs the internal lock.  Nothing can move any more and neither call has returned. *)
Definition f14_progs (t : nat) : list cv_op :=
  match t with 0 => [CLockUOp; CWaitFor; CUnlockUOp] | 1 => [CNotifyOne] | _ => [] end.
Definition f14_sched : list (nat * bool) :=
  [(0,false);(0,false);(0,false);(0,false);(0,false);(0,false);(1,false);(1,false);(1,false);(0,true)].

Lemma os_timed_wait_blocks_notifier_refuted :
  exists progs sched,
    let c := cv_run (fun _ => true) sched progs in
    cv_stuck (fun _ => true) (fst c) (snd c) /\
    (exists a r i, cpc (snd c 1) = NRes a r i) /\ ilock (fst c) = Some 1 /\ pend (fst c) = [0] /\
    cpc (snd c 0) = CRelockI /\ ctodo (snd c 0) = [CWaitFor; CUnlockUOp] /\ ctodo (snd c 1) = [CNotifyOne].
Proof.
  exists f14_progs, f14_sched. cbv zeta.
  split.
  - intros t. destruct t as [|[|t]]; vm_compute; reflexivity.
  - vm_compute. repeat split. exists false, 1, false. reflexivity.
Qed.

(* the disabled steps really are stutters *)
Lemma disabled_is_stutter : forall isos late t g l, cv_enabled isos t g l = false -> cv_tstep isos late t g l = (g, l).
Proof.
  intros isos late t g l. unfold cv_enabled, cv_tstep.
  destruct (cpc l); try discriminate; try (destruct (ilock g); [reflexivity|discriminate]).
  - destruct (ctodo l) as [|[] ?]; try discriminate; try reflexivity.
    destruct (hu l); [discriminate|]. destruct (uowner g); [reflexivity|discriminate].
  - destruct (blocked (cag g t)); [reflexivity|discriminate].
  - destruct (uowner g); [reflexivity|discriminate].
  - destruct (pend g) as [|w ?]; [discriminate|]. destruct (isos w); [|discriminate].
    intros H. rewrite H. reflexivity.
Qed.
