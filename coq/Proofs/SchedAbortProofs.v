(* Proofs/SchedAbortProofs.v — C02: helper_abort_sound.
   The retry helper (set_active_state) created by a set_thread_state that found its target u
   active with word prev holds a counted reference to u (thread_id_ref_type bound into the task
   function).  Invariant HInv: as long as such a helper exists — staged description or body of a
   thread object that has not yet executed set_active_state —
     * u has not been rebound (RInv: the count is >= 1, so u is in no heap): gid u is still the
       incarnation for which the helper was created (ghost event EvHelp (gid u) prev in the log);
     * tag prev <= tag (word u), with equality only if the word is still prev (tags never repeat
       within an incarnation: every change of the state adds 1; rebind_base would reset the tag
       to 0, which is why the reference count is needed);
     * either the word is still prev, or the phase with word prev has ended by a store that is in
       the log of this incarnation, and if that store published `suspended` then the suspension
       is either still there or was ended by a set_thread_state CAS (SiteSet) that is in the log.
   Hence at an abort (state equal, word different): same incarnation, tag cur > tag prev, the
   phase in which the wake-up was issued has ended, and if it ended in a suspension that
   suspension has already been woken: the abort drops only a wake-up that was absorbed. *)
From Coq Require Import List NArith Bool Arith Lia.
From Pika Require Import Base.Conc Gen.GenEnums Model.Sched Proofs.SchedProofs Proofs.SchedWakeProofs
  Proofs.SchedRecycleProofs Proofs.SchedDeltaProofs.
Import ListNotations.

Definition absorbed (g : G) (u : nat) (prev : word) : Prop :=
  exists nw, In (EvWord (gid g u) SiteStore prev nw) (log g) /\
    (st nw = st_suspended -> tw_of g u = nw \/ In (EvWord (gid g u) SiteSet nw (w_pending nw)) (log g)).

Definition HInv (g : G) : Prop :=
  forall u prev, halive g u prev ->
    u < ntasks g /\ st prev = st_active /\ In (EvHelp (gid g u) prev) (log g) /\
    (tag prev <= tag (tw_of g u))%N /\ (tag prev = tag (tw_of g u) -> tw_of g u = prev) /\
    (tw_of g u = prev \/ absorbed g u prev).

(* what every abort event of the log records *)
Definition abort_sound (lg : list ev) (i : nat) (prev cur : word) : Prop :=
  st prev = st_active /\ st cur = st_active /\ (tag prev < tag cur)%N /\
  In (EvHelp i prev) lg /\
  exists nw, In (EvWord i SiteStore prev nw) lg /\
             (st nw = st_suspended -> In (EvWord i SiteSet nw (w_pending nw)) lg).
Definition AInv (g : G) : Prop :=
  forall h i prev cur, In (EvAbort h i prev cur) (log g) -> abort_sound (log g) i prev cur.

(* ------------------------------------------------------------------ the helper's reference *)
Lemma halive_rc g ls u prev : RInv g ls -> halive g u prev -> 1 <= rc g u.
Proof.
  intros HR [H|(h & Hh & Hd)].
  - destruct (r_cnt _ _ HR) as (N & HS & Heq). rewrite Heq. unfold refs.
    assert (H1 := hsum_in _ _ u H). unfold hn in H1 at 1. cbn [href] in H1. rewrite ind_same in H1. lia.
  - assert (H1 := rc_ge_ht g ls h u HR Hh). rewrite Hd in H1. unfold hn in H1. cbn [href] in H1.
    rewrite ind_same in H1. exact H1.
Qed.

(* ------------------------------------------------------------------ word transitions and tags *)
Lemma word_ext (a b : word) : st a = st b -> tag a = tag b -> a = b.
Proof. destruct a, b; cbn; intros -> ->; reflexivity. Qed.

Lemma trans_ok_facts s o n :
  trans_ok s o n = true ->
  (n = o \/ (tag o < tag n)%N) /\
  (st o = st_active -> s = SiteStore) /\
  (st o = st_suspended -> s = SiteSet /\ n = w_pending o).
Proof.
  intros H. destruct s; cbn in H.
  - apply andb_true_iff in H. destruct H as [H H3]. apply andb_true_iff in H. destruct H as [H1 H2].
    apply sst_beq_true in H1, H2. apply N.eqb_eq in H3. split; [right; lia|].
    split; intros E; rewrite E in H1; discriminate.
  - apply andb_true_iff in H. destruct H as [H _]. apply andb_true_iff in H. destruct H as [H1 H2].
    apply sst_beq_true in H1. apply N.eqb_eq in H2. split; [right; lia|].
    split; [reflexivity|]. intros E; rewrite E in H1; discriminate.
  - apply andb_true_iff in H. destruct H as [H1 H]. apply sst_beq_true in H1.
    apply orb_true_iff in H. destruct H as [H|H]; apply andb_true_iff in H; destruct H as [H2 H3];
      apply sst_beq_true in H2; apply N.eqb_eq in H3.
    + split; [left; apply word_ext; congruence|]. split; intros E; rewrite E in H2; discriminate.
    + split; [right; lia|]. split; intros E; rewrite E in H2; discriminate.
  - apply andb_true_iff in H. destruct H as [H H3]. apply andb_true_iff in H. destruct H as [H1 H2].
    apply sst_beq_true in H1. apply N.eqb_eq in H2. split; [right; lia|].
    split.
    + intros E. rewrite E in H3. discriminate.
    + intros _. split; [reflexivity|]. apply word_ext; [exact H1 | exact H2].
Qed.

Lemma wlog_in l i s o n : wlog l = [(i, s, o, n)] -> In (EvWord i s o n) l.
Proof.
  intros H. assert (Hin : In (i, s, o, n) (wlog l)) by (rewrite H; now left).
  unfold wlog in Hin. apply in_flat_map in Hin. destruct Hin as (e & He & Hx).
  destruct e; cbn in Hx; try contradiction. destruct Hx as [Hx|[]]. inversion Hx; subst. exact He.
Qed.

(* ------------------------------------------------------------------ the step *)
Lemma HInv_step g ls g' : RInv g ls -> sdelta g g' -> HInv g -> HInv g'.
Proof.
  intros HR (l & El & _ & Hh & _ & Hsh) HH u prev Hal'.
  assert (Hmono : forall e, In e (log g) -> In e (log g')) by (intros e He; rewrite El; apply in_or_app; now right).
  assert (Hnew : forall e, In e l -> In e (log g')) by (intros e He; rewrite El; apply in_or_app; now left).
  assert (Hnt : ntasks g <= ntasks g').
  { destruct Hsh as [(_ & _ & E & _)|[(y & s & o & n & _ & _ & _ & E & _)|(x & [[_ E]|[_ E]] & _)]]; lia. }
  destruct (Hh u prev Hal') as [Hal|(Hu & Hs & Hw & Hw' & Hg & Hin)].
  2:{ (* created in this step *)
      split; [lia|]. split; [exact Hs|]. split; [rewrite Hg; now apply Hnew|].
      rewrite Hw'. split; [lia|]. split; [reflexivity | now left]. }
  destruct (HH u prev Hal) as (Hu & Hs & Hev & Hle & Heq & Habs).
  assert (Hrc := halive_rc g ls u prev HR Hal).
  assert (Hnf := not_free_rc g ls u HR Hrc).
  (* transfer when neither the word nor the incarnation of u changes *)
  assert (Hsame : gid g' u = gid g u -> tw_of g' u = tw_of g u ->
            u < ntasks g' /\ st prev = st_active /\ In (EvHelp (gid g' u) prev) (log g') /\
            (tag prev <= tag (tw_of g' u))%N /\ (tag prev = tag (tw_of g' u) -> tw_of g' u = prev) /\
            (tw_of g' u = prev \/ absorbed g' u prev)).
  { intros Eg Ew. rewrite Eg, Ew. split; [lia|]. split; [exact Hs|]. split; [now apply Hmono|].
    split; [exact Hle|]. split; [exact Heq|].
    destruct Habs as [H|(nw & H1 & H2)]; [now left | right].
    exists nw. rewrite Eg, Ew. split; [now apply Hmono|].
    intros Hn. destruct (H2 Hn) as [H|H]; [now left | right; now apply Hmono]. }
  destruct Hsh as [(Eg & _ & _ & Ew & _)|[(y & s & o & n & Hy & Eg & _ & _ & Eo & En & Eoth & Htr & Hwl & _)|
                   (x & Hx & Eg & _ & _ & Eoth & _)]].
  - apply Hsame; [now rewrite Eg | apply Ew].
  - destruct (Nat.eq_dec u y) as [->|Hne]; [|apply Hsame; [now rewrite Eg | now apply Eoth]].
    destruct (trans_ok_facts s o n Htr) as (Htag & Hact & Hsus).
    destruct Htag as [E|Hlt]; [apply Hsame; [now rewrite Eg | congruence]|].
    assert (Hlog := wlog_in _ _ _ _ _ Hwl). apply Hnew in Hlog.
    rewrite Eg, En. subst o.
    split; [lia|]. split; [exact Hs|]. split; [now apply Hmono|].
    split; [lia|]. split; [intros E; lia|]. right.
    destruct Habs as [H|(nw & H1 & H2)].
    + (* the word was still prev: this is the store that ends the phase *)
      rewrite H in *. specialize (Hact Hs). subst s.
      exists n. rewrite Eg, En. split; [exact Hlog|]. intros _. now left.
    + exists nw. rewrite Eg, En. split; [now apply Hmono|].
      intros Hn. right. destruct (H2 Hn) as [H|H]; [|now apply Hmono].
      (* the suspension was still there: this is the CAS that ends it *)
      rewrite H in *. destruct (Hsus Hn) as [-> ->]. exact Hlog.
  - assert (Hne : u <> x).
    { destruct Hx as [[-> _]|[Hin _]]; [lia|]. intros ->. apply Hnf. apply in_or_app. now right. }
    apply Hsame; [rewrite Eg; now apply upd_other | now apply Eoth].
Qed.

Lemma AInv_step g g' : sdelta g g' -> HInv g -> AInv g -> AInv g'.
Proof.
  intros (l & El & _ & _ & Hab & _) HH HA h i prev cur Hin.
  assert (Hmono : forall e, In e (log g) -> In e (log g')) by (intros e He; rewrite El; apply in_or_app; now right).
  assert (Hlift : abort_sound (log g) i prev cur -> abort_sound (log g') i prev cur).
  { intros (H1 & H2 & H3 & H4 & nw & H5 & H6). repeat split; auto. exists nw. split; auto. }
  rewrite El in Hin. apply in_app_or in Hin. destruct Hin as [Hin|Hin]; [|apply Hlift; eapply HA; eauto].
  apply Hlift. destruct (Hab h i prev cur Hin) as (u & -> & Hal & -> & Hst & Hne).
  destruct (HH u prev Hal) as (Hu & Hs & Hev & Hle & Heq & Habs).
  split; [exact Hs|]. split; [congruence|].
  split. { destruct (N.eq_dec (tag prev) (tag (tw_of g u))) as [E|E]; [exfalso; apply Hne; now apply Heq | lia]. }
  split; [exact Hev|].
  destruct Habs as [H|(nw & H1 & H2)]; [contradiction|].
  exists nw. split; [exact H1|]. intros Hn. destruct (H2 Hn) as [H|H]; [|exact H].
  exfalso. rewrite H, Hn in Hst. rewrite Hs in Hst. discriminate.
Qed.

(* ------------------------------------------------------------------ reachable states *)
Lemma AllInv_step o a g ls :
  AllInv g ls -> AllInv (fst (tstep o a g (ls a))) (upd ls a (snd (tstep o a g (ls a)))).
Proof.
  intros (H1 & H2 & [H3 H4] & H5). assert (HH := heap_ok_of _ _ H5).
  split; [now apply step_SInv|]. split; [now apply step_LogInv|].
  split; [split; [now apply step_W1 | now apply step_W5] | now apply step_RInv].
Qed.

Theorem HInv_reach sched ext : HInv (fst (sched_run sched ext)) /\ AInv (fst (sched_run sched ext)).
Proof.
  unfold sched_run.
  apply (run_inv _ _ _ tstep (fun g ls => AllInv g ls /\ HInv g /\ AInv g)).
  - intros o t g ls (HA & HH & HAb).
    assert (Hd := tstep_sdelta o t g ls (proj1 HA)).
    split; [now apply AllInv_step|]. split.
    + eapply HInv_step; [apply HA | exact Hd | exact HH].
    + eapply AInv_step; eauto.
  - split; [apply (AllInv_reach [] ext)|]. split.
    + intros u prev [H|(h & Hh & _)]; [destruct H | cbn in Hh; lia].
    + intros h i prev cur [].
Qed.

(* ------------------------------------------------------------------ helper_abort_sound *)
(* In every reachable configuration: if the next step of thread a is the abort branch of
   set_active_state for (u, prev) — it runs helper task t whose body is still HelperBody u prev,
   and the abort test `state equal /\ word different` succeeds on the current word of u — then
   (1) u is the object the wake-up was aimed at, still bound to the same incarnation: it is
       alive (count >= 1, not in terminated_items / a heap) and the helper was created for
       incarnation gid u with word prev (ghost event);
   (2) prev and the current word are both active and tag cur > tag prev: u has entered a new
       activation after the wake-up was issued;
   (3) the phase with word prev ended by a store logged for this incarnation, and if it ended in
       a suspension, that suspension has already been ended by a set_thread_state CAS;
   (4) no wake-up obligation of u for phase (tag prev) is outstanding, and any obligation that is
       outstanding belongs to a later phase (it is carried by W1 of the successor state). *)
Theorem helper_abort_sound sched ext a t orig u prev :
  let c := sched_run sched ext in
  let g := fst c in
  snd c a = WRun t orig SNone -> todo (tasks g t) = HelperBody u prev ->
  st (tw_of g u) = st prev -> tw_of g u <> prev ->
  (u < ntasks g /\ 1 <= rc g u /\ ~ In u (term g ++ heap g) /\ In (EvHelp (gid g u) prev) (log g)) /\
  (st prev = st_active /\ st (tw_of g u) = st_active /\ (tag prev < tag (tw_of g u))%N) /\
  (exists nw, In (EvWord (gid g u) SiteStore prev nw) (log g) /\
              (st nw = st_suspended -> In (EvWord (gid g u) SiteSet nw (w_pending nw)) (log g))) /\
  (~ needs_wake g u (tag prev) /\ forall p, needs_wake g u p -> (tag prev < p)%N).
Proof.
  intros c g Ha Htd Hst Hne.
  assert (HI := SInv_reach sched ext). assert (HR := RInv_reach sched ext).
  destruct (HInv_reach sched ext) as [HH _]. fold c in HI, HR, HH. fold g in HH.
  assert (Ht : t < ntasks g).
  { assert (Hpc := i_pc _ _ _ _ HI a). rewrite Ha in Hpc. destruct Hpc as [(Ht & _) _]. exact Ht. }
  assert (Hal : halive g u prev) by (right; exists t; auto).
  destruct (HH u prev Hal) as (Hu & Hs & Hev & Hle & Heq & Habs).
  assert (Hrc := halive_rc g (snd c) u prev HR Hal).
  assert (Hlt : (tag prev < tag (tw_of g u))%N).
  { destruct (N.eq_dec (tag prev) (tag (tw_of g u))) as [E|E]; [exfalso; apply Hne; now apply Heq | lia]. }
  split; [split; [exact Hu|]; split; [exact Hrc|]; split; [apply (not_free_rc g (snd c)); auto | exact Hev]|].
  split; [split; [exact Hs|]; split; [congruence | exact Hlt]|].
  split.
  { destruct Habs as [H|(nw & H1 & H2)]; [contradiction|].
    exists nw. split; [exact H1|]. intros Hn. destruct (H2 Hn) as [H|H]; [|exact H].
    exfalso. rewrite H, Hn, Hs in Hst. discriminate. }
  split.
  - intros [_ [H|H]].
    + apply Hne. rewrite H. unfold wA. apply word_ext; cbn; auto.
    + rewrite H, Hs in Hst. discriminate.
  - intros p [_ [H|H]].
    + rewrite H in Hlt. exact Hlt.
    + rewrite H, Hs in Hst. discriminate.
Qed.

(* the same for every abort the log has ever recorded (the harness sees these as hook 207) *)
Theorem helper_abort_log_sound sched ext h i prev cur :
  let lg := log (fst (sched_run sched ext)) in
  In (EvAbort h i prev cur) lg -> abort_sound lg i prev cur.
Proof. intros lg. destruct (HInv_reach sched ext) as [_ HA]. apply HA. Qed.

(* non-vacuity: a run in which a helper aborts.  T = [Yield]; the resume finds T active
   (active,1) and stages the helper; T yields and is entered again (active,3); only then does
   the helper run: state equal, word different -> abort *)
Definition ab_ext : nat -> option (list act) :=
  fun i => match i with 0 => Some [Spawn [Yield] true; Resume 0] | _ => None end.
Definition ab_sched : list (nat * oracle) :=
  [(0, oP); (1, oP); (1, oP); (1, oP);
   (0, oP); (0, oP); (0, oP);                   (* resume while (active,1): helper staged *)
   (1, oP); (1, oP); (1, oP); (1, oP);          (* T yields: (pending,2), re-queued *)
   (1, oP); (1, oP); (1, oP);                   (* popped again: (active,3) *)
   (2, oC); (2, oP); (2, oP); (2, oP)].         (* helper converted, popped, activated *)
