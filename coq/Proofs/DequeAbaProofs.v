(* Proofs/DequeAbaProofs.v — (generalisation of Proofs/DequeConcProofs.v: node reuse allowed)
   the repaired lock-free deque, UNGUARDED, for ALL thread counts,
   programs and schedules: every step of every thread preserves [Core] (Michael's chain invariant
   plus the register invariants) and is labelled by what it does to the abstract two-ended list
   ([Trans]); conservation and linearizability follow by induction over the schedule
   (Base/Conc.run_inv on the ghost-instrumented step of Model/DequeLin.v). *)
From Coq Require Import List NArith Bool Lia Arith Permutation.
From Pika Require Import Base.Conc Model.IndexQueue Model.DequeSpec Model.Deque Model.DequeLin
  Proofs.DequeProofs Proofs.DequeConcDefs Proofs.DequeConcStab Proofs.DequeAbaDefs Proofs.DequeAbaStab.
Import ListNotations.
Local Open Scope N_scope.

Lemma NoDup_app_remove_r {A} (l m : list A) : NoDup (l ++ m) -> NoDup l.
Proof.
  induction l as [|a l IH]; intros H; [constructor|]. cbn in H. inversion H as [|? ? Hn Hd]; subst.
  constructor; [|apply IH; exact Hd]. intros Hi. apply Hn. apply in_or_app. auto.
Qed.
Lemma NoDup_app_remove_l {A} (l m : list A) : NoDup (l ++ m) -> NoDup m.
Proof. induction l as [|a l IH]; intros H; [exact H|]. cbn in H. inversion H; subst. auto. Qed.
Lemma NoDup_app_disj {A} (l m : list A) x : NoDup (l ++ m) -> In x l -> In x m -> False.
Proof.
  induction l as [|a l IH]; intros H Hl Hm; [destruct Hl|]. cbn in H. inversion H as [|? ? Hn Hd]; subst.
  destruct Hl as [->|Hl]; [apply Hn; apply in_or_app; auto|eauto].
Qed.

(* ------------------------------------------------------------------ facts from Core *)
Section CoreFacts.
  Variables (g : dq_shared) (ls : locals dq_local) (c pend : list addr).
  Hypothesis HC : Core g ls c pend.

  Lemma live_pos a : live g a -> 0 < a < fresh g.
  Proof. unfold live. intros H. apply (co_alloc _ _ _ _ HC). intros E. rewrite E in H. discriminate. Qed.

  Lemma chain_pos a : In a c -> 0 < a < fresh g.
  Proof. intros H. apply live_pos. apply (co_live _ _ _ _ HC). apply in_app_l. exact H. Qed.

  Lemma chain_nz a : In a c -> epoch g a <> 0.
  Proof.
    intros H E. pose proof (co_live _ _ _ _ HC a (in_app_l _ _ _ H)) as L. unfold live in L. rewrite E in L. discriminate.
  Qed.

  Lemma ends_nil s : aend s (anc g) = 0 -> c = [].
  Proof.
    intros H. rewrite (co_ends _ _ _ _ HC) in H. remember (vw s c) as w eqn:E. symmetry in E. destruct w as [|a r]; [eapply vw_nil; eauto|].
    cbn in H. subst a. assert (In 0 c) by (apply (proj1 (in_vw s c 0)); rewrite E; left; reflexivity).
    apply chain_pos in H. lia.
  Qed.

  Lemma ends_hd s : aend s (anc g) <> 0 -> exists r, vw s c = aend s (anc g) :: r.
  Proof.
    intros H. rewrite (co_ends _ _ _ _ HC) in *. destruct (vw s c) as [|a r]; [cbn in H; congruence|].
    exists r. reflexivity.
  Qed.

  Lemma nodup_c : NoDup c.
  Proof. eapply NoDup_app_remove_r. apply (co_nodup _ _ _ _ HC). Qed.

  Lemma nodup_vw s : NoDup (vw s c).
  Proof. eapply Permutation_NoDup; [apply vw_perm|apply nodup_c]. Qed.

  Lemma ushape_of s : ast (anc g) = push_status s -> ushape s g c.
  Proof. intros H. pose proof (co_shape _ _ _ _ HC) as S. unfold shape_ok in S. rewrite H in S. destruct s; exact S. Qed.

  Lemma stable_linked s : ast (anc g) = Stable -> linkedS s (heap g) (vw s c).
  Proof. intros H. pose proof (co_shape _ _ _ _ HC) as S. unfold shape_ok in S. rewrite H in S. apply linkedS_vw. exact S. Qed.

  Lemma unstable_ends s s' : ast (anc g) = push_status s -> aend s' (anc g) <> 0.
  Proof.
    intros H E. apply ends_nil in E. destruct (ushape_of s H) as (n & p & r & V & _). rewrite E in V.
    destruct s; discriminate.
  Qed.

  Lemma ends_far s : aend (opp s) (anc g) = List.last (vw s c) 0.
  Proof. rewrite (co_ends _ _ _ _ HC (opp s)), vw_opp. apply hd_last_rev. Qed.

  Lemma two_ends_ne s n p r : vw s c = n :: p :: r -> al (anc g) <> ar (anc g).
  Proof.
    intros V E. pose proof (co_ends _ _ _ _ HC s) as E1. pose proof (ends_far s) as E2. rewrite V in E1, E2.
    cbn [hd] in E1. change (List.last (n :: p :: r) 0) with (List.last (p :: r) 0) in E2.
    assert (Hin : In (List.last (p :: r) 0) (p :: r)) by (apply last_in; discriminate).
    pose proof (nodup_vw s) as ND. rewrite V in ND. inversion ND as [|? ? Hn _]. apply Hn.
    rewrite <- E2 in Hin. replace n with (aend (opp s) (anc g)); [exact Hin|].
    rewrite <- E1. destruct s; cbn [aend opp]; congruence.
  Qed.

  Lemma unstable_ne s : ast (anc g) = push_status s -> al (anc g) <> ar (anc g).
  Proof. intros H. destruct (ushape_of s H) as (n & p & r & V & _). eapply two_ends_ne; eauto. Qed.

  (* al = ar means at most one element *)
  Lemma ends_eq_single s : al (anc g) = ar (anc g) -> aend s (anc g) <> 0 -> c = [aend s (anc g)] /\ ast (anc g) = Stable.
  Proof.
    intros E NZ. destruct (ends_hd s NZ) as [r V].
    assert (r = []).
    { destruct r as [|b r']; [reflexivity|exfalso]. eapply two_ends_ne; eauto. }
    subst r. split.
    - apply vw_eq in V. rewrite V. destruct s; reflexivity.
    - destruct (ast (anc g)) eqn:ST; [reflexivity| |]; exfalso.
      + apply (unstable_ne SR ST E).
      + apply (unstable_ne SL ST E).
  Qed.

  Lemma owns_live l x : J g c pend l -> owns (dpc l) = Some x -> live g x.
  Proof.
    unfold J. casepc l; cbn [owns]; intros HJ Ho; try discriminate;
      try (inversion Ho; subst; first [exact (proj1 HJ)|exact (proj1 (proj1 HJ))]).
    - inversion Ho; subst. apply (co_live _ _ _ _ HC). apply in_app_r. apply HJ.
    - destruct k; cbn in Ho; try discriminate. inversion Ho; subst. apply HJ.
    - destruct k; cbn in Ho; try discriminate. inversion Ho; subst. apply HJ.
    - destruct k; cbn in Ho; try discriminate. inversion Ho; subst. apply HJ.
    - destruct k; cbn in Ho; try discriminate. inversion Ho; subst. apply HJ.
    - destruct k; cbn in Ho; try discriminate. inversion Ho; subst. apply HJ.
    - destruct k; cbn in Ho; try discriminate. inversion Ho; subst. apply HJ.
  Qed.

  Lemma owns_notin_c l x : J g c pend l -> owns (dpc l) = Some x -> ~ In x c.
  Proof.
    unfold J. casepc l; cbn [owns]; intros HJ Ho; try discriminate;
      try (inversion Ho; subst; first [exact (proj1 (notin_app _ _ _ (proj1 (proj2 HJ))))
                                      |exact (proj1 (notin_app _ _ _ (proj1 (proj2 (proj1 HJ)))))]).
    - inversion Ho; subst. destruct HJ as [_ HJ]. intros H.
      pose proof (co_nodup _ _ _ _ HC) as ND. apply NoDup_app_disj with (x := x) in ND; auto.
    - destruct k; cbn in Ho; try discriminate. inversion Ho; subst. apply (notin_app _ _ _ (proj1 (proj2 (proj1 HJ)))).
    - destruct k; cbn in Ho; try discriminate. inversion Ho; subst. apply (notin_app _ _ _ (proj1 (proj2 (proj1 HJ)))).
    - destruct k; cbn in Ho; try discriminate. inversion Ho; subst. apply (notin_app _ _ _ (proj1 (proj2 (proj1 HJ)))).
    - destruct k; cbn in Ho; try discriminate. inversion Ho; subst. apply (notin_app _ _ _ (proj1 (proj2 (proj1 HJ)))).
    - destruct k; cbn in Ho; try discriminate. inversion Ho; subst. apply (notin_app _ _ _ (proj1 (proj2 (proj1 HJ)))).
    - destruct k; cbn in Ho; try discriminate. inversion Ho; subst. apply (notin_app _ _ _ (proj1 (proj2 (proj1 HJ)))).
  Qed.
End CoreFacts.

(* ------------------------------------------------------------------ assembling Core after a step *)
Lemma holds_nil_not_free (l : dq_local) s a : holds l = [] -> dpc l = QFree s a -> False.
Proof. unfold holds. intros H E. rewrite E in H. discriminate. Qed.

Lemma core_upd g' (ls : locals dq_local) t l' c' pend' :
  (forall s, aend s (anc g') = @hd addr 0 (vw s c')) -> shape_ok g' c' -> NoDup (c' ++ pend') ->
  (forall a, In a (c' ++ pend') -> live g' a) -> (forall a, epoch g' a <> 0 -> 0 < a < fresh g') ->
  0 < fresh g' ->
  (exists fl, flchain (heap g') (pool g') fl /\ NoDup fl /\ forall a, In a fl -> N.odd (epoch g' a) = false /\ 0 < a < fresh g') ->
  J g' c' pend' l' ->
  (forall t', t' <> t -> J g' c' pend' (ls t')) ->
  (forall t' n, t' <> t -> owns (dpc l') = Some n -> owns (dpc (ls t')) = Some n -> False) ->
  (forall t1 t2 n, t1 <> t2 -> owns (dpc (ls t1)) = Some n -> owns (dpc (ls t2)) = Some n -> False) ->
  (forall a, In a pend' -> (exists s, dpc l' = QFree s a) \/ exists t' s, t' <> t /\ dpc (ls t') = QFree s a) ->
  Core g' (upd ls t l') c' pend'.
Proof.
  intros H1 H2 H3 H4 H5 H6 H7 HJ HJo HX HXo HP. split; try assumption.
  - intros t'. unfold upd. destruct (Nat.eqb t' t) eqn:E; [exact HJ|]. apply HJo. apply Nat.eqb_neq. exact E.
  - intros t1 t2 n Hne. unfold upd. destruct (Nat.eqb t1 t) eqn:E1; destruct (Nat.eqb t2 t) eqn:E2.
    + apply Nat.eqb_eq in E1, E2. congruence.
    + apply Nat.eqb_neq in E2. intros A B. eapply HX; eauto.
    + apply Nat.eqb_neq in E1. intros A B. eapply HX; eauto.
    + apply HXo. exact Hne.
  - intros a Ha. destruct (HP a Ha) as [[s E]|(t' & s & Hne & E)].
    + exists t, s. rewrite upd_same. exact E.
    + exists t', s. rewrite upd_other by exact Hne. exact E.
Qed.

Lemma J_ext g g' c pend l :
  (forall x, In x c -> epoch g x <> 0) ->
  anc g' = anc g -> heap g' = heap g -> epoch g' = epoch g -> J g c pend l -> J g' c pend l.
Proof.
  intros Hnz Ea Eh Ee. apply J_frame; auto.
  - intros x _ _ H. unfold live. rewrite Ee, Eh. auto.
  - intros x. rewrite Ee. lia.
  - intros x s _. rewrite Ee, Eh. auto.
  - intros x s _. rewrite Eh. lia.
Qed.

Lemma shape_frame g g' c : anc g' = anc g -> (forall x, In x c -> heap g' x = heap g x) -> shape_ok g c -> shape_ok g' c.
Proof.
  intros Ea Eh. unfold shape_ok. rewrite Ea.
  assert (L : forall s l, (forall x, In x l -> In x c) -> linkedS s (heap g) l -> linkedS s (heap g') l).
  { intros s l Hl. apply linkedS_ext; intros x Hx; rewrite Eh; auto. apply Hl. destruct l; [destruct Hx|right; exact Hx]. }
  assert (U : forall s, ushape s g c -> ushape s g' c).
  { intros s (n & p & r & V & I & Lk). exists n, p, r. split; [exact V|].
    assert (Hin : forall x, In x (n :: p :: r) -> In x c) by (intros x Hx; apply (in_vw s); rewrite V; exact Hx).
    split; [rewrite Eh by (apply Hin; left; reflexivity); exact I|]. apply L; [|exact Lk].
    intros x Hx. apply Hin. right. exact Hx. }
  destruct (ast (anc g)); [apply L; auto|apply U|apply U].
Qed.

(* steps that only move the stepping thread's pc (the shared state changes at most in the log) *)
Lemma step_local g (ls : locals dq_local) t c pend g' l' :
  Core g ls c pend -> anc g' = anc g -> heap g' = heap g -> epoch g' = epoch g -> pool g' = pool g ->
  fresh g' = fresh g ->
  J g c pend l' -> (forall x, owns (dpc l') = Some x -> owns (dpc (ls t)) = Some x) -> holds (ls t) = [] ->
  Core g' (upd ls t l') c pend.
Proof.
  intros HC Ea Eh Ee Ep Ef HJ Ho Hh. apply core_upd.
  - rewrite Ea. apply (co_ends _ _ _ _ HC).
  - eapply shape_frame; [exact Ea| |apply (co_shape _ _ _ _ HC)]. intros x _. rewrite Eh. reflexivity.
  - apply (co_nodup _ _ _ _ HC).
  - unfold live. rewrite Ee. apply (co_live _ _ _ _ HC).
  - rewrite Ee, Ef. apply (co_alloc _ _ _ _ HC).
  - rewrite Ef. apply (co_fresh _ _ _ _ HC).
  - rewrite Eh, Ep, Ee, Ef. apply (co_fl _ _ _ _ HC).
  - apply J_ext with (g := g); try assumption. apply (chain_nz _ _ _ _ HC).
  - intros t' _. apply J_ext with (g := g); auto; [apply (chain_nz _ _ _ _ HC)|apply (co_J _ _ _ _ HC)].
  - intros t' n Hne A B. apply (co_excl _ _ _ _ HC t t' n); auto.
  - apply (co_excl _ _ _ _ HC).
  - intros a Ha. destruct (co_pend _ _ _ _ HC a Ha) as (t' & s & E). right. exists t', s. split; [|exact E].
    intros ->. eapply holds_nil_not_free; eauto.
Qed.

Lemma data_frame_refl g g' xs : heap g' = heap g -> data_frame g g' xs.
Proof. intros E x _. rewrite E. reflexivity. Qed.

Lemma eupd_same e a v : eupd e a v a = v.
Proof. unfold eupd. now rewrite N.eqb_refl. Qed.
Lemma eupd_other e a v x : x <> a -> eupd e a v x = e x.
Proof. unfold eupd. intros H. apply N.eqb_neq in H. now rewrite H. Qed.

(* a store into a node that the stepping thread owns privately (PInit, PStore) *)
Lemma step_priv g (ls : locals dq_local) t c pend n nd g' l' :
  Core g ls c pend -> owns (dpc (ls t)) = Some n -> live g n -> ~ In n (c ++ pend) -> holds (ls t) = [] ->
  anc g' = anc g -> heap g' = hupd (heap g) n nd -> epoch g' = epoch g -> pool g' = pool g -> fresh g' = fresh g ->
  J g' c pend l' -> owns (dpc l') = Some n ->
  (forall s, ltag (outward s (heap g n)) <= ltag (outward s nd)) ->
  Core g' (upd ls t l') c pend /\ data_frame g g' (c ++ pend).
Proof.
  intros HC Ho En Nn Hh Ea Eh Ee Ep Ef HJ Ho' Htg.
  assert (Hc : forall x, In x (c ++ pend) -> heap g' x = heap g x).
  { intros x Hx. rewrite Eh. apply hupd_other. intros ->. exact (Nn Hx). }
  split; [|intros x Hx; rewrite Hc by exact Hx; reflexivity].
  apply core_upd.
  - rewrite Ea. apply (co_ends _ _ _ _ HC).
  - eapply shape_frame; [exact Ea| |apply (co_shape _ _ _ _ HC)]. intros x Hx. apply Hc. apply in_app_l. exact Hx.
  - apply (co_nodup _ _ _ _ HC).
  - unfold live. rewrite Ee. apply (co_live _ _ _ _ HC).
  - rewrite Ee, Ef. apply (co_alloc _ _ _ _ HC).
  - rewrite Ef. apply (co_fresh _ _ _ _ HC).
  - destruct (co_fl _ _ _ _ HC) as (fl & F1 & F2 & F3). exists fl. rewrite Ep, Ee, Ef. split; [|auto].
    eapply flchain_ext; [|exact F1]. intros x Hx. rewrite Eh, hupd_other; [reflexivity|].
    intros ->. pose proof (proj1 (F3 n Hx)) as F. unfold live in En. congruence.
  - exact HJ.
  - intros t' Hne. apply J_frame with (g := g) (pend := pend); auto.
    + intros x Hx _ Lx. unfold live. rewrite Ee, Eh, hupd_other; [auto|].
      intros ->. apply (co_excl _ _ _ _ HC t t' n); auto.
    + intros x. rewrite Ee. lia.
    + intros x s Hx. rewrite Ee. split; [reflexivity|]. left. rewrite Hc by (apply in_app_l; exact Hx). reflexivity.
    + apply (chain_nz _ _ _ _ HC).
    + intros x s _. rewrite Eh. destruct (N.eq_dec x n) as [->|Hne']; [rewrite hupd_same; apply Htg|].
      rewrite hupd_other by exact Hne'. lia.
    + apply (co_J _ _ _ _ HC).
  - intros t' x Hne A B. rewrite Ho' in A. inversion A; subst x. apply (co_excl _ _ _ _ HC t t' n); auto.
  - apply (co_excl _ _ _ _ HC).
  - intros a Ha. destruct (co_pend _ _ _ _ HC a Ha) as (t' & s & E). right. exists t', s. split; [|exact E].
    intros ->. eapply holds_nil_not_free; eauto.
Qed.

(* pool_.allocate(): the chunk is not live (never handed out, or freed) *)
Lemma odd_succ_false e : N.odd e = false -> N.odd (e + 1) = true.
Proof. intros H. rewrite N.add_1_r, N.odd_succ, <- N.negb_odd, H. reflexivity. Qed.
Lemma odd_succ_true e : N.odd e = true -> N.odd (e + 1) = false.
Proof. intros H. rewrite N.add_1_r, N.odd_succ, <- N.negb_odd, H. reflexivity. Qed.

Lemma fl_alloc_spec g ls c pend : Core g ls c pend ->
  let g' := fst (fl_alloc g) in let a := snd (fl_alloc g) in
  anc g' = anc g /\ dlog g' = dlog g /\ aba g' = aba g /\ N.odd (epoch g a) = false /\ epoch g' a = epoch g a + 1 /\
  (forall x, x <> a -> epoch g' x = epoch g x /\ heap g' x = heap g x) /\
  (epoch g a <> 0 -> heap g' a = heap g a) /\
  0 < a < fresh g' /\ fresh g <= fresh g' /\
  (exists fl, flchain (heap g') (pool g') fl /\ NoDup fl /\ forall x, In x fl -> N.odd (epoch g' x) = false /\ 0 < x < fresh g').
Proof.
  intros HC. unfold fl_alloc. pose proof (co_fresh _ _ _ _ HC) as Hf.
  destruct (co_fl _ _ _ _ HC) as (fl & F1 & F2 & F3).
  destruct (pool g =? 0) eqn:EP; cbn [fst snd anc dlog epoch heap pool fresh aba].
  - assert (E0 : epoch g (fresh g) = 0).
    { destruct (N.eq_dec (epoch g (fresh g)) 0) as [E|E]; [exact E|]. apply (co_alloc _ _ _ _ HC) in E. lia. }
    rewrite eupd_same, E0. repeat split; try reflexivity; try lia.
    + apply eupd_other; assumption.
    + apply hupd_other; assumption.
    + exists []. split; [reflexivity|]. split; [constructor|]. intros x [].
  - apply N.eqb_neq in EP. destruct fl as [|f fl']; [cbn in F1; congruence|]. cbn [flchain] in F1.
    destruct F1 as [Ef F1]. rewrite Ef in *. apply NoDup_cons_iff in F2. destruct F2 as [Hn Hd].
    destruct (F3 f (or_introl eq_refl)) as [Od Hr].
    rewrite eupd_same. repeat split; try reflexivity; try lia; try exact Od.
    + apply eupd_other; assumption.
    + exists fl'. split; [exact F1|]. split; [exact Hd|]. intros x Hx.
      rewrite eupd_other by (intros ->; exact (Hn Hx)). apply F3. right. exact Hx.
Qed.

Lemma step_alloc g (ls : locals dq_local) t c pend l' :
  Core g ls c pend -> holds (ls t) = [] -> owns (dpc (ls t)) = None ->
  (live (fst (fl_alloc g)) (snd (fl_alloc g)) -> ~ In (snd (fl_alloc g)) (c ++ pend) -> J (fst (fl_alloc g)) c pend l') ->
  owns (dpc l') = Some (snd (fl_alloc g)) ->
  Core (fst (fl_alloc g)) (upd ls t l') c pend /\ data_frame g (fst (fl_alloc g)) (c ++ pend) /\
  dlog (fst (fl_alloc g)) = dlog g /\ aba (fst (fl_alloc g)) = aba g.
Proof.
  intros HC Hh Hn HJ Ho. destruct (fl_alloc_spec _ _ _ _ HC) as (Ea & Ed & Eb & Od & E1 & Eo & Ere & Ha & Hf & Hfl).
  set (g' := fst (fl_alloc g)) in *. set (a := snd (fl_alloc g)) in *.
  assert (La : live g' a) by (unfold live; rewrite E1; apply odd_succ_false; exact Od).
  assert (Na : forall x, live g x -> x <> a) by (intros x Hx ->; unfold live in Hx; congruence).
  assert (Nc : ~ In a (c ++ pend)).
  { intros H. apply (co_live _ _ _ _ HC) in H. exact (Na a H eq_refl). }
  assert (Hc : forall x, In x (c ++ pend) -> heap g' x = heap g x).
  { intros x Hx. apply Eo. intros ->. exact (Nc Hx). }
  assert (Mono : forall x, epoch g x <= epoch g' x).
  { intros x. destruct (N.eq_dec x a) as [->|Hne]; [lia|]. rewrite (proj1 (Eo x Hne)). lia. }
  split; [|split; [intros x Hx; rewrite Hc by exact Hx; reflexivity|split; [exact Ed|exact Eb]]].
  apply core_upd.
  - rewrite Ea. apply (co_ends _ _ _ _ HC).
  - eapply shape_frame; [exact Ea| |apply (co_shape _ _ _ _ HC)]. intros x Hx. apply Hc. apply in_app_l. exact Hx.
  - apply (co_nodup _ _ _ _ HC).
  - intros x Hx. unfold live. rewrite (proj1 (Eo x ltac:(intros ->; exact (Nc Hx)))). apply (co_live _ _ _ _ HC). exact Hx.
  - intros x Hx. destruct (N.eq_dec x a) as [->|Hne]; [exact Ha|].
    rewrite (proj1 (Eo x Hne)) in Hx. apply (co_alloc _ _ _ _ HC) in Hx. lia.
  - lia.
  - exact Hfl.
  - apply HJ; assumption.
  - intros t' Hne. apply J_frame with (g := g) (pend := pend); auto.
    + intros x Hx _ Lx. destruct (Eo x (Na x Lx)) as [E2 E3]. unfold live. rewrite E2, E3. auto.
    + intros x s Hx. assert (x <> a) by (intros ->; apply Nc; apply in_app_l; exact Hx).
      destruct (Eo x H) as [E2 E3]. rewrite E2, E3. auto.
    + apply (chain_nz _ _ _ _ HC).
    + intros x s Hx. destruct (N.eq_dec x a) as [->|Hne']; [rewrite (Ere Hx); lia|].
      rewrite (proj2 (Eo x Hne')). lia.
    + apply (co_J _ _ _ _ HC).
  - intros t' x Hne A B. rewrite Ho in A. inversion A; subst x.
    exact (Na a (owns_live _ _ _ _ HC _ _ (co_J _ _ _ _ HC t') B) eq_refl).
  - apply (co_excl _ _ _ _ HC).
  - intros x Hx. destruct (co_pend _ _ _ _ HC x Hx) as (t' & s & E). right. exists t', s. split; [|exact E].
    intros ->. eapply holds_nil_not_free; eauto.
Qed.

(* FREE: the node goes back to the pool *)
Lemma step_free g (ls : locals dq_local) t c pend s a :
  Core g ls c pend -> dpc (ls t) = QFree s a ->
  exists p1 p2, pend = p1 ++ a :: p2 /\
    Core (fl_free g a) (upd ls t (complete (ls t))) c (p1 ++ p2) /\ data_frame g (fl_free g a) (c ++ pend).
Proof.
  intros HC PC. pose proof (co_J _ _ _ _ HC t) as HJ. unfold J in HJ. rewrite PC in HJ. destruct HJ as [_ Ha].
  destruct (in_split _ _ Ha) as (p1 & p2 & Ep). exists p1, p2. split; [exact Ep|].
  pose proof (co_nodup _ _ _ _ HC) as ND. rewrite Ep, app_assoc in ND. apply NoDup_remove in ND.
  rewrite <- app_assoc in ND. destruct ND as [ND Nin].
  assert (E1 : live g a) by (apply (co_live _ _ _ _ HC); apply in_app_r; exact Ha).
  assert (E2 : N.odd (epoch g a + 1) = false) by (apply odd_succ_true; exact E1).
  assert (Sub : forall x, In x (p1 ++ p2) -> In x pend).
  { intros x Hx. rewrite Ep. apply in_app_or in Hx. apply in_or_app. cbn [In]. tauto. }
  assert (Sub' : forall x, In x (c ++ p1 ++ p2) -> In x (c ++ pend) /\ x <> a).
  { intros x Hx. split; [|intros ->; exact (Nin Hx)]. apply in_app_or in Hx. apply in_or_app.
    destruct Hx; auto. }
  assert (Nac : ~ In a c).
  { intros H. eapply NoDup_app_disj; [apply (co_nodup _ _ _ _ HC)|exact H|exact Ha]. }
  assert (Hc : forall x, x <> a -> heap (fl_free g a) x = heap g x).
  { intros x Hx. cbn [fl_free heap]. apply hupd_other. exact Hx. }
  assert (Oa : owns (dpc (ls t)) = Some a) by (rewrite PC; reflexivity).
  split; [|intros x Hx; cbn [fl_free heap]; unfold hupd; destruct (x =? a) eqn:EX; [apply N.eqb_eq in EX; subst x|]; reflexivity].
  apply core_upd.
  - apply (co_ends _ _ _ _ HC).
  - apply shape_frame with (g := g); [reflexivity| |apply (co_shape _ _ _ _ HC)]. intros x Hx. apply Hc. intros ->. auto.
  - exact ND.
  - intros x Hx. destruct (Sub' x Hx) as [Hx' Hne]. unfold live. cbn [fl_free epoch]. rewrite eupd_other by exact Hne.
    apply (co_live _ _ _ _ HC). exact Hx'.
  - intros x. cbn [fl_free epoch fresh]. destruct (N.eq_dec x a) as [->|Hne].
    + intros _. apply (live_pos _ _ _ _ HC). exact E1.
    + rewrite eupd_other by exact Hne. apply (co_alloc _ _ _ _ HC).
  - apply (co_fresh _ _ _ _ HC).
  - destruct (co_fl _ _ _ _ HC) as (fl & F1 & F2 & F3). exists (a :: fl). cbn [fl_free heap pool epoch fresh].
    assert (Nf : ~ In a fl) by (intros H; pose proof (proj1 (F3 a H)); unfold live in E1; congruence).
    split; [|split].
    + cbn [flchain]. split; [reflexivity|]. rewrite hupd_same. cbn [nleft lptr].
      eapply flchain_ext; [|exact F1]. intros x Hx. rewrite hupd_other; [reflexivity|]. intros ->. auto.
    + constructor; assumption.
    + intros x [<-|Hx].
      * rewrite eupd_same. split; [exact E2|]. apply (live_pos _ _ _ _ HC). exact E1.
      * rewrite eupd_other by (intros ->; auto). apply F3. exact Hx.
  - unfold J, complete. cbn [dpc]. exact I.
  - intros t' Hne. apply J_frame with (g := g) (pend := pend); auto.
    + intros x Hx Ho. rewrite Ep in Hx. apply in_app_or in Hx. apply in_or_app. cbn [In] in Hx.
      destruct Hx as [Hx|[<-|Hx]]; auto. exfalso. apply (co_excl _ _ _ _ HC t t' a); auto.
    + intros x Ho Hn Ex. assert (x <> a) by (intros ->; auto). unfold live. cbn [fl_free epoch].
      rewrite eupd_other by exact H. split; [exact Ex|apply Hc; exact H].
    + intros x. cbn [fl_free epoch]. unfold eupd. destruct (x =? a) eqn:EX; [apply N.eqb_eq in EX; subst x|]; lia.
    + intros x s' Hx. assert (x <> a) by (intros ->; auto). cbn [fl_free epoch]. rewrite eupd_other by exact H.
      split; [reflexivity|]. left. rewrite Hc by exact H. reflexivity.
    + apply (chain_nz _ _ _ _ HC).
    + intros x s' _. cbn [fl_free heap]. unfold hupd. destruct (x =? a) eqn:E; [|lia].
      apply N.eqb_eq in E. subst x. destruct s'; cbn; lia.
    + apply (co_J _ _ _ _ HC).
  - intros t' n _ A. unfold complete in A. cbn in A. discriminate.
  - apply (co_excl _ _ _ _ HC).
  - intros x Hx. destruct (co_pend _ _ _ _ HC x (Sub x Hx)) as (t' & s' & E). right. exists t', s'.
    split; [|exact E]. intros ->. rewrite PC in E. inversion E; subst. apply Nin. apply in_app_r. exact Hx.
Qed.

Lemma outward_set_outward_opp s nd l : outward (opp s) (set_outward s nd l) = outward (opp s) nd.
Proof. destruct s; reflexivity. Qed.

Lemma side_cases s s' : s' = s \/ s' = opp s.
Proof. destruct s, s'; auto. Qed.

(* the link CAS of stabilize succeeds while the snapshot is current *)
Lemma step_lcas g (ls : locals dq_local) t c pend s n p r g' l' :
  Core g ls c pend -> ast (anc g) = push_status s -> vw s c = n :: p :: r -> holds (ls t) = [] ->
  anc g' = anc g ->
  heap g' = hupd (heap g) p (set_outward s (heap g p) {| lptr := n; ltag := ltag (outward s (heap g p)) + 1 |}) ->
  epoch g' = epoch g -> pool g' = pool g -> fresh g' = fresh g ->
  J g' c pend l' -> (forall x, owns (dpc l') = Some x -> owns (dpc (ls t)) = Some x) ->
  Core g' (upd ls t l') c pend /\ data_frame g g' (c ++ pend).
Proof.
  intros HC St V Hh Ea Eh Ee Ep Ef HJ Ho.
  assert (Hin : forall x, In x (n :: p :: r) -> In x c) by (intros x Hx; apply (in_vw s); rewrite V; exact Hx).
  assert (Hp : In p c) by (apply Hin; cbn; auto).
  pose proof (nodup_vw _ _ _ _ HC s) as ND. rewrite V in ND.
  assert (Nnp : n <> p). { intros ->. inversion ND as [|? ? Hn _]. apply Hn. left. reflexivity. }
  assert (Nr : forall x, In x r -> x <> p).
  { intros x Hx ->. inversion ND as [|? ? _ ND']. inversion ND' as [|? ? Hn _]. exact (Hn Hx). }
  assert (Ho' : forall x, x <> p -> heap g' x = heap g x) by (intros x Hx; rewrite Eh; apply hupd_other; exact Hx).
  assert (Hpp : heap g' p = set_outward s (heap g p) {| lptr := n; ltag := ltag (outward s (heap g p)) + 1 |})
    by (rewrite Eh; apply hupd_same).
  split; [|intros x _; destruct (N.eq_dec x p) as [->|Hne];
           [rewrite Hpp; apply data_set_outward|rewrite Ho' by exact Hne; reflexivity]].
  assert (CH : forall x s', In x c ->
     outward s' (heap g' x) = outward s' (heap g x) \/
     (ltag (outward s' (heap g x)) < ltag (outward s' (heap g' x)) /\
      forall n0, second s' c n0 x -> ast (anc g) = push_status s' -> lptr (outward s' (heap g' x)) = n0)).
  { intros x s' Hx. destruct (N.eq_dec x p) as [->|Hne]; [|left; rewrite Ho' by exact Hne; reflexivity].
    destruct (side_cases s s') as [->| ->].
    - right. rewrite Hpp, outward_set_outward. cbn [ltag lptr]. split; [lia|].
      intros n0 S2 _. destruct (second_fun _ _ _ _ _ _ S2 (ex_intro _ r V)) as [-> _]. reflexivity.
    - left. rewrite Hpp. apply outward_set_outward_opp. }
  apply core_upd.
  - rewrite Ea. apply (co_ends _ _ _ _ HC).
  - unfold shape_ok. rewrite Ea.
    assert (U : ushape s g' c).
    { destruct (ushape_of _ _ _ _ HC s St) as (n0 & p0 & r0 & V0 & I0 & L0). rewrite V in V0. injection V0 as X1 X2 X3. subst n0 p0 r0.
      exists n, p, r. split; [exact V|]. split; [rewrite Ho' by exact Nnp; exact I0|].
      eapply linkedS_ext; [| |exact L0].
      - intros x [<-|Hx]; [rewrite Hpp; apply inward_set_outward|rewrite Ho' by (apply Nr; exact Hx); reflexivity].
      - intros x Hx. cbn [tl] in Hx. rewrite Ho' by (apply Nr; exact Hx). reflexivity. }
    rewrite St. destruct s; exact U.
  - apply (co_nodup _ _ _ _ HC).
  - unfold live. rewrite Ee. apply (co_live _ _ _ _ HC).
  - rewrite Ee, Ef. apply (co_alloc _ _ _ _ HC).
  - rewrite Ef. apply (co_fresh _ _ _ _ HC).
  - destruct (co_fl _ _ _ _ HC) as (fl & F1 & F2 & F3). exists fl. rewrite Ep, Ee, Ef. split; [|auto].
    eapply flchain_ext; [|exact F1]. intros x Hx. rewrite Ho'; [reflexivity|].
    intros ->. pose proof (proj1 (F3 p Hx)) as F. pose proof (co_live _ _ _ _ HC p (in_app_l _ _ _ Hp)) as L.
    unfold live in L. congruence.
  - exact HJ.
  - intros t' Hne. apply J_frame with (g := g) (pend := pend); auto.
    + intros x Hx _ Ex. unfold live. rewrite Ee. split; [exact Ex|]. apply Ho'. intros ->.
      exact (owns_notin_c _ _ _ _ HC _ _ (co_J _ _ _ _ HC t') Hx Hp).
    + intros x. rewrite Ee. lia.
    + intros x s' Hx. rewrite Ee. split; [reflexivity|]. apply CH. exact Hx.
    + apply (chain_nz _ _ _ _ HC).
    + intros x s' _. destruct (N.eq_dec x p) as [->|Hne']; [|rewrite Ho' by exact Hne'; lia].
      destruct (side_cases s s') as [->| ->].
      * rewrite Hpp, outward_set_outward. cbn [ltag]. lia.
      * rewrite Hpp, outward_set_outward_opp. lia.
    + apply (co_J _ _ _ _ HC).
  - intros t' x Hne A B. apply (co_excl _ _ _ _ HC t t' x); auto.
  - apply (co_excl _ _ _ _ HC).
  - intros a Ha. destruct (co_pend _ _ _ _ HC a Ha) as (t' & s' & E). right. exists t', s'. split; [|exact E].
    intros ->. eapply holds_nil_not_free; eauto.
Qed.

(* a successful anchor CAS *)
Lemma step_acas g (ls : locals dq_local) t c pend g' c' pend' l' :
  Core g ls c pend -> atag (anc g') = atag (anc g) + 1 -> heap g' = heap g -> epoch g' = epoch g ->
  pool g' = pool g -> fresh g' = fresh g ->
  (forall s, aend s (anc g') = @hd addr 0 (vw s c')) -> shape_ok g' c' -> NoDup (c' ++ pend') ->
  (forall x, In x c -> In x c' \/ In x pend') -> (forall x, In x pend -> In x pend') ->
  (forall x, In x (c' ++ pend') -> In x (c ++ pend) \/ (owns (dpc (ls t)) = Some x /\ live g x)) ->
  (forall s, ast (anc g) = push_status s -> fixed g s c) ->
  J g' c' pend' l' ->
  (forall x, owns (dpc l') = Some x -> owns (dpc (ls t)) = Some x \/ In x c) ->
  (forall x, In x pend' -> In x pend \/ exists s, dpc l' = QFree s x) ->
  holds (ls t) = [] ->
  Core g' (upd ls t l') c' pend'.
Proof.
  intros HC Et Eh Ee Ep Ef Hends Hshape ND Hc Hp Hnew Hfix HJ Ho Hpend Hh.
  apply core_upd; try assumption.
  - intros x Hx. unfold live. rewrite Ee. destruct (Hnew x Hx) as [H|[_ H]]; [apply (co_live _ _ _ _ HC); exact H|exact H].
  - rewrite Ee, Ef. apply (co_alloc _ _ _ _ HC).
  - rewrite Ef. apply (co_fresh _ _ _ _ HC).
  - rewrite Eh, Ep, Ee, Ef. apply (co_fl _ _ _ _ HC).
  - intros t' Hne. apply J_acas with (g := g) (c := c) (pend := pend); auto; [|apply (co_J _ _ _ _ HC)].
    intros x Hx Hn Hin. destruct (Hnew x Hin) as [H|[H _]]; [exact (Hn H)|].
    apply (co_excl _ _ _ _ HC t t' x); auto.
  - intros t' x Hne A B. destruct (Ho x A) as [H|H].
    + apply (co_excl _ _ _ _ HC t t' x); auto.
    + exact (owns_notin_c _ _ _ _ HC _ _ (co_J _ _ _ _ HC t') B H).
  - apply (co_excl _ _ _ _ HC).
  - intros x Hx. destruct (Hpend x Hx) as [H|H]; [|left; exact H].
    destruct (co_pend _ _ _ _ HC x H) as (t' & s & E). right. exists t', s. split; [|exact E].
    intros ->. eapply holds_nil_not_free; eauto.
Qed.

(* ------------------------------------------------------------------ the steps, pc by pc *)
Definition Step (g : dq_shared) (ls : locals dq_local) (t : nat) (c pend : list addr)
                (g' : dq_shared) (l' : dq_local) : Prop :=
  exists c' pend' lab, Core g' (upd ls t l') c' pend' /\ Trans t g (ls t) c pend lab g' l' c' pend'.

Lemma tau_local g (ls : locals dq_local) t c pend g' l' :
  Core g ls c pend -> anc g' = anc g -> heap g' = heap g -> epoch g' = epoch g -> pool g' = pool g ->
  fresh g' = fresh g -> dlog g' = dlog g ->
  J g c pend l' -> (forall x, owns (dpc l') = Some x -> owns (dpc (ls t)) = Some x) ->
  holds (ls t) = [] -> holds l' = [] -> lin_event t g (ls t) = [] ->
  Step g ls t c pend g' l'.
Proof.
  intros HC Ea Eh Ee Ep Ef Ed HJ Ho Hh Hh' Hl. exists c, pend, LTau. split.
  - eapply step_local; eauto.
  - split; [apply data_frame_refl; exact Eh|]. split; auto.
Qed.

Lemma J_resume g c pend l k : Jk g c pend l k ->
  fst (resume g l k) = g /\ J g c pend (snd (resume g l k)) /\
  (forall x, owns (dpc (snd (resume g l k))) = Some x -> kown k = Some x) /\ holds (snd (resume g l k)) = [].
Proof.
  intros H. destruct k as [|s n|s]; cbn [resume fst snd]; (split; [reflexivity|]).
  - split; [exact I|]. split; [cbn; discriminate|reflexivity].
  - split; [exact H|]. split; [cbn; trivial|reflexivity].
  - split; [exact H|]. split; [cbn; discriminate|reflexivity].
Qed.

Lemma tau_resume g (ls : locals dq_local) t c pend k :
  Core g ls c pend -> Jk g c pend (ls t) k -> owns (dpc (ls t)) = kown k -> holds (ls t) = [] ->
  lin_event t g (ls t) = [] ->
  Step g ls t c pend (fst (resume g (ls t) k)) (snd (resume g (ls t) k)).
Proof.
  intros HC HK Ho Hh Hl. destruct (J_resume g c pend (ls t) k HK) as (E & HJ & Ho' & Hh').
  rewrite E. apply tau_local; auto. intros x Hx. rewrite Ho. auto.
Qed.

Ltac ownsame := intros x Hx; cbn in Hx; congruence.

Lemma stab_side_status st : st <> Stable -> push_status (stab_side st) = st.
Proof. destruct st; cbn; congruence. Qed.

Lemma step_pop_load g (ls : locals dq_local) t c pend s :
  Core g ls c pend -> cur_op (ls t) = Pop s -> owns (dpc (ls t)) = None -> holds (ls t) = [] ->
  lin_event t g (ls t) = lin_pop_load t g s ->
  Step g ls t c pend (fst (pop_load g t (ls t) s)) (snd (pop_load g t (ls t) s)).
Proof.
  intros HC Hop Ho Hh Hl. unfold pop_load, lin_pop_load in *.
  assert (HO : forall p, owns p = None -> forall x, owns p = Some x -> owns (dpc (ls t)) = Some x) by (intros p -> x; discriminate).
  destruct (aend s (anc g) =? 0) eqn:E0.
  - apply N.eqb_eq in E0. pose proof (ends_nil _ _ _ _ HC s E0) as ->. cbn [fst snd].
    exists [], pend, (LPopEmpty s). split.
    + apply step_local with (g := g); [exact HC|reflexivity|reflexivity|reflexivity|reflexivity|reflexivity|exact I|intros x Hx; cbn in Hx; discriminate|exact Hh].
    + split; [apply data_frame_refl; reflexivity|]. split; [repeat split; auto|]. split; [exact Hh|reflexivity].
  - apply N.eqb_neq in E0. destruct (al (anc g) =? ar (anc g)) eqn:E1.
    + apply N.eqb_eq in E1. cbn [fst snd]. apply tau_local; auto.
      * unfold J. cbn [goto dpc]. split; [exact Hop|]. split; [left; reflexivity|]. split; [exact E0|exact E1].
      * apply HO. reflexivity.
    + apply N.eqb_neq in E1. destruct (ast (anc g)) eqn:ST; cbn [fst snd]; apply tau_local; auto.
      * unfold J. cbn [goto dpc]. split; [exact Hop|]. split; [left; reflexivity|]. auto.
      * apply HO. reflexivity.
      * unfold J. cbn [goto dpc stab_side Jk]. split; [exact Hop|]. split; [left; reflexivity|].
        split; [exact ST|]. apply (unstable_ends _ _ _ _ HC SR). exact ST.
      * apply HO. reflexivity.
      * unfold J. cbn [goto dpc stab_side Jk]. split; [exact Hop|]. split; [left; reflexivity|].
        split; [exact ST|]. apply (unstable_ends _ _ _ _ HC SL). exact ST.
      * apply HO. reflexivity.
Qed.

Lemma step_push_load g (ls : locals dq_local) t c pend s n :
  Core g ls c pend -> push_own g c pend (ls t) s n -> owns (dpc (ls t)) = Some n -> holds (ls t) = [] ->
  lin_event t g (ls t) = [] ->
  Step g ls t c pend (fst (push_load g (ls t) s n)) (snd (push_load g (ls t) s n)).
Proof.
  intros HC Hown Ho Hh Hl. unfold push_load.
  destruct (aend s (anc g) =? 0) eqn:E0.
  - apply N.eqb_eq in E0. cbn [fst snd]. apply tau_local; auto; try ownsame.
    unfold J. cbn [goto dpc]. split; [exact Hown|]. split; [left; reflexivity|exact E0].
  - apply N.eqb_neq in E0. destruct (ast (anc g)) eqn:ST; cbn [fst snd]; apply tau_local; auto; try ownsame.
    + unfold J. cbn [goto dpc]. split; [exact Hown|]. split; [left; reflexivity|]. auto.
    + unfold J. cbn [goto dpc stab_side Jk]. split; [exact Hown|]. split; [left; reflexivity|].
      split; [exact ST|]. apply (unstable_ends _ _ _ _ HC SR). exact ST.
    + unfold J. cbn [goto dpc stab_side Jk]. split; [exact Hown|]. split; [left; reflexivity|].
      split; [exact ST|]. apply (unstable_ends _ _ _ _ HC SL). exact ST.
Qed.

Lemma trans_tau t g l c pend g' l' :
  data_frame g g' (c ++ pend) -> dlog g' = dlog g -> lin_event t g l = [] -> holds l = [] -> holds l' = [] ->
  Trans t g l c pend LTau g' l' c pend.
Proof. intros. split; [assumption|]. split; auto. Qed.

Ltac pcfacts HC t PC HJ :=
  pose proof (co_J _ _ _ _ HC t) as HJ; unfold J in HJ; rewrite PC in HJ.
Ltac holdsnil PC := unfold holds; rewrite PC; reflexivity.
Ltac linnil PC := unfold lin_event; rewrite PC; reflexivity.

Lemma step_DIdle g (ls : locals dq_local) t c pend :
  Core g ls c pend -> dpc (ls t) = DIdle ->
  Step g ls t c pend (fst (dq_tstep tt t g (ls t))) (snd (dq_tstep tt t g (ls t))).
Proof.
  intros HC PC. unfold dq_tstep. rewrite PC.
  assert (Hh : holds (ls t) = []) by holdsnil PC.
  assert (Ho : owns (dpc (ls t)) = None) by (rewrite PC; reflexivity).
  destruct (dtodo (ls t)) as [|[s v|s] rest] eqn:TD.
  - cbn [fst snd]. apply tau_local; auto.
    + apply (co_J _ _ _ _ HC).
    + unfold lin_event. rewrite PC, TD. reflexivity.
  - replace (let '(g', a) := fl_alloc g in (g', goto (ls t) (PInit s v a)))
      with (fst (fl_alloc g), goto (ls t) (PInit s v (snd (fl_alloc g)))) by (destruct (fl_alloc g); reflexivity).
    cbn [fst snd].
    destruct (step_alloc g ls t c pend (goto (ls t) (PInit s v (snd (fl_alloc g)))) HC Hh Ho) as (C' & DF & DL & _).
    + intros E1 Nin. unfold J. cbn [goto dpc]. split; [exact E1|]. split; [exact Nin|].
      unfold cur_op. cbn [goto dtodo]. rewrite TD. reflexivity.
    + reflexivity.
    + exists c, pend, LTau. split; [exact C'|]. apply trans_tau; auto.
      unfold lin_event. rewrite PC, TD. reflexivity.
  - apply step_pop_load; auto.
    + unfold cur_op. rewrite TD. reflexivity.
    + unfold lin_event. rewrite PC, TD. reflexivity.
Qed.

Lemma step_PInit g (ls : locals dq_local) t c pend s v n :
  Core g ls c pend -> dpc (ls t) = PInit s v n ->
  Step g ls t c pend (fst (dq_tstep tt t g (ls t))) (snd (dq_tstep tt t g (ls t))).
Proof.
  intros HC PC. pcfacts HC t PC HJ. destruct HJ as (E1 & Nin & Hop). unfold dq_tstep. rewrite PC. cbn [fst snd].
  set (nd := {| nleft := {| lptr := 0; ltag := ltag (nleft (heap g n)) + 1 |};
                  nright := {| lptr := 0; ltag := ltag (nright (heap g n)) + 1 |}; ndata := v |}).
  destruct (step_priv g ls t c pend n nd (set_heap g (hupd (heap g) n nd)) (goto (ls t) (PLoad s n)) HC) as [C' DF];
    try reflexivity; auto.
  - rewrite PC. reflexivity.
  - holdsnil PC.
  - unfold J. cbn [goto dpc]. split; [exact E1|]. split; [exact Nin|].
    cbn [set_heap heap]. rewrite hupd_same. exact Hop.
  - intros s'. unfold nd. destruct s'; cbn [outward nleft nright ltag]; lia.
  - exists c, pend, LTau. split; [exact C'|]. apply trans_tau; auto; [linnil PC|holdsnil PC].
Qed.

Lemma step_PLoad g (ls : locals dq_local) t c pend s n :
  Core g ls c pend -> dpc (ls t) = PLoad s n ->
  Step g ls t c pend (fst (dq_tstep tt t g (ls t))) (snd (dq_tstep tt t g (ls t))).
Proof.
  intros HC PC. pcfacts HC t PC HJ. unfold dq_tstep. rewrite PC. apply step_push_load; auto.
  - rewrite PC. reflexivity.
  - holdsnil PC.
  - linnil PC.
Qed.

Lemma step_PStore g (ls : locals dq_local) t c pend s n lrs :
  Core g ls c pend -> dpc (ls t) = PStore s n lrs ->
  Step g ls t c pend (fst (dq_tstep tt t g (ls t))) (snd (dq_tstep tt t g (ls t))).
Proof.
  intros HC PC. pcfacts HC t PC HJ. destruct HJ as ((E1 & Nin & Hop) & Sn & St & Nz). unfold dq_tstep. rewrite PC. cbn [fst snd].
  set (nd := set_inward s (heap g n) {| lptr := aend s lrs; ltag := ltag (inward s (heap g n)) + 1 |}).
  destruct (step_priv g ls t c pend n nd (set_heap g (hupd (heap g) n nd)) (goto (ls t) (PCas s n lrs false)) HC) as [C' DF];
    try reflexivity; auto.
  - rewrite PC. reflexivity.
  - holdsnil PC.
  - unfold J. cbn [goto dpc]. split; [|split; [exact Sn|]].
    + split; [exact E1|]. split; [exact Nin|]. cbn [set_heap heap]. rewrite hupd_same. unfold nd.
      rewrite data_set_inward. exact Hop.
    + split; [exact St|]. split; [exact Nz|]. cbn [set_heap heap]. rewrite hupd_same. unfold nd.
      rewrite inward_set_inward. reflexivity.
  - intros s'. unfold nd. destruct s, s'; cbn [outward inward set_inward nleft nright ltag]; lia.
  - exists c, pend, LTau. split; [exact C'|]. apply trans_tau; auto; [linnil PC|holdsnil PC].
Qed.

Lemma perm_push {A} s (n : A) c : Permutation (vw s (n :: vw s c)) (n :: c).
Proof.
  etransitivity; [symmetry; apply vw_perm|]. constructor. symmetry. apply vw_perm.
Qed.

Lemma shape_unstable_intro g c s : ast (anc g) = push_status s -> ushape s g c -> shape_ok g c.
Proof. intros H U. unfold shape_ok. rewrite H. destruct s; exact U. Qed.

Lemma empty_stable g ls pend : Core g ls [] pend -> ast (anc g) = Stable.
Proof.
  intros HC. destruct (ast (anc g)) eqn:ST; [reflexivity| |]; exfalso.
  - destruct (ushape_of _ _ _ _ HC SR ST) as (n & p & r & V & _). discriminate.
  - destruct (ushape_of _ _ _ _ HC SL ST) as (n & p & r & V & _). discriminate.
Qed.

Lemma hd_rev_cons {A} (x : A) l d : l <> [] -> hd d (rev (x :: l)) = hd d (rev l).
Proof.
  intros H. cbn [rev]. destruct (rev l) eqn:E; [|reflexivity].
  exfalso. apply H. apply (f_equal (@rev A)) in E. rewrite rev_involutive in E. exact E.
Qed.

Lemma step_PCas g (ls : locals dq_local) t c pend s n lrs emp :
  Core g ls c pend -> dpc (ls t) = PCas s n lrs emp ->
  Step g ls t c pend (fst (dq_tstep tt t g (ls t))) (snd (dq_tstep tt t g (ls t))).
Proof.
  intros HC PC. pcfacts HC t PC HJ. destruct HJ as (Hown & Sn & He). unfold dq_tstep. rewrite PC.
  assert (Hh : holds (ls t) = []) by holdsnil PC.
  assert (Ho : owns (dpc (ls t)) = Some n) by (rewrite PC; reflexivity).
  destruct (anchor_eqb (anc g) lrs) eqn:EA.
  2:{ cbn [fst snd]. apply tau_local; auto; try ownsame. unfold lin_event; rewrite PC, EA; reflexivity. }
  apply anchor_eqb_eq in EA. subst lrs. destruct Hown as (E1 & Nin & Hop).
  pose proof (live_pos _ _ _ _ HC n E1) as Npos.
  assert (LE : lin_event t g (ls t) = [ev t (Push s (ndata (heap g n))) None]).
  { unfold lin_event. rewrite PC, anchor_eqb_refl, Hop. reflexivity. }
  destruct emp.
  - (* the deque is empty *)
    pose proof (ends_nil _ _ _ _ HC s He) as ->. pose proof (empty_stable _ _ _ HC) as ST. cbn [fst snd].
    exists [n], pend, (LDoPush s (ndata (heap g n))). split.
    + apply step_acas with (g := g) (c := []) (pend := pend);
        [exact HC|reflexivity|reflexivity|reflexivity|reflexivity|reflexivity| | | | | | | | | | |exact Hh].
      * intros s'. destruct s'; reflexivity.
      * unfold shape_ok. cbn [dq_log set_anc anc ast]. rewrite ST. exact I.
      * cbn [app]. constructor; [exact Nin|]. apply (co_nodup _ _ _ _ HC).
      * intros x [].
      * auto.
      * intros x [<-|Hx]; [right; auto|left; exact Hx].
      * intros s' H. rewrite ST in H. exfalso. eapply push_status_not_stable; eauto.
      * exact I.
      * intros x Hx. cbn in Hx. discriminate.
      * auto.
    + split; [apply data_frame_refl; reflexivity|]. split; [|split; [exact Hh|reflexivity]].
      exists n. split; [destruct s; reflexivity|]. split; [reflexivity|]. split; [reflexivity|].
      split; [|exact LE]. cbn [dq_log dlog set_anc]. rewrite Hop. reflexivity.
  - (* non-empty and stable: publish with status push *)
    destruct He as (ST & Nz & Hin). destruct (ends_hd _ _ _ _ HC s Nz) as [r V].
    set (a := aend s (anc g)) in *. cbn [fst snd].
    set (des := set_aend s (anc g) n (push_status s) (atag (anc g) + 1)).
    set (c' := vw s (n :: vw s c)).
    assert (V' : vw s c' = n :: a :: r) by (unfold c'; rewrite vw_vw, V; reflexivity).
    assert (Hc' : forall x, In x c' <-> x = n \/ In x c).
    { intros x. unfold c'. rewrite (Permutation_in' (eq_refl x) (perm_push s n c)). cbn [In]. intuition. }
    exists c', pend, (LDoPush s (ndata (heap g n))). split.
    + apply step_acas with (g := g) (c := c) (pend := pend);
        [exact HC| |reflexivity|reflexivity|reflexivity|reflexivity| | | | | | | | | | |exact Hh].
      * cbn [dq_log set_anc anc]. unfold des. destruct s; reflexivity.
      * intros s'. cbn [dq_log set_anc anc]. destruct (side_cases s s') as [->| ->].
        -- unfold des. rewrite aend_set_aend, V'. reflexivity.
        -- unfold des. rewrite aend_opp_set_aend, vw_opp, V', (ends_far _ _ _ _ HC s), V.
           rewrite hd_last_rev. reflexivity.
      * apply (shape_unstable_intro _ _ s).
        -- cbn [dq_log set_anc anc]. unfold des. apply ast_set_aend.
        -- exists n, a, r. split; [exact V'|]. split; [exact Hin|].
           pose proof (stable_linked _ _ _ _ HC s ST) as L. rewrite V in L. exact L.
      * eapply Permutation_NoDup; [symmetry; apply Permutation_app_tail; apply perm_push|].
        cbn [app]. constructor; [exact Nin|apply (co_nodup _ _ _ _ HC)].
      * intros x Hx. left. apply Hc'. auto.
      * auto.
      * intros x Hx. apply in_app_or in Hx. destruct Hx as [Hx|Hx].
        -- apply Hc' in Hx. destruct Hx as [->|Hx]; [right; auto|left; apply in_app_l; exact Hx].
        -- left. apply in_app_r. exact Hx.
      * intros s' H. rewrite ST in H. exfalso. eapply push_status_not_stable; eauto.
      * unfold J. cbn [goto dpc Jk]. split; [exact I|]. split; [left; reflexivity|].
        unfold des. rewrite ast_set_aend, aend_set_aend. split; [reflexivity|lia].
      * intros x Hx. cbn in Hx. discriminate.
      * auto.
    + split; [apply data_frame_refl; reflexivity|]. split; [|split; [exact Hh|reflexivity]].
      exists n. split; [unfold c'; apply vw_vw|]. split; [reflexivity|]. split; [reflexivity|].
      split; [|exact LE]. cbn [dq_log dlog set_anc]. rewrite Hop. reflexivity.
Qed.

Lemma step_QLoad g (ls : locals dq_local) t c pend s :
  Core g ls c pend -> dpc (ls t) = QLoad s ->
  Step g ls t c pend (fst (dq_tstep tt t g (ls t))) (snd (dq_tstep tt t g (ls t))).
Proof.
  intros HC PC. pcfacts HC t PC HJ. unfold dq_tstep. rewrite PC. apply step_pop_load; auto.
  - rewrite PC. reflexivity.
  - holdsnil PC.
  - linnil PC.
Qed.

Lemma step_QChk g (ls : locals dq_local) t c pend s lrs :
  Core g ls c pend -> dpc (ls t) = QChk s lrs ->
  Step g ls t c pend (fst (dq_tstep tt t g (ls t))) (snd (dq_tstep tt t g (ls t))).
Proof.
  intros HC PC. pcfacts HC t PC HJ. unfold dq_tstep. rewrite PC.
  assert (Hh : holds (ls t) = []) by holdsnil PC.
  assert (Hl : lin_event t g (ls t) = []) by linnil PC.
  destruct (anchor_eqb (anc g) lrs); cbn [fst snd]; apply tau_local; auto; try (intros x Hx; cbn in Hx; discriminate).
  apply HJ.
Qed.

Lemma single_ends g ls c pend s a : Core g ls c pend -> vw s c = [a] -> al (anc g) = ar (anc g).
Proof.
  intros HC V. pose proof (co_ends _ _ _ _ HC s) as E1. pose proof (ends_far _ _ _ _ HC s) as E2.
  rewrite V in E1, E2. cbn in E1, E2. destruct s; cbn [aend opp] in *; congruence.
Qed.

Lemma step_QLink g (ls : locals dq_local) t c pend s lrs :
  Core g ls c pend -> dpc (ls t) = QLink s lrs ->
  Step g ls t c pend (fst (dq_tstep tt t g (ls t))) (snd (dq_tstep tt t g (ls t))).
Proof.
  intros HC PC. pcfacts HC t PC HJ. destruct HJ as (Hop & Sn & St & Ne & Nz). unfold dq_tstep. rewrite PC. cbn [fst snd].
  apply tau_local; auto; [|intros x Hx; cbn in Hx; discriminate|holdsnil PC|linnil PC].
  unfold J. cbn [goto dpc]. split; [exact Hop|]. split; [exact Sn|]. split; [exact Nz|].
  split; [exact St|]. split; [exact Ne|]. intros ->.
  destruct (ends_hd _ _ _ _ HC s Nz) as [r V]. destruct r as [|b r'].
  - exfalso. apply Ne. eapply single_ends; eauto.
  - pose proof (stable_linked _ _ _ _ HC s St) as L. rewrite V in L. destruct L as (L1 & _).
    exists r'. rewrite L1. exact V.
Qed.

Lemma step_QCas g (ls : locals dq_local) t c pend s lrs np :
  Core g ls c pend -> dpc (ls t) = QCas s lrs np ->
  Step g ls t c pend (fst (dq_tstep tt t g (ls t))) (snd (dq_tstep tt t g (ls t))).
Proof.
  intros HC PC. pcfacts HC t PC HJ. destruct HJ as (Hop & Sn & Nz & Hnp). unfold dq_tstep. rewrite PC.
  assert (Hh : holds (ls t) = []) by holdsnil PC.
  assert (Ho : owns (dpc (ls t)) = None) by (rewrite PC; reflexivity).
  destruct (anchor_eqb (anc g) lrs) eqn:EA.
  2:{ cbn [fst snd]. apply tau_local; auto; try (intros x Hx; cbn in Hx; discriminate).
      unfold lin_event; rewrite PC, EA; reflexivity. }
  apply anchor_eqb_eq in EA. subst lrs. cbn [fst snd].
  set (a := aend s (anc g)) in *.
  assert (LE : lin_event t g (ls t) = [ev t (Pop s) (Some (ndata (heap g a)))]).
  { unfold lin_event. rewrite PC, anchor_eqb_refl. reflexivity. }
  destruct np as [p|].
  - (* at least two elements *)
    destruct Hnp as (ST & Ne & Hsec). destruct (Hsec eq_refl) as [r V]. fold a in V.
    set (c' := vw s (p :: r)).
    assert (V' : vw s c' = p :: r) by (unfold c'; apply vw_vw).
    assert (Pc : Permutation c (a :: c')).
    { etransitivity; [apply (vw_perm s)|]. rewrite V. constructor. unfold c'. apply vw_perm. }
    exists c', (a :: pend), (LPopOk s (ndata (heap g a))). split.
    + apply step_acas with (g := g) (c := c) (pend := pend);
        [exact HC| |reflexivity|reflexivity|reflexivity|reflexivity| | | | | | | | | | |exact Hh].
      * cbn [set_anc anc pop_desired]. destruct s; reflexivity.
      * intros s'. cbn [set_anc anc pop_desired]. destruct (side_cases s s') as [->| ->].
        -- rewrite aend_set_aend, V'. reflexivity.
        -- rewrite aend_opp_set_aend, vw_opp, V', (ends_far _ _ _ _ HC s), V, hd_last_rev. reflexivity.
      * unfold shape_ok. cbn [set_anc anc pop_desired]. rewrite ast_set_aend, ST.
        apply (linkedS_unvw s). rewrite V'. pose proof (stable_linked _ _ _ _ HC s ST) as L. rewrite V in L.
        eapply linkedS_tail. exact L.
      * eapply Permutation_NoDup; [|apply (co_nodup _ _ _ _ HC)].
        etransitivity; [apply Permutation_app_tail; exact Pc|]. cbn [app]. apply Permutation_middle.
      * intros x Hx. apply (Permutation_in _ Pc) in Hx. destruct Hx as [<-|Hx]; [right; left; reflexivity|left; exact Hx].
      * intros x Hx. right. exact Hx.
      * intros x Hx. left. apply in_app_or in Hx. destruct Hx as [Hx|[<-|Hx]].
        -- apply in_app_l. apply (Permutation_in _ (Permutation_sym Pc)). right. exact Hx.
        -- apply in_app_l. apply (Permutation_in _ (Permutation_sym Pc)). left. reflexivity.
        -- apply in_app_r. exact Hx.
      * intros s' H. rewrite ST in H. exfalso. eapply push_status_not_stable; eauto.
      * unfold J. cbn [goto dpc]. split; [exact Hop|]. left. reflexivity.
      * intros x Hx. cbn in Hx. inversion Hx; subst x. right. apply (Permutation_in _ (Permutation_sym Pc)). left. reflexivity.
      * intros x [<-|Hx]; [right; exists s; reflexivity|left; exact Hx].
    + split; [apply data_frame_refl; reflexivity|]. split; [|exact Hh].
      exists a. split; [rewrite V, V'; reflexivity|]. repeat split; auto.
  - (* the last element *)
    destruct (ends_eq_single _ _ _ _ HC s Hnp Nz) as [Ec ST]. fold a in Ec.
    exists [], (a :: pend), (LPopOk s (ndata (heap g a))). split.
    + apply step_acas with (g := g) (c := c) (pend := pend);
        [exact HC|reflexivity|reflexivity|reflexivity|reflexivity|reflexivity| | | | | | | | | | |exact Hh].
      * intros s'. destruct s'; reflexivity.
      * unfold shape_ok. cbn [set_anc anc pop_desired ast]. rewrite ST. exact I.
      * pose proof (co_nodup _ _ _ _ HC) as ND. rewrite Ec in ND. exact ND.
      * intros x Hx. rewrite Ec in Hx. destruct Hx as [<-|[]]. right. left. reflexivity.
      * intros x Hx. right. exact Hx.
      * intros x Hx. left. rewrite Ec. exact Hx.
      * intros s' H. rewrite ST in H. exfalso. eapply push_status_not_stable; eauto.
      * unfold J. cbn [goto dpc]. split; [exact Hop|]. left. reflexivity.
      * intros x Hx. cbn in Hx. inversion Hx; subst x. right. rewrite Ec. left. reflexivity.
      * intros x [<-|Hx]; [right; exists s; reflexivity|left; exact Hx].
    + split; [apply data_frame_refl; reflexivity|]. split; [|exact Hh].
      exists a. split; [rewrite Ec; destruct s; reflexivity|]. repeat split; auto.
Qed.

Lemma Core_log g ls c pend t o r : Core g ls c pend -> Core (dq_log g t o r) ls c pend.
Proof. intros [H1 H2 H3 H4 H5 H6 H7 H8 H9 H10]. split; assumption. Qed.

Lemma step_QFree g (ls : locals dq_local) t c pend s a :
  Core g ls c pend -> dpc (ls t) = QFree s a ->
  Step g ls t c pend (fst (dq_tstep tt t g (ls t))) (snd (dq_tstep tt t g (ls t))).
Proof.
  intros HC PC. unfold dq_tstep. rewrite PC. cbn [fst snd].
  destruct (step_free g ls t c pend s a HC PC) as (p1 & p2 & Ep & C' & DF).
  exists c, (p1 ++ p2), (LFree s (ndata (heap g a))). split.
  - apply Core_log. exact C'.
  - split; [exact DF|]. split; [|reflexivity].
    exists a, p1, p2. repeat split; auto. linnil PC.
Qed.

Ltac kownsame := intros x Hx; cbn in Hx; match goal with PC : dpc _ = _ |- _ => rewrite PC end; cbn [owns]; exact Hx.

Lemma step_S1 g (ls : locals dq_local) t c pend k s lrs :
  Core g ls c pend -> dpc (ls t) = S1 k s lrs ->
  Step g ls t c pend (fst (dq_tstep tt t g (ls t))) (snd (dq_tstep tt t g (ls t))).
Proof.
  intros HC PC. pcfacts HC t PC HJ. destruct HJ as (HK & HS). unfold dq_tstep. rewrite PC.
  destruct HS as (Sn & St & Nz). apply N.eqb_neq in Nz. rewrite Nz. apply N.eqb_neq in Nz. cbn [fst snd].
  apply tau_local; auto; [|kownsame|holdsnil PC|linnil PC].
  unfold J. cbn [goto dpc]. split; [exact HK|]. split; [split; auto|]. intros ->.
  destruct (ushape_of _ _ _ _ HC s St) as (n & p & r & V & I0 & _).
  pose proof (co_ends _ _ _ _ HC s) as E. rewrite V in E. cbn [hd] in E. rewrite E, I0. exists r. exact V.
Qed.

Lemma step_S2 g (ls : locals dq_local) t c pend k s lrs prev :
  Core g ls c pend -> dpc (ls t) = S2 k s lrs prev ->
  Step g ls t c pend (fst (dq_tstep tt t g (ls t))) (snd (dq_tstep tt t g (ls t))).
Proof.
  intros HC PC. pcfacts HC t PC HJ. destruct HJ as (HK & HS & Hsec). unfold dq_tstep. rewrite PC.
  assert (Hh : holds (ls t) = []) by holdsnil PC.
  assert (Hl : lin_event t g (ls t) = []) by linnil PC.
  destruct (anchor_eqb (anc g) lrs) eqn:EA.
  - apply anchor_eqb_eq in EA. subst lrs. cbn [fst snd]. apply tau_local; auto; [|kownsame].
    unfold J. cbn [goto dpc]. split; [exact HK|]. split; [exact HS|]. split; [exact Hsec|].
    destruct (second_in _ _ _ _ (Hsec eq_refl)) as [_ Hp]. apply (chain_pos _ _ _ _ HC) in Hp. lia.
  - apply tau_resume; auto. rewrite PC. reflexivity.
Qed.

Lemma step_S3 g (ls : locals dq_local) t c pend k s lrs prev :
  Core g ls c pend -> dpc (ls t) = S3 k s lrs prev ->
  Step g ls t c pend (fst (dq_tstep tt t g (ls t))) (snd (dq_tstep tt t g (ls t))).
Proof.
  intros HC PC. pcfacts HC t PC HJ. destruct HJ as (HK & HS & Hsec & Nz). unfold dq_tstep. rewrite PC.
  assert (Hh : holds (ls t) = []) by holdsnil PC.
  assert (Hl : lin_event t g (ls t) = []) by linnil PC.
  apply N.eqb_neq in Nz. rewrite Nz.
  destruct (lptr (outward s (heap g (lptr prev))) =? aend s lrs) eqn:EL; cbn [fst snd]; apply tau_local; auto; try kownsame.
  - apply N.eqb_eq in EL. unfold J. cbn [goto dpc]. split; [exact HK|]. split; [exact HS|].
    intros EA n p r V. destruct (Hsec EA) as [r' V']. rewrite V in V'. injection V' as -> -> _. exact EL.
  - apply N.eqb_neq in EL. unfold J. cbn [goto dpc]. split; [exact HK|]. split; [exact HS|]. split; [exact Hsec|].
    split; [exact EL|]. split; [lia|]. intros _. split; [left; reflexivity|reflexivity].
Qed.

Lemma step_S4 g (ls : locals dq_local) t c pend k s lrs prev pn e :
  Core g ls c pend -> dpc (ls t) = S4 k s lrs prev pn e ->
  Step g ls t c pend (fst (dq_tstep tt t g (ls t))) (snd (dq_tstep tt t g (ls t))).
Proof.
  intros HC PC. pcfacts HC t PC HJ. destruct HJ as (HK & HS & Hsec & Np & Le & Hl'). unfold dq_tstep. rewrite PC.
  assert (Hh : holds (ls t) = []) by holdsnil PC.
  assert (Hl : lin_event t g (ls t) = []) by linnil PC.
  destruct (anchor_eqb (anc g) lrs) eqn:EA.
  - apply anchor_eqb_eq in EA. subst lrs. cbn [fst snd]. apply tau_local; auto; [|kownsame].
    unfold J. cbn [goto dpc]. split; [exact HK|]. split; [exact HS|]. split; [exact Hsec|]. split; [exact Np|].
    split; [exact Le|]. destruct (Hl' eq_refl) as [[H|H] Ee]; [left; auto|right; split; [exact H|]].
    apply (chain_nz _ _ _ _ HC). apply (second_in _ _ _ _ (Hsec eq_refl)).
  - apply tau_resume; auto. rewrite PC. reflexivity.
Qed.

Lemma Jk_heap g g' c pend l k :
  epoch g' = epoch g -> (forall x, kown k = Some x -> heap g' x = heap g x) -> Jk g c pend l k -> Jk g' c pend l k.
Proof.
  intros Ee Eh. destruct k as [|s n|s]; cbn [Jk kown] in *; trivial.
  unfold push_own, live. rewrite Ee, (Eh n eq_refl). trivial.
Qed.

Lemma kown_notin g ls c pend t k : Core g ls c pend -> Jk g c pend (ls t) k -> forall x, kown k = Some x -> ~ In x c.
Proof.
  intros HC HK x Hx. destruct k as [|s n|s]; cbn in Hx; try discriminate. inversion Hx; subst x.
  destruct HK as (_ & N & _). intros H. apply N. apply in_app_l. exact H.
Qed.

Lemma step_S5 g (ls : locals dq_local) t c pend k s lrs prev pn e :
  Core g ls c pend -> dpc (ls t) = S5 k s lrs prev pn e ->
  Step g ls t c pend (fst (dq_tstep tt t g (ls t))) (snd (dq_tstep tt t g (ls t))).
Proof.
  intros HC PC. pcfacts HC t PC HJ. destruct HJ as (HK & HS & Hsec & Np & Le & Hl'). unfold dq_tstep. rewrite PC.
  assert (Hh : holds (ls t) = []) by holdsnil PC.
  assert (Hl : lin_event t g (ls t) = []) by linnil PC.
  destruct (link_eqb (outward s (heap g (lptr prev))) pn) eqn:EL.
  2:{ apply tau_resume; auto. rewrite PC. reflexivity. }
  apply link_eqb_eq in EL.
  (* the CAS succeeded, so the expected value is the current one: by the invariant the snapshot is
     still current (a stale expected value has a strictly smaller tag than the link, for ever) *)
  destruct Hl' as [(EA & _ & _)|[Hlt' _]]; [|unfold lnk_lt in Hlt'; rewrite EL in Hlt'; lia].
  subst lrs. destruct (Hsec eq_refl) as [r V]. destruct HS as (Sn & St & Nz). cbn [fst snd].
  set (p := lptr prev) in *. set (n := aend s (anc g)) in *.
  set (g' := set_aba _ _).
  assert (Hp : In p c) by (apply (in_vw s); rewrite V; cbn; auto).
  destruct (step_lcas g ls t c pend s n p r g' (goto (ls t) (S6 k s (anc g))) HC St V Hh) as [C' DF];
    try reflexivity.
  - unfold g'. cbn [set_aba set_heap heap]. rewrite EL. reflexivity.
  - unfold J. cbn [goto dpc]. split; [|split; [split; auto|]].
    + apply Jk_heap with (g := g); [reflexivity| |exact HK]. intros x Hx. unfold g'. cbn [set_aba set_heap heap].
      apply hupd_other. intros ->. exact (kown_notin _ _ _ _ _ _ HC HK _ Hx Hp).
    + intros _ n0 p0 r0 V0. rewrite V in V0. injection V0 as <- <- _. unfold g'. cbn [set_aba set_heap heap].
      rewrite hupd_same, outward_set_outward. reflexivity.
  - kownsame.
  - exists c, pend, LTau. split; [exact C'|]. apply trans_tau; auto.
Qed.

Lemma step_S6 g (ls : locals dq_local) t c pend k s lrs :
  Core g ls c pend -> dpc (ls t) = S6 k s lrs ->
  Step g ls t c pend (fst (dq_tstep tt t g (ls t))) (snd (dq_tstep tt t g (ls t))).
Proof.
  intros HC PC. pcfacts HC t PC HJ. destruct HJ as (HK & HS & Hfix). unfold dq_tstep. rewrite PC.
  assert (Hh : holds (ls t) = []) by holdsnil PC.
  assert (Hl : lin_event t g (ls t) = []) by linnil PC.
  destruct (anchor_eqb (anc g) lrs) eqn:EA.
  2:{ apply tau_resume; auto. rewrite PC. reflexivity. }
  apply anchor_eqb_eq in EA. subst lrs. specialize (Hfix eq_refl). destruct HS as (Sn & St & Nz).
  set (g1 := set_anc g _).
  assert (HK1 : Jk g1 c pend (ls t) k) by exact HK.
  destruct (J_resume g1 c pend (ls t) k HK1) as (E & HJ' & Ho' & Hh').
  exists c, pend, LTau. split.
  - rewrite E. apply step_acas with (g := g) (c := c) (pend := pend);
        [exact HC|reflexivity|reflexivity|reflexivity|reflexivity|reflexivity| | | | | | | | | | |exact Hh].
    + intros s'. rewrite <- (co_ends _ _ _ _ HC s'). destruct s'; reflexivity.
    + unfold shape_ok. cbn [g1 set_anc anc ast]. apply (linkedS_unvw s).
      destruct (ushape_of _ _ _ _ HC s St) as (n & p & r & V & I0 & L). rewrite V.
      cbn [linkedS]. split; [exact I0|]. split; [apply (Hfix _ _ _ V)|exact L].
    + apply (co_nodup _ _ _ _ HC).
    + auto.
    + auto.
    + auto.
    + intros s' H. rewrite St in H. apply push_status_inj in H. subst s'. exact Hfix.
    + exact HJ'.
    + intros x Hx. left. rewrite PC. cbn [owns]. auto.
    + auto.
  - rewrite E. apply trans_tau; auto. apply data_frame_refl. reflexivity.
Qed.

(* ------------------------------------------------------------------ every step *)
Theorem core_step t g (ls : locals dq_local) c pend :
  Core g ls c pend ->
  Step g ls t c pend (fst (dq_tstep tt t g (ls t))) (snd (dq_tstep tt t g (ls t))).
Proof.
  intros HC. casepc (ls t).
  - apply step_DIdle; assumption.
  - exfalso. pcfacts HC t PC HJ. exact HJ.
  - eapply step_PInit; eauto.
  - eapply step_PLoad; eauto.
  - eapply step_PStore; eauto.
  - eapply step_PCas; eauto.
  - eapply step_QLoad; eauto.
  - eapply step_QChk; eauto.
  - eapply step_QLink; eauto.
  - eapply step_QCas; eauto.
  - eapply step_QFree; eauto.
  - eapply step_S1; eauto.
  - eapply step_S2; eauto.
  - eapply step_S3; eauto.
  - eapply step_S4; eauto.
  - eapply step_S5; eauto.
  - eapply step_S6; eauto.
Qed.

(* ------------------------------------------------------------------ the ghost flag [aba] is never raised *)
(* [aba] records "a link CAS succeeded although its target was freed / re-allocated since the
   expected value was read" (the F15 event).  On the repaired code it cannot happen: a link CAS
   succeeds only in the first disjunct of the S5 invariant, where the epoch is the one read at S3. *)
Theorem aba_step t g (ls : locals dq_local) c pend :
  Core g ls c pend -> aba g = false -> aba (fst (dq_tstep tt t g (ls t))) = false.
Proof.
  intros HC AB.
  assert (FA : aba (fst (fl_alloc g)) = aba g) by (unfold fl_alloc; destruct (pool g =? 0); reflexivity).
  casepc (ls t); unfold dq_tstep; rewrite PC.
  - destruct (dtodo (ls t)) as [|[s v|s] rest]; [exact AB| |].
    + destruct (fl_alloc g) as [g1 a1]. cbn [fst] in *. congruence.
    + unfold pop_load. destruct (aend s (anc g) =? 0); [exact AB|]. destruct (al (anc g) =? ar (anc g)); [exact AB|].
      destruct (ast (anc g)); exact AB.
  - exact AB.
  - exact AB.
  - unfold push_load. destruct (aend s (anc g) =? 0); [exact AB|]. destruct (ast (anc g)); exact AB.
  - exact AB.
  - destruct (anchor_eqb (anc g) lrs); [destruct emp|]; exact AB.
  - unfold pop_load. destruct (aend s (anc g) =? 0); [exact AB|]. destruct (al (anc g) =? ar (anc g)); [exact AB|].
    destruct (ast (anc g)); exact AB.
  - destruct (anchor_eqb (anc g) lrs); exact AB.
  - exact AB.
  - destruct (anchor_eqb (anc g) lrs); exact AB.
  - exact AB.
  - destruct (aend s lrs =? 0); exact AB.
  - destruct (anchor_eqb (anc g) lrs); [exact AB|]. destruct k; exact AB.
  - destruct (lptr prev =? 0); [exact AB|].
    destruct (lptr (outward s (heap g (lptr prev))) =? aend s lrs); exact AB.
  - destruct (anchor_eqb (anc g) lrs); [exact AB|]. destruct k; exact AB.
  - pcfacts HC t PC HJ. destruct HJ as (_ & _ & _ & _ & _ & Hl').
    destruct (link_eqb (outward s (heap g (lptr prev))) pn) eqn:EL; [|destruct k; exact AB].
    apply link_eqb_eq in EL. cbn [fst set_aba aba]. rewrite AB. cbn [orb].
    destruct Hl' as [(_ & _ & Ee)|[Hlt' _]]; [|unfold lnk_lt in Hlt'; rewrite EL in Hlt'; lia].
    rewrite Ee, N.eqb_refl. reflexivity.
  - destruct (anchor_eqb (anc g) lrs); destruct k; exact AB.
Qed.
