(* Proofs/SchedDeltaProofs.v — one summary of what a step of the scheduler model does to the
   state words, the incarnation numbers, the ghost log and the set of retry helpers ("sdelta").
   Every step is of one of three shapes: quiet (no word changes, no word / enter / new event),
   one word transition (logged with its site, old and new word; an Enter event iff the site is
   the pending->active CAS), or the creation / rebinding of one thread object.  The acceptor
   completeness theorems (SchedAcceptProofs.v) and helper_abort_sound (SchedAbortProofs.v) are
   consequences of this summary and of the invariants of SchedRecycleProofs.v. *)
From Coq Require Import List NArith Bool Arith Lia.
From Pika Require Import Base.Conc Gen.GenEnums Model.Sched Proofs.SchedProofs.
Import ListNotations.

(* ------------------------------------------------------------------ projections of a log segment *)
Definition wproj (e : ev) : list (nat * wsite * word * word) :=
  match e with EvWord i s o n => [(i, s, o, n)] | _ => [] end.
Definition wlog (l : list ev) : list (nat * wsite * word * word) := flat_map wproj l.
Definition eproj (e : ev) : list nat := match e with EvEnter i _ _ => [i] | _ => [] end.
Definition elog (l : list ev) : list nat := flat_map eproj l.
Definition pushes_ok (l : list ev) : Prop := forall i w, In (EvPush i w) l -> st w = st_pending.

(* a retry helper for (u, prev) exists: staged description or body of a thread object *)
Definition halive (g : G) (u : nat) (prev : word) : Prop :=
  In (HelperBody u prev) (staged g) \/ exists h, h < ntasks g /\ todo (tasks g h) = HelperBody u prev.
(* helpers of g' are helpers of g, or were created in this step for the word just loaded *)
Definition hstep (g g' : G) (l : list ev) : Prop :=
  forall u prev, halive g' u prev ->
    halive g u prev \/
    (u < ntasks g /\ st prev = st_active /\ tw_of g u = prev /\ tw_of g' u = prev /\ gid g' u = gid g u /\
     In (EvHelp (gid g u) prev) l).
(* an abort event is logged only by a helper whose abort test succeeded *)
Definition aborts_ok (g : G) (l : list ev) : Prop :=
  forall h i prev cur, In (EvAbort h i prev cur) l ->
    exists u, i = gid g u /\ halive g u prev /\ cur = tw_of g u /\ st cur = st prev /\ cur <> prev.

Definition shape (g g' : G) (l : list ev) : Prop :=
  (gid g' = gid g /\ ninc g' = ninc g /\ ntasks g' = ntasks g /\ (forall y, tw_of g' y = tw_of g y) /\
   wlog l = [] /\ elog l = [])
  \/ (exists y s o n, y < ntasks g /\ gid g' = gid g /\ ninc g' = ninc g /\ ntasks g' = ntasks g /\
        tw_of g y = o /\ tw_of g' y = n /\ (forall z, z <> y -> tw_of g' z = tw_of g z) /\
        trans_ok s o n = true /\ wlog l = [(gid g y, s, o, n)] /\
        elog l = match s with SiteAct => [gid g y] | _ => [] end)
  \/ (exists x, ((x = ntasks g /\ ntasks g' = S (ntasks g)) \/ (In x (heap g) /\ ntasks g' = ntasks g)) /\
        gid g' = upd (gid g) x (ninc g) /\ ninc g' = S (ninc g) /\
        tw_of g' x = w_init /\ (forall z, z <> x -> tw_of g' z = tw_of g z) /\ wlog l = [] /\ elog l = []).

Definition sdelta (g g' : G) : Prop :=
  exists l, log g' = l ++ log g /\ pushes_ok l /\ hstep g g' l /\ aborts_ok g l /\ shape g g' l.

(* ------------------------------------------------------------------ helpers *)
Definition nh (b : body) : Prop := forall u p, b <> HelperBody u p.

Lemma hstep_gen g g' l :
  (forall u p, In (HelperBody u p) (staged g') -> In (HelperBody u p) (staged g)) ->
  (forall h u p, h < ntasks g' -> todo (tasks g' h) = HelperBody u p ->
     (h < ntasks g /\ todo (tasks g h) = HelperBody u p) \/ In (HelperBody u p) (staged g)) ->
  hstep g g' l.
Proof.
  intros Hs Ht u prev [H|(h & Hh & Hd)]; left.
  - left. now apply Hs.
  - destruct (Ht h u prev Hh Hd) as [[H1 H2]|H]; [right; exists h; auto | left; exact H].
Qed.

Lemma hstep_same g g' l :
  staged g' = staged g -> ntasks g' = ntasks g ->
  (forall h, todo (tasks g' h) = todo (tasks g h) \/ nh (todo (tasks g' h))) ->
  hstep g g' l.
Proof.
  intros Es En Ht. apply hstep_gen.
  - intros u p. now rewrite Es.
  - intros h u p Hh Hd. left. rewrite En in Hh. split; [exact Hh|].
    destruct (Ht h) as [E|E]; [now rewrite <- E | exfalso; exact (E u p Hd)].
Qed.

Lemma todo_set_task g t k h :
  todo (tasks (set_task g t k) h) = if Nat.eqb h t then todo k else todo (tasks g h).
Proof. cbn. unfold upd. destruct (Nat.eqb h t); reflexivity. Qed.

Ltac noab := match goal with |- aborts_ok _ _ =>
  let h := fresh in let i := fresh in let p := fresh in let c := fresh in let Hin := fresh in
  intros h i p c Hin; cbn in Hin; repeat (destruct Hin as [Hin|Hin]; [discriminate Hin|]); destruct Hin end.
Ltac nopush := match goal with |- pushes_ok _ =>
  let i := fresh in let w := fresh in let Hin := fresh in
  intros i w Hin; cbn in Hin; repeat (destruct Hin as [Hin|Hin]; [discriminate Hin|]); destruct Hin end.

Lemma sdelta_quiet g g' l :
  log g' = l ++ log g -> gid g' = gid g -> ninc g' = ninc g -> ntasks g' = ntasks g ->
  (forall y, tw_of g' y = tw_of g y) -> wlog l = [] -> elog l = [] ->
  pushes_ok l -> aborts_ok g l -> hstep g g' l -> sdelta g g'.
Proof. intros. exists l. repeat split; auto. left. repeat split; auto. Qed.

Lemma sdelta_refl g : sdelta g g.
Proof.
  apply (sdelta_quiet g g []); auto; try nopush; try noab.
  apply hstep_same; auto.
Qed.

(* creation / rebinding of a thread object; g1 = g after the caller's own bookkeeping *)
Lemma sdelta_new g g1 b h :
  ntasks g1 = ntasks g -> heap g1 = heap g -> gid g1 = gid g -> ninc g1 = ninc g -> log g1 = log g ->
  (forall y, tw_of g1 y = tw_of g y) ->
  (forall u p, In (HelperBody u p) (staged g1) -> In (HelperBody u p) (staged g)) ->
  (nh b \/ In b (staged g)) ->
  (forall h' u p, h' < ntasks g -> todo (tasks g1 h') = HelperBody u p -> todo (tasks g h') = HelperBody u p) ->
  sdelta g (new_task g1 b h).
Proof.
  intros En Eh Eg Ei El Ew Hs Hb Ht.
  exists [EvPush (ninc g) w_init; EvNew (ninc g)]. split.
  { unfold new_task. cbn [log]. rewrite Ei, El. reflexivity. }
  split.
  { intros i w [H|[H|[]]]; [|discriminate H]. inversion H; subst. reflexivity. }
  split.
  { apply hstep_gen.
    - intros u p H. apply Hs. exact H.
    - intros h' u p Hh Hd. unfold new_task in Hd, Hh. cbn [tasks ntasks] in Hd, Hh. fold (new_slot g1 h) in Hd.
      destruct (Nat.eq_dec h' (new_slot g1 h)) as [->|Hne].
      + rewrite upd_same in Hd. cbn [todo] in Hd. right.
        destruct Hb as [Hb|Hb]; [exfalso; exact (Hb u p Hd) | now rewrite <- Hd].
      + rewrite upd_other in Hd by assumption. left.
        assert (Hlt : h' < ntasks g).
        { unfold new_slot in Hne. destruct (nth_error (heap g1) h); lia. }
        split; [exact Hlt | now apply Ht]. }
  split; [noab|].
  right. right. exists (new_slot g1 h). split.
  { unfold new_slot, new_task. cbn [ntasks]. rewrite Eh, En.
    destruct (nth_error (heap g) h) as [x|] eqn:E; [right | left]; split; auto.
    eapply nth_error_In; eauto. }
  split; [unfold new_task; cbn [gid]; fold (new_slot g1 h); now rewrite Eg, Ei|].
  split; [unfold new_task; cbn [ninc]; now rewrite Ei|].
  split; [apply tw_of_new_task_same|].
  split; [|split; reflexivity].
  intros z Hz. rewrite tw_of_new_task_other by exact Hz. apply Ew.
Qed.

Lemma sdelta_spawn g g1 b (now : bool) h :
  ntasks g1 = ntasks g -> heap g1 = heap g -> gid g1 = gid g -> ninc g1 = ninc g -> log g1 = log g ->
  (forall y, tw_of g1 y = tw_of g y) -> staged g1 = staged g ->
  (forall h', todo (tasks g1 h') = todo (tasks g h') \/ nh (todo (tasks g1 h'))) ->
  sdelta g (if now then new_task g1 (UserBody b) h else stage g1 (UserBody b)).
Proof.
  intros En Eh Eg Ei El Ew Es Ht. destruct now.
  - apply sdelta_new; auto.
    + intros u p. now rewrite Es.
    + left. intros u p. discriminate.
    + intros h' u p _ Hd. destruct (Ht h') as [E|E]; [now rewrite <- E | exfalso; exact (E u p Hd)].
  - apply (sdelta_quiet g _ []); auto; try nopush; try noab.
    apply hstep_gen.
    + intros u p. cbn [staged stage set_staged]. rewrite Es. intros [H|H]; [discriminate H | exact H].
    + intros h' u p Hh Hd. left. change (ntasks (stage g1 (UserBody b))) with (ntasks g1) in Hh.
      change (tasks (stage g1 (UserBody b))) with (tasks g1) in Hd.
      rewrite En in Hh. split; [exact Hh|].
      destruct (Ht h') as [E|E]; [now rewrite <- E | exfalso; exact (E u p Hd)].
Qed.

Lemma in_remove_nth_sub {A} (l : list A) i y : In y (remove_nth i l) -> In y l.
Proof.
  revert i. induction l as [|z l IH]; intros [|i] H; cbn in *; auto. destruct H as [H|H]; eauto.
Qed.
Lemma nh_user l : nh (UserBody l).
Proof. intros u p. discriminate. Qed.
Lemma nh_run u : nh (HelperRun u).
Proof. intros u' p. discriminate. Qed.

Lemma todo_set_todo_cases g t b h :
  todo (tasks (set_todo g t b) h) = todo (tasks g h) \/ todo (tasks (set_todo g t b) h) = b.
Proof.
  unfold set_todo. rewrite todo_set_task. destruct (Nat.eqb h t); [right | left]; reflexivity.
Qed.

(* ------------------------------------------------------------------ set_thread_state steps *)
Lemma sub_step_sdelta g s :
  sub_ok (ntasks g) (tw_of g) s -> sdelta g (fst (sub_step g s)).
Proof.
  intros Hs. destruct s as [|u|u|u prev|u]; cbn [sub_step].
  - apply sdelta_refl.
  - (* SIssue *)
    destruct (reg (tasks g u)) as [p|]; cbn [fst].
    + apply (sdelta_quiet g _ [EvIssue (gid g u) (Some p)]); auto; try nopush; try noab.
      * intros y. rewrite tw_of_add_log. apply tw_of_set_task_keep. reflexivity.
      * apply hstep_same; auto. intros h. left. cbn [add_log tasks]. rewrite todo_set_task.
        destruct (Nat.eqb h u) eqn:E; [apply Nat.eqb_eq in E; subst|]; reflexivity.
    + apply (sdelta_quiet g _ [EvIssue (gid g u) None]); auto; try nopush; try noab.
      apply hstep_same; auto.
  - (* SLoad *)
    destruct (u <? ntasks g) eqn:Eu; [apply Nat.ltb_lt in Eu | apply sdelta_refl].
    destruct (st (tw_of g u)) eqn:Est; cbn [fst]; try apply sdelta_refl.
    apply (sdelta_quiet g _ [EvHelp (gid g u) (tw_of g u)]); auto; try nopush; try noab.
    intros u' p [H|(h & Hh & Hd)].
    + cbn [staged add_log stage set_staged] in H. destruct H as [H|H]; [|left; left; exact H].
      inversion H; subst. right. repeat split; auto. now left.
    + left. right. exists h. auto.
  - (* SCas *)
    cbn in Hs. destruct Hs as [Hun Hprev].
    destruct (word_eqb (tw_of g u) prev) eqn:Ew; [|apply sdelta_refl].
    apply word_eqb_true in Ew.
    set (g1 := add_log (set_word g u (w_pending prev)) (EvWord (gid g u) SiteSet prev (w_pending prev))).
    assert (Hgen : forall gg l, log gg = l ++ log g -> wlog l = [(gid g u, SiteSet, prev, w_pending prev)] ->
               elog l = [] -> pushes_ok l -> aborts_ok g l ->
               gid gg = gid g -> ninc gg = ninc g -> ntasks gg = ntasks g -> staged gg = staged g ->
               tasks gg = tasks g1 -> sdelta g gg).
    { intros gg l E1 E2 E3 E4 E5 E6 E7 E8 E9 E10. exists l. repeat split; auto.
      - apply hstep_same; auto. intros h. left. rewrite E10. unfold g1. cbn [add_log tasks]. unfold set_word.
        rewrite todo_set_task. destruct (Nat.eqb h u) eqn:E; [apply Nat.eqb_eq in E; subst|]; reflexivity.
      - right. left. exists u, SiteSet, prev, (w_pending prev). repeat split; auto.
        + unfold tw_of. rewrite E10. fold (tw_of g1 u). unfold g1. rewrite tw_of_add_log. apply tw_of_set_word_same.
        + intros z Hz. unfold tw_of. rewrite E10. fold (tw_of g1 z). unfold g1. rewrite tw_of_add_log.
          now apply tw_of_set_word_other.
        + cbn. rewrite N.eqb_refl. destruct Hprev as [-> | ->]; reflexivity. }
    destruct (sst_beq (st prev) st_suspended); cbn [fst].
    + destruct (match wake (tasks g u) with Some p => negb (N.eqb (p + 1) (tag prev)) | None => true end).
      * apply (Hgen _ [EvSpur (gid g u) (tag prev); EvWord (gid g u) SiteSet prev (w_pending prev)]); auto; try nopush; try noab.
      * apply (Hgen _ [EvWord (gid g u) SiteSet prev (w_pending prev)]); auto; try nopush; try noab.
    + apply (Hgen _ [EvWord (gid g u) SiteSet prev (w_pending prev)]); auto; try nopush; try noab.
  - (* SEnq *)
    cbn in Hs. destruct Hs as [Hun Hp]. cbn [fst].
    apply (sdelta_quiet g _ [EvPush (gid g u) (tw_of g u)]); auto; try noab.
    + intros i w [H|[]]. inversion H; subst. exact Hp.
    + apply hstep_same; auto.
Qed.

(* ------------------------------------------------------------------ every step *)
Theorem tstep_sdelta o a g ls :
  SInv g ls -> sdelta g (fst (tstep o a g (ls a))).
Proof.
  intros HI. assert (Hpc := i_pc _ _ _ _ HI a).
  destruct (ls a) as [|t|t w0|t orig s|t orig ret|t orig ret cur|t|t prev|t|t|acts s] eqn:Ha; cbn [tstep].
  - (* WTop *)
    destruct (ob o).
    + destruct (nth_error (pend g) (oi o)); cbn [fst]; [|apply sdelta_refl].
      apply (sdelta_quiet g _ []); auto; try nopush; try noab. apply hstep_same; auto.
    + destruct (nth_error (staged g) (oi o)) as [b|] eqn:En; cbn [fst].
      * apply sdelta_new; auto.
        -- intros u p H. cbn [staged set_staged] in H. eapply in_remove_nth_sub; eauto.
        -- right. eapply nth_error_In; eauto.
      * destruct (term g); cbn [fst]; [apply sdelta_refl|].
        apply (sdelta_quiet g _ []); auto; try nopush; try noab. apply hstep_same; auto.
  - apply sdelta_refl.
  - (* WLoaded *)
    destruct Hpc as [(Ht & Hw & Hp) _]. subst w0. rewrite Hp, word_eqb_refl. cbn [fst].
    set (nw := {| st := st_active; tag := tag (tw_of g t) + 1 |}).
    set (k := tasks g t).
    exists [EvEnter (gid g t) (ph k) a; EvWord (gid g t) SiteAct (tw_of g t) nw].
    split; [destruct (sref g t); reflexivity|].
    split; [nopush|]. split.
    { apply hstep_same; try (destruct (sref g t); reflexivity).
      intros h. left. destruct (sref g t); cbn; unfold upd;
        (destruct (Nat.eqb h t) eqn:E; [apply Nat.eqb_eq in E; subst|]; reflexivity). }
    split; [noab|].
    right. left. exists t, SiteAct, (tw_of g t), nw.
    split; [exact Ht|]. split; [destruct (sref g t); reflexivity|]. split; [destruct (sref g t); reflexivity|].
    split; [destruct (sref g t); reflexivity|]. split; [reflexivity|].
    split; [destruct (sref g t); unfold tw_of; cbn; rewrite upd_same; reflexivity|].
    split; [intros z Hz; destruct (sref g t); unfold tw_of; cbn; rewrite upd_other by assumption; reflexivity|].
    split; [cbn; rewrite Hp, N.eqb_refl; reflexivity|].
    split; reflexivity.
  - (* WRun *)
    destruct s as [|u|u|u prev|u].
    2-5: destruct Hpc as [_ Hs]; cbn [sub_of] in Hs;
         match goal with |- context [sub_step ?gg ?s] =>
           assert (H := sub_step_sdelta gg s Hs); destruct (sub_step gg s) as [g' s']; exact H end.
    destruct Hpc as [(Ht & Hw & Hact) _].
    unfold run_act. destruct (todo (tasks g t)) as [[|ac r]|u prev|u] eqn:Etd; [apply sdelta_refl| | |].
    + assert (Hq : sdelta g (set_todo g t (UserBody r))).
      { apply (sdelta_quiet g _ []); auto; try nopush; try noab.
        - intros y. apply tw_of_set_todo.
        - apply hstep_same; auto. intros h.
          destruct (todo_set_todo_cases g t (UserBody r) h) as [E|E]; [left; exact E | right; rewrite E; apply nh_user]. }
      destruct ac as [| | | |b now|u|v]; cbn [fst]; try exact Hq.
      * apply (sdelta_quiet g _ []); auto; try nopush; try noab.
        -- intros y. rewrite tw_of_set_reg. apply tw_of_set_todo.
        -- apply hstep_same; auto. intros h. unfold set_reg. rewrite todo_set_task.
           destruct (Nat.eqb h t) eqn:E; [|left; apply Nat.eqb_neq in E; unfold set_todo; rewrite todo_set_task;
             apply Nat.eqb_neq in E; now rewrite E].
           apply Nat.eqb_eq in E. subst h. right. unfold set_todo. rewrite todo_set_task, Nat.eqb_refl. apply nh_user.
      * apply sdelta_spawn; auto.
        -- intros y. apply tw_of_set_todo.
        -- intros h.
           destruct (todo_set_todo_cases g t (UserBody r) h) as [E|E]; [left; exact E | right; rewrite E; apply nh_user].
    + (* helper: set_active_state *)
      assert (Hh : forall l, hstep g (set_todo g t (HelperRun u)) l).
      { intros l. apply hstep_same; auto. intros h.
        destruct (todo_set_todo_cases g t (HelperRun u) h) as [E|E]; [left; exact E | right; rewrite E; apply nh_run]. }
      destruct (sst_beq (st (tw_of g u)) (st prev) && negb (word_eqb (tw_of g u) prev)) eqn:Eab; cbn [fst].
      * apply andb_true_iff in Eab. destruct Eab as [E1 E2]. apply sst_beq_true in E1.
        apply negb_true_iff in E2. apply word_eqb_false in E2.
        apply (sdelta_quiet g _ [EvAbort (gid g t) (gid g u) prev (tw_of g u)]); auto; try nopush.
        -- intros y. rewrite tw_of_add_log. apply tw_of_set_todo.
        -- intros h i p c [H|[]]. inversion H; subst. exists u. repeat split; auto.
           right. exists t. auto.
        -- intros u' p H. apply (Hh _ u' p). exact H.
      * apply (sdelta_quiet g _ []); auto; try nopush; try noab.
        intros y. apply tw_of_set_todo.
    + (* helper: release *)
      cbn [fst]. destruct (rc_dec_view (set_todo g t (UserBody [])) u) as (E1 & E2 & E3 & E4 & E5 & E6 & E7 & E8 & E9).
      apply (sdelta_quiet g _ []); rewrite ?E5, ?E6, ?E7, ?E2; try reflexivity; try nopush; try noab.
      * intros y. rewrite tw_of_rc_dec. apply tw_of_set_todo.
      * apply hstep_same; [rewrite E4; reflexivity | rewrite E2; reflexivity |].
        intros h. rewrite E1.
        destruct (todo_set_todo_cases g t (UserBody []) h) as [E|E]; [left; exact E | right; rewrite E; apply nh_user].
  - apply sdelta_refl.
  - (* WStoreC *)
    destruct Hpc as [(Ht & Hw & Hact & Hr & Hcur) _]. subst cur. subst orig.
    rewrite word_eqb_refl. cbn [fst]. cbv zeta.
    set (nw := {| st := ret; tag := tag (tw_of g t) + 1 |}).
    exists [EvWord (gid g t) SiteStore (tw_of g t) nw; EvExit (gid g t) (pred (ph (tasks g t))) a ret].
    split; [destruct (sst_beq ret st_terminated); reflexivity|].
    split; [nopush|]. split.
    { apply hstep_same; try (destruct (sst_beq ret st_terminated); reflexivity).
      intros h. left. destruct (sst_beq ret st_terminated); cbn; unfold upd;
        (destruct (Nat.eqb h t) eqn:E; [apply Nat.eqb_eq in E; subst|]; reflexivity). }
    split; [noab|].
    right. left. exists t, SiteStore, (tw_of g t), nw.
    split; [exact Ht|]. split; [destruct (sst_beq ret st_terminated); reflexivity|].
    split; [destruct (sst_beq ret st_terminated); reflexivity|].
    split; [destruct (sst_beq ret st_terminated); reflexivity|]. split; [reflexivity|].
    split; [destruct (sst_beq ret st_terminated); unfold tw_of; cbn; rewrite upd_same; reflexivity|].
    split; [intros z Hz; destruct (sst_beq ret st_terminated); unfold tw_of; cbn; rewrite upd_other by assumption; reflexivity|].
    split; [|split; reflexivity].
    cbn. rewrite Hact, N.eqb_refl. destruct Hr as [->|[->|[->| ->]]]; reflexivity.
  - apply sdelta_refl.
  - (* WBoostC *)
    destruct Hpc as [(Ht & Hb) _].
    destruct (word_eqb (tw_of g t) prev) eqn:Ew; cbn [fst]; [|apply sdelta_refl].
    apply word_eqb_true in Ew. subst prev.
    match goal with |- sdelta g (add_log (set_word g t ?w) _) => set (nw := w) end.
    exists [EvWord (gid g t) SiteBoost (tw_of g t) nw].
    split; [reflexivity|]. split; [nopush|]. split.
    { apply hstep_same; auto. intros h. left. cbn [add_log tasks]. unfold set_word. rewrite todo_set_task.
      destruct (Nat.eqb h t) eqn:E; [apply Nat.eqb_eq in E; subst|]; reflexivity. }
    split; [noab|].
    right. left. exists t, SiteBoost, (tw_of g t), nw. repeat split; auto.
    + rewrite tw_of_add_log. apply tw_of_set_word_same.
    + intros z Hz. rewrite tw_of_add_log. now apply tw_of_set_word_other.
    + unfold nw. cbn. destruct Hb as [Hb|Hb]; rewrite Hb; cbn; rewrite N.eqb_refl; reflexivity.
  - (* WRequeue *)
    destruct Hpc as [(Ht & Hp) _]. cbn [fst].
    apply (sdelta_quiet g _ [EvPush (gid g t) (tw_of g t)]); auto; try noab.
    + intros i w [H|[]]. inversion H; subst. exact Hp.
    + apply hstep_same; auto.
  - (* WRelease *)
    cbn [fst]. destruct (rc_dec_view g t) as (E1 & E2 & E3 & E4 & E5 & E6 & E7 & E8 & E9).
    apply (sdelta_quiet g _ []); rewrite ?E5, ?E6, ?E7, ?E2; try reflexivity; try nopush; try noab.
    + intros y. apply tw_of_rc_dec.
    + apply hstep_same; auto. intros h. left. now rewrite E1.
  - (* XRun *)
    destruct s as [|u|u|u prev|u].
    2-5: destruct Hpc as [_ Hs]; cbn [sub_of] in Hs;
         match goal with |- context [sub_step ?gg ?s] =>
           assert (H := sub_step_sdelta gg s Hs); destruct (sub_step gg s) as [g' s']; exact H end.
    destruct acts as [|[| | | |b now|u|v] r]; cbn [fst]; try apply sdelta_refl.
    apply sdelta_spawn; auto.
Qed.
