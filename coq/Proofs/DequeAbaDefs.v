(* Proofs/DequeAbaDefs.v — the concurrent invariant of the REPAIRED lock-free deque (link tags continue
   across node reuse; nodes are recycled without restriction; NO guard): definitions (the step proof is
   in Proofs/DequeAbaProofs.v; the files keep their names from the previous round, in which the same
   invariant was proved under the guard [aba = false] — the guard is now a theorem, [aba_step]).
   "Allocated and not freed" = odd epoch; a thread before its link CAS knows
   "(snapshot current and link = expected) or tag(expected) < tag(link)", the second disjunct being
   stable for ever because a link's tag never decreases over the lifetime of its address.

   [Core g ls c pend] relates a state of Model/Deque.v to
     c    : the abstract chain, the addresses of the nodes of the deque from left to right, and
     pend : the nodes that a successful pop CAS has unlinked and whose FREE step (read the
            value, log it, give the node back to the pool) is still to come.
   It is Michael's invariant (Euro-Par 2003): the anchor points at the two ends of c; when the
   status is stable all inner links are consistent; when it is rpush/lpush the freshly pushed end
   node points inwards at the old end node, and only the old end node's outward link may still be
   wrong.  Every thread's registers are described by [J]: snapshots are the current anchor or have
   a smaller tag; what was read under a snapshot is correct as long as the snapshot is current. *)
From Coq Require Import List NArith Bool Lia Arith Permutation.
From Pika Require Import Base.Conc Model.IndexQueue Model.DequeSpec Model.Deque Model.DequeLin
  Proofs.DequeProofs Proofs.DequeConcDefs.
Import ListNotations.
Local Open Scope N_scope.

(* ------------------------------------------------------------------ the invariant *)
Definition live (g : dq_shared) (a : addr) : Prop := N.odd (epoch g a) = true.

Definition push_own (g : dq_shared) (c pend : list addr) (l : dq_local) (s : side) (n : addr) : Prop :=
  live g n /\ ~ In n (c ++ pend) /\ cur_op l = Push s (ndata (heap g n)).

Definition Jk (g : dq_shared) (c pend : list addr) (l : dq_local) (k : kont) : Prop :=
  match k with
  | KDone => True
  | KPush s n => push_own g c pend l s n
  | KPop s => cur_op l = Pop s
  end.

Definition J (g : dq_shared) (c pend : list addr) (l : dq_local) : Prop :=
  match dpc l with
  | DIdle => True
  | DCrashed => False
  | PInit s v n => live g n /\ ~ In n (c ++ pend) /\ cur_op l = Push s v
  | PLoad s n => push_own g c pend l s n
  | PStore s n lrs => push_own g c pend l s n /\ snap_ok g lrs /\ ast lrs = Stable /\ aend s lrs <> 0
  | PCas s n lrs emp =>
      push_own g c pend l s n /\ snap_ok g lrs /\
      (if emp then aend s lrs = 0
       else ast lrs = Stable /\ aend s lrs <> 0 /\ lptr (inward s (heap g n)) = aend s lrs)
  | QLoad s => cur_op l = Pop s
  | QChk s lrs | QLink s lrs =>
      cur_op l = Pop s /\ snap_ok g lrs /\ ast lrs = Stable /\ al lrs <> ar lrs /\ aend s lrs <> 0
  | QCas s lrs np =>
      cur_op l = Pop s /\ snap_ok g lrs /\ aend s lrs <> 0 /\
      match np with
      | None => al lrs = ar lrs
      | Some p => ast lrs = Stable /\ al lrs <> ar lrs /\ (lrs = anc g -> second s c (aend s lrs) p)
      end
  | QFree s a => cur_op l = Pop s /\ In a pend
  | S1 k s lrs => Jk g c pend l k /\ stab_ok g s lrs
  | S2 k s lrs prev =>
      Jk g c pend l k /\ stab_ok g s lrs /\ (lrs = anc g -> second s c (aend s lrs) (lptr prev))
  | S3 k s lrs prev =>
      Jk g c pend l k /\ stab_ok g s lrs /\ (lrs = anc g -> second s c (aend s lrs) (lptr prev)) /\
      lptr prev <> 0
  | S4 k s lrs prev pn e =>
      Jk g c pend l k /\ stab_ok g s lrs /\ (lrs = anc g -> second s c (aend s lrs) (lptr prev)) /\
      lptr pn <> aend s lrs /\ e <= epoch g (lptr prev) /\
      (lrs = anc g -> (outward s (heap g (lptr prev)) = pn \/ lnk_lt g s (lptr prev) pn) /\
                      epoch g (lptr prev) = e)
  | S5 k s lrs prev pn e =>
      Jk g c pend l k /\ stab_ok g s lrs /\ (lrs = anc g -> second s c (aend s lrs) (lptr prev)) /\
      lptr pn <> aend s lrs /\ e <= epoch g (lptr prev) /\
      ((lrs = anc g /\ outward s (heap g (lptr prev)) = pn /\ epoch g (lptr prev) = e) \/
       (lnk_lt g s (lptr prev) pn /\ epoch g (lptr prev) <> 0))
  | S6 k s lrs => Jk g c pend l k /\ stab_ok g s lrs /\ (lrs = anc g -> fixed g s c)
  end.

Record Core (g : dq_shared) (ls : locals dq_local) (c pend : list addr) : Prop := {
  co_ends : forall s, aend s (anc g) = @hd addr 0 (vw s c);
  co_shape : shape_ok g c;
  co_nodup : NoDup (c ++ pend);
  co_live : forall a, In a (c ++ pend) -> live g a;
  co_alloc : forall a, epoch g a <> 0 -> 0 < a < fresh g;
  co_fresh : 0 < fresh g;
  co_fl : exists fl, flchain (heap g) (pool g) fl /\ NoDup fl /\
                     forall a, In a fl -> N.odd (epoch g a) = false /\ 0 < a < fresh g;
  co_J : forall t, J g c pend (ls t);
  co_excl : forall t t' n, t <> t' -> owns (dpc (ls t)) = Some n -> owns (dpc (ls t')) = Some n -> False;
  co_pend : forall a, In a pend -> exists t s, dpc (ls t) = QFree s a }.

