(* Proofs/LifecycleApiLaws.v — C05: history-level laws of the API automaton [api_step] (Model/Lifecycle.v),
   for every history of calls from OS threads and tasks:
     - at most one runtime incarnation exists at a time: #accepted starts = #returned stops + [runtime exists];
     - without a runtime the state is exactly the initial one (nothing survives a stop);
     - finalize is sticky until stop returns; a second finalize is harmless;
     - suspend / resume are idempotent and resume undoes suspend (suspend drains the pending work first). *)
From Coq Require Import List ZArith NArith Lia Bool.
From Pika Require Import Model.Lifecycle.
Import ListNotations.

Definition is_start_ok (k : call) (r : resp) : bool :=
  match k, r with CStart _ _, ROk => true | _, _ => false end.
Definition is_ret (r : resp) : bool := match r with RRet _ => true | _ => false end.

Fixpoint starts_ok (h : list (caller * call)) (s : api) : nat :=
  match h with
  | [] => 0
  | (c, k) :: r => (if is_start_ok k (snd (api_step s c k)) then 1 else 0) + starts_ok r (fst (api_step s c k))
  end.
Fixpoint stops_ret (h : list (caller * call)) (s : api) : nat :=
  match h with
  | [] => 0
  | (c, k) :: r => (if is_ret (snd (api_step s c k)) then 1 else 0) + stops_ret r (fst (api_step s c k))
  end.
Definition exists_rt (s : api) : nat := match ph s with NoRt => 0 | _ => 1 end.

(* well-formed states: without a runtime everything is reset *)
Definition wf (s : api) : Prop := ph s = NoRt -> s = api0.

Lemma api_step_wf s c k : wf s -> wf (fst (api_step s c k)).
Proof.
  unfold wf. destruct s as [p f e cf pd]. intros H.
  destruct k, c, p; cbn; try (destruct f; cbn); try (destruct (pd =? 0)%N; cbn);
    intros Hp; try discriminate Hp; try reflexivity; try (apply H; reflexivity).
Qed.

Lemma api_run_wf h : forall s, wf s -> wf (api_run h s).
Proof.
  induction h as [|[c k] r IH]; intros s H; cbn [api_run]; [exact H|]. apply IH. now apply api_step_wf.
Qed.

(* one step: the balance starts - stops follows the existence of the runtime *)
Lemma api_step_balance s c k :
  ((if is_start_ok k (snd (api_step s c k)) then 1 else 0) + exists_rt s =
   (if is_ret (snd (api_step s c k)) then 1 else 0) + exists_rt (fst (api_step s c k)))%nat.
Proof.
  unfold exists_rt. destruct s as [p f e cf pd].
  destruct k, c, p; cbn; try (destruct f; cbn); try (destruct (pd =? 0)%N; cbn); reflexivity.
Qed.

Lemma incarnation_balance h : forall s,
  (starts_ok h s + exists_rt s = stops_ret h s + exists_rt (api_run h s))%nat.
Proof.
  induction h as [|[c k] r IH]; intros s; cbn [starts_ok stops_ret api_run]; [lia|].
  pose proof (api_step_balance s c k). pose proof (IH (fst (api_step s c k))). lia.
Qed.

Lemma single_incarnation h :
  let n := starts_ok h api0 in let m := stops_ret h api0 in
  (n = m \/ n = S m) /\ (n = m <-> ph (api_run h api0) = NoRt) /\
  (ph (api_run h api0) = NoRt -> api_run h api0 = api0).
Proof.
  cbn zeta. pose proof (incarnation_balance h api0) as H. unfold exists_rt in H. cbn [ph api0] in H.
  assert (Hw : wf (api_run h api0)) by (apply api_run_wf; intros _; reflexivity).
  destruct (ph (api_run h api0)) eqn:Hp.
  - split; [left; lia|]. split; [split; [reflexivity|lia]|]. intros _. apply Hw. exact Hp.
  - split; [right; lia|]. split; [split; [lia|discriminate]|discriminate].
  - split; [right; lia|]. split; [split; [lia|discriminate]|discriminate].
Qed.

(* finalize is sticky: while the runtime exists and stop has not returned, fin stays set *)
Lemma finalize_sticky s c k : ph s <> NoRt -> fin s = true ->
  is_ret (snd (api_step s c k)) = false ->
  fin (fst (api_step s c k)) = true /\ ph (fst (api_step s c k)) <> NoRt.
Proof.
  destruct s as [p f e cf pd]. cbn [ph fin]. intros Hp Hf. subst f.
  destruct k, c, p; cbn; try congruence; try (destruct (pd =? 0)%N; cbn);
    intros Hr; try discriminate Hr; (split; [reflexivity|discriminate]).
Qed.

Lemma finalize_twice s c c' : ph s = Running ->
  let s1 := fst (api_step s c CFinalize) in
  api_step s1 c' CFinalize = (s1, ROk).
Proof. intros Hp. cbn [api_step]. rewrite Hp. cbn [fst api_step ph]. reflexivity. Qed.

(* suspend and resume from an OS thread *)
Lemma suspend_idempotent s : ph s <> NoRt ->
  let s1 := fst (api_step s FromOs CSuspend) in
  ph s1 = Sleeping /\ api_step s1 FromOs CSuspend = (s1, ROk).
Proof.
  intros Hp. cbn [api_step]. destruct (ph s) eqn:Hph; [congruence| |]; cbn [fst ph api_step].
  - split; reflexivity.
  - rewrite Hph. split; reflexivity.
Qed.

Lemma resume_idempotent s : ph s <> NoRt ->
  let s1 := fst (api_step s FromOs CResume) in
  ph s1 = Running /\ api_step s1 FromOs CResume = (s1, ROk).
Proof.
  intros Hp. cbn [api_step]. destruct (ph s) eqn:Hph; [congruence| |]; cbn [fst ph api_step].
  - rewrite Hph. split; reflexivity.
  - split; reflexivity.
Qed.

Lemma suspend_resume_roundtrip s : ph s = Running ->
  let s2 := fst (api_step (fst (api_step s FromOs CSuspend)) FromOs CResume) in
  ph s2 = Running /\ fin s2 = fin s /\ eres s2 = eres s /\ conf s2 = conf s /\ pend s2 = 0%N /\
  snd (api_step s FromOs CSuspend) = ROk /\
  snd (api_step (fst (api_step s FromOs CSuspend)) FromOs CResume) = ROk.
Proof. intros Hp. cbn [api_step]. rewrite Hp. cbn. repeat split. Qed.

(* rejected and blocked calls have no effect at the level of histories: dropping them from a history
   changes neither the final state nor the answers to the remaining calls *)
From Pika Require Import Proofs.LifecycleProofs.

Definition effective (r : resp) : bool := match r with RErr | RBlock => false | _ => true end.

Fixpoint prune (h : list (caller * call)) (s : api) : list (caller * call) :=
  match h with
  | [] => []
  | (c, k) :: r => if effective (snd (api_step s c k)) then (c, k) :: prune r (fst (api_step s c k))
                   else prune r (fst (api_step s c k))
  end.

Lemma ineffective_unchanged s c k : effective (snd (api_step s c k)) = false -> fst (api_step s c k) = s.
Proof.
  intros H. destruct (snd (api_step s c k)) eqn:E; try discriminate H.
  - now apply api_err_unchanged.
  - now apply api_block_unchanged.
Qed.

Lemma prune_same : forall h s,
  api_run (prune h s) s = api_run h s /\
  api_resps (prune h s) s = filter effective (api_resps h s).
Proof.
  induction h as [|[c k] r IH]; intros s; cbn [prune api_run api_resps filter]; [split; reflexivity|].
  destruct (effective (snd (api_step s c k))) eqn:E.
  - cbn [api_run api_resps]. destruct (IH (fst (api_step s c k))) as [H1 H2]. rewrite H1, H2. split; reflexivity.
  - pose proof (ineffective_unchanged s c k E) as Hs.
    destruct (IH (fst (api_step s c k))) as [H1 H2]. rewrite Hs in *. split; assumption.
Qed.
