(* Proofs/StopTokensProofs.v — C14: the token (reference-count) field of state_ in the concurrent
   model (Model/StopState.v) is an exact count of the references that exist: those owned outside
   the modelled threads ([tbase]), those held by the threads (token copies, stop_sources, the
   reference a stop_callback constructor has taken and not yet handed over or dropped) and one per
   registered, not yet destroyed stop_callback object.  Together with the exact source count
   (Proofs/StopSourcesProofs.v) this discharges the [wedged] side condition of the progress theorem
   (Proofs/StopProgressProofs.v) from the initial condition. *)
From Coq Require Import List NArith ZArith Bool Arith Lia.
From Pika Require Import Base.Conc Gen.GenStopBits Model.StopWord Model.StopState
  Proofs.StopFlagsProofs Proofs.StopStateProofs Proofs.StopCallbacksAbs Proofs.StopCallbacksProofs
  Proofs.StopProgressStep Proofs.StopProgressProofs Proofs.StopSourcesProofs.
Import ListNotations.
Ltac Zify.zify_post_hook ::= Z.to_euclidean_division_equations.

Local Open Scope N_scope.
Transparent w_set_lock w_set_req_lock w_clear_lock w_sub w_add w_is_locked w_stop_requested
  w_stop_possible w_tokens w_sources tok_room tok_spare src_room src_some W.

Lemma toks_set_lock w : W w -> w_is_locked w = false -> w_tokens (w_set_lock w) = w_tokens w.
Proof.
  intros HW Hl. rewrite is_locked_lk in Hl. unfold lk in Hl. rewrite !tokens_arith.
  unfold w_set_lock. rewrite layout_locked, lor_pow2, Hl. unfold W in HW. pows. lia.
Qed.
Lemma toks_set_req_lock w : W w -> w_is_locked w = false -> w_stop_requested w = false ->
  w_tokens (w_set_req_lock w) = w_tokens w.
Proof.
  intros HW Hl Hr. rewrite is_locked_lk in Hl. rewrite requested_rq in Hr. unfold lk, rq in *.
  rewrite !tokens_arith. unfold w_set_req_lock. rewrite layout_locked, layout_requested.
  rewrite (lor_pow2 w 31), Hr.
  assert (Hb : N.testbit (w + 2 ^ 31) 63 = false).
  { rewrite <- Hl. apply (high_bits _ _ 32); [|lia].
    pose proof (bit_arith w 31) as B. rewrite Hr in B. cbn [N.b2n] in B. pows. lia. }
  rewrite lor_pow2, Hb. unfold W in HW. pows. lia.
Qed.
Lemma toks_unlock w : W w -> w_is_locked w = true -> w_tokens (w_sub w locked_flag) = w_tokens w.
Proof.
  intros HW Hl. rewrite is_locked_lk in Hl. pose proof (W_lk_true w Hl) as Hge.
  rewrite !tokens_arith. unfold w_sub. rewrite layout_locked, layout_word. unfold W in HW. pows. lia.
Qed.
Lemma toks_tok_add w : W w -> tok_room w = true -> w_tokens (w_add w token_ref_increment) = w_tokens w + 1.
Proof.
  intros HW Hg. apply N.ltb_lt in Hg. destruct layout_max as [Hm _]. rewrite Hm, tokens_arith in Hg.
  rewrite !tokens_arith. unfold w_add. rewrite layout_tok_inc, layout_word. unfold W in HW. pows. lia.
Qed.
Lemma toks_tok_sub w : W w -> tok_spare w = true -> w_tokens (w_sub w token_ref_increment) + 1 = w_tokens w.
Proof.
  intros HW Hg. apply N.ltb_lt in Hg. rewrite tokens_arith in Hg.
  rewrite !tokens_arith. unfold w_sub. rewrite layout_tok_inc, layout_word. unfold W in HW. pows. lia.
Qed.
Lemma toks_src_add w : W w -> src_room w = true -> w_tokens (w_add w source_ref_increment) = w_tokens w.
Proof.
  intros HW Hg. apply N.ltb_lt in Hg. destruct layout_max as [_ Hm]. rewrite Hm, sources_arith in Hg.
  rewrite !tokens_arith. unfold w_add. rewrite layout_src_inc, layout_word. unfold W in HW. pows. lia.
Qed.
Lemma toks_src_sub w : W w -> src_some w = true -> w_tokens (w_sub w source_ref_increment) = w_tokens w.
Proof.
  intros HW Hg. apply N.ltb_lt in Hg. rewrite sources_arith in Hg.
  rewrite !tokens_arith. unfold w_sub. rewrite layout_src_inc, layout_word. unfold W in HW. pows. lia.
Qed.
Lemma tok_room_lt w : tok_room w = false -> tok_max <= w_tokens w.
Proof. unfold tok_room. intros H. now apply N.ltb_ge in H. Qed.
Lemma tok_spare_le w : tok_spare w = false -> w_tokens w <= 1.
Proof. unfold tok_spare. intros H. now apply N.ltb_ge in H. Qed.
Lemma src_room_lt w : src_room w = false -> src_max <= w_sources w.
Proof. unfold src_room. intros H. now apply N.ltb_ge in H. Qed.
Lemma src_some_0 w : src_some w = false -> w_sources w = 0.
Proof. unfold src_some. intros H. apply N.ltb_ge in H. lia. Qed.
Global Opaque w_set_lock w_set_req_lock w_clear_lock w_sub w_add w_is_locked w_stop_requested
  w_stop_possible w_tokens w_sources tok_room tok_spare src_room src_some W.
Local Close Scope N_scope.

(* ---------------- references held by one thread, as the word sees them ---------------- *)
(* one for the reference taken by stop_source's copy constructor before the source count is
   incremented (SInc), one for the reference a stop_callback constructor holds between its add_ref
   and either the hand-over to the registered object (AUnlock) or the release (ARelease) *)
Definition pcadj (p : pcs) : nat :=
  match p with
  | SInc | ALoad _ | ACas _ _ | ASpin _ | AUnlock _ | ABegin _ | AEnd _ | ARelease _ => 1
  | _ => 0
  end.
(* ... the constructors whose callback is running on this thread right now are nested frames *)
Definition tkheld (l : local) : nat :=
  htok l + hsrc l + pcadj (pc l) + length (kadd_cs (frames l)).
Definition HT (l : local) : Prop := match pc l with TRelease => 1 <= htok l | _ => True end.

Lemma tkheld_norm l : tkheld (norm l) = tkheld l /\ (HT l -> HT (norm l)).
Proof.
  unfold norm, tkheld, HT, kadd_cs. destruct (pc l) eqn:E; rewrite ?E; try tauto.
  destruct (frames l) as [|[[|c|c] [|o r]] fs] eqn:F; cbn; rewrite ?E, ?F; cbn; split; try tauto; lia.
Qed.

(* the part of the word's change that is not matched by the stepping thread's own count: the
   constructor hands its reference over to the registered callback object (AUnlock), the destructor
   of a registered callback object drops that reference (RRelease) *)
Definition du (p : pcs) : N := match p with AUnlock _ => 1%N | _ => 0%N end.
Definition dr (p : pcs) (w : N) : N :=
  match p with RRelease _ => if tok_spare w then 1%N else 0%N | _ => 0%N end.

Lemma S12 P o t g l0 : GI g -> LI g t (norm l0) -> HS (norm l0) -> HT (norm l0) ->
  On (fun g' l' => HT l' /\
        (w_tokens (word g') + N.of_nat (tkheld (norm l0)) + dr (pc (norm l0)) (word g) =
         w_tokens (word g) + N.of_nat (tkheld l') + du (pc (norm l0)))%N /\
        (w_tokens (word g') <= w_tokens (word g) + 1)%N /\
        (w_sources (word g') <= w_sources (word g) + 1)%N)
     (st_tstep P o t g l0).
Proof.
  intros HG HL HH HT0. unfold st_tstep. cbv zeta. revert HL HH HT0. generalize (norm l0). intros l HL HH HT0.
  destruct HG as (HW & Hlk & Hrq & Hcnt & Hret & Hsome).
  unfold LI, LI3 in HL. destruct HL as (Hh & Hq & Hs1 & Hsw & Hws).
  destruct (pc l) eqn:Epc; brkOn; unfold On; proj; cbn [holds] in *; try (specialize (Hh eq_refl)).
  all: try match goal with removed : bool |- _ => destruct removed end.
  all: try (match type of Hh with holder _ = Some _ => rewrite Hh in *; cbn [isS] in * end).
  all: try (match type of Hq with forall old, QCas ?o = QCas old -> _ => specialize (Hq o eq_refl) end).
  all: unfold tkheld, HS, HT, du, dr, kadd_cs in *; proj; rewrite ?Epc in *; cbn [pcadj] in *.
  all: repeat match goal with H : frames ?ll = _ |- _ => rewrite H in * end.
  all: try match goal with c : ctx |- _ => destruct c end.
  all: cbn [flat_map fst app length] in *.
  all: repeat match goal with H : tok_spare _ = _ |- _ => rewrite H in * end.
  all: try solve [repeat split; try assumption; try exact I; try lia].
  all: wf.
  all: rewrite ?srcs_set_lock, ?srcs_set_req_lock, ?srcs_unlock, ?srcs_tok_add, ?srcs_tok_sub, ?srcs_src_add,
         ?toks_set_lock, ?toks_set_req_lock, ?toks_unlock, ?toks_tok_add, ?toks_src_add, ?toks_src_sub
         by (assumption || congruence).
  all: try match goal with H : src_some ?w = true |- _ => pose proof (srcs_src_sub w HW H) end.
  all: try match goal with H : tok_spare ?w = true |- _ => pose proof (toks_tok_sub w HW H) end.
  all: try match goal with H : (0 <? _)%nat = true |- _ => apply Nat.ltb_lt in H end.
  all: try solve [repeat split; try assumption; try exact I; try lia].
Qed.

(* ---------------- references held by registered callback objects ---------------- *)
(* a stop_callback object keeps its state_ pointer from the moment add_callback returned true
   until its destructor has released it *)
Definition owns (r : cbrec) : bool :=
  cb_reg r && Nat.eqb (cb_ctor r) 2 && negb (Nat.eqb (cb_dtor r) 2).

(* what a thread inside remove_callback(c) knows about c *)
Definition RR (g : shared) (l : local) : Prop :=
  forall c, rpc (pc l) = Some c -> cb_reg (cb g c) = true /\ cb_ctor (cb g c) = 2 /\ cb_dtor (cb g c) = 1.

Definition own_chg (p : pcs) (w : N) (g g' : shared) : Prop :=
  match p with
  | AUnlock c => owns (cb g c) = false /\ owns (cb g' c) = true /\
                 forall c', c' <> c -> owns (cb g' c') = owns (cb g c')
  | RRelease c => if tok_spare w
                  then owns (cb g c) = true /\ owns (cb g' c) = false /\
                       forall c', c' <> c -> owns (cb g' c') = owns (cb g c')
                  else forall c', owns (cb g' c') = owns (cb g c')
  | _ => forall c', owns (cb g' c') = owns (cb g c')
  end.

Ltac ownfin := unfold owns; cbf;
  repeat match goal with H : cb_ctor _ = _ |- _ => rewrite H in * end;
  repeat match goal with H : cb_dtor _ = _ |- _ => rewrite H in * end;
  repeat match goal with H : cb_reg _ = _ |- _ => rewrite H in * end;
  cbn [Nat.eqb andb negb]; rewrite ?andb_false_r, ?andb_true_r; try reflexivity; try congruence.

Lemma S13 P o t g l0 : PCA g t (pc (norm l0)) -> (forall c, CI g c) -> RR g (norm l0) ->
  On (fun g' l' =>
        (forall c, cb_ctor (cb g c) = 2 -> cb_reg (cb g' c) = cb_reg (cb g c)) /\
        own_chg (pc (norm l0)) (word g) g g')
     (st_tstep P o t g l0).
Proof.
  unfold st_tstep; cbv zeta; generalize (norm l0); intros l HA HC HR.
  unfold RR in HR.
  destruct (pc l) eqn:Epc; brkOn; unfold On; proj; cbn [PCA rpc own_chg] in *; proj; prep.
  all: try match goal with removed : bool |- _ => destruct removed end.
  all: repeat match goal with H : tok_spare _ = _ |- _ => rewrite H in * end.
  all: try (specialize (HR _ eq_refl); destruct HR as (HR1 & HR2 & HR3)).
  all: unat.
  all: try solve [split; intros; reflexivity].
  all: split; [intros cx Hcx; updc; cbf; try reflexivity; try congruence; try (exfalso; intuition congruence)|].
  all: try solve [intros cx; updc; cbf; try reflexivity; ownfin].
  all: try solve [intros cx; updc; cbf; try reflexivity;
                  repeat match goal with H : _ /\ _ |- _ => destruct H end; ownfin].
  all: try (destruct HA as (HA1 & HA2 & HA3);
            assert (Hd0 : cb_dtor (cb g c) = 0)
              by (destruct (HC c) as (_ & C2 & _); cbv zeta in C2;
                  destruct (cb_dtor (cb g c)) as [|n] eqn:Ed; [reflexivity|];
                  assert (cb_ctor (cb g c) = 2) by (apply C2; lia); congruence)).
  all: rewrite upd_same.
  all: (split; [ownfin|split; [ownfin|intros cx Hne; rewrite upd_other by assumption; reflexivity]]).
Qed.

(* ---------------- the list of callback objects that own a reference ---------------- *)
Lemma length_remove_nodup c L : NoDup L -> In c L -> S (length (remove Nat.eq_dec c L)) = length L.
Proof.
  induction 1 as [|x L Hx Hnd IH]; intros Hin; [destruct Hin|]. cbn [remove].
  destruct (Nat.eq_dec c x) as [->|Hne].
  - rewrite notin_remove by assumption. reflexivity.
  - cbn [length]. destruct Hin as [Hin|Hin]; [congruence|]. now rewrite IH.
Qed.

Lemma own_chg_list p w g g' L : NoDup L -> (forall c, In c L <-> owns (cb g c) = true) ->
  own_chg p w g g' ->
  exists L', NoDup L' /\ (forall c, In c L' <-> owns (cb g' c) = true) /\
             (N.of_nat (length L') + dr p w = N.of_nat (length L) + du p)%N.
Proof.
  intros Hnd HL Hc.
  assert (Gen : (forall c', owns (cb g' c') = owns (cb g c')) ->
          exists L', NoDup L' /\ (forall c, In c L' <-> owns (cb g' c) = true) /\ length L' = length L).
  { intros Hs. exists L. repeat split; try assumption; intros H; [rewrite Hs; now apply HL|apply HL; now rewrite <- Hs]. }
  destruct p; cbn [own_chg du dr] in *;
    try (destruct (Gen Hc) as (L' & A & B & C); exists L'; repeat split; try assumption; try apply B; lia).
  - (* AUnlock: the constructor hands its reference over *)
    destruct Hc as (H0 & H1 & Hs). exists (c :: L). split; [|split].
    + constructor; [|assumption]. intros Hin. apply HL in Hin. congruence.
    + intros c'. cbn [In]. destruct (Nat.eq_dec c' c) as [->|Hne].
      * split; [intros _; exact H1|intros _; now left].
      * rewrite (Hs c' Hne). rewrite <- HL. split; [intros [E|E]; [congruence|exact E]|intros E; now right].
    + cbn [length]. lia.
  - (* RRelease: the destructor drops the object's reference *)
    destruct (tok_spare w).
    + destruct Hc as (H1 & H0 & Hs). exists (remove Nat.eq_dec c L). split; [|split].
      * now apply NoDup_remove_nat.
      * intros c'. split.
        -- intros Hin. apply in_remove in Hin. destruct Hin as [Hin Hne]. rewrite (Hs c' Hne). now apply HL.
        -- intros Ho. destruct (Nat.eq_dec c' c) as [->|Hne]; [congruence|].
           apply in_in_remove; [assumption|]. apply HL. now rewrite <- (Hs c' Hne).
      * pose proof (length_remove_nodup c L Hnd (proj2 (HL c) H1)). lia.
    + destruct (Gen Hc) as (L' & A & B & C). exists L'. repeat split; try assumption; try apply B. lia.
Qed.

(* ---------------- the token field is an exact count ---------------- *)
Definition idle_local : local := {| pc := Idle; frames := [(KTop, [])]; htok := 0; hsrc := 0 |}.
Definition RRreg (g : shared) (l : local) : Prop :=
  forall c, rpc (pc l) = Some c -> cb_reg (cb g c) = true.

(* [tbase]: references owned outside the modelled threads (the tokens / sources / callback
   objects of the environment); threads >= nthr never run *)
Definition TI (nthr : nat) (tbase : N) (g : shared) (ls : nat -> local) : Prop :=
  (forall t, HT (ls t)) /\ (forall t, nthr <= t -> ls t = idle_local) /\ (forall t, RRreg g (ls t)) /\
  exists L, NoDup L /\ (forall c, In c L <-> owns (cb g c) = true) /\
    w_tokens (word g) = (tbase + N.of_nat (sumf (fun t => tkheld (ls t)) nthr + length L))%N.

Definition good_toks (nthr : nat) (tbase : N) (w0 : N) (progs : nat -> list op) (srcs : nat -> nat) : Prop :=
  (forall t, nthr <= t -> progs t = []) /\ (1 <= tbase)%N /\
  w_tokens w0 = (tbase + N.of_nat (sumf srcs nthr))%N.

Lemma idle_step P o t g : st_tstep P o t g idle_local = (g, idle_local).
Proof. reflexivity. Qed.

Lemma sumf_ext f h n : (forall t, t < n -> f t = h t) -> sumf f n = sumf h n.
Proof.
  induction n as [|n IH]; intros H; [reflexivity|]. cbn [sumf]. rewrite IH, (H n) by (intros; try apply H; lia).
  reflexivity.
Qed.
Lemma sumf_ge f n t : t < n -> f t <= sumf f n.
Proof.
  induction n as [|n IH]; intros H; [lia|]. cbn [sumf].
  destruct (Nat.eq_dec t n) as [->|Hne]; [lia|]. specialize (IH ltac:(lia)). lia.
Qed.

Lemma TI_step P o t g ls nthr tbase : Inv3 P g ls -> (forall x, HS (ls x)) -> TI nthr tbase g ls ->
  TI nthr tbase (fst (st_tstep P o t g (ls t))) (upd ls t (snd (st_tstep P o t g (ls t)))).
Proof.
  intros [(HI & HG2 & HL2) HPI] HHS (T1 & T2 & T3 & L & Lnd & Lin & Lw).
  destruct (Nat.lt_ge_cases t nthr) as [Hlt|Hge].
  2:{ (* a thread that never runs *)
      rewrite (T2 t Hge), idle_step. cbn [fst snd]. split; [|split; [|split]].
      - intros x. unfold upd. destruct (Nat.eqb_spec x t); [exact I|apply T1].
      - intros x Hx. unfold upd. destruct (Nat.eqb_spec x t); [reflexivity|now apply T2].
      - intros x. unfold upd. destruct (Nat.eqb_spec x t); [intros c Hc; discriminate Hc|apply T3].
      - exists L. repeat split; try assumption; try apply Lin.
        rewrite (sumf_upd_out tkheld) by assumption. exact Lw. }
  destruct HI as [HG HL]. pose proof (LI_norm g t (ls t) (HL t)) as HLt.
  destruct (tkheld_norm (ls t)) as [En Hn]. destruct (held_norm (ls t)) as [_ Hsn].
  pose proof HG2 as (_ & _ & _ & _ & _ & _ & _ & HC).
  pose proof HPI as (_ & _ & I3 & _).
  assert (Rl : rpc (pc (norm (ls t))) = rpc (pc (ls t))) by apply rpc_norm.
  assert (Dfacts : forall x c, rpc (pc (ls x)) = Some c -> cb_ctor (cb g c) = 2 /\ cb_dtor (cb g c) = 1).
  { intros x c Hc. destruct (I3 x c Hc) as [D _]. split; [|exact D].
    destruct (HC c) as (_ & C2 & _). cbv zeta in C2. apply C2. lia. }
  assert (HRR : RR g (norm (ls t))).
  { intros c Hc. rewrite Rl in Hc. destruct (Dfacts t c Hc). split; [now apply (T3 t)|split; assumption]. }
  destruct (LI2_norm g t (ls t) (HL2 t)) as (HA & _).
  pose proof (S12 P o t g (ls t) HG HLt (Hsn (HHS t)) (Hn (T1 t))) as F12.
  pose proof (S13 P o t g (ls t) HA HC HRR) as F13.
  pose proof (S3 P o t g (ls t)) as F3.
  unfold On in *. rewrite En in F12.
  set (g' := fst (st_tstep P o t g (ls t))) in *. set (l' := snd (st_tstep P o t g (ls t))) in *.
  clearbody g' l'. set (l := norm (ls t)) in *.
  destruct F12 as (F12a & F12b & _). destruct F13 as (F13a & F13b).
  destruct F3 as (F3a & F3b & _).
  split; [|split; [|split]].
  - intros x. unfold upd. destruct (Nat.eqb_spec x t); [exact F12a|apply T1].
  - intros x Hx. unfold upd. destruct (Nat.eqb_spec x t) as [->|]; [lia|now apply T2].
  - intros x c. unfold upd. destruct (Nat.eqb_spec x t) as [->|Hne]; intros Hx.
    + destruct (F3a c Hx) as [[A B]|(A & B & C & D & E & F)].
      * rewrite Rl in A. destruct (Dfacts t c A) as [D2 _]. rewrite (F13a c D2). now apply (T3 t).
      * rewrite F. cbf. exact D.
    + destruct (Dfacts x c Hx) as [D2 _]. rewrite (F13a c D2). now apply (T3 x).
  - destruct (own_chg_list _ _ g g' L Lnd Lin F13b) as (L' & A & B & C). exists L'.
    split; [exact A|split; [exact B|]].
    pose proof (sumf_upd tkheld ls t l' nthr Hlt). lia.
Qed.

Lemma TI_init w0 progs srcs nthr tbase sbase : good_srcs nthr sbase w0 srcs -> good_toks nthr tbase w0 progs srcs ->
  TI nthr tbase (st_init w0) (st_locals progs srcs).
Proof.
  intros [S1' _] (G1 & _ & G3). split; [|split; [|split]].
  - intros t. exact I.
  - intros t Ht. unfold st_locals, idle_local. rewrite (G1 t Ht), (S1' t Ht). reflexivity.
  - intros t c Hc. discriminate Hc.
  - exists []. split; [constructor|split].
    + intros c. cbn. split; [intros []|discriminate].
    + cbn [st_init word length]. rewrite G3. f_equal. f_equal. rewrite Nat.add_0_r.
      apply sumf_ext. intros t _. unfold tkheld, kadd_cs. cbn. lia.
Qed.

(* ---------------- everything together, and the bound on the counters ---------------- *)
Definition FI (P : params) (nthr : nat) (sbase tbase : N) (g : shared) (ls : nat -> local) : Prop :=
  Inv3 P g ls /\ SI nthr sbase g ls /\ TI nthr tbase g ls.

Lemma FI_step P o t g ls nthr sbase tbase : ids_faithful P -> FI P nthr sbase tbase g ls ->
  FI P nthr sbase tbase (fst (st_tstep P o t g (ls t))) (upd ls t (snd (st_tstep P o t g (ls t)))) /\
  (w_tokens (word (fst (st_tstep P o t g (ls t)))) <= w_tokens (word g) + 1)%N /\
  (w_sources (word (fst (st_tstep P o t g (ls t)))) <= w_sources (word g) + 1)%N.
Proof.
  intros Hid (H3 & HS' & HT'). split; [split; [|split]|].
  - destruct H3 as [H2 HP]. split; [now apply step_inv2|now apply PI_step].
  - apply SI_step; [|assumption]. now destruct H3 as [(HI & _) _].
  - apply TI_step; try assumption. now destruct HS' as (A & _).
  - destruct H3 as [((HG & HL) & _) _]. destruct HS' as (A & _). destruct HT' as (B & _).
    destruct (tkheld_norm (ls t)) as [_ Hn]. destruct (held_norm (ls t)) as [_ Hsn].
    pose proof (S12 P o t g (ls t) HG (LI_norm _ _ _ (HL t)) (Hsn (A t)) (Hn (B t))) as F. unfold On in F.
    destruct F as (_ & _ & F1 & F2). split; assumption.
Qed.

Lemma FI_run P nthr sbase tbase sched c : ids_faithful P -> FI P nthr sbase tbase (fst c) (snd c) ->
  let c' := run (st_tstep P) sched c in
  FI P nthr sbase tbase (fst c') (snd c') /\
  (w_tokens (word (fst c')) <= w_tokens (word (fst c)) + N.of_nat (length sched))%N /\
  (w_sources (word (fst c')) <= w_sources (word (fst c)) + N.of_nat (length sched))%N.
Proof.
  intros Hid. revert c. induction sched as [|[t o] s IH]; intros c H; cbv zeta.
  - cbn [run fold_left length]. split; [exact H|]. unfold locals in *. split; lia.
  - rewrite run_cons. destruct c as [g ls]. cbn [fst snd] in *.
    pose proof (FI_step P o t g ls nthr sbase tbase Hid H) as (F1 & F2 & F3).
    unfold step. cbn [fst snd]. destruct (st_tstep P o t g (ls t)) as [g' l'] eqn:E. cbn [fst snd] in *.
    specialize (IH (g', upd ls t l') F1). cbv zeta in IH. cbn [fst snd] in IH.
    destruct IH as (I1 & I2 & I3). split; [exact I1|]. cbn [length]. unfold locals in *. split; lia.
Qed.

Theorem run_FI P sched w0 progs srcs nthr sbase tbase : ids_faithful P -> good_init w0 ->
  good_srcs nthr sbase w0 srcs -> good_toks nthr tbase w0 progs srcs ->
  let c := st_run P sched w0 progs srcs in
  FI P nthr sbase tbase (fst c) (snd c) /\
  (w_tokens (word (fst c)) <= w_tokens w0 + N.of_nat (length sched))%N /\
  (w_sources (word (fst c)) <= w_sources w0 + N.of_nat (length sched))%N.
Proof.
  intros Hid Hw Hs Ht. unfold st_run.
  apply (FI_run P nthr sbase tbase sched (st_init w0, st_locals progs srcs) Hid).
  cbn [fst snd]. split; [|split].
  - pose proof (run_Inv3 P [] w0 progs srcs Hid Hw) as H. exact H.
  - pose proof (run_SI P [] w0 progs srcs nthr sbase Hw Hs) as H. exact H.
  - eapply TI_init; eassumption.
Qed.

(* the link on its own: the token field counts the references exactly *)
Theorem tokens_exact P sched w0 progs srcs nthr sbase tbase : ids_faithful P -> good_init w0 ->
  good_srcs nthr sbase w0 srcs -> good_toks nthr tbase w0 progs srcs ->
  let c := st_run P sched w0 progs srcs in
  exists L, NoDup L /\ (forall k, In k L <-> owns (cb (fst c) k) = true) /\
    w_tokens (word (fst c)) =
      (tbase + N.of_nat (sumf (fun t => tkheld (snd c t)) nthr + length L))%N /\
    forall t, nthr <= t -> snd c t = idle_local.
Proof.
  intros Hid Hw Hs Ht. cbv zeta.
  destruct (run_FI P sched w0 progs srcs nthr sbase tbase Hid Hw Hs Ht) as ((_ & _ & HT') & _).
  cbv zeta in HT'. destruct HT' as (_ & T2 & _ & L & A & B & C). exists L. repeat split; try assumption; apply B.
Qed.

(* ---------------- nobody is wedged ---------------- *)
Lemma FI_not_wedged P nthr sbase tbase g ls : FI P nthr sbase tbase g ls -> (1 <= tbase)%N ->
  (w_tokens (word g) < tok_max)%N -> (w_sources (word g) < src_max)%N ->
  forall t, wedged g (ls t) = false.
Proof.
  intros (H3 & (S1' & S2' & S3') & (T1 & T2 & T3 & L & Lnd & Lin & Lw)) Hb Htm Hsm t.
  destruct (wedged g (ls t)) eqn:Ew; [exfalso|reflexivity].
  assert (Hlt : t < nthr).
  { destruct (Nat.lt_ge_cases t nthr) as [A|A]; [exact A|]. rewrite (T2 t A) in Ew. discriminate Ew. }
  pose proof (sumf_ge (fun x => tkheld (ls x)) nthr t Hlt) as Gt. cbv beta in Gt.
  pose proof (sumf_ge (fun x => held (ls x)) nthr t Hlt) as Gs. cbv beta in Gs.
  specialize (S1' t). specialize (T1 t). specialize (T3 t).
  unfold wedged in Ew. unfold tkheld, held, HS, HT, RRreg in *.
  destruct (pc (ls t)) eqn:Epc; try discriminate Ew; apply negb_true_iff in Ew; cbn [pcadj rpc] in *.
  all: try (match type of Ew with tok_room _ = false => idtac end;
            apply tok_room_lt in Ew; exact (N.lt_irrefl _ (N.lt_le_trans _ _ _ Htm Ew))).
  all: try (match type of Ew with src_room _ = false => idtac end;
            apply src_room_lt in Ew; exact (N.lt_irrefl _ (N.lt_le_trans _ _ _ Hsm Ew))).
  all: try (match type of Ew with src_some _ = false => idtac end;
            apply src_some_0 in Ew; clear - Ew S3' Gs S1' Epc; rewrite ?Epc in *; lia).
  all: apply tok_spare_le in Ew; try (clear - Ew Lw Gt S1' T1 Hb Epc; rewrite ?Epc in *; cbn [pcadj] in *; lia).
  (* RRelease c: the callback object itself owns the reference that is released *)
  assert (Ho : owns (cb g c) = true).
  { destruct H3 as [(_ & HG2 & _) (_ & _ & I3 & _)].
    assert (Hr : rpc (pc (ls t)) = Some c) by (rewrite Epc; reflexivity).
    destruct (I3 t c Hr) as [D _]. destruct HG2 as (_ & _ & _ & _ & _ & _ & _ & HC).
    destruct (HC c) as (_ & C2 & _). cbv zeta in C2.
    unfold owns. rewrite (T3 c eq_refl), C2, D by lia. reflexivity. }
  apply Lin in Ho. destruct L as [|x L]; [destruct Ho|]. cbn [length] in Lw. clear - Ew Lw Hb. lia.
Qed.

Theorem never_wedged P sched w0 progs srcs nthr sbase tbase : ids_faithful P -> good_init w0 ->
  good_srcs nthr sbase w0 srcs -> good_toks nthr tbase w0 progs srcs ->
  (w_tokens w0 + N.of_nat (length sched) < tok_max)%N ->
  (w_sources w0 + N.of_nat (length sched) < src_max)%N ->
  let c := st_run P sched w0 progs srcs in
  forall t, wedged (fst c) (snd c t) = false.
Proof.
  intros Hid Hw Hs Ht Bt Bs. cbv zeta.
  destruct (run_FI P sched w0 progs srcs nthr sbase tbase Hid Hw Hs Ht) as (HF & B1' & B2').
  cbv zeta in *. destruct Ht as (_ & Hb & _).
  eapply FI_not_wedged; [exact HF|exact Hb| |]; unfold locals in *; lia.
Qed.

(* request_stop, the stop_callback constructor and ~stop_callback always return — the side condition
   of stop_calls_return discharged from the initial condition *)
Theorem stop_calls_return_from_init P sched w0 progs srcs nthr sbase tbase : ids_faithful P ->
  good_init w0 -> good_srcs nthr sbase w0 srcs -> good_toks nthr tbase w0 progs srcs ->
  (w_tokens w0 + N.of_nat (length sched) < tok_max)%N ->
  (w_sources w0 + N.of_nat (length sched) < src_max)%N ->
  let c := st_run P sched w0 progs srcs in
  (forall t, wedged (fst c) (snd c t) = false) /\
  (stuck P c -> forall t, thread_done (snd c t) = true).
Proof.
  intros Hid Hw Hs Ht Bt Bs. cbv zeta.
  pose proof (never_wedged P sched w0 progs srcs nthr sbase tbase Hid Hw Hs Ht Bt Bs) as Hnw. cbv zeta in Hnw.
  split; [exact Hnw|]. intros Hst. now apply (stop_calls_return P sched w0 progs srcs Hid Hw Hst).
Qed.

Corollary no_blocked_call_from_init P sched w0 progs srcs nthr sbase tbase : ids_faithful P ->
  good_init w0 -> good_srcs nthr sbase w0 srcs -> good_toks nthr tbase w0 progs srcs ->
  (w_tokens w0 + N.of_nat (length sched) < tok_max)%N ->
  (w_sources w0 + N.of_nat (length sched) < src_max)%N ->
  let c := st_run P sched w0 progs srcs in
  forall t, (spinpc (pc (snd c t)) = true \/ exists k, pc (snd c t) = RWait k) -> ~ stuck P c.
Proof.
  intros Hid Hw Hs Ht Bt Bs. cbv zeta.
  pose proof (never_wedged P sched w0 progs srcs nthr sbase tbase Hid Hw Hs Ht Bt Bs) as Hnw. cbv zeta in Hnw.
  now apply (no_blocked_call P sched w0 progs srcs Hid Hw Hnw).
Qed.
