(* Proofs/SuspendResumeHPStuckProofs.v — C19, round p12a: the stuck-state theorems of the base model re-proved for the
   high-priority-queue layer (Model/SuspendResumeHP.v), by PROJECTION onto the base model:
     - the hand-shake / lock invariant INV4 of the base model holds of the projected layer state (every layer step is a base step,
       a stutter, a `take` from a high-priority queue, or differs from the base step only in the queue contents INV4 does not read);
     - a stuck layer state projects to a stuck base state, so the base analysis (stuck_return_gen, stuck_running) applies verbatim;
     - the only new facts are about the queue indices above nw (hqs_ok) and the two new disjuncts of enabledness. *)
From Coq Require Import List NArith Bool Arith Lia Permutation.
From Pika Require Import Base.Conc Gen.GenRuntimeState Model.SuspendResume Model.SuspendResumeHP Model.SuspendResumeHPStuck
  Proofs.SuspendResumeProofs Proofs.SuspendResumeHPProofs Proofs.SuspendResumeStutter.
Import ListNotations.

Definition pls (ls : locals hlstate) : locals lstate := fun t => hproj (ls t).

Definition hp_stuck (c : cfg) (nhp : nat) (cf : gst * (nat -> hlstate)) : Prop :=
  forall t, hp_enabled c nhp t (fst cf) (snd cf t) = false.

(* ------------------------------------------------------------------ INV4 of the projection *)
Lemma inv4_ext : forall c g (ls ls' : locals lstate), (forall x, ls' x = ls x) -> INV4 c g ls -> INV4 c g ls'.
Proof. intros c g ls ls' Hx I. destruct I. constructor; intros; rewrite ?Hx in *; eauto. Qed.

Lemma inv4_core : forall c g g' (ls : locals lstate),
  st g' = st g -> pul g' = pul g -> heldl g' = heldl g -> waiting g' = waiting g -> INV4 c g ls -> INV4 c g' ls.
Proof. intros c g g' ls E1 E2 E3 E4 I. destruct I. constructor; intros; rewrite ?E1, ?E2, ?E3, ?E4 in *; eauto. Qed.

Lemma pls_upd : forall (ls : locals hlstate) t l x, pls (upd ls t l) x = upd (pls ls) t (hproj l) x.
Proof. intros ls t l x. unfold pls, upd. destruct (Nat.eqb x t); reflexivity. Qed.

Lemma upd_id : forall (ls : locals lstate) t x, upd ls t (ls t) x = ls x.
Proof. intros ls t x. unfold upd. destruct (Nat.eqb x t) eqn:E; [apply Nat.eqb_eq in E; subst|]; reflexivity. Qed.

(* the worker case of tstep_inv4, for any transition of worker t with these effects *)
Lemma inv4_worker_gen : forall c g g' (ls : locals lstate) t pc pc',
  INV4 c g ls -> ls t = LWorker pc -> t < nw c ->
  (forall x, x <> t -> st g' x = st g x /\ waiting g' x = waiting g x) -> pul g' = pul g ->
  (rs_eqb (st g' t) rs_sleeping = wait_pc pc' /\ (waiting g' t = true -> pc' = WWaiting)) ->
  NoDup (map fst (heldl g')) ->
  (forall w tk, In (w, tk) (heldl g') -> (w = t /\ pc' = WExec) \/ (w <> t /\ In (w, tk) (heldl g))) ->
  INV4 c g' (upd ls t (LWorker pc')).
Proof.
  intros c g g' ls t pc pc' I L Lt Eo Ep Hs Hnd Hh. constructor.
  - intros x Hx. unfold upd. destruct (Nat.eqb x t); [eexists; reflexivity|exact (i_roleW c g ls I x Hx)].
  - intros x Hx. unfold upd. destruct (Nat.eqb x t) eqn:E; [apply Nat.eqb_eq in E; lia|exact (i_roleC c g ls I x Hx)].
  - intros w t2 Hp. rewrite Ep in Hp. destruct (i_lock c g ls I w t2 Hp) as (cl2 & Hl & Hn & Hph).
    exists cl2. rewrite upd_other by lia. auto.
  - intros t2 cl2 w Hl Hph. unfold upd in Hl. destruct (Nat.eqb t2 t); [discriminate|]. exact (i_hold c g ls I t2 cl2 w Hl Hph).
  - intros w pc2 Hl Hw. unfold upd in Hl. destruct (Nat.eqb w t) eqn:E.
    + apply Nat.eqb_eq in E. subst w. inversion Hl; subst. exact Hs.
    + apply Nat.eqb_neq in E. destruct (Eo w E) as [E1 E2]. rewrite E1, E2. exact (i_hs c g ls I w pc2 Hl Hw).
  - intros w tk Hin. destruct (Hh w tk Hin) as [[-> Hx]|[Nw Hin2]].
    + split; [exact Lt|]. rewrite upd_same. rewrite Hx. reflexivity.
    + destruct (i_held c g ls I w tk Hin2) as [Hw Hl]. split; [exact Hw|]. rewrite upd_other by exact Nw. exact Hl.
  - exact Hnd.
  - intros t2 cl2 Hl. unfold upd in Hl. destruct (Nat.eqb t2 t); [discriminate|]. exact (i_prog c g ls I t2 cl2 Hl).
Qed.

(* worker t, somewhere in its polling cycle before the pop, takes a task out of ANY queue v *)
Lemma inv4_take : forall c g g' (ls : locals lstate) t pc v,
  INV4 c g ls -> ls t = LWorker pc -> t < nw c -> wait_pc pc = false -> pc <> WExec ->
  take g t v = Some g' -> INV4 c g' (upd ls t (LWorker WExec)).
Proof.
  intros c g g' ls t pc v I L Lt Wp Ne T. destruct (i_hs c g ls I t pc L Lt) as [A B].
  assert (Nh : forall tk, ~ In (t, tk) (heldl g)).
  { intros tk Hin. destruct (i_held c g ls I t tk Hin) as [_ Hl]. rewrite L in Hl. inversion Hl. congruence. }
  apply take_fields in T. destruct T as (Es & Ew & Ep & tk0 & Eh).
  eapply inv4_worker_gen; try eassumption.
  - intros x _. rewrite Es, Ew. auto.
  - rewrite Es, Ew. cbn [wait_pc]. split; [rewrite A; exact Wp|]. intros W. specialize (B W). subst pc. discriminate.
  - rewrite Eh. cbn. constructor; [|exact (i_heldnd c g ls I)]. intros Hin. apply in_map_iff in Hin.
    destruct Hin as ([w' tk'] & Hw & Hin). cbn in Hw. subst w'. exact (Nh tk' Hin).
  - intros w tk Hin. rewrite Eh in Hin. destruct Hin as [Heq|Hin].
    + inversion Heq; subst. left. split; reflexivity.
    + right. split; [|exact Hin]. intros ->. exact (Nh tk Hin).
Qed.

(* worker t moves between two program points of its polling cycle without touching the shared state *)
Lemma inv4_move : forall c g (ls : locals lstate) t pc pc',
  INV4 c g ls -> ls t = LWorker pc -> t < nw c -> wait_pc pc = false -> wait_pc pc' = false -> pc <> WExec ->
  INV4 c g (upd ls t (LWorker pc')).
Proof.
  intros c g ls t pc pc' I L Lt Wp Wp' Ne. destruct (i_hs c g ls I t pc L Lt) as [A B].
  eapply inv4_worker_gen; try eassumption; auto.
  - split; [rewrite A, Wp, Wp'; reflexivity|]. intros W. specialize (B W). subst pc. discriminate.
  - exact (i_heldnd c g ls I).
  - intros w tk Hin. right. split; [|exact Hin]. intros ->.
    destruct (i_held c g ls I t tk Hin) as [_ Hl]. rewrite L in Hl. inversion Hl. congruence.
Qed.

(* a high-priority submission differs from the base submission only in WHERE the task is put *)
Lemma hp_client_core : forall c nhp high o t g cl,
  let r := hp_client_step c nhp high o t g cl in
  let b := client_step c o t g cl in
  snd r = snd b /\ st (fst r) = st (fst b) /\ pul (fst r) = pul (fst b) /\ heldl (fst r) = heldl (fst b) /\
  waiting (fst r) = waiting (fst b).
Proof.
  intros c nhp high o t g cl. unfold hp_client_step.
  destruct high; [|cbv zeta; repeat split; reflexivity].
  destruct (todo cl) as [|p rest] eqn:E; [cbv zeta; repeat split; reflexivity|].
  destruct p; try (cbv zeta; repeat split; reflexivity).
  destruct low; [cbv zeta; repeat split; reflexivity|].
  destruct (ph cl) eqn:P; try (cbv zeta; repeat split; reflexivity);
    cbv zeta; unfold client_step; rewrite E, P; cbn; repeat split; reflexivity.
Qed.

Lemma hp_tstep_inv4 : forall c nhp o t g (ls : locals hlstate), INV4 c g (pls ls) ->
  INV4 c (fst (hp_tstep c nhp o t g (ls t))) (pls (upd ls t (snd (hp_tstep c nhp o t g (ls t))))).
Proof.
  intros c nhp o t g ls I.
  assert (Hid : forall l', hproj l' = hproj (ls t) -> INV4 c g (pls (upd ls t l'))).
  { intros l' E. eapply inv4_ext; [|exact I]. intros x. rewrite pls_upd, E. apply upd_id. }
  pose proof (tstep_inv4 c o t g (pls ls) I) as B.
  assert (L0 : pls ls t = hproj (ls t)) by reflexivity.
  destruct (ls t) as [pc|cl high|] eqn:L; cbn [hp_tstep]; [| |apply Hid; reflexivity].
  - (* worker *)
    destruct (Nat.ltb t (nw c)) eqn:Lt; [|apply Hid; reflexivity].
    cbn [hproj] in L0. rewrite L0 in B. cbn [sr_tstep] in B. rewrite Lt in B. apply Nat.ltb_lt in Lt.
    assert (Base : forall pc0 g' pc', unsplice pc = pc0 -> worker_step c o t g pc0 = (g', pc') ->
              INV4 c g' (pls (upd ls t (HWorker (splice pc'))))).
    { intros pc0 g' pc' E W. rewrite E, W in B. cbn [fst snd] in B.
      eapply inv4_ext; [|exact B]. intros x. rewrite pls_upd. cbn [hproj]. destruct pc'; reflexivity. }
    assert (Stay : forall pc', unsplice pc' = unsplice pc -> INV4 c g (pls (upd ls t (HWorker pc')))).
    { intros pc' E. apply Hid. cbn [hproj]. rewrite E. reflexivity. }
    assert (Take : forall v g', take g t v = Some g' -> wait_pc (unsplice pc) = false -> unsplice pc <> WExec ->
              INV4 c g' (pls (upd ls t (HWorker (HBase WExec))))).
    { intros v g' T W N. eapply inv4_ext; [intros x; apply pls_upd|]. cbn [hproj unsplice].
      eapply inv4_take; try eassumption. }
    destruct pc as [pc0|r|]; cbn [hp_worker_step].
    + destruct pc0;
        try (destruct (worker_step c o t g _) as [g' pc'] eqn:W; cbn [fst snd]; eapply Base; [reflexivity|exact W]).
      destruct (Nat.ltb t nhp && nonempty (qof (hq c t) (qs g))).
      * cbn [fst snd]. eapply inv4_ext; [intros x; apply pls_upd|]. cbn [hproj unsplice].
        eapply inv4_move with (pc := WIdle r); try eassumption; try reflexivity. discriminate.
      * destruct (worker_step c o t g (WIdle r)) as [g' pc'] eqn:W; cbn [fst snd]; eapply Base; [reflexivity|exact W].
    + destruct (Nat.ltb t nhp); [|cbn [fst snd]; apply Stay; reflexivity].
      destruct (take g t (hq c t)) as [g'|] eqn:T; cbn [fst snd]; [|apply Stay; reflexivity].
      eapply Take; [exact T|reflexivity|discriminate].
    + destruct (stealing c && Nat.ltb t nhp && Nat.ltb (victim c o) nhp && negb (Nat.eqb (victim c o) t));
        [|cbn [fst snd]; apply Stay; reflexivity].
      destruct (take g t (hq c (victim c o))) as [g'|] eqn:T; cbn [fst snd]; [|apply Stay; reflexivity].
      eapply Take; [exact T|reflexivity|discriminate].
  - (* client *)
    destruct (Nat.ltb t (nw c)) eqn:Lt; [apply Hid; reflexivity|].
    cbn [hproj] in L0. rewrite L0 in B. cbn [sr_tstep] in B. rewrite Lt in B.
    pose proof (hp_client_core c nhp high o t g cl) as (E0 & E1 & E2 & E3 & E4). cbv zeta in *.
    destruct (hp_client_step c nhp high o t g cl) as [g' cl']. destruct (client_step c o t g cl) as [gb clb].
    cbn [fst snd] in *. subst cl'.
    eapply inv4_ext; [intros x; apply pls_upd|]. cbn [hproj]. eapply inv4_core; [exact E1|exact E2|exact E3|exact E4|exact B].
Qed.

Lemma hp_inv4 : forall c nhp progs high sched, (forall t, Forall (api_ok c) (progs t)) ->
  INV4 c (fst (hp_run c nhp progs high sched)) (pls (snd (hp_run c nhp progs high sched))).
Proof.
  intros c nhp progs high sched Hok. unfold hp_run.
  apply (run_inv gst hlstate oracle (hp_tstep c nhp) (fun g ls => INV4 c g (pls ls)) (hp_tstep_inv4 c nhp) sched
           (sr_g0, hp_locals c progs high)).
  cbn [fst snd]. eapply inv4_ext; [|apply (inv4_init c progs Hok)].
  intros x. unfold pls, hp_locals, sr_locals. destruct (Nat.ltb x (nw c)); reflexivity.
Qed.

(* ------------------------------------------------------------------ stuck layer state => stuck base state *)
Lemma hp_stuck_base : forall c nhp g (ls : locals hlstate), hp_stuck c nhp (g, ls) -> stuck c (g, pls ls).
Proof.
  intros c nhp g ls S t. specialize (S t). cbn [fst snd] in *. unfold pls.
  destruct (ls t) as [pc|cl high|]; cbn [hp_enabled hproj enabled] in *; [|exact S|reflexivity].
  destruct (Nat.ltb t (nw c)); [|reflexivity]. cbn [andb] in *. unfold hp_worker_enabled in S.
  apply orb_false_iff in S. exact (proj1 S).
Qed.

(* (2) the suspend / resume calls return — the same exception as in the base model (the low-priority finding), no new
   hypothesis: the owner pops its own high-priority queue even in pre_sleep *)
Lemma hp_suspend_resume_return : forall c nhp progs high sched, (forall t, Forall (api_ok c) (progs t)) ->
  let cf := hp_run c nhp progs high sched in
  hp_stuck c nhp cf ->
  forall t, client_done (hproj (snd cf t)) = true \/ (at_wait_idle (hproj (snd cf t)) = true /\ live (fst cf) > 0) \/
            lowprio_blocked c (fst cf) (hproj (snd cf t)).
Proof.
  intros c nhp progs high sched Hok cf S t. pose proof (hp_inv4 c nhp progs high sched Hok) as I. fold cf in I.
  destruct cf as [g ls]. cbn [fst snd] in *.
  exact (stuck_return_gen c g (pls ls) I (hp_stuck_base c nhp g ls S) t).
Qed.

(* ------------------------------------------------------------------ queue indices *)
(* staged entries sit in normal queues or the low-priority queue; pending entries also in a high-priority queue hq j, j < nhp,
   whose owner j is a worker *)
Definition hqs_ok (c : cfg) (nhp : nat) (g : gst) : Prop :=
  (forall i tk, In (i, tk) (sq g) -> i <= nw c) /\
  (forall i tk, In (i, tk) (qs g) -> i <= nw c \/ exists j, i = hq c j /\ j < nhp /\ j < nw c).

Lemma moven_queues : forall n g d s,
  incl (sq (moven n g d s)) (sq g) /\ (forall e, In e (qs (moven n g d s)) -> In e (qs g) \/ fst e = d).
Proof.
  induction n as [|n IH]; intros g d s; cbn [moven]; [split; [apply incl_refl|auto]|].
  destruct (move1 g d s) as [g1|] eqn:E; [|split; [apply incl_refl|auto]].
  unfold move1 in E. destruct (extract s (sq g)) as [[tk r]|] eqn:X; [|discriminate]. inversion E; subst; clear E.
  destruct (IH {| st := st g; pul := pul g; qs := qs g ++ [(d, tk)]; sq := r; heldl := heldl g; waiting := waiting g; rr := rr g;
                  live := live g; nxt := nxt g; executed := executed g; submitted := submitted g; fresh := fresh g; calls := calls g;
                  validated := validated g |} d s) as [A B]. cbn [qs sq] in *. split.
  - intros e He. eapply extract_incl; [exact X|]. apply A, He.
  - intros e He. destruct (B e He) as [H|H]; [|auto]. apply in_app_iff in H. destruct H as [H|[<-|[]]]; auto.
Qed.

Lemma take_queues : forall g w v g', take g w v = Some g' -> incl (qs g') (qs g) /\ sq g' = sq g.
Proof.
  intros g w v g' T. unfold take in T. destruct (extract v (qs g)) as [[tk r]|] eqn:E; [|discriminate]. inversion T; subst. cbn.
  split; [eapply extract_incl; exact E|reflexivity].
Qed.

Lemma hqs_shrink : forall c nhp g g', incl (sq g') (sq g) -> (forall e, In e (qs g') -> In e (qs g) \/ fst e <= nw c) ->
  hqs_ok c nhp g -> hqs_ok c nhp g'.
Proof.
  intros c nhp g g' H1 H2 [A B]. split.
  - intros i tk Hin. exact (A i tk (H1 _ Hin)).
  - intros i tk Hin. destruct (H2 _ Hin) as [H|H]; [exact (B i tk H)|left; exact H].
Qed.

Lemma worker_hqs_ok : forall c nhp o t g pc, t < nw c -> hqs_ok c nhp g -> hqs_ok c nhp (fst (worker_step c o t g pc)).
Proof.
  intros c nhp o t g pc Ht H.
  assert (HT : forall v g', take g t v = Some g' -> hqs_ok c nhp g').
  { intros v g' T. destruct (take_queues _ _ _ _ T) as [T1 T2]. eapply hqs_shrink; [rewrite T2; apply incl_refl| |exact H]. intros e He. left. exact (T1 _ He). }
  assert (HM : forall n d s, d <= nw c -> hqs_ok c nhp (moven n g d s)).
  { intros n d s Hd. destruct (moven_queues n g d s) as [M1 M2]. eapply hqs_shrink; [exact M1| |exact H].
    intros e He. destruct (M2 e He) as [X|X]; [left; exact X|right; lia]. }
  destruct pc; cbn [worker_step]; cbv zeta; unfold reset_fresh; brk; cbn [fst]; try exact H; try (eapply HT; eassumption);
    try (apply HM; unfold lowq; lia).
  unfold exec. destruct (extract t (heldl g)) as [[tk r]|]; exact H.
Qed.

Lemma hp_worker_hqs_ok : forall c nhp o t g pc, t < nw c -> hqs_ok c nhp g -> hqs_ok c nhp (fst (hp_worker_step c nhp o t g pc)).
Proof.
  intros c nhp o t g pc Ht H.
  assert (B : forall pc0, hqs_ok c nhp (fst (let '(g', pc') := worker_step c o t g pc0 in (g', splice pc')))).
  { intros pc0. pose proof (worker_hqs_ok c nhp o t g pc0 Ht H) as W. destruct (worker_step c o t g pc0). exact W. }
  assert (HT : forall v g', take g t v = Some g' -> hqs_ok c nhp g').
  { intros v g' T. destruct (take_queues _ _ _ _ T) as [T1 T2]. eapply hqs_shrink; [rewrite T2; apply incl_refl| |exact H]. intros e He. left. exact (T1 _ He). }
  destruct pc as [pc0|r|]; cbn [hp_worker_step].
  - destruct pc0; try apply B. destruct (Nat.ltb t nhp && nonempty (qof (hq c t) (qs g))); [exact H|apply B].
  - destruct (Nat.ltb t nhp); [|exact H]. destruct (take g t (hq c t)) eqn:E; [|exact H]. cbn [fst]. eapply HT; eassumption.
  - destruct (stealing c && Nat.ltb t nhp && Nat.ltb (victim c o) nhp && negb (Nat.eqb (victim c o) t)); [|exact H].
    destruct (take g t (hq c (victim c o))) eqn:E; [|exact H]. cbn [fst]. eapply HT; eassumption.
Qed.

(* client_qi of the base model, with the pending part of the state left out of the premise *)
Lemma client_hqi : forall c nhp o t g cl, nw c > 0 -> phase_ok c cl -> hqs_ok c nhp g ->
  phase_ok c (snd (client_step c o t g cl)) /\ hqs_ok c nhp (fst (client_step c o t g cl)).
Proof.
  intros c nhp o t g cl Hn P Q. unfold client_step. destruct (todo cl) as [|p rest] eqn:E; [split; assumption|].
  assert (Hm : forall x, x mod nw c < nw c) by (intros x; apply Nat.mod_upper_bound; lia).
  assert (Henq : forall i v, i <= nw c -> hqs_ok c nhp (enqueue g t i v)).
  { intros i v Hi. destruct Q as [A B]. split; [|exact B]. intros j tk Hin. unfold enqueue in Hin; cbn in Hin. rewrite in_app_iff in Hin. cbn in Hin.
    destruct Hin as [Hin|[Heq|[]]]; [apply (A j tk); auto|]. inversion Heq; subst. exact Hi. }
  assert (Henq' : forall i v f, i <= nw c -> hqs_ok c nhp (set_pul (enqueue g t i v) f)) by (intros i v f Hi; exact (Henq i v Hi)).
  assert (Hlow : forall (b : bool) i, i < nw c -> (if b then lowq c else i) <= nw c) by (intros [|] i Hi; unfold lowq; lia).
  unfold phase_ok in P. rewrite E in P.
  destruct p; cbv zeta; brk; hintsplit; cbn [fst snd]; unfold phase_ok, cl_next, cl_ph, cl_sel, notify; cbn [ph todo]; rewrite ?E;
    try (change g_resume_notifies with true; cbv iota);
    repeat match goal with H : ph cl = _ |- _ => rewrite H in P end;
    repeat match goal with H : ph cl = _ |- context [ph cl] => rewrite H end;
    (split; [try exact I; try exact P; try apply Hm; auto | try exact Q; try (apply Henq; apply Hlow; exact P)]).
  all: try (destruct (elastic c); apply Hm).
  all: try (first [apply Henq | apply Henq']; unfold lowq; lia).
Qed.

Lemma hp_client_hqi : forall c nhp high o t g cl, nw c > 0 -> 0 < nhp -> phase_ok c cl -> hqs_ok c nhp g ->
  phase_ok c (snd (hp_client_step c nhp high o t g cl)) /\ hqs_ok c nhp (fst (hp_client_step c nhp high o t g cl)).
Proof.
  intros c nhp high o t g cl Hn Hp P Q.
  pose proof (client_hqi c nhp o t g cl Hn P Q) as B.
  assert (Hnow : forall i f, i < nw c -> hqs_ok c nhp (set_pul (enqueue_now g t (hq c (Nat.modulo i nhp))) f)).
  { intros i f Hi. destruct Q as [A B0]. split; [exact A|]. intros j tk Hin. cbn in Hin. rewrite in_app_iff in Hin.
    destruct Hin as [Hin|[Heq|[]]]; [exact (B0 j tk Hin)|]. inversion Heq; subst. right. exists (Nat.modulo i nhp).
    pose proof (Nat.mod_upper_bound i nhp). pose proof (Nat.mod_le i nhp). split; [reflexivity|lia]. }
  unfold hp_client_step. destruct high; [|exact B]. destruct (todo cl) as [|p rest] eqn:E; [exact B|].
  destruct p; try exact B. destruct low; [exact B|]. unfold phase_ok in P. rewrite E in P.
  destruct (ph cl) eqn:Ph; try exact B; cbn [fst snd]; (split; [exact I|]).
  - apply Hnow. exact P.
  - exact (Hnow w (pul g) P).
Qed.

Definition HQI (c : cfg) (nhp : nat) (g : gst) (ls : locals hlstate) : Prop :=
  hqs_ok c nhp g /\ forall t cl h, ls t = HClient cl h -> phase_ok c cl.

Lemma hp_tstep_hqi : forall c nhp, nw c > 0 -> 0 < nhp -> forall o t g (ls : locals hlstate), HQI c nhp g ls ->
  HQI c nhp (fst (hp_tstep c nhp o t g (ls t))) (upd ls t (snd (hp_tstep c nhp o t g (ls t)))).
Proof.
  intros c nhp Hn Hp o t g ls [Q P].
  assert (Hid : HQI c nhp g (upd ls t (ls t))).
  { split; [exact Q|]. intros t2 cl2 h2 H. unfold upd in H. destruct (Nat.eqb t2 t) eqn:E; [apply Nat.eqb_eq in E; subst|]; eapply P; eassumption. }
  destruct (ls t) as [pc|cl high|] eqn:L; cbn [hp_tstep]; [| |exact Hid].
  - destruct (Nat.ltb t (nw c)) eqn:Lt; [|exact Hid]. apply Nat.ltb_lt in Lt.
    pose proof (hp_worker_hqs_ok c nhp o t g pc Lt Q) as W. destruct (hp_worker_step c nhp o t g pc) as [g' pc']. cbn [fst snd] in *.
    split; [exact W|]. intros t2 cl2 h2 H. unfold upd in H. destruct (Nat.eqb t2 t); [discriminate|]. eapply P; eassumption.
  - destruct (Nat.ltb t (nw c)); [exact Hid|].
    pose proof (hp_client_hqi c nhp high o t g cl Hn Hp (P t cl high L) Q) as [W1 W2].
    destruct (hp_client_step c nhp high o t g cl) as [g' cl']. cbn [fst snd] in *.
    split; [exact W2|]. intros t2 cl2 h2 H. unfold upd in H. destruct (Nat.eqb t2 t); [inversion H; subst; exact W1|eapply P; eassumption].
Qed.

Lemma hp_hqs_ok : forall c nhp progs high sched, nw c > 0 -> 0 < nhp -> hqs_ok c nhp (fst (hp_run c nhp progs high sched)).
Proof.
  intros c nhp progs high sched Hn Hp. unfold hp_run.
  apply (run_inv gst hlstate oracle (hp_tstep c nhp) (HQI c nhp) (hp_tstep_hqi c nhp Hn Hp) sched (sr_g0, hp_locals c progs high)).
  cbn [fst snd]. split; [split; intros i tk []|]. intros t cl h H. unfold hp_locals in H. destruct (Nat.ltb t (nw c)); [discriminate|].
  inversion H; subst. exact I.
Qed.

(* ------------------------------------------------------------------ what a stuck state says about the high-priority queues *)
Lemma hp_stuck_worker : forall c nhp g (ls : locals hlstate) w pc, hp_stuck c nhp (g, ls) -> w < nw c -> ls w = HWorker pc ->
  hp_worker_enabled c nhp w g pc = false.
Proof.
  intros c nhp g ls w pc S Hw L. specialize (S w). cbn [fst snd] in S. rewrite L in S. cbn [hp_enabled] in S.
  apply Nat.ltb_lt in Hw. rewrite Hw in S. exact S.
Qed.

Lemma hp_role : forall c g (ls : locals hlstate) w, INV4 c g (pls ls) -> w < nw c -> exists pc, ls w = HWorker pc.
Proof.
  intros c g ls w I Hw. destruct (i_roleW c g (pls ls) I w Hw) as (pc & L). unfold pls in L.
  destruct (ls w) as [pc0|cl h|]; cbn [hproj] in L; try discriminate. eexists; reflexivity.
Qed.

(* in a stuck state every worker is in its polling cycle or blocked in the condition-variable wait *)
Lemma hp_stuck_pc : forall c nhp g (ls : locals hlstate) w pc, INV4 c g (pls ls) -> hp_stuck c nhp (g, ls) -> w < nw c ->
  ls w = HWorker pc ->
  (polling (unsplice pc) = true /\ st g w <> rs_sleeping) \/ (pc = HBase WWaiting /\ st g w = rs_sleeping).
Proof.
  intros c nhp g ls w pc I S Hw L. pose proof (hp_stuck_worker c nhp g ls w pc S Hw L) as D.
  assert (Lp : pls ls w = LWorker (unsplice pc)) by (unfold pls; rewrite L; reflexivity).
  destruct (i_hs c g (pls ls) I w _ Lp Hw) as [A _].
  unfold hp_worker_enabled in D. apply orb_false_iff in D. destruct D as [D _].
  destruct pc as [pc0|r|]; cbn [unsplice] in *.
  - destruct pc0; cbn [polling wait_pc worker_enabled] in *; try discriminate;
      try (left; split; [reflexivity|]; intros E; rewrite E in A; discriminate).
    right. split; [reflexivity|]. apply rs_eqb_eq. exact A.
  - left. split; [reflexivity|]. intros E; rewrite E in A; discriminate.
  - left. split; [reflexivity|]. intros E; rewrite E in A; discriminate.
Qed.

Lemma existsb_false_in : forall (A : Type) (f : A -> bool) l x, existsb f l = false -> In x l -> f x = false.
Proof.
  intros A f l x H Hin. destruct (f x) eqn:E; [|reflexivity]. assert (existsb f l = true) by (apply existsb_exists; eauto). congruence.
Qed.

(* (1)+(3), exact form: a task is left in a high-priority queue hq j of a stuck state only if the owner j SLEEPS and no running
   worker that has a high-priority queue itself may steal it *)
Lemma hp_stranded_only_behind_sleeping_owner : forall c nhp progs high sched, (forall t, Forall (api_ok c) (progs t)) ->
  let cf := hp_run c nhp progs high sched in
  nw c > 0 -> 0 < nhp -> hp_stuck c nhp cf ->
  forall i tk, In (i, tk) (qs (fst cf)) -> nw c < i ->
    exists j, i = hq c j /\ j < nhp /\ j < nw c /\ st (fst cf) j = rs_sleeping /\
      (stealing c = true -> forall w0, w0 < nw c -> w0 < nhp -> st (fst cf) w0 <> rs_running).
Proof.
  intros c nhp progs high sched Hok cf Hn Hp S i tk Hin Hi.
  pose proof (hp_inv4 c nhp progs high sched Hok) as I. pose proof (hp_hqs_ok c nhp progs high sched Hn Hp) as [_ Q].
  fold cf in I, Q. destruct cf as [g ls]. cbn [fst snd] in *.
  destruct (Q i tk Hin) as [Le|(j & -> & J1 & J2)]; [lia|]. exists j. split; [reflexivity|split; [exact J1|split; [exact J2|]]].
  assert (Ne : nonempty (qof (hq c j) (qs g)) = true) by (eapply nonempty_in; apply in_qof; exact Hin).
  assert (Own : forall w pc, w < nw c -> ls w = HWorker pc -> polling (unsplice pc) = true -> own_hp c nhp w g = false /\
            ((rs_lt (st g w) g_running_below || hp_early pc) && steal_h c nhp w g = false)).
  { intros w pc Hw L Po. pose proof (hp_stuck_worker c nhp g ls w pc S Hw L) as D. unfold hp_worker_enabled in D.
    apply orb_false_iff in D. destruct D as [_ D]. rewrite Po in D. cbn [andb] in D. apply orb_false_iff in D. exact D. }
  split.
  - destruct (hp_role c g ls j I J2) as (pc & L).
    destruct (hp_stuck_pc c nhp g ls j pc I S J2 L) as [[Po _]|[_ E]]; [exfalso|exact E].
    destruct (Own j pc J2 L Po) as [O _]. unfold own_hp in O. apply Nat.ltb_lt in J1. rewrite J1, Ne in O. discriminate.
  - intros St w0 Hw0 Hh0 R. destruct (hp_role c g ls w0 I Hw0) as (pc & L).
    destruct (hp_stuck_pc c nhp g ls w0 pc I S Hw0 L) as [[Po _]|[_ E]]; [|rewrite R in E; discriminate].
    destruct (Own w0 pc Hw0 L Po) as [O T]. rewrite R in T. cbn [rs_lt orb andb] in T.
    change (rs_lt rs_running g_running_below) with true in T. cbn [orb andb] in T.
    destruct (Nat.eq_dec j w0) as [->|Nj].
    + unfold own_hp in O. apply Nat.ltb_lt in Hh0. rewrite Hh0, Ne in O. discriminate.
    + unfold steal_h in T. rewrite St in T. apply Nat.ltb_lt in Hh0. rewrite Hh0 in T. cbn [andb] in T.
      pose proof (existsb_false_in _ _ _ j T) as X. cbv beta in X. rewrite Ne in X.
      apply Nat.ltb_lt in J1. rewrite J1 in X. apply Nat.eqb_neq in Nj. rewrite Nj in X. cbn in X.
      assert (In j (seq 0 (nw c))) by (apply in_seq; lia). specialize (X H). discriminate.
Qed.

(* (1) stuck and every processing unit running: nothing is left in ANY queue, high-priority queues included *)
Lemma hp_no_task_stranded : forall c nhp progs high sched, (forall t, Forall (api_ok c) (progs t)) ->
  let cf := hp_run c nhp progs high sched in
  nw c > 0 -> 0 < nhp -> hp_stuck c nhp cf -> (forall w, w < nw c -> st (fst cf) w = rs_running) ->
  qs (fst cf) = [] /\ sq (fst cf) = [] /\ heldl (fst cf) = [] /\ Permutation (map fst (executed (fst cf))) (submitted (fst cf)).
Proof.
  intros c nhp progs high sched Hok cf Hn Hp S R.
  pose proof (hp_stranded_only_behind_sleeping_owner c nhp progs high sched Hok Hn Hp S) as HS.
  pose proof (hp_inv4 c nhp progs high sched Hok) as I. pose proof (hp_hqs_ok c nhp progs high sched Hn Hp) as [Q1 Q2].
  pose proof (hp_conserv c nhp progs high sched) as (P & _ & _).
  fold cf in HS, I, Q1, Q2, P. destruct cf as [g ls]. cbn [fst snd] in *.
  pose proof (hp_stuck_base c nhp g ls S) as Sb.
  assert (Hh : heldl g = []) by (eapply stuck_no_held; eassumption).
  assert (None : forall i tk, In (i, tk) (qs g) \/ In (i, tk) (sq g) -> False).
  { intros i tk Hin.
    assert (Hi : i <= nw c).
    { destruct Hin as [Hin|Hin]; [|exact (Q1 i tk Hin)]. destruct (Nat.le_gt_cases i (nw c)) as [Le|Gt]; [exact Le|exfalso].
      destruct (HS i tk Hin Gt) as (j & _ & _ & J2 & E & _). rewrite (R j J2) in E. discriminate. }
    destruct (Nat.eq_dec i (nw c)) as [->|Ni].
    - assert (Hl : nw c - 1 < nw c) by lia.
      destruct (stuck_running c g (pls ls) (nw c - 1) I Sb Hl (R _ Hl)) as [_ RW]. unfold run_work in RW.
      apply orb_false_iff in RW. destruct RW as [RW LS]. apply orb_false_iff in RW. destruct RW as [_ LP].
      assert (LL : lastw c (nw c - 1) = true) by (unfold lastw; apply Nat.eqb_eq; lia). unfold low_s in LS. rewrite LL in LS. cbn [andb] in LS.
      unfold low_p in LP. destruct Hin as [Hin|Hin]; [exact (qof_empty_not_in _ _ _ LP Hin)|exact (qof_empty_not_in _ _ _ LS Hin)].
    - assert (Hl : i < nw c) by lia.
      destruct (stuck_running c g (pls ls) i I Sb Hl (R _ Hl)) as [OW _]. unfold own_work in OW. apply orb_false_iff in OW. destruct OW as [O1 O2].
      destruct Hin as [Hin|Hin]; [exact (qof_empty_not_in _ _ _ O1 Hin)|exact (qof_empty_not_in _ _ _ O2 Hin)]. }
  assert (E1 : qs g = []) by (destruct (qs g) as [|[i tk] r]; [reflexivity|exfalso; apply (None i tk); left; left; reflexivity]).
  assert (E2 : sq g = []) by (destruct (sq g) as [|[i tk] r]; [reflexivity|exfalso; apply (None i tk); right; left; reflexivity]).
  repeat split; try assumption. rewrite E1, E2, Hh in P. exact P.
Qed.

(* (1), stealing variant: ONE running worker w0 suffices for the high-priority queues too, provided w0 has a high-priority
   queue itself (always the case when nhp = nw) or no owner of a high-priority queue sleeps.  The low-priority clause is the base
   model's. *)
Lemma hp_no_task_stranded_stealing : forall c nhp progs high sched w0, (forall t, Forall (api_ok c) (progs t)) ->
  let cf := hp_run c nhp progs high sched in
  stealing c = true -> 0 < nhp -> hp_stuck c nhp cf -> w0 < nw c -> st (fst cf) w0 = rs_running ->
  (w0 < nhp \/ forall w, w < nhp -> w < nw c -> st (fst cf) w <> rs_sleeping) ->
  qs (fst cf) = [] /\ heldl (fst cf) = [] /\
  (forall i tk, In (i, tk) (sq (fst cf)) -> i = lowq c /\ lastw c w0 = false) /\
  (qof (lowq c) (sq (fst cf)) = [] ->
   sq (fst cf) = [] /\ Permutation (map fst (executed (fst cf))) (submitted (fst cf))).
Proof.
  intros c nhp progs high sched w0 Hok cf St Hp S Hw Hr Hyp. assert (Hn : nw c > 0) by lia.
  pose proof (hp_stranded_only_behind_sleeping_owner c nhp progs high sched Hok Hn Hp S) as HS.
  pose proof (hp_inv4 c nhp progs high sched Hok) as I. pose proof (hp_hqs_ok c nhp progs high sched Hn Hp) as [Q1 Q2].
  pose proof (hp_conserv c nhp progs high sched) as (P & _ & _).
  fold cf in HS, I, Q1, Q2, P. destruct cf as [g ls]. cbn [fst snd] in *.
  pose proof (hp_stuck_base c nhp g ls S) as Sb.
  assert (Hh : heldl g = []) by (eapply stuck_no_held; eassumption).
  destruct (stuck_running c g (pls ls) w0 I Sb Hw Hr) as [_ RW]. unfold run_work in RW.
  apply orb_false_iff in RW. destruct RW as [RW LS]. apply orb_false_iff in RW. destruct RW as [RW LP].
  apply orb_false_iff in RW. destruct RW as [SP SS]. unfold steal_p, steal_s in *. rewrite St in SP, SS. cbn in SP, SS.
  assert (NoQ : forall i tk, In (i, tk) (qs g) -> False).
  { intros i tk Hin.
    destruct (Nat.le_gt_cases i (nw c)) as [Le|Gt].
    - destruct (Nat.eq_dec i (nw c)) as [->|Ni].
      + unfold low_p in LP. eapply qof_empty_not_in; eassumption.
      + eapply has_normal_false; [exact SP|exact Hin|lia].
    - destruct (HS i tk Hin Gt) as (j & _ & J1 & J2 & E & NS). destruct Hyp as [H0|H0].
      + exact (NS St w0 Hw H0 Hr).
      + exact (H0 j J1 J2 E). }
  assert (E1 : qs g = []) by (destruct (qs g) as [|[i tk] r]; [reflexivity|exfalso; apply (NoQ i tk); left; reflexivity]).
  assert (E3 : forall i tk, In (i, tk) (sq g) -> i = lowq c /\ lastw c w0 = false).
  { intros i tk Hin. pose proof (Q1 i tk Hin) as Hi. destruct (Nat.eq_dec i (nw c)) as [->|Ni].
    - split; [reflexivity|]. unfold low_s in LS. destruct (lastw c w0); [|reflexivity]. cbn in LS.
      exfalso. eapply qof_empty_not_in; eassumption.
    - exfalso. eapply has_normal_false; [exact SS|exact Hin|lia]. }
  split; [exact E1|split; [exact Hh|split; [exact E3|]]].
  intros El. assert (E2 : sq g = []).
  { destruct (sq g) as [|[i tk] r] eqn:Eq; [reflexivity|exfalso].
    assert (Hin : In (i, tk) (sq g)) by (rewrite Eq; left; reflexivity). rewrite <- Eq in El.
    destruct (E3 i tk) as [-> _]; [rewrite <- Eq; exact Hin|]. apply in_qof in Hin. rewrite El in Hin. exact Hin. }
  split; [exact E2|]. rewrite E1, E2, Hh in P. exact P.
Qed.

(* (3) when is a task — in particular a high-priority task pushed on hq (w mod nhp) — executed WITHOUT resuming anything: in a stuck
   state (all clients have issued their calls, nothing can move any more) every submitted task has been executed, or it is staged in
   a normal / low-priority queue, or pending in a normal / low-priority queue (the base theorems say when), or it is pending in a
   high-priority queue hq j whose owner j SLEEPS while no running worker with a high-priority queue of its own may steal it.
   Complement of hp_stranded_refuted: there owner 0 sleeps and the running worker 1 has no high-priority queue (nhp = 1). *)
Lemma hp_task_runs_without_resume : forall c nhp progs high sched, (forall t, Forall (api_ok c) (progs t)) ->
  let cf := hp_run c nhp progs high sched in
  nw c > 0 -> 0 < nhp -> hp_stuck c nhp cf ->
  forall tk, In tk (submitted (fst cf)) ->
    In tk (map fst (executed (fst cf))) \/
    (exists i, i <= nw c /\ (In (i, tk) (sq (fst cf)) \/ In (i, tk) (qs (fst cf)))) \/
    (exists j, In (hq c j, tk) (qs (fst cf)) /\ j < nhp /\ j < nw c /\ st (fst cf) j = rs_sleeping /\
       (stealing c = true -> forall w0, w0 < nw c -> w0 < nhp -> st (fst cf) w0 <> rs_running)).
Proof.
  intros c nhp progs high sched Hok cf Hn Hp S tk Hin.
  pose proof (hp_stranded_only_behind_sleeping_owner c nhp progs high sched Hok Hn Hp S) as HS.
  pose proof (hp_inv4 c nhp progs high sched Hok) as I. pose proof (hp_hqs_ok c nhp progs high sched Hn Hp) as [Q1 Q2].
  pose proof (hp_no_task_lost c nhp progs high sched tk) as [NL _].
  fold cf in HS, I, Q1, Q2, NL. destruct cf as [g ls]. cbn [fst snd] in *.
  assert (Hh : heldl g = []) by (eapply stuck_no_held; [exact I|exact (hp_stuck_base c nhp g ls S)]).
  destruct (NL Hin) as [H|[H|[H|H]]]; [left; exact H|rewrite Hh in H; destruct H| |].
  - apply in_map_iff in H. destruct H as ([i x] & E & H). cbn in E. subst x.
    destruct (Nat.le_gt_cases i (nw c)) as [Le|Gt]; [right; left; exists i; auto|].
    destruct (HS i tk H Gt) as (j & -> & J). right. right. exists j. split; [exact H|exact J].
  - apply in_map_iff in H. destruct H as ([i x] & E & H). cbn in E. subst x. right. left. exists i. split; [exact (Q1 i tk H)|left; exact H].
Qed.

(* ------------------------------------------------------------------ the meaning of hp_enabled: a thread that is not enabled only stutters *)
Lemma unsplice_splice : forall pc, unsplice (splice pc) = pc.
Proof. destruct pc; reflexivity. Qed.

Lemma early_step : forall c o t g pc0, hp_early (splice (snd (worker_step c o t g pc0))) = true ->
  rs_lt (st g t) g_running_below = true \/ hp_early (HBase pc0) = true.
Proof.
  intros c o t g pc0. destruct pc0; cbn [worker_step]; cbv zeta; brk; cbn [snd splice hp_early]; auto; try discriminate.
  all: intros H; repeat match goal with |- context [rs_lt ?a ?b] => destruct (rs_lt a b) end; auto; try discriminate.
  all: try (destruct r; auto; discriminate).
Qed.

Lemma take_none_hq : forall g w v, nonempty (qof v (qs g)) = false -> take g w v = None.
Proof.
  intros g w v H. unfold take. rewrite extract_none_if; [reflexivity|]. intros e He Ev.
  destruct e as [i x]. cbn in Ev. subst i. exact (qof_empty_not_in _ _ _ H He).
Qed.

Lemma hp_worker_disabled_stutter : forall c nhp o t g pc, t < nw c -> fst o = false -> hp_worker_enabled c nhp t g pc = false ->
  fst (hp_worker_step c nhp o t g pc) = g /\ hp_worker_enabled c nhp t g (snd (hp_worker_step c nhp o t g pc)) = false.
Proof.
  intros c nhp o t g pc Ht Ho D. unfold hp_worker_enabled in D. apply orb_false_iff in D. destruct D as [DB DH].
  pose proof (SuspendResumeStutter.worker_disabled_stutter c o t g (unsplice pc) Ht Ho DB) as [SB1 SB2].
  assert (Base : forall pc0, unsplice pc = pc0 -> pc = HBase pc0 ->
            fst (let '(g', pc') := worker_step c o t g pc0 in (g', splice pc')) = g /\
            hp_worker_enabled c nhp t g (snd (let '(g', pc') := worker_step c o t g pc0 in (g', splice pc'))) = false).
  { intros pc0 E E2. rewrite E in *. pose proof (early_step c o t g pc0) as ES.
    assert (NP : polling pc0 = false -> polling (snd (worker_step c o t g pc0)) = false).
    { intros Po. destruct pc0; cbn [polling worker_enabled] in *; try discriminate. cbn [worker_step]. rewrite Ho.
      apply negb_false_iff in DB. rewrite DB. reflexivity. }
    destruct (worker_step c o t g pc0) as [g' pc']. cbn [fst snd] in *. split; [exact SB1|].
    unfold hp_worker_enabled. rewrite unsplice_splice, SB2. cbn [orb].
    destruct (polling pc') eqn:Po'; [|reflexivity]. cbn [andb].
    destruct (polling pc0) eqn:Po; [|discriminate (NP eq_refl)].
    cbn [andb] in DH. apply orb_false_iff in DH. destruct DH as [D1 D2]. rewrite D1. cbn [orb].
    destruct (steal_h c nhp t g); [|apply andb_false_r]. rewrite andb_true_r in *. subst pc.
    destruct (hp_early (splice pc')) eqn:Ea; [|rewrite orb_false_r; apply orb_false_iff in D2; exact (proj1 D2)].
    destruct (ES eq_refl) as [X|X]; rewrite X in D2; [discriminate D2|rewrite orb_true_r in D2; discriminate D2]. }
  destruct pc as [pc0|r|]; cbn [hp_worker_step unsplice] in *.
  - destruct pc0; try (apply Base; reflexivity).
    cbn [polling andb] in DH. apply orb_false_iff in DH. destruct DH as [D1 D2]. unfold own_hp in D1. rewrite D1.
    apply Base; reflexivity.
  - cbn [polling andb] in DH. apply orb_false_iff in DH. destruct DH as [D1 D2].
    assert (E : (if Nat.ltb t nhp then match take g t (hq c t) with Some g' => (g', HBase WExec) | None => (g, HBase (WPop r)) end
                 else (g, HBase (WPop r))) = (g, HBase (WPop r))).
    { unfold own_hp in D1. destruct (Nat.ltb t nhp); [|reflexivity]. cbn [andb] in D1. rewrite (take_none_hq g t _ D1). reflexivity. }
    rewrite E. cbn [fst snd]. split; [reflexivity|]. unfold hp_worker_enabled. cbn [unsplice polling andb]. rewrite DB, D1. cbn [orb].
    destruct r; exact D2.
  - cbn [polling andb hp_early] in DH. apply orb_false_iff in DH. destruct DH as [D1 D2]. rewrite orb_true_r in D2. cbn [andb] in D2.
    assert (Hv : victim c o < nw c) by (unfold victim; apply Nat.mod_upper_bound; lia).
    assert (E : (if stealing c && Nat.ltb t nhp && Nat.ltb (victim c o) nhp && negb (Nat.eqb (victim c o) t)
                 then match take g t (hq c (victim c o)) with Some g' => (g', HBase WExec) | None => (g, HBase WSteal) end
                 else (g, HBase WSteal)) = (g, HBase WSteal)).
    { destruct (stealing c && Nat.ltb t nhp && Nat.ltb (victim c o) nhp && negb (Nat.eqb (victim c o) t)) eqn:C; [|reflexivity].
      apply andb_true_iff in C. destruct C as [C C4]. apply andb_true_iff in C. destruct C as [C C3]. apply andb_true_iff in C. destruct C as [C1 C2].
      unfold steal_h in D2. rewrite C1, C2 in D2. cbn [andb] in D2.
      pose proof (existsb_false_in _ _ _ (victim c o) D2) as X. cbv beta in X. rewrite C3, C4 in X. cbn [andb] in X.
      rewrite (take_none_hq g t _ (X ltac:(apply in_seq; lia))). reflexivity. }
    rewrite E. cbn [fst snd]. split; [reflexivity|]. unfold hp_worker_enabled. cbn [unsplice polling andb hp_early]. rewrite DB, D1, D2.
    cbn [orb]. apply andb_false_r.
Qed.

Lemma hp_disabled_stutter : forall c nhp o t g l, fst o = false -> hp_enabled c nhp t g l = false ->
  SuspendResumeStutter.geq g (fst (hp_tstep c nhp o t g l)) /\
  hp_enabled c nhp t (fst (hp_tstep c nhp o t g l)) (snd (hp_tstep c nhp o t g l)) = false.
Proof.
  intros c nhp o t g l Ho D. destruct l as [pc|cl high|]; cbn [hp_tstep hp_enabled] in *.
  - destruct (Nat.ltb t (nw c)) eqn:Lt; [|cbn [fst snd hp_enabled]; rewrite Lt; split; [apply SuspendResumeStutter.geq_refl|reflexivity]].
    cbn [andb] in D. apply Nat.ltb_lt in Lt. destruct (hp_worker_disabled_stutter c nhp o t g pc Lt Ho D) as [A B].
    destruct (hp_worker_step c nhp o t g pc) as [g' pc']. cbn [fst snd] in *. subst g'. split; [apply SuspendResumeStutter.geq_refl|].
    cbn [hp_enabled]. rewrite B. apply andb_false_r.
  - destruct (Nat.ltb t (nw c)) eqn:Lt; [cbn [fst snd hp_enabled]; rewrite Lt; split; [apply SuspendResumeStutter.geq_refl|reflexivity]|].
    cbn [negb andb] in D.
    (* a disabled client is not at a submission: its step is the base step *)
    assert (E : hp_client_step c nhp high o t g cl = client_step c o t g cl).
    { unfold hp_client_step. destruct high; [|reflexivity]. unfold client_enabled in D.
      destruct (todo cl) as [|p rest]; [reflexivity|]. destruct p; try reflexivity. discriminate D. }
    rewrite E. destruct (SuspendResumeStutter.client_disabled_stutter c o t g cl D) as [A B].
    destruct (client_step c o t g cl) as [g' cl']. cbn [fst snd] in *. split; [exact A|]. cbn [hp_enabled]. rewrite Lt. exact B.
  - split; [apply SuspendResumeStutter.geq_refl|reflexivity].
Qed.

(* ------------------------------------------------------------------ simulation: without high-priority submissions the layer IS the base model *)
Definition rel (cf : gst * locals hlstate) (cfb : gst * locals lstate) : Prop :=
  fst cf = fst cfb /\ forall x, hproj (snd cf x) = snd cfb x.
Definition nohigh (ls : locals hlstate) : Prop := forall x cl h, ls x = HClient cl h -> h = false.

Lemma hp_step_simulates : forall c nhp o t g l,
  (forall i tk, In (i, tk) (qs g) -> i <= nw c) -> (forall cl h, l = HClient cl h -> h = false) ->
  let r := hp_tstep c nhp o t g l in
  if hp_skips l then fst r = g /\ hproj (snd r) = hproj l
  else (fst r, hproj (snd r)) = sr_tstep c o t g (hproj l).
Proof.
  intros c nhp o t g l Q NH.
  assert (T : forall w j, take g w (hq c j) = None).
  { intros w j. unfold take. rewrite extract_none_if; [reflexivity|]. intros [i x] He Ev. cbn in Ev. specialize (Q i x He). unfold hq in Ev. lia. }
  assert (N : forall j, nonempty (qof (hq c j) (qs g)) = false).
  { intros j. destruct (qof (hq c j) (qs g)) as [|x r0] eqn:E; [reflexivity|exfalso].
    assert (Hin : In x (qof (hq c j) (qs g))) by (rewrite E; left; reflexivity). apply in_qof in Hin. specialize (Q _ _ Hin). unfold hq in Q. lia. }
  destruct l as [pc|cl high|]; cbn [hp_tstep hp_skips hproj sr_tstep]; cbv zeta.
  - destruct pc as [pc0|r|]; cbn [unsplice].
    + destruct (Nat.ltb t (nw c)); [|reflexivity]. cbn [hp_worker_step].
      assert (B : forall pc0, (fst (let '(g', pc') := (let '(g', pc') := worker_step c o t g pc0 in (g', splice pc')) in (g', HWorker pc')),
                   hproj (snd (let '(g', pc') := (let '(g', pc') := worker_step c o t g pc0 in (g', splice pc')) in (g', HWorker pc')))) =
                  (let '(g', pc') := worker_step c o t g pc0 in (g', LWorker pc'))).
      { intros p. destruct (worker_step c o t g p) as [g' pc']. cbn [fst snd hproj]. rewrite unsplice_splice. reflexivity. }
      destruct pc0; try apply B. rewrite N, andb_false_r. apply B.
    + destruct (Nat.ltb t (nw c)); [|split; reflexivity]. cbn [hp_worker_step]. rewrite T.
      destruct (Nat.ltb t nhp); split; reflexivity.
    + destruct (Nat.ltb t (nw c)); [|split; reflexivity]. cbn [hp_worker_step]. rewrite T.
      destruct (stealing c && Nat.ltb t nhp && Nat.ltb (victim c o) nhp && negb (Nat.eqb (victim c o) t)); split; reflexivity.
  - destruct (Nat.ltb t (nw c)); [reflexivity|]. rewrite (NH cl high eq_refl).
    assert (E : hp_client_step c nhp false o t g cl = client_step c o t g cl) by reflexivity.
    rewrite E. destruct (client_step c o t g cl) as [g' cl']. reflexivity.
  - reflexivity.
Qed.

Lemma hp_run_simulates : forall c nhp, nw c > 0 -> forall sched cf cfb,
  rel cf cfb -> QI c (fst cfb) (snd cfb) -> nohigh (snd cf) ->
  rel (run (hp_tstep c nhp) sched cf) (run (sr_tstep c) (base_sched c nhp sched cf) cfb).
Proof.
  intros c nhp Hn. induction sched as [|[t o] s IH]; intros cf cfb R Q NH; [exact R|].
  rewrite run_cons. cbn [base_sched]. change (fst (t, o)) with t.
  destruct R as [R1 R2]. destruct Q as [Q1 Q2].
  assert (Qq : forall i tk, In (i, tk) (qs (fst cf)) -> i <= nw c) by (intros i tk H; rewrite R1 in H; apply (Q1 i tk); left; exact H).
  pose proof (hp_step_simulates c nhp o t (fst cf) (snd cf t) Qq (fun cl h => NH t cl h)) as SS. cbv zeta in SS.
  assert (NH' : nohigh (snd (step (hp_tstep c nhp) cf (t, o)))).
  { unfold step. cbn [fst snd]. intros x cl h Hx.
    destruct (hp_tstep c nhp o t (fst cf) (snd cf t)) as [g' l'] eqn:W. cbn [snd] in Hx. unfold upd in Hx.
    destruct (Nat.eqb x t); [|exact (NH x cl h Hx)]. subst l'.
    destruct (snd cf t) as [pc|cl0 h0|] eqn:L; cbn [hp_tstep] in W.
    - destruct (Nat.ltb t (nw c)); [destruct (hp_worker_step c nhp o t (fst cf) pc)|]; inversion W.
    - destruct (Nat.ltb t (nw c)); [|destruct (hp_client_step c nhp h0 o t (fst cf) cl0)]; inversion W; subst; exact (NH t _ _ L).
    - inversion W. }
  destruct (hp_skips (snd cf t)) eqn:Sk.
  - apply IH; [|split; assumption|exact NH']. unfold step. cbn [fst snd].
    destruct (hp_tstep c nhp o t (fst cf) (snd cf t)) as [g' l']. cbn [fst snd] in *. destruct SS as [S1 S2]. split; [cbn [fst]; rewrite S1; exact R1|].
    intros x. cbn [snd]. unfold upd. destruct (Nat.eqb x t) eqn:E; [apply Nat.eqb_eq in E; subst x; rewrite S2; apply R2|apply R2].
  - rewrite run_cons. apply IH; [| |exact NH'].
    + unfold step. cbn [fst snd]. rewrite <- R1, <- (R2 t), <- SS.
      destruct (hp_tstep c nhp o t (fst cf) (snd cf t)) as [g' l']. cbn [fst snd]. split; [reflexivity|].
      intros x. cbn [snd]. unfold upd. destruct (Nat.eqb x t); [reflexivity|apply R2].
    + pose proof (tstep_qi c Hn o t (fst cfb) (snd cfb) (conj Q1 Q2)) as W. unfold step. cbn [fst snd].
      destruct (sr_tstep c o t (fst cfb) (snd cfb t)) as [g' l']. exact W.
Qed.

(* every run of the layer in which no client submits with high priority is, step for step (the two extra program points
   skipped), a run of the base model: all theorems of Properties_C19 about sr_run hold of it *)
Lemma hp_simulates_base_when_no_hp_tasks : forall c nhp progs high sched, nw c > 0 -> (forall t, high t = false) ->
  let cf := hp_run c nhp progs high sched in
  let cfb := sr_run c progs (base_sched c nhp sched (sr_g0, hp_locals c progs high)) in
  fst cf = fst cfb /\ forall t, hproj (snd cf t) = snd cfb t.
Proof.
  intros c nhp progs high sched Hn Hh. unfold hp_run, sr_run.
  apply (hp_run_simulates c nhp Hn sched (sr_g0, hp_locals c progs high) (sr_g0, sr_locals c progs)).
  - split; [reflexivity|]. intros x. cbn [snd]. unfold hp_locals, sr_locals. destruct (Nat.ltb x (nw c)); reflexivity.
  - cbn [fst snd]. split; [intros i tk [[]|[]]|]. intros t cl H. unfold sr_locals in H. destruct (Nat.ltb t (nw c)); [discriminate|].
    inversion H; subst. exact I.
  - intros x cl h H. cbn [snd] in H. unfold hp_locals in H. destruct (Nat.ltb x (nw c)); [discriminate|]. inversion H. apply Hh.
Qed.

(* ------------------------------------------------------------------ non-vacuity: reachable stuck states of the layer *)
Lemma hp_run_untouched : forall c nhp (sched : list (nat * oracle)) (cf : gst * locals hlstate) t,
  ~ In t (map fst sched) -> snd (run (hp_tstep c nhp) sched cf) t = snd cf t.
Proof.
  induction sched as [|[t0 o] s IH]; intros cf t H; [reflexivity|]. rewrite run_cons. rewrite IH.
  - unfold step. cbn [fst snd]. destruct (hp_tstep c nhp o t0 (fst cf) (snd cf t0)) as [g' l']. cbn [snd].
    apply upd_other. intros ->. apply H. left. reflexivity.
  - intros Hin. apply H. right. exact Hin.
Qed.

Lemma hp_stuck_by_compute : forall c nhp progs high sched n,
  nw c <= n -> (forall t, n <= t -> progs t = []) -> forallb (fun x => Nat.ltb x n) (map fst sched) = true ->
  forallb (fun t => negb (hp_enabled c nhp t (fst (hp_run c nhp progs high sched)) (snd (hp_run c nhp progs high sched) t))) (seq 0 n) = true ->
  hp_stuck c nhp (hp_run c nhp progs high sched).
Proof.
  intros c nhp progs high sched n Hn Hp Hs Hc t. destruct (Nat.lt_ge_cases t n) as [Lt|Ge].
  - rewrite forallb_forall in Hc. specialize (Hc t). apply negb_true_iff. apply Hc. apply in_seq. lia.
  - unfold hp_run. rewrite hp_run_untouched.
    + cbn [snd]. unfold hp_locals. replace (Nat.ltb t (nw c)) with false by (symmetry; apply Nat.ltb_ge; lia).
      rewrite (Hp t Ge). cbn. apply andb_false_r.
    + intros Hin. rewrite forallb_forall in Hs. specialize (Hs t Hin). apply Nat.ltb_lt in Hs. lia.
Qed.

(* the state of hp_stranded_refuted (nhp = 1) IS stuck: worker 1 runs, stealing is on, owner 0 sleeps, the task stays in hq 0 —
   the hypothesis `w0 < nhp \/ no owner of a high-priority queue sleeps` of hp_no_task_stranded_stealing cannot be dropped *)
Lemma hp_stranded_state_is_stuck :
  let cf := hp_run hp_cfg 1 hp_progs hp_high hp_sched in
  hp_stuck hp_cfg 1 cf /\ st (fst cf) 1 = rs_running /\ st (fst cf) 0 = rs_sleeping /\ qs (fst cf) = [(hq hp_cfg 0, (2, 0))] /\
  executed (fst cf) = [] /\ ~ (1 < 1 \/ forall w, w < 1 -> w < nw hp_cfg -> st (fst cf) w <> rs_sleeping).
Proof.
  cbv zeta. split; [|split; [|split; [|split; [|split]]]]; try (vm_compute; reflexivity).
  - apply (hp_stuck_by_compute hp_cfg 1 hp_progs hp_high hp_sched 3); [cbn; lia| |vm_compute; reflexivity|vm_compute; reflexivity].
    intros t Ht. unfold hp_progs. replace (Nat.eqb t 2) with false by (symmetry; apply Nat.eqb_neq; lia). reflexivity.
  - intros [H|H]; [lia|]. apply (H 0); [lia|cbn; lia|vm_compute; reflexivity].
Qed.

(* same program with nhp = 2 (the default): stuck with PU 0 still suspended, and the high-priority task has run on worker 1 *)
Lemma hp_default_state_is_stuck :
  let cf := hp_run hp_cfg 2 hp_progs hp_high (hp_sched ++ repeat (1, o0) 4) in
  hp_stuck hp_cfg 2 cf /\ st (fst cf) 1 = rs_running /\ st (fst cf) 0 = rs_sleeping /\ qs (fst cf) = [] /\
  map fst (executed (fst cf)) = [(2, 0)] /\ submitted (fst cf) = [(2, 0)].
Proof.
  cbv zeta. split; [|repeat split; vm_compute; reflexivity].
  apply (hp_stuck_by_compute hp_cfg 2 hp_progs hp_high (hp_sched ++ repeat (1, o0) 4) 3); [cbn; lia| |vm_compute; reflexivity|vm_compute; reflexivity].
  intros t Ht. unfold hp_progs. replace (Nat.eqb t 2) with false by (symmetry; apply Nat.eqb_neq; lia). reflexivity.
Qed.

(* nhp = 1, the stranded task runs once PU 0 is resumed: a stuck state with every PU running and every queue empty *)
Definition hp_progs_r (t : nat) : list api := if Nat.eqb t 2 then [ASuspendPU 0 false; ASubmit (Some 1); AResumePU 0] else [].
Definition hp_sched_r : list (nat * oracle) := hp_sched ++ flat_map (fun _ => [(2, o0); (0, o0); (1, o0)]) (seq 0 12).

Lemma hp_resumed_state_is_stuck :
  let cf := hp_run hp_cfg 1 hp_progs_r hp_high hp_sched_r in
  hp_stuck hp_cfg 1 cf /\ (forall w, w < nw hp_cfg -> st (fst cf) w = rs_running) /\ qs (fst cf) = [] /\
  executed (fst cf) = [((2, 0), 0)] /\ calls (fst cf) = [(2, KResumePU, false); (2, KSuspendPU, false)].
Proof.
  cbv zeta. split; [|split; [|repeat split; vm_compute; reflexivity]].
  - apply (hp_stuck_by_compute hp_cfg 1 hp_progs_r hp_high hp_sched_r 3); [cbn; lia| |vm_compute; reflexivity|vm_compute; reflexivity].
    intros t Ht. unfold hp_progs_r. replace (Nat.eqb t 2) with false by (symmetry; apply Nat.eqb_neq; lia). reflexivity.
  - intros w Hw. cbn in Hw. destruct w as [|[|w]]; [vm_compute; reflexivity|vm_compute; reflexivity|lia].
Qed.
