(* Proofs/DequeConcDefs.v — the concurrent invariant of the lock-free deque under the no-reuse
   guard: definitions and basic lemmas (the step proof is in Proofs/DequeConcProofs.v).

   [Core g ls c pend] relates a state of Model/Deque.v to
     c    : the abstract chain, the addresses of the nodes of the deque from left to right, and
     pend : the nodes that a successful pop CAS has unlinked and whose FREE step (read the
            value, log it, give the node back to the pool) is still to come.
   It is Michael's invariant (Euro-Par 2003): the anchor points at the two ends of c; when the
   status is stable all inner links are consistent; when it is rpush/lpush the freshly pushed end
   node points inwards at the old end node, and only the old end node's outward link may still be
   wrong.  Every thread's registers are described by [J]: snapshots are the current anchor or have
   a smaller tag; what was read under a snapshot is correct as long as the snapshot is current. *)
From Coq Require Import List NArith Bool Lia Arith Permutation.
From Pika Require Import Base.Conc Model.IndexQueue Model.DequeSpec Model.Deque Model.DequeLin
  Proofs.DequeProofs.
Import ListNotations.
Local Open Scope N_scope.

(* ------------------------------------------------------------------ lists seen from a side *)
Lemma vw_opp {A} s (l : list A) : vw (opp s) l = rev (vw s l).
Proof. destruct s; cbn; [reflexivity|symmetry; apply rev_involutive]. Qed.

Lemma vw_perm {A} s (l : list A) : Permutation l (vw s l).
Proof. destruct s; cbn; [reflexivity|apply Permutation_rev]. Qed.

Lemma vw_nil {A} s (l : list A) : vw s l = [] -> l = [].
Proof. intros H. apply Permutation_nil. rewrite <- H. symmetry. apply vw_perm. Qed.

Lemma vw_eq {A} s (l m : list A) : vw s l = m -> l = vw s m.
Proof. intros <-. symmetry. apply vw_vw. Qed.

Lemma linkedS_tail s h a r : linkedS s h (a :: r) -> linkedS s h r.
Proof. destruct r as [|b r']; [intros _; exact I|]. cbn [linkedS]. tauto. Qed.

Lemma linkedS_vw s h c : linkedS SL h c -> linkedS s h (vw s c).
Proof. destruct s; [trivial|]. apply (linkedS_rev SL). Qed.

Lemma linkedS_unvw s h c : linkedS s h (vw s c) -> linkedS SL h c.
Proof.
  destruct s; [trivial|]. intros H. apply (linkedS_rev SR) in H. cbn [vw] in H.
  rewrite rev_involutive in H. exact H.
Qed.

Lemma link_eqb_eq a b : link_eqb a b = true -> a = b.
Proof.
  destruct a as [p1 t1], b as [p2 t2]. unfold link_eqb. cbn [lptr ltag].
  rewrite andb_true_iff, !N.eqb_eq. intros [-> ->]. reflexivity.
Qed.

Lemma hd_last_rev {A} (l : list A) d : hd d (rev l) = List.last l d.
Proof. apply hd_rev. Qed.

(* ------------------------------------------------------------------ the invariant *)
Definition ushape (s : side) (g : dq_shared) (c : list addr) : Prop :=
  exists n p r, vw s c = n :: p :: r /\ lptr (inward s (heap g n)) = p /\ linkedS s (heap g) (p :: r).

Definition shape_ok (g : dq_shared) (c : list addr) : Prop :=
  match ast (anc g) with
  | Stable => linkedS SL (heap g) c
  | RPush => ushape SR g c
  | LPush => ushape SL g c
  end.

Definition snap_ok (g : dq_shared) (lrs : anchor) : Prop := lrs = anc g \/ atag lrs < atag (anc g).
Definition second (s : side) (c : list addr) (n p : addr) : Prop := exists r, vw s c = n :: p :: r.
Definition published (g : dq_shared) (c pend : list addr) (p : addr) : Prop :=
  In p c \/ In p pend \/ epoch g p = 2.
Definition fixed (g : dq_shared) (s : side) (c : list addr) : Prop :=
  forall n p r, vw s c = n :: p :: r -> lptr (outward s (heap g p)) = n.
Definition lnk_lt (g : dq_shared) (s : side) (p : addr) (pn : link) : Prop :=
  ltag pn < ltag (outward s (heap g p)).

Definition push_own (g : dq_shared) (c pend : list addr) (l : dq_local) (s : side) (n : addr) : Prop :=
  epoch g n = 1 /\ ~ In n (c ++ pend) /\ cur_op l = Push s (ndata (heap g n)).

Definition Jk (g : dq_shared) (c pend : list addr) (l : dq_local) (k : kont) : Prop :=
  match k with
  | KDone => True
  | KPush s n => push_own g c pend l s n
  | KPop s => cur_op l = Pop s
  end.

Definition stab_ok (g : dq_shared) (s : side) (lrs : anchor) : Prop :=
  snap_ok g lrs /\ ast lrs = push_status s /\ aend s lrs <> 0.

Definition J (g : dq_shared) (c pend : list addr) (l : dq_local) : Prop :=
  match dpc l with
  | DIdle => True
  | DCrashed => False
  | PInit s v n => epoch g n = 1 /\ ~ In n (c ++ pend) /\ cur_op l = Push s v
  | PLoad s n => push_own g c pend l s n
  | PStore s n lrs => push_own g c pend l s n /\ snap_ok g lrs /\ ast lrs = Stable /\ aend s lrs <> 0
  | PCas s n lrs emp =>
      push_own g c pend l s n /\ snap_ok g lrs /\
      (if emp then aend s lrs = 0
       else ast lrs = Stable /\ aend s lrs <> 0 /\ lptr (inward s (heap g n)) = aend s lrs)
  | QLoad s => cur_op l = Pop s
  | QChk s lrs | QLink s lrs =>
      cur_op l = Pop s /\ snap_ok g lrs /\ ast lrs = Stable /\ al lrs <> ar lrs /\ aend s lrs <> 0
  | QCas s lrs np =>
      cur_op l = Pop s /\ snap_ok g lrs /\ aend s lrs <> 0 /\
      match np with
      | None => al lrs = ar lrs
      | Some p => ast lrs = Stable /\ al lrs <> ar lrs /\ (lrs = anc g -> second s c (aend s lrs) p)
      end
  | QFree s a => cur_op l = Pop s /\ In a pend
  | S1 k s lrs => Jk g c pend l k /\ stab_ok g s lrs
  | S2 k s lrs prev =>
      Jk g c pend l k /\ stab_ok g s lrs /\ (lrs = anc g -> second s c (aend s lrs) (lptr prev))
  | S3 k s lrs prev =>
      Jk g c pend l k /\ stab_ok g s lrs /\ (lrs = anc g -> second s c (aend s lrs) (lptr prev)) /\
      lptr prev <> 0
  | S4 k s lrs prev pn e =>
      Jk g c pend l k /\ stab_ok g s lrs /\ (lrs = anc g -> second s c (aend s lrs) (lptr prev)) /\
      lptr pn <> aend s lrs /\
      (lrs = anc g -> (outward s (heap g (lptr prev)) = pn \/ lnk_lt g s (lptr prev) pn) /\
                      epoch g (lptr prev) = e)
  | S5 k s lrs prev pn e =>
      Jk g c pend l k /\ stab_ok g s lrs /\ (lrs = anc g -> second s c (aend s lrs) (lptr prev)) /\
      lptr pn <> aend s lrs /\ published g c pend (lptr prev) /\
      ((lrs = anc g /\ outward s (heap g (lptr prev)) = pn /\ epoch g (lptr prev) = e) \/
       lnk_lt g s (lptr prev) pn)
  | S6 k s lrs => Jk g c pend l k /\ stab_ok g s lrs /\ (lrs = anc g -> fixed g s c)
  end.

Definition kown (k : kont) : option addr := match k with KPush _ n => Some n | _ => None end.
Definition owns (p : dq_pc) : option addr :=
  match p with
  | PInit _ _ n | PLoad _ n | PStore _ n _ | PCas _ n _ _ => Some n
  | QFree _ a => Some a
  | S1 k _ _ | S2 k _ _ _ | S3 k _ _ _ | S4 k _ _ _ _ _ | S5 k _ _ _ _ _ | S6 k _ _ => kown k
  | _ => None
  end.

Record Core (g : dq_shared) (ls : locals dq_local) (c pend : list addr) : Prop := {
  co_ends : forall s, aend s (anc g) = @hd addr 0 (vw s c);
  co_shape : shape_ok g c;
  co_nodup : NoDup (c ++ pend);
  co_live : forall a, In a (c ++ pend) -> epoch g a = 1;
  co_alloc : forall a, epoch g a <> 0 -> 0 < a < fresh g;
  co_fresh : 0 < fresh g;
  co_fl : exists fl, flchain (heap g) (pool g) fl /\ NoDup fl /\
                     forall a, In a fl -> epoch g a <> 1 /\ 0 < a < fresh g;
  co_J : forall t, J g c pend (ls t);
  co_excl : forall t t' n, t <> t' -> owns (dpc (ls t)) = Some n -> owns (dpc (ls t')) = Some n -> False;
  co_pend : forall a, In a pend -> exists t s, dpc (ls t) = QFree s a }.

(* what a step does to the abstract state *)
Inductive label := LTau | LDoPush (s : side) (v : N) | LPopOk (s : side) (v : N) | LPopEmpty (s : side)
                 | LFree (s : side) (v : N).

Definition data_frame (g g' : dq_shared) (xs : list addr) : Prop :=
  forall x, In x xs -> ndata (heap g' x) = ndata (heap g x).

Definition Trans (t : nat) (g : dq_shared) (l : dq_local) (c pend : list addr) (lab : label)
                 (g' : dq_shared) (l' : dq_local) (c' pend' : list addr) : Prop :=
  data_frame g g' (c ++ pend) /\
  match lab with
  | LTau => c' = c /\ pend' = pend /\ dlog g' = dlog g /\ lin_event t g l = []
  | LDoPush s v => exists n, vw s c' = n :: vw s c /\ ndata (heap g' n) = v /\ pend' = pend /\
                 dlog g' = ev t (Push s v) None :: dlog g /\ lin_event t g l = [ev t (Push s v) None]
  | LPopOk s v => exists a, vw s c = a :: vw s c' /\ pend' = a :: pend /\ v = ndata (heap g a) /\
                  dlog g' = dlog g /\ lin_event t g l = [ev t (Pop s) (Some v)] /\ dpc l' = QFree s a
  | LPopEmpty s => c = [] /\ c' = [] /\ pend' = pend /\ dlog g' = ev t (Pop s) None :: dlog g /\
                   lin_event t g l = [ev t (Pop s) None]
  | LFree s v => exists a p1 p2, c' = c /\ pend = p1 ++ a :: p2 /\ pend' = p1 ++ p2 /\ dpc l = QFree s a /\
                 v = ndata (heap g a) /\ dlog g' = ev t (Pop s) (Some v) :: dlog g /\ lin_event t g l = []
  end /\
  match lab with
  | LPopOk _ _ => holds l = []
  | LFree _ _ => holds l' = []
  | _ => holds l = [] /\ holds l' = []
  end.
