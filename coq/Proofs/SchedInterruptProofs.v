(* Proofs/SchedInterruptProofs.v — C02: a wake-up issued INTO the window "registered as a waiter,
   internal lock released, state word still active" is not lost (thread::interrupt, or the
   facility's own notify, racing with the switch-off of the target).  Corollaries of the wake-up
   obligation invariant W1 (SchedWakeProofs / SchedRecycleProofs) and of the layering theorem
   (WeakAgentProofs); nothing about the model is re-proved here.

   What the model's set_thread_state does on an ACTIVE target (sub-step SLoad): it stages the
   retry helper HelperBody u prev — the `retry_on_active = true` branch, used by agent.resume()
   (every notify of a facility), by the exit callback of thread::join and by set_active_state
   itself.  threads::detail::interrupt_thread calls set_thread_state with retry_on_active =
   FALSE: that branch does not stage a helper, it re-reads the word (yield_k between the reads)
   until the target is no longer active and then goes on exactly as the other branch (tagged CAS,
   schedule_thread).  Sched.v has no separate program counter for it; it is covered as follows:
   re-reading an active word changes nothing, so a waker that is spinning is a waker that stays at
   SLoad u and is not scheduled while the word is active — the schedule of the model is arbitrary,
   so those runs are among the runs quantified over — and a waker at SLoad u / SCas u IS the
   first disjunct of `inflight` (wit_sub), i.e. it carries the obligation itself, with no helper.
   The one thing the spinning branch adds — it never terminates while the target stays active —
   is a liveness matter (the target's worker can always move: an active word is never part of a
   stuck configuration's obligation, see interrupt_wakeup_not_lost part 3).  The restart reason
   (abort instead of signaled) is not modelled: the word is (state, tag). *)
From Coq Require Import List NArith Bool Arith Lia.
From Pika Require Import Base.Conc Gen.GenEnums Model.Sched Model.WeakAgent Proofs.SchedProofs
  Proofs.SchedWakeProofs Proofs.SchedRecycleProofs Proofs.WeakAgentProofs.
Import ListNotations.

(* the waker's critical section (SIssue) executed while the registered target's word is still
   (active, p): the obligation needs_wake u p exists from then on, the word is untouched, and the
   waker goes on to read the word (SLoad) *)
Lemma window_issue_sub g u p :
  reg (tasks g u) = Some p -> tw_of g u = wA p ->
  snd (sub_step g (SIssue u)) = SLoad u /\
  needs_wake (fst (sub_step g (SIssue u))) u p /\
  tw_of (fst (sub_step g (SIssue u))) u = wA p /\
  ntasks (fst (sub_step g (SIssue u))) = ntasks g.
Proof.
  intros Hr Hw. cbn [sub_step]. rewrite Hr. cbn [fst snd].
  unfold needs_wake, tw_of, add_log, set_task. cbn [tasks ntasks].
  rewrite upd_same. cbn [wake tw]. unfold tw_of in Hw. rewrite Hw. auto.
Qed.

(* ... and if the waker reads the word while it is still (active, p) — the window — what it leaves
   behind is the retry helper for exactly that word: helper_for u (wA p) *)
Lemma window_load_sub g u p :
  u < ntasks g -> tw_of g u = wA p ->
  snd (sub_step g (SLoad u)) = SNone /\ helper_for (fst (sub_step g (SLoad u))) u (wA p) /\
  tw_of (fst (sub_step g (SLoad u))) u = wA p.
Proof.
  intros Hu Hw. cbn [sub_step]. apply Nat.ltb_lt in Hu. rewrite Hu, Hw. cbn [st wA fst snd].
  split; [reflexivity|]. split; [left; cbn; now left|]. exact Hw.
Qed.

Lemma step_sub_WRun o a g t orig s :
  s <> SNone -> tstep o a g (WRun t orig s) = (fst (sub_step g s), WRun t orig (snd (sub_step g s))).
Proof. intros Hs. destruct s; try congruence; cbn [tstep]; now destruct (sub_step g _). Qed.
Lemma step_sub_XRun o a g acts s :
  s <> SNone -> tstep o a g (XRun acts s) = (fst (sub_step g s), XRun acts (snd (sub_step g s))).
Proof. intros Hs. destruct s; try congruence; cbn [tstep]; now destruct (sub_step g _). Qed.

Lemma step_sub o a g l s :
  sub_of l = s -> s <> SNone ->
  fst (tstep o a g l) = fst (sub_step g s) /\ sub_of (snd (tstep o a g l)) = snd (sub_step g s).
Proof.
  intros E Hs. destruct l; cbn [sub_of] in E; subst; try congruence.
  - rewrite step_sub_WRun by exact Hs. now split.
  - rewrite step_sub_XRun by exact Hs. now split.
Qed.

Lemma sched_run_snoc sched ext a o :
  sched_run (sched ++ [(a, o)]) ext = step tstep (sched_run sched ext) (a, o).
Proof. unfold sched_run. now rewrite run_app. Qed.

Lemma step_fst_snd (c : G * (nat -> pc)) a o :
  fst (step tstep c (a, o)) = fst (tstep o a (fst c) (snd c a)) /\
  snd (step tstep c (a, o)) a = snd (tstep o a (fst c) (snd c a)).
Proof.
  unfold step, locals. destruct (tstep o a (fst c) (snd c a)) as [g' l']. cbn [fst snd]. now rewrite upd_same.
Qed.

(* the explicit window shape of the lost pattern: the task registered, the resume / interrupt was
   issued BEFORE the store that published `suspended` (Res before Susp), and nothing ended the
   suspension afterwards *)
Lemma window_shape_is_lost_pattern p1 p2 p3 p4 :
  no_end (p2 ++ p3 ++ p4) -> lost_pattern (p1 ++ KReg :: p2 ++ KRes :: p3 ++ KSusp :: p4).
Proof.
  intros Hn. exists p1, p2, (p3 ++ KSusp :: p4). split; [reflexivity|]. split.
  - intros k Hk. rewrite !in_app_iff in Hk. cbn [In] in Hk.
    destruct Hk as [Hk|[Hk|[Hk|Hk]]].
    + apply Hn. rewrite !in_app_iff. auto.
    + apply Hn. rewrite !in_app_iff. auto.
    + subst k. reflexivity.
    + apply Hn. rewrite !in_app_iff. auto.
  - rewrite !in_app_iff. right. right. now left.
Qed.

Theorem interrupt_wakeup_not_lost sched ext :
  let c := sched_run sched ext in
  (* 1. the wake-up is issued inside the window: thread a (a task phase or an OS thread) is at
        the waker's critical section for u, u registered in the phase with tag p and its word is
        still (active, p).  After a's step the obligation exists, the word is unchanged, and a is
        inside set_thread_state(u) *)
  (forall a o u p, sub_of (snd c a) = SIssue u -> reg (tasks (fst c) u) = Some p -> tw_of (fst c) u = wA p ->
     let c' := sched_run (sched ++ [(a, o)]) ext in
     needs_wake (fst c') u p /\ tw_of (fst c') u = wA p /\ sub_of (snd c' a) = SLoad u /\
     inflight (fst c') (snd c') u p) /\
  (* 1'. ... and if a then reads the word while it is still (active, p), it leaves the retry helper
        for (u, (active, p)) *)
  (forall a o u p, sub_of (snd c a) = SLoad u -> u < ntasks (fst c) -> tw_of (fst c) u = wA p ->
     let c' := sched_run (sched ++ [(a, o)]) ext in
     helper_for (fst c') u (wA p) /\ tw_of (fst c') u = wA p /\ sub_of (snd c' a) = SNone) /\
  (* 2. in every reachable configuration an outstanding obligation — the word is still (active, p):
        the window, or already (suspended, p+1) — is carried by somebody: an agent inside
        set_thread_state(u) before its CAS (the spinning interrupt_thread, or any waker between
        load and CAS), or a retry helper for (u, (active, p)) that is staged, pending or active *)
  (forall u p, u < ntasks (fst c) -> needs_wake (fst c) u p -> inflight (fst c) (snd c) u p) /\
  (* 3. hence, when nothing can move any more and the pool has a worker: no obligation is
        outstanding, and no task incarnation's events have the window shape Reg .. Res .. Susp ..
        without a Wake (or another phase end) after it *)
  (forall w, ext w = None -> stuck c ->
     (forall u p, u < ntasks (fst c) -> wake (tasks (fst c) u) = Some p ->
        tw_of (fst c) u <> wS (p + 1) /\ tw_of (fst c) u <> wA p) /\
     (forall i p1 p2 p3 p4,
        wa_proj i (sched_trace sched ext) = p1 ++ KReg :: p2 ++ KRes :: p3 ++ KSusp :: p4 ->
        ~ no_end (p2 ++ p3 ++ p4))).
Proof.
  intros c. split; [|split; [|split]].
  - intros a o u p Hs Hr Hw c'. unfold c'. rewrite sched_run_snoc. fold c.
    destruct (step_fst_snd c a o) as [E1 E2]. unfold locals in E1, E2. rewrite E1, E2.
    destruct (step_sub o a (fst c) (snd c a) (SIssue u) Hs ltac:(discriminate)) as [F1 F2].
    rewrite F1, F2.
    destruct (window_issue_sub (fst c) u p Hr Hw) as (A & B & C & _).
    split; [exact B|]. split; [exact C|]. split; [exact A|].
    left. exists a. rewrite E2, F2, A. reflexivity.
  - intros a o u p Hs Hu Hw c'. unfold c'. rewrite sched_run_snoc. fold c.
    destruct (step_fst_snd c a o) as [E1 E2]. unfold locals in E1, E2. rewrite E1, E2.
    destruct (step_sub o a (fst c) (snd c a) (SLoad u) Hs ltac:(discriminate)) as [F1 F2].
    rewrite F1, F2.
    destruct (window_load_sub (fst c) u p Hu Hw) as (A & B & C). auto.
  - destruct (WInv_reach sched ext) as [HW _]. exact HW.
  - intros w Hw Hst. split.
    + exact (no_lost_wakeup sched ext w Hw Hst).
    + intros i p1 p2 p3 p4 E Hn.
      destruct (sched_no_lost_resume sched ext w Hw Hst) as [_ Hl].
      apply (Hl i). rewrite E. now apply window_shape_is_lost_pattern.
Qed.
