(* Proofs/StopCtorProofs.v — C14, "immediately in the constructor if it already was":
   a stop_callback whose construction starts on a state with stop already requested is invoked
   exactly once, inside its constructor (before the constructor returns, on the constructing
   thread), is never linked into callbacks_ and never registered.  Suffix invariant over
   Model/StopState.v on top of Inv2 (Proofs/StopCallbacksProofs.v). *)
From Coq Require Import List NArith Bool Arith Lia.
From Pika Require Import Base.Conc Gen.GenStopBits Model.StopWord Model.StopState
  Proofs.StopFlagsProofs Proofs.StopStateProofs Proofs.StopCallbacksAbs Proofs.StopCallbacksProofs
  Proofs.StopProgressStep Proofs.StopProgressProofs.
Import ListNotations.

(* one-step summary of everything that concerns one callback k *)
Lemma S9 P o t g l0 k :
  On (fun g' l' =>
    (cb_queued (cb g' k) = true -> cb_queued (cb g k) = true \/ exists old, pc (norm l0) = ACas k old) /\
    (cb_deq (cb g' k) = true -> cb_deq (cb g k) = true \/ In k (cbs g)) /\
    (cb_reg (cb g' k) = true -> cb_reg (cb g k) = true \/ pc (norm l0) = AUnlock k) /\
    (cb_ctor (cb g' k) = cb_ctor (cb g k) \/ (cb_ctor (cb g k) = 0 /\ cb_ctor (cb g' k) = 1 /\ cb_reg (cb g' k) = false) \/
     pc (norm l0) = AUnlock k \/ (pc (norm l0) = ARelease k /\ cb_ctor (cb g' k) = 2)) /\
    ((cb_runs (cb g' k) = cb_runs (cb g k) /\ cb_inctor (cb g' k) = cb_inctor (cb g k)) \/
     (pc (norm l0) = ABegin k /\ cb_runs (cb g' k) = S (cb_runs (cb g k)) /\ cb_inctor (cb g' k) = true) \/
     (pc (norm l0) = QBegin k /\ cb_runs (cb g' k) = S (cb_runs (cb g k)) /\ cb_inctor (cb g' k) = false)) /\
    (cb_cthr (cb g' k) = cb_cthr (cb g k) \/ cb_ctor (cb g k) = 0) /\
    (forall c, (exists old, pc l' = ACas c old) \/ pc l' = ASpin c -> w_stop_requested (word g) = false) /\
    (forall c, pc l' = AUnlock c -> exists old, pc (norm l0) = ACas c old) /\
    (forall c, pc l' = ARelease c ->
       pc (norm l0) = AEnd c \/ pc (norm l0) = ARelease c \/ w_stop_requested (word g) = false) /\
    (log g' = log g \/ exists e, log g' = e :: log g /\ forall tt b, e = EvRun k tt b ->
       tt = t /\ cb_runs (cb g' k) = S (cb_runs (cb g k)) /\ ((pc (norm l0) = ABegin k /\ b = true) \/ (pc (norm l0) = QBegin k /\ b = false))))
  (st_tstep P o t g l0).
Proof.
  start l0 l Epc; prep.
  all: try match goal with removed : bool |- _ => destruct removed end.
  all: repeat split; try intros cx; intros; rewrite ?Epc in *; proj; try discriminate.
  all: try solve [fin3].
  all: try solve [updc; cbf; fin3].
  all: try solve [updc; cbf; try fin3; try (right; eexists; reflexivity); try (eexists; reflexivity)].
  all: try solve [match goal with H : _ \/ _ |- _ => destruct H as [[? H]|H]; discriminate H end].
  all: try solve [match goal with H : _ = _ |- _ => injection H; intros; subst; eexists; reflexivity end].
  all: try solve [right; eexists; split; [reflexivity|]; intros tt b Hb;
                  first [discriminate Hb | injection Hb; intros; subst; split; [reflexivity|updc; cbf; fin3]]].
  all: updc; cbf; first [right; now left | now left].
Qed.

(* ---------------- the suffix invariant ---------------- *)
Definition RL (k : nat) (g : shared) (l : local) : Prop :=
  match pc l with
  | ACas c _ | ASpin c | AUnlock c => c <> k
  | ARelease c => c = k -> cb_runs (cb g k) = 1
  | _ => True
  end.

Definition LG (g : shared) : Prop :=
  forall c t b, In (EvRun c t b) (log g) -> 1 <= cb_runs (cb g c).

Definition RK (k : nat) (g : shared) (ls : nat -> local) : Prop :=
  w_stop_requested (word g) = true /\ cb_queued (cb g k) = false /\ cb_deq (cb g k) = false /\
  (1 <= cb_ctor (cb g k) -> cb_reg (cb g k) = false) /\
  (cb_ctor (cb g k) = 0 -> cb_runs (cb g k) = 0) /\
  (cb_runs (cb g k) = 1 -> cb_inctor (cb g k) = true) /\
  (cb_ctor (cb g k) = 2 -> cb_runs (cb g k) = 1) /\
  (forall t b, In (EvRun k t b) (log g) ->
     1 <= cb_runs (cb g k) /\ b = true /\ cb_cthr (cb g k) = Some t) /\
  forall t, RL k g (ls t).

Lemma RL_norm k g l : RL k g l -> RL k g (norm l).
Proof.
  destruct (norm_cases l) as [->|(E & c & [H|H] & _)]; [auto| |]; unfold RL; rewrite H; intros _; exact I.
Qed.

Lemma LG_step P o t g l0 : LG g -> LG (fst (st_tstep P o t g l0)).
Proof.
  intros H c tt b Hin. pose proof (S9 P o t g l0 c) as F. unfold On in F.
  destruct F as (_ & _ & _ & _ & F5 & _ & _ & _ & _ & F10).
  destruct F10 as [E|(e & E & He)]; rewrite E in Hin.
  - specialize (H c tt b Hin). destruct F5 as [[A _]|[(_ & A & _)|(_ & A & _)]]; lia.
  - destruct Hin as [Hin|Hin].
    + destruct (He tt b Hin) as (_ & A & _). lia.
    + specialize (H c tt b Hin). destruct F5 as [[A _]|[(_ & A & _)|(_ & A & _)]]; lia.
Qed.

Definition Inv4 (P : params) (k : nat) (g : shared) (ls : nat -> local) : Prop :=
  Inv2 P g ls /\ RK k g ls.

Theorem RK_step P o t g ls k : ids_faithful P -> Inv4 P k g ls ->
  Inv4 P k (fst (st_tstep P o t g (ls t))) (upd ls t (snd (st_tstep P o t g (ls t)))).
Proof.
  intros Hid [H2 HK]. pose proof (step_inv2 P o t g ls Hid H2) as H2'. split; [exact H2'|].
  destruct H2 as (HI & HG2 & HL2). destruct H2' as (HI' & HG2' & _).
  destruct HK as (K1 & K2 & K3 & K4 & K5 & K6 & K7 & K8 & K9).
  pose proof (S9 P o t g (ls t) k) as F. unfold On in F.
  pose proof (winner_mono P o t g (ls t)) as Hwm.
  destruct (LI2_norm g t (ls t) (HL2 t)) as (HA & _).
  pose proof (RL_norm k g (ls t) (K9 t)) as HRt.
  set (g' := fst (st_tstep P o t g (ls t))) in *. set (l' := snd (st_tstep P o t g (ls t))) in *.
  clearbody g' l'. set (l := norm (ls t)) in *.
  destruct F as (F1 & F2 & F3 & F4 & F5 & F6 & F7 & F8 & F9 & F10).
  destruct HI as [(_ & _ & Hrq & _) _]. destruct HI' as [(_ & _ & Hrq' & _) _].
  pose proof HG2 as (_ & HQ & _ & _ & _ & _ & _ & HC).
  pose proof HG2' as (_ & _ & _ & _ & _ & _ & _ & HC').
  assert (R1 : cb_runs (cb g' k) <= 1) by apply (HC' k).
  (* the runs counter of k: unchanged, or incremented by the constructing thread at ABegin k *)
  assert (NQ : pc l <> QBegin k).
  { intros E. rewrite E in HA. cbn [PCA] in HA. destruct HA as (X & _). congruence. }
  assert (Q1 : cb_queued (cb g' k) = false).
  { destruct (cb_queued (cb g' k)) eqn:E; [|reflexivity]. destruct (F1 eq_refl) as [X|[old X]]; [congruence|].
    unfold RL in HRt. rewrite X in HRt. now elim HRt. }
  assert (Q2 : cb_deq (cb g' k) = false).
  { destruct (cb_deq (cb g' k)) eqn:E; [|reflexivity]. destruct (F2 eq_refl) as [X|X]; [congruence|].
    apply HQ in X. congruence. }
  assert (NU : pc l <> AUnlock k).
  { intros X. unfold RL in HRt. rewrite X in HRt. now elim HRt. }
  assert (Q3 : 1 <= cb_ctor (cb g' k) -> cb_reg (cb g' k) = false).
  { intros C1. destruct (cb_reg (cb g' k)) eqn:E; [|reflexivity]. destruct (F3 eq_refl) as [X|X]; [|congruence].
    destruct F4 as [Y|[(_ & _ & Y)|[Y|(Y & _)]]]; try congruence.
    - rewrite K4 in X; [discriminate|lia].
    - rewrite Y in HA. cbn [PCA] in HA. destruct HA as (Z & _). rewrite K4 in X; [discriminate|lia]. }
  unfold RK. refine (conj _ (conj Q1 (conj Q2 (conj Q3 (conj _ (conj _ (conj _ (conj _ _)))))))).
  - rewrite Hrq'. apply Hwm. now rewrite <- Hrq.
  - intros C0. destruct F4 as [X|[(_ & X & _)|[X|(_ & X)]]]; try congruence.
    rewrite X in C0. specialize (K5 C0).
    destruct F5 as [[A _]|[(A & _)|(A & _)]]; [congruence| |congruence].
    rewrite A in HA. cbn [PCA] in HA. destruct HA as (Y & _). congruence.
  - intros R. destruct F5 as [[A B]|[(_ & _ & B)|(A & _)]]; [|exact B|congruence].
    rewrite B. apply K6. congruence.
  - intros C2. destruct F5 as [[A B]|[(A & B & _)|(A & _)]]; [| |congruence].
    + rewrite A. destruct F4 as [X|[(_ & X & _)|[X|(X & _)]]]; try congruence.
      * apply K7. congruence.
      * unfold RL in HRt. rewrite X in HRt. now apply HRt.
    + exfalso. rewrite A in HA. cbn [PCA] in HA. destruct HA as (Y & _).
      destruct F4 as [X|[(X & _)|[X|(X & _)]]]; congruence.
  - (* the log *)
    intros tt b Hin.
    assert (Hmon : 1 <= cb_runs (cb g k) -> 1 <= cb_runs (cb g' k)).
    { destruct F5 as [[A _]|[(_ & A & _)|(_ & A & _)]]; lia. }
    assert (Hold : In (EvRun k tt b) (log g) ->
                   1 <= cb_runs (cb g' k) /\ b = true /\ cb_cthr (cb g' k) = Some tt).
    { intros Ho. destruct (K8 tt b Ho) as (X & Y & Z). repeat split; auto.
      destruct F6 as [W|W]; [congruence|]. specialize (K5 W). lia. }
    destruct F10 as [E|(e & E & He)]; rewrite E in Hin; [now apply Hold|].
    destruct Hin as [Hin|Hin]; [|now apply Hold].
    destruct (He tt b Hin) as (-> & A & [[B ->]|[B _]]); [|congruence].
    rewrite B in HA. cbn [PCA] in HA. destruct HA as (Y1 & Y2 & _).
    repeat split; [lia|]. destruct F6 as [W|W]; congruence.
  - (* thread-local part *)
    intros x. unfold upd. destruct (Nat.eqb_spec x t) as [->|Hne].
    + unfold RL. destruct (pc l') eqn:Ep; try exact I.
      * rewrite (F7 c) in K1; [discriminate|left; eauto].
      * rewrite (F7 c) in K1; [discriminate|now right].
      * destruct (F8 c eq_refl) as [old X]. unfold RL in HRt. rewrite X in HRt. exact HRt.
      * intros ->. destruct (F9 k eq_refl) as [X|[X|X]]; [| |congruence].
        -- rewrite X in HA. cbn [PCA] in HA. destruct HA as (_ & _ & Y & _).
           destruct F5 as [[A _]|[(A & _)|(A & _)]]; congruence.
        -- unfold RL in HRt. rewrite X in HRt. specialize (HRt eq_refl).
           destruct F5 as [[A _]|[(A & _)|(A & _)]]; congruence.
    + specialize (K9 x). unfold RL in *. destruct (pc (ls x)); try exact I; try assumption.
      intros ->. specialize (K9 eq_refl).
      destruct F5 as [[A _]|[(A & _)|(A & _)]]; [congruence| |congruence].
      rewrite A in HA. cbn [PCA] in HA. destruct HA as (_ & _ & Y & _). congruence.
Qed.

Lemma run_LG P sched w0 progs srcs : LG (fst (st_run P sched w0 progs srcs)).
Proof.
  unfold st_run. apply (run_ginv _ _ _ (st_tstep P) LG).
  - intros o t g l H. now apply LG_step.
  - intros c t b [].
Qed.

(* a callback whose constructor starts after stop was requested *)
Theorem callback_runs_in_ctor_if_requested P s1 s2 w0 progs srcs k : ids_faithful P -> good_init w0 ->
  let g1 := fst (st_run P s1 w0 progs srcs) in
  let g2 := fst (st_run P (s1 ++ s2) w0 progs srcs) in
  w_stop_requested (word g1) = true -> cb_ctor (cb g1 k) = 0 ->
  cb_queued (cb g2 k) = false /\ ~ In k (cbs g2) /\ cb_deq (cb g2 k) = false /\
  (1 <= cb_ctor (cb g2 k) -> cb_reg (cb g2 k) = false) /\
  cb_runs (cb g2 k) <= 1 /\
  (cb_ctor (cb g2 k) = 2 -> cb_runs (cb g2 k) = 1 /\ cb_inctor (cb g2 k) = true) /\
  (forall t b, In (EvRun k t b) (log g2) -> b = true /\ cb_cthr (cb g2 k) = Some t).
Proof.
  intros Hid Hw. cbv zeta. intros Hreq Hc0. unfold st_run in *. rewrite run_app.
  set (c1 := run (st_tstep P) s1 (st_init w0, st_locals progs srcs)) in *.
  assert (I1 : Inv2 P (fst c1) (snd c1)) by (apply (run_Inv2 P s1 w0 progs srcs Hid Hw)).
  assert (L1 : LG (fst c1)) by (apply (run_LG P s1 w0 progs srcs)).
  assert (K : Inv4 P k (fst (run (st_tstep P) s2 c1)) (snd (run (st_tstep P) s2 c1))).
  { apply (run_inv _ _ _ (st_tstep P) (Inv4 P k)).
    - intros o t g ls H. now apply RK_step.
    - split; [exact I1|]. destruct I1 as (_ & HG2 & HL2).
      destruct HG2 as (_ & _ & _ & _ & _ & _ & _ & HC).
      destruct (HC k) as (_ & _ & _ & _ & _ & _ & _ & _ & _ & C11). cbv zeta in C11.
      destruct (C11 Hc0) as (R0 & Q0 & D0).
      unfold RK. refine (conj Hreq (conj Q0 (conj D0 (conj _ (conj _ (conj _ (conj _ (conj _ _)))))))).
      + intros; lia.
      + intros _. exact R0.
      + intros; congruence.
      + intros; congruence.
      + intros t b Hin. specialize (L1 k t b Hin). lia.
      + intros t. destruct (HL2 t) as (HA & _). unfold RL.
        destruct (pc (snd c1 t)); try exact I; cbn [PCA] in HA; intros E; try subst c;
          unfold A1, A2, A4 in HA; intuition congruence. }
  destruct K as [(_ & HG2 & _) (K1 & K2 & K3 & K4 & K5 & K6 & K7 & K8 & K9)].
  destruct HG2 as (_ & HQ & _ & _ & _ & _ & _ & HC).
  repeat split; try assumption.
  - rewrite HQ. congruence.
  - apply (HC k).
  - now apply K7.
  - apply K6. now apply K7.
  - now destruct (K8 t b H).
  - now destruct (K8 t b H).
Qed.
