(* Proofs/DequeProofs.v — lemmas about Model/Deque.v.
   Part A: equality tests, heap updates.
   Part B: facts that hold for EVERY schedule and thread count (anchor tag = number of
           successful anchor CASes; anchor equal to a snapshot => unchanged in between;
           where pops are logged).
   Part C: the F15 witness (vm_compute on a concrete schedule).
   Part D: single-threaded refinement of the two-ended list (unbounded induction). *)
From Coq Require Import List NArith Bool Lia Arith Permutation.
From Pika Require Import Base.Conc Model.IndexQueue Model.DequeSpec Model.Deque Model.DequeWitness.
Import ListNotations.
Local Open Scope N_scope.

(* ------------------------------------------------------------------ Part A *)
Lemma status_eqb_eq a b : status_eqb a b = true <-> a = b.
Proof. destruct a, b; cbn; split; intros H; try reflexivity; discriminate. Qed.

Lemma anchor_eqb_eq a b : anchor_eqb a b = true <-> a = b.
Proof.
  destruct a as [l1 r1 s1 t1], b as [l2 r2 s2 t2]. unfold anchor_eqb. cbn [al ar ast atag].
  rewrite !andb_true_iff, !N.eqb_eq, status_eqb_eq. split.
  - intros [[[-> ->] ->] ->]. reflexivity.
  - intros H. inversion H. auto.
Qed.

Lemma anchor_eqb_refl a : anchor_eqb a a = true.
Proof. now apply anchor_eqb_eq. Qed.

Lemma link_eqb_refl a : link_eqb a a = true.
Proof. unfold link_eqb. now rewrite !N.eqb_refl. Qed.

Lemma hupd_same h a nd : hupd h a nd a = nd.
Proof. unfold hupd. now rewrite N.eqb_refl. Qed.

Lemma hupd_other h a nd x : x <> a -> hupd h a nd x = h x.
Proof. unfold hupd. intros H. apply N.eqb_neq in H. now rewrite H. Qed.

(* ------------------------------------------------------------------ Part B *)
(* one step either leaves the anchor and the CAS counter alone, or it is a successful anchor
   CAS: the tag grows by exactly one and so does the counter *)
Definition anchor_step (g g' : dq_shared) : Prop :=
  (anc g' = anc g /\ ncas g' = ncas g) \/
  (atag (anc g') = atag (anc g) + 1 /\ ncas g' = ncas g + 1).

Lemma resume_g g l k : fst (resume g l k) = g.
Proof. destruct k; reflexivity. Qed.

Lemma fl_alloc_anc g : anc (fst (fl_alloc g)) = anc g /\ ncas (fst (fl_alloc g)) = ncas g.
Proof. unfold fl_alloc. destruct (pool g =? 0); cbn; auto. Qed.

Lemma pop_load_anc g t l s : anc (fst (pop_load g t l s)) = anc g /\ ncas (fst (pop_load g t l s)) = ncas g.
Proof.
  unfold pop_load. destruct (aend s (anc g) =? 0); [cbn; auto|].
  destruct (al (anc g) =? ar (anc g)); [cbn; auto|]. destruct (ast (anc g)); cbn; auto.
Qed.

Lemma push_load_anc g l s n : fst (push_load g l s n) = g.
Proof.
  unfold push_load. destruct (aend s (anc g) =? 0); [reflexivity|]. destruct (ast (anc g)); reflexivity.
Qed.

Lemma tstep_anchor_step o t g l : anchor_step g (fst (dq_tstep o t g l)).
Proof.
  unfold dq_tstep, anchor_step.
  destruct (dpc l) as [| |s v n|s n|s n lrs|s n lrs emp|s|s lrs|s lrs|s lrs np|s a
                       |k s lrs|k s lrs prev|k s lrs prev|k s lrs prev pn e|k s lrs prev pn e|k s lrs].
  - destruct (dtodo l) as [|[s v|s] rest]; cbn [fst]; auto.
    + destruct (fl_alloc g) as [g' a] eqn:E. cbn [fst].
      pose proof (fl_alloc_anc g) as H. rewrite E in H. cbn [fst] in H. left. exact H.
    + left. apply pop_load_anc.
  - cbn; auto.
  - cbn; auto.
  - rewrite push_load_anc. auto.
  - cbn; auto.
  - destruct (anchor_eqb (anc g) lrs) eqn:E; [|cbn; auto]. apply anchor_eqb_eq in E. subst lrs.
    destruct emp; cbn; right; [auto|]. destruct s; cbn; auto.
  - left. apply pop_load_anc.
  - destruct (anchor_eqb (anc g) lrs); cbn; auto.
  - cbn; auto.
  - destruct (anchor_eqb (anc g) lrs) eqn:E; [|cbn; auto]. apply anchor_eqb_eq in E. subst lrs.
    right. destruct np as [p|]; [destruct s|]; cbn; auto.
  - cbn; auto.
  - destruct (aend s lrs =? 0); cbn; auto.
  - destruct (anchor_eqb (anc g) lrs); [cbn; auto|]. rewrite resume_g. auto.
  - destruct (lptr prev =? 0); [cbn; auto|].
    destruct (lptr (outward s (heap g (lptr prev))) =? aend s lrs); cbn; auto.
  - destruct (anchor_eqb (anc g) lrs); [cbn; auto|]. rewrite resume_g. auto.
  - destruct (link_eqb (outward s (heap g (lptr prev))) pn); [cbn; auto|]. rewrite resume_g. auto.
  - destruct (anchor_eqb (anc g) lrs) eqn:E; rewrite resume_g; [|auto].
    apply anchor_eqb_eq in E. subst lrs. right. cbn. auto.
Qed.

(* for every schedule: the anchor tag counts the successful anchor CASes *)
Lemma run_tag_counts sched (c : dq_shared * locals dq_local) :
  atag (anc (fst c)) = ncas (fst c) ->
  atag (anc (fst (run dq_tstep sched c))) = ncas (fst (run dq_tstep sched c)).
Proof.
  apply (run_ginv _ _ _ dq_tstep (fun g => atag (anc g) = ncas g)).
  intros o t g l H. destruct (tstep_anchor_step o t g l) as [[Ha Hn]|[Ha Hn]]; rewrite ?Ha, Hn; lia.
Qed.

Lemma step_anchor_step (c : dq_shared * locals dq_local) so : anchor_step (fst c) (fst (step dq_tstep c so)).
Proof.
  destruct c as [g ls], so as [t o]. cbn [step fst snd].
  pose proof (tstep_anchor_step o t g (ls t)) as H.
  destruct (dq_tstep o t g (ls t)) as [g' l']. exact H.
Qed.

Lemma run_tag_mono sched (c : dq_shared * locals dq_local) :
  atag (anc (fst c)) <= atag (anc (fst (run dq_tstep sched c))).
Proof.
  revert c. induction sched as [|so s IH]; intros c; [cbn; lia|].
  rewrite run_cons. specialize (IH (step dq_tstep c so)).
  destruct (step_anchor_step c so) as [[Ha _]|[Ha _]]; rewrite Ha in IH; lia.
Qed.

(* tags never repeat: the same tag means the same anchor value, untouched in between *)
Lemma run_tag_eq_anchor_eq sched (c : dq_shared * locals dq_local) :
  atag (anc (fst (run dq_tstep sched c))) = atag (anc (fst c)) ->
  anc (fst (run dq_tstep sched c)) = anc (fst c) /\ ncas (fst (run dq_tstep sched c)) = ncas (fst c).
Proof.
  revert c. induction sched as [|so s IH]; intros c H; [cbn; auto|].
  rewrite run_cons in *. pose proof (run_tag_mono s (step dq_tstep c so)) as M.
  destruct (step_anchor_step c so) as [[Ha Hn]|[Ha Hn]].
  - rewrite <- Ha, <- Hn. apply IH. rewrite Ha. exact H.
  - exfalso. rewrite H, Ha in M. lia.
Qed.

(* "anchor_ == lrs" after the snapshot lrs was loaded implies that no anchor CAS succeeded in
   between, at any intermediate point of any schedule *)
Lemma run_anchor_unchanged_between s1 s2 (c : dq_shared * locals dq_local) :
  anc (fst (run dq_tstep (s1 ++ s2) c)) = anc (fst c) ->
  anc (fst (run dq_tstep s1 c)) = anc (fst c) /\ ncas (fst (run dq_tstep s1 c)) = ncas (fst c).
Proof.
  intros H. apply run_tag_eq_anchor_eq. rewrite run_app in H.
  pose proof (run_tag_mono s1 c) as M1. pose proof (run_tag_mono s2 (run dq_tstep s1 c)) as M2.
  rewrite H in M2. lia.
Qed.

(* a value is reported as popped only by a thread standing at FREE, it is the data of the node
   it holds, and a thread gets to FREE only through its own successful anchor CAS *)
Lemma pop_logged_only_at_free o t g l e :
  dlog (fst (dq_tstep o t g l)) = e :: dlog g -> forall s v, dv_op e = Pop s -> dv_res e = Some v ->
  dv_tid e = t /\ exists a, dpc l = QFree s a /\ v = ndata (heap g a).
Proof.
  intros H s v Hop Hres. unfold dq_tstep in H.
  assert (NE : forall (x : dq_ev) lg, lg = x :: lg -> False).
  { intros x lg E. apply (f_equal (@length _)) in E. cbn in E. lia. }
  assert (PL : forall s', dlog (fst (pop_load g t l s')) = e :: dlog g -> False).
  { intros s'. unfold pop_load. destruct (aend s' (anc g) =? 0).
    - cbn. intros E. inversion E as [E1]. subst e. cbn in Hres. discriminate.
    - destruct (al (anc g) =? ar (anc g)); [cbn; apply NE|]. destruct (ast (anc g)); cbn; apply NE. }
  destruct (dpc l) as [| |s0 v0 n|s0 n|s0 n lrs|s0 n lrs emp|s0|s0 lrs|s0 lrs|s0 lrs np|s0 a
                       |k s0 lrs|k s0 lrs prev|k s0 lrs prev|k s0 lrs prev pn e0|k s0 lrs prev pn e0|k s0 lrs].
  - destruct (dtodo l) as [|[s1 v1|s1] rest]; cbn [fst] in H.
    + exfalso; eapply NE; eauto.
    + exfalso. unfold fl_alloc in H. destruct (pool g =? 0); cbn in H; eapply NE; eauto.
    + exfalso; eapply PL; eauto.
  - exfalso; eapply NE; eauto.
  - exfalso; eapply NE; eauto.
  - exfalso. rewrite push_load_anc in H. eapply NE; eauto.
  - exfalso; eapply NE; eauto.
  - exfalso. destruct (anchor_eqb (anc g) lrs); [|eapply NE; eauto].
    destruct emp; cbn in H; inversion H as [E1]; subst e; cbn in Hres; discriminate.
  - exfalso; eapply PL; eauto.
  - exfalso. destruct (anchor_eqb (anc g) lrs); eapply NE; eauto.
  - exfalso; eapply NE; eauto.
  - exfalso. destruct (anchor_eqb (anc g) lrs); cbn in H; eapply NE; eauto.
  - cbn in H. inversion H as [E1]. subst e. cbn in *. inversion Hop; inversion Hres; subst.
    split; [reflexivity|]. eexists; split; reflexivity.
  - exfalso. destruct (aend s0 lrs =? 0); eapply NE; eauto.
  - exfalso. destruct (anchor_eqb (anc g) lrs); [|rewrite resume_g in H]; eapply NE; eauto.
  - exfalso. destruct (lptr prev =? 0); [eapply NE; eauto|].
    destruct (lptr (outward s0 (heap g (lptr prev))) =? aend s0 lrs); eapply NE; eauto.
  - exfalso. destruct (anchor_eqb (anc g) lrs); [|rewrite resume_g in H]; eapply NE; eauto.
  - exfalso. destruct (link_eqb (outward s0 (heap g (lptr prev))) pn); [cbn in H|rewrite resume_g in H]; eapply NE; eauto.
  - exfalso. destruct (anchor_eqb (anc g) lrs); rewrite resume_g in H; cbn in H; eapply NE; eauto.
Qed.

Lemma resume_not_free g l k s a : dpc (snd (resume g l k)) <> QFree s a.
Proof. destruct k; cbn; discriminate. Qed.

Lemma free_entered_only_by_cas o t g l s a :
  dpc (snd (dq_tstep o t g l)) = QFree s a ->
  dpc l = QFree s a \/
  exists lrs np, dpc l = QCas s lrs np /\ anc g = lrs /\ a = aend s lrs /\
                 anc (fst (dq_tstep o t g l)) = pop_desired s lrs np /\
                 atag (anc (fst (dq_tstep o t g l))) = atag (anc g) + 1.
Proof.
  unfold dq_tstep.
  assert (PL : forall s', dpc (snd (pop_load g t l s')) = QFree s a -> False).
  { intros s'. unfold pop_load. destruct (aend s' (anc g) =? 0); [cbn; discriminate|].
    destruct (al (anc g) =? ar (anc g)); [cbn; discriminate|]. destruct (ast (anc g)); cbn; discriminate. }
  destruct (dpc l) as [| |s0 v0 n|s0 n|s0 n lrs|s0 n lrs emp|s0|s0 lrs|s0 lrs|s0 lrs np|s0 a0
                       |k s0 lrs|k s0 lrs prev|k s0 lrs prev|k s0 lrs prev pn e0|k s0 lrs prev pn e0|k s0 lrs] eqn:PC;
    intros H.
  - destruct (dtodo l) as [|[s1 v1|s1] rest]; cbn in H.
    + rewrite PC in H. discriminate.
    + destruct (fl_alloc g). cbn in H. discriminate.
    + exfalso; eapply PL; eauto.
  - cbn in H. rewrite PC in H. discriminate.
  - cbn in H. discriminate.
  - exfalso. unfold push_load in H. destruct (aend s0 (anc g) =? 0); [cbn in H; discriminate|].
    destruct (ast (anc g)); cbn in H; discriminate.
  - cbn in H; discriminate.
  - destruct (anchor_eqb (anc g) lrs); [destruct emp|]; cbn in H; discriminate.
  - exfalso; eapply PL; eauto.
  - destruct (anchor_eqb (anc g) lrs); cbn in H; discriminate.
  - cbn in H; discriminate.
  - destruct (anchor_eqb (anc g) lrs) eqn:E; cbn in H; [|discriminate].
    apply anchor_eqb_eq in E. inversion H; subst. right. exists (anc g), np. cbn [fst].
    repeat split. destruct np as [p|]; [destruct s|]; reflexivity.
  - cbn in H. discriminate.
  - destruct (aend s0 lrs =? 0); cbn in H; discriminate.
  - destruct (anchor_eqb (anc g) lrs); [cbn in H; discriminate|]. exfalso; eapply resume_not_free; eauto.
  - destruct (lptr prev =? 0); [cbn in H; discriminate|].
    destruct (lptr (outward s0 (heap g (lptr prev))) =? aend s0 lrs); cbn in H; discriminate.
  - destruct (anchor_eqb (anc g) lrs); [cbn in H; discriminate|]. exfalso; eapply resume_not_free; eauto.
  - destruct (link_eqb (outward s0 (heap g (lptr prev))) pn); [cbn in H; discriminate|]. exfalso; eapply resume_not_free; eauto.
  - destruct (anchor_eqb (anc g) lrs); exfalso; eapply resume_not_free; eauto.
Qed.

(* ------------------------------------------------------------------ Part C: the former F15 witness *)
(* the complete witness schedule: thread 2 prepares the contents alone, threads 0 and 1 run
   [aba_sched], thread 3 drains alone *)
Definition aba_full_sched : list (nat * unit) :=
  solo 2 60 ++ map (fun t => (t, tt)) aba_sched ++ solo 3 60.

Definition count_occ_N (x : N) (l : list N) : nat := length (filter (N.eqb x) l).

(* On the repaired code (link tags continue across reuse) the former F15 schedule is harmless:
   A's stalled link CAS FAILS against the re-created node, every thread finishes, the drain
   gets 100,5,6 and then "empty", 4 and 6 are each delivered exactly once. *)
Lemma aba_witness_immune :
  let c := run dq_tstep aba_full_sched (dq_init aba_k, dq_locals aba_progs) in
  let g := fst c in
  (forall t, (t < 4)%nat -> dq_done (snd c t) = true) /\
  al (anc g) = 0 /\ dq_results 3 (dlog g) = [Some 100; Some 5; Some 6; None; None] /\
  count_occ_N 4 (pushed_vals (dlog g)) = 1%nat /\ count_occ_N 4 (popped_vals (dlog g)) = 1%nat /\
  count_occ_N 6 (pushed_vals (dlog g)) = 1%nat /\ count_occ_N 6 (popped_vals (dlog g)) = 1%nat /\
  aba g = false.
Proof.
  vm_compute. repeat split; try reflexivity.
  intros t H. do 4 (destruct t as [|t]; [reflexivity|]). exfalso. lia.
Qed.

Definition aba2_full_sched : list (nat * unit) :=
  solo 2 100 ++ map (fun t => (t, tt)) aba2_sched ++ solo 3 60.

Lemma aba2_witness_immune :
  let c := run dq_tstep aba2_full_sched (dq_init aba_k, dq_locals aba2_progs) in
  let g := fst c in
  (forall t, (t < 4)%nat -> dq_done (snd c t) = true) /\
  al (anc g) = 0 /\ dq_results 3 (dlog g) = [Some 5; Some 7; None; None; None] /\
  dq_results 1 (dlog g) = [Some 4; Some 3; Some 1; None; None; Some 50; Some 51; Some 6; None] /\
  perm_b (popped_vals (dlog g)) (pushed_vals (dlog g)) = true /\
  aba g = false.
Proof.
  vm_compute. repeat split; try reflexivity.
  intros t H. do 4 (destruct t as [|t]; [reflexivity|]). exfalso. lia.
Qed.

Definition aba3_full_sched : list (nat * unit) := solo 2 60 ++ map (fun t => (t, tt)) aba3_sched ++ solo 3 60.
Definition aba4_full_sched : list (nat * unit) := solo 2 100 ++ map (fun t => (t, tt)) aba4_sched ++ solo 3 60.

Lemma aba_mirror_witnesses_immune :
  let c1 := run dq_tstep aba3_full_sched (dq_init aba_k, dq_locals aba3_progs) in
  let c2 := run dq_tstep aba4_full_sched (dq_init aba_k, dq_locals aba4_progs) in
  (forall t, (t < 4)%nat -> dq_done (snd c1 t) = true) /\ (forall t, (t < 4)%nat -> dq_done (snd c2 t) = true) /\
  dq_results 0 (dlog (fst c1)) = [None; Some 100; Some 5; Some 6] /\
  dq_results 0 (dlog (fst c2)) = [None; Some 5; Some 7] /\
  dq_results 3 (dlog (fst c1)) = [None; None; None; None; None] /\
  dq_results 3 (dlog (fst c2)) = [None; None; None; None; None] /\
  perm_b (popped_vals (dlog (fst c1))) (pushed_vals (dlog (fst c1))) = true /\
  perm_b (popped_vals (dlog (fst c2))) (pushed_vals (dlog (fst c2))) = true /\
  aba (fst c1) = false /\ aba (fst c2) = false.
Proof.
  vm_compute. repeat split; try reflexivity;
    (intros t H; do 4 (destruct t as [|t]; [reflexivity|]); exfalso; lia).
Qed.

(* ------------------------------------------------------------------ Part D: one thread *)
Definition mkl (td : list dop) (p : dq_pc) : dq_local := {| dtodo := td; dpc := p |}.
Definition sstep (t : nat) (x : dq_shared * dq_local) : dq_shared * dq_local := dq_tstep tt t (fst x) (snd x).
Fixpoint siter (t : nat) (n : nat) (x : dq_shared * dq_local) : dq_shared * dq_local :=
  match n with O => x | S m => siter t m (sstep t x) end.

Lemma siter_step t n x y : sstep t x = y -> siter t (S n) x = siter t n y.
Proof. intros <-. reflexivity. Qed.

Lemma siter_add t m k x : siter t (m + k) x = siter t k (siter t m x).
Proof. revert x. induction m as [|m IH]; intros x; [reflexivity|]. cbn. apply IH. Qed.

Lemma siter_idle t n g : siter t n (g, mkl [] DIdle) = (g, mkl [] DIdle).
Proof. induction n as [|n IH]; [reflexivity|]. cbn [siter]. exact IH. Qed.

Lemma run_solo t n : forall g (ls : locals dq_local),
  fst (run dq_tstep (solo t n) (g, ls)) = fst (siter t n (g, ls t)) /\
  snd (run dq_tstep (solo t n) (g, ls)) t = snd (siter t n (g, ls t)).
Proof.
  induction n as [|n IH]; intros g ls; [cbn; auto|].
  unfold solo. cbn [repeat]. rewrite run_cons. cbn [step fst snd siter]. unfold sstep at 1 2. cbn [fst snd].
  destruct (dq_tstep tt t g (ls t)) as [g' l'] eqn:E.
  specialize (IH g' (upd ls t l')). unfold solo in IH. rewrite upd_same in IH. exact IH.
Qed.

(* polymorphic [view] *)
Definition vw {A} (s : side) (l : list A) : list A := match s with SL => l | SR => rev l end.
Lemma view_vw s l : view s l = vw s l. Proof. destruct s; reflexivity. Qed.
Lemma vw_vw {A} s (l : list A) : vw s (vw s l) = l.
Proof. destruct s; cbn; [reflexivity|apply rev_involutive]. Qed.
Lemma map_vw {A B} (f : A -> B) s l : map f (vw s l) = vw s (map f l).
Proof. destruct s; cbn; [reflexivity|apply map_rev]. Qed.
Lemma in_vw {A} s (l : list A) x : In x (vw s l) <-> In x l.
Proof. destruct s; cbn; [tauto|symmetry; apply in_rev]. Qed.

(* accessor algebra *)
Lemma inward_set_inward s nd l : inward s (set_inward s nd l) = l. Proof. destruct s; reflexivity. Qed.
Lemma outward_set_inward s nd l : outward s (set_inward s nd l) = outward s nd. Proof. destruct s; reflexivity. Qed.
Lemma inward_set_outward s nd l : inward s (set_outward s nd l) = inward s nd. Proof. destruct s; reflexivity. Qed.
Lemma outward_set_outward s nd l : outward s (set_outward s nd l) = l. Proof. destruct s; reflexivity. Qed.
Lemma data_set_inward s nd l : ndata (set_inward s nd l) = ndata nd. Proof. destruct s; reflexivity. Qed.
Lemma data_set_outward s nd l : ndata (set_outward s nd l) = ndata nd. Proof. destruct s; reflexivity. Qed.
Lemma inward_opp s nd : inward (opp s) nd = outward s nd. Proof. destruct s; reflexivity. Qed.
Lemma outward_opp s nd : outward (opp s) nd = inward s nd. Proof. destruct s; reflexivity. Qed.
Lemma opp_opp s : opp (opp s) = s. Proof. destruct s; reflexivity. Qed.
Lemma aend_set_aend s a p st tg : aend s (set_aend s a p st tg) = p. Proof. destruct s; reflexivity. Qed.
Lemma aend_opp_set_aend s a p st tg : aend (opp s) (set_aend s a p st tg) = aend (opp s) a.
Proof. destruct s; reflexivity. Qed.
Lemma ast_set_aend s a p st tg : ast (set_aend s a p st tg) = st. Proof. destruct s; reflexivity. Qed.

(* the chain, listed from end s inwards, and the freelist threaded through word 0 *)
Fixpoint linkedS (s : side) (h : addr -> node) (c : list addr) : Prop :=
  match c with
  | a :: r => match r with
              | b :: _ => lptr (inward s (h a)) = b /\ lptr (outward s (h b)) = a /\ linkedS s h r
              | [] => True
              end
  | [] => True
  end.

Fixpoint flchain (h : addr -> node) (p : addr) (fl : list addr) : Prop :=
  match fl with [] => p = 0 | a :: r => p = a /\ flchain h (lptr (nleft (h a))) r end.

Record InvS (s : side) (g : dq_shared) (c fl : list addr) : Prop := {
  iv_st : ast (anc g) = Stable;
  iv_near : aend s (anc g) = hd 0 c;
  iv_far : aend (opp s) (anc g) = List.last c 0;
  iv_links : linkedS s (heap g) c;
  iv_fl : flchain (heap g) (pool g) fl;
  iv_nodup : NoDup (c ++ fl);
  iv_range : forall a, In a (c ++ fl) -> 0 < a < fresh g;
  iv_fresh : 0 < fresh g }.

Definition vals (g : dq_shared) (c : list addr) : list N := map (fun a => ndata (heap g a)) c.

Lemma linkedS_ext s h h' c :
  (forall x, In x c -> inward s (h' x) = inward s (h x)) ->
  (forall x, In x (tl c) -> outward s (h' x) = outward s (h x)) ->
  linkedS s h c -> linkedS s h' c.
Proof.
  induction c as [|a r IH]; intros Hi Ho H; [exact I|].
  destruct r as [|b r']; [exact I|]. cbn [linkedS] in *. destruct H as (H1 & H2 & H3).
  rewrite Hi by (left; reflexivity). rewrite Ho by (left; reflexivity).
  split; [exact H1|]. split; [exact H2|]. apply IH; [| |exact H3].
  - intros x Hx. apply Hi. right. exact Hx.
  - intros x Hx. apply Ho. cbn [tl] in *. right. exact Hx.
Qed.

Lemma flchain_ext h h' fl : forall p,
  (forall x, In x fl -> nleft (h' x) = nleft (h x)) -> flchain h p fl -> flchain h' p fl.
Proof.
  induction fl as [|a r IH]; intros p He H; [exact H|]. cbn [flchain] in *. destruct H as [H1 H2].
  split; [exact H1|]. rewrite He by (left; reflexivity). apply IH; [|exact H2].
  intros x Hx. apply He. right. exact Hx.
Qed.

Lemma linkedS_snoc s h c b :
  linkedS s h c -> (c = [] \/ (lptr (inward s (h (List.last c 0))) = b /\ lptr (outward s (h b)) = List.last c 0)) ->
  linkedS s h (c ++ [b]).
Proof.
  induction c as [|a r IH]; intros H Hb; [exact I|].
  destruct r as [|a' r'].
  - cbn. destruct Hb as [Hb|[Hb1 Hb2]]; [discriminate|]. cbn in Hb1, Hb2. auto.
  - change ((a :: a' :: r') ++ [b]) with (a :: (a' :: r') ++ [b]).
    cbn [linkedS app] in *. destruct H as (H1 & H2 & H3). split; [exact H1|]. split; [exact H2|].
    apply IH; [exact H3|]. right. destruct Hb as [Hb|Hb]; [discriminate|]. exact Hb.
Qed.

Lemma last_rev_cons {A} (a : A) r d : List.last (rev (a :: r)) d = a.
Proof. cbn [rev]. apply last_last. Qed.

Lemma hd_rev {A} (c : list A) d : hd d (rev c) = List.last c d.
Proof.
  induction c as [|x l _] using rev_ind; [reflexivity|]. rewrite rev_app_distr, last_last. reflexivity.
Qed.

Lemma last_rev {A} (c : list A) d : List.last (rev c) d = hd d c.
Proof. destruct c as [|a r]; [reflexivity|]. apply last_rev_cons. Qed.

Lemma linkedS_rev s h c : linkedS s h c -> linkedS (opp s) h (rev c).
Proof.
  induction c as [|a r IH]; intros H; [exact I|]. cbn [rev]. apply linkedS_snoc.
  - apply IH. destruct r as [|b r']; [exact I|]. cbn [linkedS] in H. tauto.
  - destruct r as [|b r']; [left; reflexivity|]. right. rewrite last_rev_cons.
    rewrite inward_opp, outward_opp. cbn [linkedS] in H. tauto.
Qed.

Lemma InvS_flip s g c fl : InvS s g c fl -> InvS (opp s) g (rev c) fl.
Proof.
  intros [H1 H2 H3 H4 H5 H6 H7 H8]. split.
  - exact H1.
  - rewrite hd_rev. exact H3.
  - rewrite opp_opp, last_rev. exact H2.
  - apply linkedS_rev. exact H4.
  - exact H5.
  - eapply Permutation_NoDup; [|exact H6]. apply Permutation_app_tail. apply Permutation_rev.
  - intros a Ha. apply H7. rewrite in_app_iff in *. rewrite <- in_rev in Ha. exact Ha.
  - exact H8.
Qed.

Lemma InvS_vw s g c fl : InvS SL g c fl -> InvS s g (vw s c) fl.
Proof. destruct s; [trivial|]. apply (InvS_flip SL). Qed.

Lemma InvS_unvw s g c fl : InvS s g c fl -> InvS SL g (vw s c) fl.
Proof. destruct s; [trivial|]. apply (InvS_flip SR). Qed.

(* ghost-only changes *)
Lemma InvS_log s g c fl t o r : InvS s g c fl -> InvS s (dq_log g t o r) c fl.
Proof. intros [H1 H2 H3 H4 H5 H6 H7 H8]. split; assumption. Qed.

(* the allocation step *)
Lemma alloc_spec s g c fl : InvS s g c fl ->
  let g1 := fst (fl_alloc g) in let n := snd (fl_alloc g) in
  anc g1 = anc g /\ dlog g1 = dlog g /\ ~ In n (c ++ tl fl) /\ 0 < n < fresh g1 /\
  (forall x, x <> n -> heap g1 x = heap g x) /\
  flchain (heap g1) (pool g1) (tl fl) /\ (forall a, In a (c ++ tl fl) -> 0 < a < fresh g1).
Proof.
  intros [H1 H2 H3 H4 H5 H6 H7 H8]. unfold fl_alloc.
  destruct fl as [|f fl'].
  - cbn [flchain] in H5. rewrite H5. cbn [N.eqb fst snd tl anc dlog heap pool fresh].
    split; [reflexivity|]. split; [reflexivity|]. split; [|split; [lia|split; [|split]]].
    + intros Hin. apply H7 in Hin. lia.
    + intros x Hx. apply hupd_other. exact Hx.
    + reflexivity.
    + intros a Ha. apply H7 in Ha. lia.
  - cbn [flchain] in H5. destruct H5 as [Hp Hc].
    assert (Hf : 0 < f < fresh g). { apply H7. rewrite in_app_iff. right. left. reflexivity. }
    assert (Hne : pool g =? 0 = false). { apply N.eqb_neq. lia. }
    rewrite Hne. cbn [fst snd tl anc dlog heap pool fresh]. rewrite Hp.
    apply NoDup_remove in H6. destruct H6 as [H6 H6'].
    split; [reflexivity|]. split; [reflexivity|]. split; [exact H6'|split; [lia|split; [|split]]].
    + reflexivity.
    + exact Hc.
    + intros a Ha. apply H7. rewrite in_app_iff in *. cbn [In]. tauto.
Qed.

Lemma siter_S t m x : siter t (S m) x = siter t m (sstep t x).
Proof. reflexivity. Qed.

Ltac stp := rewrite siter_S; unfold sstep; cbn [fst snd]; unfold dq_tstep; unfold goto, mkl; cbn [dpc dtodo].
Ltac proj := cbn [anc heap pool fresh dlog set_anc set_heap set_aba dq_log fl_free fst snd].

Lemma last_in (l : list addr) d : l <> [] -> In (List.last l d) l.
Proof.
  induction l as [|a r IH]; intros H; [congruence|]. destruct r as [|b r']; [left; reflexivity|].
  right. apply IH. discriminate.
Qed.

Lemma NoDup_app_tl (c fl : list addr) : NoDup (c ++ fl) -> NoDup (c ++ tl fl).
Proof. destruct fl as [|f fl']; [trivial|]. cbn [tl]. apply NoDup_remove_1. Qed.

Lemma in_app_tl (c fl : list addr) x : In x (c ++ tl fl) -> In x (c ++ fl).
Proof. rewrite !in_app_iff. destruct fl; cbn [tl In]; tauto. Qed.

(* the state after a push at end s onto a non-empty chain, from pointwise facts about its heap *)
Lemma push_inv s g g' n a c' fl :
  InvS s g (a :: c') fl ->
  ~ In n ((a :: c') ++ tl fl) -> 0 < n < fresh g' ->
  (forall x, In x ((a :: c') ++ tl fl) -> 0 < x < fresh g') ->
  ast (anc g') = Stable -> aend s (anc g') = n -> aend (opp s) (anc g') = aend (opp s) (anc g) ->
  flchain (heap g') (pool g') (tl fl) ->
  lptr (inward s (heap g' n)) = a -> lptr (outward s (heap g' a)) = n ->
  (forall x, In x (a :: c') -> inward s (heap g' x) = inward s (heap g x)) ->
  (forall x, In x c' -> outward s (heap g' x) = outward s (heap g x)) ->
  InvS s g' (n :: a :: c') (tl fl).
Proof.
  intros [H1 H2 H3 H4 H5 H6 H7 H8] Hn Hnr Hr Hst Hnear Hfar Hfl Hni Hao Hin Hout. split.
  - exact Hst.
  - exact Hnear.
  - rewrite Hfar, H3. reflexivity.
  - split; [exact Hni|]. split; [exact Hao|].
    eapply linkedS_ext; [exact Hin|exact Hout|exact H4].
  - exact Hfl.
  - change ((n :: a :: c') ++ tl fl) with (n :: (a :: c') ++ tl fl). constructor; [exact Hn|].
    apply NoDup_app_tl. exact H6.
  - intros x Hx. change ((n :: a :: c') ++ tl fl) with (n :: (a :: c') ++ tl fl) in Hx.
    destruct Hx as [<-|Hx]; [exact Hnr|]. apply Hr. exact Hx.
  - lia.
Qed.

Lemma exec_push t s v rest g c fl : InvS s g c fl ->
  exists m g' a, (m <= 12)%nat /\
    siter t m (g, mkl (Push s v :: rest) DIdle) = (g', mkl rest DIdle) /\
    InvS s g' (a :: c) (tl fl) /\
    dlog g' = {| dv_tid := t; dv_op := Push s v; dv_res := None |} :: dlog g /\
    ndata (heap g' a) = v /\ (forall x, In x c -> ndata (heap g' x) = ndata (heap g x)).
Proof.
  intros HI. pose proof (alloc_spec _ _ _ _ HI) as A. cbv zeta in A.
  destruct (fl_alloc g) as [g1 n] eqn:EA. cbn [fst snd] in A.
  destruct A as (A1 & A2 & A3 & A4 & A5 & A6 & A7).
  pose proof HI as HI'. destruct HI as [H1 H2 H3 H4 H5 H6 H7 H8].
  assert (Nn0 : n =? 0 = false) by (apply N.eqb_neq; lia).
  destruct c as [|a c'].
  - (* empty deque *)
    exists 4%nat. eexists. exists n. split; [lia|]. split.
    { stp. rewrite EA. stp. stp. unfold push_load. proj. rewrite A1. cbn [hd] in H2. rewrite H2.
      cbn [N.eqb]. stp. proj. rewrite A1, anchor_eqb_refl. unfold complete, cur_op. cbn [dtodo tl hd]. reflexivity. }
    split; [|split; [|split]].
    + split; proj.
      * cbn [ast]. exact H1.
      * destruct s; reflexivity.
      * destruct s; reflexivity.
      * exact I.
      * eapply flchain_ext; [|exact A6]. intros x Hx. rewrite hupd_other; [reflexivity|].
        intros ->. apply A3. rewrite in_app_iff. right. exact Hx.
      * change ([n] ++ tl fl) with (n :: [] ++ tl fl). constructor; [exact A3|]. apply NoDup_app_tl. exact H6.
      * intros x Hx. change ([n] ++ tl fl) with (n :: [] ++ tl fl) in Hx.
        destruct Hx as [<-|Hx]; [exact A4|]. apply A7. exact Hx.
      * lia.
    + proj. rewrite A2. reflexivity.
    + proj. rewrite hupd_same. reflexivity.
    + intros x [].
  - (* non-empty: publish with status push, then stabilize *)
    cbn [hd] in H2.
    assert (Ha : 0 < a < fresh g). { apply H7. left. reflexivity. }
    assert (Na0 : a =? 0 = false) by (apply N.eqb_neq; lia).
    assert (Nan : a <> n). { intros ->. apply A3. left. reflexivity. }
    assert (Nc : forall x, In x (a :: c') -> x <> n). { intros x Hx ->. apply A3. rewrite in_app_iff. left. exact Hx. }
    assert (Nf : forall x, In x (tl fl) -> x <> n /\ x <> a).
    { intros x Hx. split.
      - intros ->. apply A3. rewrite in_app_iff. right. exact Hx.
      - intros ->. apply NoDup_app_tl in H6. cbn [app] in H6. inversion H6 as [|? ? Hnin _]. apply Hnin.
        rewrite in_app_iff. right. exact Hx. }
    assert (Nca : forall x, In x c' -> x <> a).
    { intros x Hx ->. cbn [app] in H6. inversion H6 as [|? ? Hnin _]. apply Hnin. rewrite in_app_iff. left. exact Hx. }
    set (nd0 := {| nleft := {| lptr := 0; ltag := ltag (nleft (heap g1 n)) + 1 |};
                   nright := {| lptr := 0; ltag := ltag (nright (heap g1 n)) + 1 |}; ndata := v |}).
    set (des := set_aend s (anc g) n (push_status s) (atag (anc g) + 1)).
    assert (Ed : aend s des = n) by (unfold des; apply aend_set_aend).
    (* the common prefix: alloc, init, load, store, anchor CAS, link load, check *)
    assert (PRE : forall m z,
      siter t m (dq_log (set_anc (set_heap (set_heap g1 (hupd (heap g1) n nd0))
                                   (hupd (hupd (heap g1) n nd0) n (set_inward s nd0 {| lptr := a; ltag := ltag (inward s nd0) + 1 |}))) des)
                        t (Push s v) None,
                 {| dtodo := Push s v :: rest; dpc := S3 KDone s des {| lptr := a; ltag := ltag (inward s nd0) + 1 |} |}) = z ->
      siter t (7 + m) (g, mkl (Push s v :: rest) DIdle) = z).
    { intros m z Hz. cbn [Nat.add].
      stp. rewrite EA. stp. stp. unfold push_load. proj. rewrite A1, H2, Na0, H1.
      stp. proj. rewrite hupd_same, H2. stp. proj. rewrite A1, anchor_eqb_refl. unfold cur_op. cbn [dtodo hd].
      stp. fold des. rewrite Ed, Nn0. proj. rewrite hupd_same, inward_set_inward.
      stp. proj. rewrite anchor_eqb_refl. exact Hz. }
    set (h3 := hupd (hupd (heap g1) n nd0) n (set_inward s nd0 {| lptr := a; ltag := ltag (inward s nd0) + 1 |})) in PRE.
    assert (h3n : h3 n = set_inward s nd0 {| lptr := a; ltag := ltag (inward s nd0) + 1 |}) by (unfold h3; apply hupd_same).
    assert (h3o : forall x, x <> n -> h3 x = heap g x).
    { intros x Hx. unfold h3. rewrite !hupd_other by exact Hx. apply A5. exact Hx. }
    destruct (lptr (outward s (heap g a)) =? n) eqn:EL.
    + (* the old end node already points at n (stale link to a recycled address) *)
      apply N.eqb_eq in EL.
      exists 9%nat. eexists. exists n. split; [lia|]. split.
      { apply (PRE 2%nat). stp. cbn [lptr]. rewrite Na0. proj. fold h3. rewrite (h3o a Nan), Ed, EL, N.eqb_refl.
        stp. proj. rewrite anchor_eqb_refl. unfold resume, complete. cbn [dtodo tl]. reflexivity. }
      split; [|split; [|split]].
      * eapply (push_inv s g _ n a c' fl HI' A3); proj; cbn [al ar ast]; unfold des.
        -- exact A4.
        -- exact A7.
        -- reflexivity.
        -- destruct s; reflexivity.
        -- destruct s; reflexivity.
        -- eapply flchain_ext; [|exact A6]. intros x Hx. destruct (Nf x Hx) as [F1 F2].
           rewrite (h3o x F1). rewrite A5 by exact F1. reflexivity.
        -- rewrite h3n, inward_set_inward. reflexivity.
        -- rewrite (h3o a Nan). exact EL.
        -- intros x Hx. rewrite h3o by (apply Nc; exact Hx). reflexivity.
        -- intros x Hx. rewrite h3o by (apply Nc; right; exact Hx). reflexivity.
      * proj. rewrite A2. reflexivity.
      * proj. rewrite h3n, data_set_inward. reflexivity.
      * intros x Hx. proj. rewrite h3o by (apply Nc; exact Hx). reflexivity.
    + apply N.eqb_neq in EL.
      exists 11%nat. eexists. exists n. split; [lia|]. split.
      { apply (PRE 4%nat). stp. cbn [lptr]. rewrite Na0. proj. fold h3. rewrite (h3o a Nan), Ed. apply N.eqb_neq in EL. rewrite EL.
        stp. proj. rewrite anchor_eqb_refl.
        stp. proj. cbn [lptr]. rewrite (h3o a Nan), link_eqb_refl, N.eqb_refl.
        stp. proj. rewrite anchor_eqb_refl. unfold resume, complete. cbn [dtodo tl]. reflexivity. }
      split; [|split; [|split]].
      * eapply (push_inv s g _ n a c' fl HI' A3); proj; cbn [al ar ast]; unfold des.
        -- exact A4.
        -- exact A7.
        -- reflexivity.
        -- destruct s; reflexivity.
        -- destruct s; reflexivity.
        -- eapply flchain_ext; [|exact A6]. intros x Hx. destruct (Nf x Hx) as [F1 F2].
           rewrite hupd_other by exact F2. rewrite (h3o x F1). rewrite A5 by exact F1. reflexivity.
        -- rewrite hupd_other by (intros E; apply Nan; symmetry; exact E). rewrite h3n, inward_set_inward. reflexivity.
        -- rewrite hupd_same, outward_set_outward, aend_set_aend. reflexivity.
        -- intros x [<-|Hx].
           ++ rewrite hupd_same, inward_set_outward. reflexivity.
           ++ rewrite hupd_other by (apply Nca; exact Hx). rewrite h3o by (apply Nc; right; exact Hx). reflexivity.
        -- intros x Hx. rewrite hupd_other by (apply Nca; exact Hx). rewrite h3o by (apply Nc; right; exact Hx). reflexivity.
      * proj. rewrite A2. reflexivity.
      * proj. rewrite hupd_other by (intros E; apply Nan; symmetry; exact E). rewrite h3n, data_set_inward. reflexivity.
      * intros x [<-|Hx]; proj.
        -- rewrite hupd_same, data_set_outward. reflexivity.
        -- rewrite hupd_other by (apply Nca; exact Hx). rewrite h3o by (apply Nc; right; exact Hx). reflexivity.
Qed.

Lemma exec_pop_empty t s rest g fl : InvS s g [] fl ->
  siter t 1 (g, mkl (Pop s :: rest) DIdle) = (dq_log g t (Pop s) None, mkl rest DIdle).
Proof.
  intros [H1 H2 H3 H4 H5 H6 H7 H8]. stp. unfold pop_load. cbn [hd] in H2. rewrite H2. cbn [N.eqb].
  unfold complete. cbn [dtodo tl]. reflexivity.
Qed.

Lemma exec_pop t s rest g a c fl : InvS s g (a :: c) fl ->
  exists m g', (m <= 12)%nat /\
    siter t m (g, mkl (Pop s :: rest) DIdle) = (g', mkl rest DIdle) /\
    InvS s g' c (a :: fl) /\
    dlog g' = {| dv_tid := t; dv_op := Pop s; dv_res := Some (ndata (heap g a)) |} :: dlog g /\
    (forall x, In x c -> ndata (heap g' x) = ndata (heap g x)).
Proof.
  intros [H1 H2 H3 H4 H5 H6 H7 H8]. cbn [hd] in H2.
  assert (Ha : 0 < a < fresh g). { apply H7. left. reflexivity. }
  assert (Na0 : a =? 0 = false) by (apply N.eqb_neq; lia).
  assert (Nca : forall x, In x (c ++ fl) -> x <> a).
  { intros x Hx ->. cbn [app] in H6. inversion H6 as [|? ? Hnin _]. apply Hnin. exact Hx. }
  assert (ND : NoDup (c ++ a :: fl)).
  { eapply Permutation_NoDup; [|exact H6]. cbn [app]. apply Permutation_middle. }
  assert (RG : forall x, In x (c ++ a :: fl) -> 0 < x < fresh g).
  { intros x Hx. apply H7. rewrite in_app_iff in *. cbn [In] in *. tauto. }
  assert (FL : forall h', (forall x, x <> a -> h' x = heap g x) -> lptr (nleft (h' a)) = pool g ->
               flchain h' a (a :: fl)).
  { intros h' Ho Hp. split; [reflexivity|]. rewrite Hp. eapply flchain_ext; [|exact H5].
    intros x Hx. rewrite Ho; [reflexivity|]. apply Nca. rewrite in_app_iff. right. exact Hx. }
  destruct c as [|b c'].
  - (* last element *)
    cbn [List.last] in H3.
    assert (Elr : al (anc g) =? ar (anc g) = true).
    { apply N.eqb_eq. destruct s; cbn [aend opp] in H2, H3; congruence. }
    exists 3%nat. eexists. split; [lia|]. split.
    { stp. unfold pop_load. rewrite H2, Na0, Elr. stp. rewrite anchor_eqb_refl.
      stp. unfold complete. cbn [dtodo tl]. rewrite H2. reflexivity. }
    split; [|split].
    + split; proj; cbn [pop_desired al ar ast].
      * exact H1.
      * destruct s; reflexivity.
      * destruct s; reflexivity.
      * exact I.
      * apply FL; [intros x Hx; apply hupd_other; exact Hx|]. rewrite hupd_same. reflexivity.
      * exact ND.
      * exact RG.
      * exact H8.
    + proj. reflexivity.
    + intros x [].
  - (* at least two elements *)
    assert (Hlast : List.last (a :: b :: c') 0 <> a).
    { change (List.last (a :: b :: c') 0) with (List.last (b :: c') 0). apply Nca.
      rewrite in_app_iff. left. apply last_in. discriminate. }
    assert (Elr : al (anc g) =? ar (anc g) = false).
    { apply N.eqb_neq. destruct s; cbn [aend opp] in H2, H3; congruence. }
    destruct H4 as (L1 & L2 & L3).
    exists 5%nat. eexists. split; [lia|]. split.
    { stp. unfold pop_load. rewrite H2, Na0, Elr, H1. stp. rewrite anchor_eqb_refl. stp. rewrite H2, L1.
      cbn [lptr]. stp. rewrite anchor_eqb_refl. stp. unfold complete. cbn [dtodo tl]. rewrite H2. reflexivity. }
    split; [|split].
    + split; proj; cbn [pop_desired].
      * rewrite ast_set_aend. exact H1.
      * rewrite aend_set_aend. reflexivity.
      * rewrite aend_opp_set_aend. exact H3.
      * eapply linkedS_ext; [| |exact L3].
        -- intros x Hx. rewrite hupd_other; [reflexivity|]. apply Nca. rewrite in_app_iff. left. exact Hx.
        -- intros x Hx. rewrite hupd_other; [reflexivity|]. apply Nca. rewrite in_app_iff. left. right. exact Hx.
      * apply FL; [intros x Hx; apply hupd_other; exact Hx|]. rewrite hupd_same. reflexivity.
      * exact ND.
      * exact RG.
      * exact H8.
    + proj. reflexivity.
    + intros x Hx. proj. rewrite hupd_other; [reflexivity|]. apply Nca. rewrite in_app_iff. left. exact Hx.
Qed.

Lemma vals_ext g g' c : (forall x, In x c -> ndata (heap g' x) = ndata (heap g x)) -> vals g' c = vals g c.
Proof. intros H. unfold vals. apply map_ext_in. exact H. Qed.

Lemma vals_vw g s c : vals g (vw s c) = view s (vals g c).
Proof. unfold vals. rewrite view_vw. apply map_vw. Qed.

(* one operation, from a quiescent state whose chain (left to right) is c *)
Lemma op_exec t o rest g c fl : InvS SL g c fl ->
  exists m g1 c1 fl1 r, (m <= 12)%nat /\
    siter t m (g, mkl (o :: rest) DIdle) = (g1, mkl rest DIdle) /\
    InvS SL g1 c1 fl1 /\
    dlog g1 = {| dv_tid := t; dv_op := o; dv_res := r |} :: dlog g /\
    spec_step o (vals g c) = (r, vals g1 c1).
Proof.
  intros HI. destruct o as [s v|s].
  - destruct (exec_push t s v rest g (vw s c) fl (InvS_vw s _ _ _ HI)) as (m & g' & a & Hm & Hs & HI' & Hl & Hd & Hp).
    exists m, g', (vw s (a :: vw s c)), (tl fl), None. split; [exact Hm|]. split; [exact Hs|].
    split; [apply InvS_unvw; exact HI'|]. split; [exact Hl|].
    cbn [spec_step]. f_equal. symmetry. rewrite vals_vw. f_equal.
    change (vals g' (a :: vw s c)) with (ndata (heap g' a) :: vals g' (vw s c)). rewrite Hd. f_equal.
    rewrite (vals_ext g g') by exact Hp. apply vals_vw.
  - pose proof (InvS_vw s _ _ _ HI) as HV. cbn [spec_step]. rewrite <- vals_vw.
    destruct (vw s c) as [|a c'] eqn:EV.
    + exists 1%nat, (dq_log g t (Pop s) None), c, fl, None. split; [lia|]. split; [apply (exec_pop_empty t s rest g fl HV)|].
      split; [apply InvS_log; exact HI|]. split; [reflexivity|]. reflexivity.
    + destruct (exec_pop t s rest g a c' fl HV) as (m & g' & Hm & Hs & HI' & Hl & Hp).
      exists m, g', (vw s c'), (a :: fl), (Some (ndata (heap g a))). split; [exact Hm|]. split; [exact Hs|].
      split; [apply InvS_unvw; exact HI'|]. split; [exact Hl|].
      change (vals g (a :: c')) with (ndata (heap g a) :: vals g c'). f_equal. rewrite vals_vw. f_equal. f_equal. symmetry. apply vals_ext. exact Hp.
Qed.

Lemma seq_ops t : forall ops g c fl n, InvS SL g c fl -> (12 * length ops <= n)%nat ->
  exists g' c' fl' evs,
    siter t n (g, mkl ops DIdle) = (g', mkl [] DIdle) /\ InvS SL g' c' fl' /\
    dlog g' = evs ++ dlog g /\ (forall e, In e evs -> dv_tid e = t) /\
    rev (map dv_res evs) = fst (spec_run ops (vals g c)) /\
    rev (map dv_op evs) = ops /\
    vals g' c' = snd (spec_run ops (vals g c)).
Proof.
  induction ops as [|o ops IH]; intros g c fl n HI Hn.
  - exists g, c, fl, []. rewrite siter_idle. split; [reflexivity|]. split; [exact HI|]. split; [reflexivity|].
    split; [intros e []|]. cbn. auto.
  - destruct (op_exec t o ops g c fl HI) as (m & g1 & c1 & fl1 & r & Hm & Hs & HI1 & Hl & Hsp).
    cbn [length] in Hn. replace n with (m + (n - m))%nat by lia. rewrite siter_add, Hs.
    destruct (IH g1 c1 fl1 (n - m)%nat HI1 ltac:(lia)) as (g' & c' & fl' & evs & Es & HI' & El & Et & Er & Eo & Ev).
    exists g', c', fl', (evs ++ [{| dv_tid := t; dv_op := o; dv_res := r |}]).
    split; [exact Es|]. split; [exact HI'|]. split; [rewrite El, Hl, <- app_assoc; reflexivity|].
    split. { intros e He. apply in_app_or in He. destruct He as [He|[<-|[]]]; [apply Et; exact He|reflexivity]. }
    cbn [spec_run]. rewrite Hsp. destruct (spec_run ops (vals g1 c1)) as [rs l''] eqn:ER. cbn [fst snd] in *.
    rewrite !map_app, !rev_app_distr. cbn [map rev app]. rewrite Er, Eo, Ev. auto.
Qed.

(* the initial state *)
Fixpoint flinit (p : N) (cnt : nat) : list N :=
  match cnt with O => [] | S m => p :: flinit (p + 1) m end.

Lemma flinit_in cnt : forall p x, In x (flinit p cnt) <-> p <= x < p + N.of_nat cnt.
Proof.
  induction cnt as [|m IH]; intros p x.
  - cbn. lia.
  - cbn [flinit In]. rewrite IH. lia.
Qed.

Lemma flinit_nodup cnt : forall p, NoDup (flinit p cnt).
Proof.
  induction cnt as [|m IH]; intros p; [constructor|]. cbn [flinit]. constructor; [|apply IH].
  rewrite flinit_in. lia.
Qed.

Lemma flinit_chain k cnt : forall p, 1 <= p -> p + N.of_nat cnt = k ->
  flchain (init_heap k) p (flinit p (S cnt)).
Proof.
  induction cnt as [|m IH]; intros p Hp Hk.
  - cbn [flinit flchain]. split; [reflexivity|]. unfold init_heap.
    replace (p <? k) with false by (symmetry; apply N.ltb_ge; lia). rewrite andb_false_r. reflexivity.
  - cbn [flinit flchain]. split; [reflexivity|]. unfold init_heap at 1.
    replace (1 <=? p) with true by (symmetry; apply N.leb_le; lia).
    replace (p <? k) with true by (symmetry; apply N.ltb_lt; lia). cbn [andb nleft lptr].
    apply (IH (p + 1)); lia.
Qed.

Lemma init_inv k : exists fl, InvS SL (dq_init k) [] fl.
Proof.
  destruct (N.eq_dec k 0) as [->|Hk].
  - exists []. split; cbn; auto; try lia. constructor.
  - exists (flinit 1 (S (N.to_nat (k - 1)))). split; cbn [dq_init anc heap pool fresh ast aend opp al ar hd List.last app].
    + reflexivity.
    + reflexivity.
    + reflexivity.
    + exact I.
    + replace (k =? 0) with false by (symmetry; apply N.eqb_neq; exact Hk).
      apply flinit_chain; lia.
    + apply flinit_nodup.
    + intros a Ha. apply flinit_in in Ha. lia.
    + lia.
Qed.

Lemma dq_results_own t evs : (forall e, In e evs -> dv_tid e = t) ->
  dq_results t evs = rev (map dv_res evs).
Proof.
  intros H. unfold dq_results. f_equal. f_equal. induction evs as [|e r IH]; [reflexivity|].
  cbn [filter]. rewrite (H e (or_introl eq_refl)), Nat.eqb_refl. f_equal. apply IH.
  intros e' He'. apply H. right. exact He'.
Qed.

(* THE single-threaded theorem: any thread t running any operation sequence alone on a fresh
   deque with any initial pool size returns exactly what the two-ended list returns, ends
   idle, and leaves a chain whose values are the list *)
Lemma deque_seq_refines_list_lemma t k ops n (progs : nat -> list dop) :
  progs t = ops -> (12 * length ops <= n)%nat ->
  let c := run dq_tstep (solo t n) (dq_init k, dq_locals progs) in
  dq_results t (dlog (fst c)) = fst (spec_run ops []) /\
  snd c t = mkl [] DIdle /\
  exists chain fl, InvS SL (fst c) chain fl /\ vals (fst c) chain = snd (spec_run ops []).
Proof.
  intros Hp Hn. cbv zeta. destruct (init_inv k) as [fl0 HI0].
  destruct (seq_ops t ops (dq_init k) [] fl0 n HI0 Hn) as (g' & c' & fl' & evs & Es & HI' & El & Et & Er & Eo & Ev).
  destruct (run_solo t n (dq_init k) (dq_locals progs)) as [R1 R2].
  change (dq_locals progs t) with (mkl (progs t) DIdle) in R1, R2. rewrite Hp, Es in R1, R2.
  cbn [fst snd] in R1, R2.
  change (fst (run dq_tstep (solo t n) (dq_init k, dq_locals progs)) = g') in R1.
  change (snd (run dq_tstep (solo t n) (dq_init k, dq_locals progs)) t = mkl [] DIdle) in R2.
  rewrite R1, R2. split; [|split; [reflexivity|]].
  - rewrite El. cbn [dq_init dlog]. rewrite app_nil_r. rewrite dq_results_own by exact Et. exact Er.
  - exists c', fl'. split; [exact HI'|exact Ev].
Qed.

(* reading the chain from the left end along the right links gives its values *)
Lemma walk_chain h : forall c stop, c <> [] -> linkedS SL h c -> NoDup c -> (forall a, In a c -> a <> 0) ->
  stop = List.last c 0 -> walk h (hd 0 c) stop (length c) = map (fun a => ndata (h a)) c.
Proof.
  induction c as [|a r IH]; intros stop Hne HL ND NZ Hs; [congruence|].
  cbn [hd length walk map]. assert (Ha : a =? 0 = false) by (apply N.eqb_neq; apply NZ; left; reflexivity).
  rewrite Ha. f_equal. destruct r as [|b r'].
  - cbn in Hs. subst stop. rewrite N.eqb_refl. reflexivity.
  - assert (Hst : a =? stop = false).
    { apply N.eqb_neq. intros E. inversion ND as [|? ? Hnin _]. apply Hnin. rewrite E, Hs.
      change (List.last (a :: b :: r') 0) with (List.last (b :: r') 0). apply last_in. discriminate. }
    rewrite Hst. destruct HL as (L1 & L2 & L3). cbn [inward] in L1. rewrite L1.
    apply (IH stop); [discriminate|exact L3|inversion ND; assumption|intros x Hx; apply NZ; right; exact Hx|exact Hs].
Qed.

Lemma contents_of_inv g c fl : InvS SL g c fl -> dq_contents (length c) g = vals g c.
Proof.
  intros [H1 H2 H3 H4 H5 H6 H7 H8]. unfold dq_contents. cbn [aend opp] in H2, H3. rewrite H2, H3.
  destruct c as [|a r]; [reflexivity|]. apply walk_chain.
  - discriminate.
  - exact H4.
  - clear - H6. induction fl as [|f fl' IH]; [rewrite app_nil_r in H6; exact H6|].
    apply IH. eapply NoDup_remove_1. exact H6.
  - intros x Hx E. subst x. assert (0 < 0 < fresh g) by (apply H7; rewrite in_app_iff; left; exact Hx). lia.
  - reflexivity.
Qed.

Lemma deque_seq_refines_list_lemma2 t k ops n (progs : nat -> list dop) :
  progs t = ops -> (12 * length ops <= n)%nat ->
  let c := run dq_tstep (solo t n) (dq_init k, dq_locals progs) in
  dq_results t (dlog (fst c)) = fst (spec_run ops []) /\
  dtodo (snd c t) = [] /\ dpc (snd c t) = DIdle /\
  ast (anc (fst c)) = Stable /\
  dq_contents (length (snd (spec_run ops []))) (fst c) = snd (spec_run ops []).
Proof.
  intros Hp Hn. destruct (deque_seq_refines_list_lemma t k ops n progs Hp Hn) as (R & L & chain & fl & HI & HV).
  cbv zeta. split; [exact R|]. rewrite L. split; [reflexivity|]. split; [reflexivity|].
  split; [apply (iv_st _ _ _ _ HI)|]. rewrite <- HV. unfold vals at 1. rewrite map_length.
  apply contents_of_inv with (fl := fl). exact HI.
Qed.

(* ---- the full concurrent statement (proved in Proofs/DequeAbaLin.v) ---- *)
Definition deque_exactly_once_all_schedules : Prop :=
  forall k progs sched,
    let c := run dq_tstep sched (dq_init k, dq_locals progs) in
    let lg := dlog (fst c) in
    (forall v, count_occ_N v (popped_vals lg) <= count_occ_N v (pushed_vals lg))%nat /\
    (al (anc (fst c)) = 0 -> (forall t, dq_done (snd c t) = true) ->
     forall v, count_occ_N v (popped_vals lg) = count_occ_N v (pushed_vals lg)).

