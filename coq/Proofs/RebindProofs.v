(* Proofs/RebindProofs.v — C12: rebinding resets every per-task field; recycled objects are only
   rebound to tasks of the same stack size. *)
From Coq Require Import ZArith List Bool Lia.
From Pika Require Import Model.CtxSyntax Gen.GenSwapctx Model.Rebind.
Import ListNotations.
Local Open Scope Z_scope.

Lemma rebind_resets_all_l : forall (init : init_data) (args : nat -> Z) (junk d : tdata) (f : tfield),
  per_task f = true -> rebind_base init d f = construct init args junk f.
Proof.
  intros init args junk d f Hf. destruct f; try discriminate Hf; reflexivity.
Qed.

Lemma rebind_keeps_object_l : forall (init : init_data) (d : tdata) (f : tfield),
  per_task f = false -> rebind_base init d f = d f.
Proof.
  intros init d f Hf. destruct f; try discriminate Hf; reflexivity.
Qed.

Lemma coro_recycle_resets_l : forall (tprev tnew : Z) (d junk : cdata) (f : cfield),
  coro_reset_scope f = true ->
  coro_do_rebind tnew (coro_at_exit tprev d) f = coro_construct tnew junk f.
Proof.
  intros tprev tnew d junk f Hf. destruct f; try discriminate Hf; reflexivity.
Qed.

(* the exit path alone already clears the task data (thread data word) and the task's id *)
Lemma coro_exit_clears_l : forall (t : Z) (d : cdata),
  coro_at_exit t d C_thread_data = CV CZero 0 /\ coro_at_exit t d C_thread_id = CV CZero 0 /\
  coro_at_exit t d C_fun = CV CZero 0.
Proof. intros. repeat split; reflexivity. Qed.

(* ---------------- heaps ---------------- *)
Lemma sclass_eqb_eq : forall a b, sclass_eqb a b = true -> a = b.
Proof. intros a b H. destruct a, b; try reflexivity; discriminate H. Qed.
Lemma sclass_eqb_refl : forall a, sclass_eqb a a = true.
Proof. destruct a; reflexivity. Qed.

Lemma chain_eqb_eq : forall a b, chain_eqb a b = true -> a = b.
Proof.
  induction a as [|[x1 y1] ta IH]; intros [|[x2 y2] tb] H; cbn [chain_eqb] in H; try discriminate; [reflexivity|].
  apply andb_prop in H. destruct H as [H H3]. apply andb_prop in H. destruct H as [H1 H2].
  apply sclass_eqb_eq in H1. apply sclass_eqb_eq in H2. rewrite (IH _ H3). subst. reflexivity.
Qed.

Lemma lookup_in : forall (c : list (sclass * sclass)) (p : params) (s : Z) (h : sclass), chain_lookup c p s = Some h -> exists cl, In (cl, h) c /\ s = p cl.
Proof.
  induction c as [|[x y] t IH]; intros p s h H; cbn [chain_lookup] in H; [discriminate|].
  destruct (s =? p x) eqn:E.
  - inversion H; subst. apply Z.eqb_eq in E. exists x. split; [left; reflexivity|exact E].
  - destruct (IH _ _ _ H) as (cl & Hin & Hs). exists cl. split; [right; exact Hin|exact Hs].
Qed.

Lemma mem_class_in : forall (t : list (sclass * sclass)) (c h : sclass), In (c, h) t -> mem_class h (map snd t) = true.
Proof.
  induction t as [|[x y] t IH]; intros c h H; [contradiction|].
  cbn [map snd mem_class]. destruct H as [H|H].
  - inversion H; subst. rewrite sclass_eqb_refl. reflexivity.
  - rewrite (IH _ _ H). apply orb_true_r.
Qed.

Lemma nodup_snd : forall (c : list (sclass * sclass)) (c1 c2 h : sclass), nodup_classes (map snd c) = true ->
  In (c1, h) c -> In (c2, h) c -> c1 = c2.
Proof.
  induction c as [|[x y] t IH]; intros c1 c2 h Hn H1 H2; [contradiction|].
  cbn [map snd nodup_classes] in Hn. apply andb_prop in Hn. destruct Hn as [Hy Ht].
  apply negb_true_iff in Hy.
  destruct H1 as [H1|H1]; destruct H2 as [H2|H2].
  - congruence.
  - inversion H1; subst. rewrite (mem_class_in _ _ _ H2) in Hy. discriminate.
  - inversion H2; subst. rewrite (mem_class_in _ _ _ H1) in Hy. discriminate.
  - exact (IH _ _ _ Ht H1 H2).
Qed.

Lemma chains_ok_true : chains_ok = true.
Proof. reflexivity. Qed.
Lemma mc_chains_ok_true : mc_chains_ok = true.
Proof. reflexivity. Qed.

(* the heart: an object found in the heap chosen for stack size [want] has stack size [want] *)
Lemma same_heap_same_size_g : forall (k : qcode) (p : params) s want h, chains_ok_g k = true ->
  chain_lookup (qc_recycle k) p s = Some h -> chain_lookup (qc_create k) p want = Some h -> s = want.
Proof.
  intros k p s want h Hok Hr Hc.
  unfold chains_ok_g in Hok. apply andb_prop in Hok. destruct Hok as [He Hn].
  apply chain_eqb_eq in He. rewrite <- He in Hr.
  destruct (lookup_in _ _ _ _ Hr) as (c1 & Hi1 & Hs1).
  destruct (lookup_in _ _ _ _ Hc) as (c2 & Hi2 & Hs2).
  rewrite (nodup_snd _ _ _ _ Hn Hi1 Hi2) in Hs1. congruence.
Qed.

Lemma same_heap_same_size : forall (p : params) s want h,
  chain_lookup recycle_chain p s = Some h -> chain_lookup create_chain p want = Some h -> s = want.
Proof. intros p s want h. exact (same_heap_same_size_g tq_code p s want h chains_ok_true). Qed.

(* whichever end of the list is used, the object taken was in the heap and the rest is a part of it;
   the object put back is the only new member *)
Lemma take_end_in : forall e l o rest, take_end e l = Some (o, rest) ->
  In o l /\ (forall x, In x rest -> In x l).
Proof.
  intros e l o rest H. destruct e; cbn [take_end] in H.
  - destruct l as [|a r]; [discriminate|]. inversion H; subst. split; [left; reflexivity|].
    intros x Hx. right. exact Hx.
  - destruct (rev l) as [|a r] eqn:E; [discriminate|]. inversion H; subst.
    assert (Hl : l = rev (o :: r)) by (rewrite <- E; symmetry; apply rev_involutive).
    split.
    + rewrite Hl. apply in_rev. rewrite rev_involutive. left. reflexivity.
    + intros x Hx. rewrite Hl. apply in_rev. rewrite rev_involutive. right. apply in_rev. exact Hx.
Qed.

Lemma put_end_in : forall e o l x, In x (put_end e o l) -> x = o \/ In x l.
Proof.
  intros e o l x H. destruct e; cbn [put_end] in H.
  - destruct H as [H|H]; [left; symmetry; exact H|right; exact H].
  - apply in_app_or in H. destruct H as [H|[H|[]]]; [right; exact H|left; symmetry; exact H].
Qed.

Definition q_inv_g (k : qcode) (p : params) (q : qstate) : Prop :=
  (forall h o, In o (qheaps q h) -> chain_lookup (qc_recycle k) p (osize o) = Some h) /\
  (forall o cls want, In (EvRebound o cls want) (qlog q) -> osize o = want /\ want = get_stack_size p cls) /\
  (forall o cls want, In (EvNew o cls want) (qlog q) -> osize o = want /\ want = get_stack_size p cls).

Lemma q_step_inv_g : forall k p q op, chains_ok_g k = true -> q_inv_g k p q -> q_inv_g k p (q_step_g k p q op).
Proof.
  intros k p q op Hok (Hh & Hr & Hn). destruct op as [cls|n]; cbn [q_step_g].
  - destruct (chain_lookup (qc_create k) p (get_stack_size p cls)) as [h|] eqn:Ec.
    + destruct (take_end (qc_take k) (qheaps q h)) as [[o rest]|] eqn:Eh.
      * destruct (take_end_in _ _ _ _ Eh) as [Hio Hrest].
        assert (Ho : chain_lookup (qc_recycle k) p (osize o) = Some h) by (apply Hh; exact Hio).
        split; [|split]; cbn [qlog qheaps].
        -- intros h' o' Hin. unfold upd_heap in Hin. destruct (sclass_eqb h' h) eqn:E.
           ++ apply sclass_eqb_eq in E. subst h'. apply Hh. apply Hrest. exact Hin.
           ++ exact (Hh _ _ Hin).
        -- intros o' cl w [H|H]; [|exact (Hr _ _ _ H)].
           inversion H; subst. split; [|reflexivity]. exact (same_heap_same_size_g _ _ _ _ _ Hok Ho Ec).
        -- intros o' cl w [H|H]; [discriminate|exact (Hn _ _ _ H)].
      * split; [exact Hh|]. split; cbn [qlog qheaps].
        -- intros o cl w [H|H]; [discriminate|exact (Hr _ _ _ H)].
        -- intros o cl w [H|H]; [inversion H; subst; split; reflexivity|exact (Hn _ _ _ H)].
    + split; [exact Hh|]. split; cbn [qlog].
      * intros o cl w [H|H]; [discriminate|exact (Hr _ _ _ H)].
      * intros o cl w [H|H]; [discriminate|exact (Hn _ _ _ H)].
  - destruct (nth_error (qlive q) n) as [o|]; [|exact (conj Hh (conj Hr Hn))].
    destruct (chain_lookup (qc_recycle k) p (osize o)) as [h|] eqn:Ec.
    + split; [|split]; cbn [qlog qheaps].
      * intros h' o' Hin. unfold upd_heap in Hin. destruct (sclass_eqb h' h) eqn:E.
        -- apply sclass_eqb_eq in E. subst h'. apply put_end_in in Hin.
           destruct Hin as [Hin|Hin]; [subst; exact Ec|exact (Hh _ _ Hin)].
        -- exact (Hh _ _ Hin).
      * intros o' cl w [H|H]; [discriminate|exact (Hr _ _ _ H)].
      * intros o' cl w [H|H]; [discriminate|exact (Hn _ _ _ H)].
    + split; [exact Hh|]. split; cbn [qlog].
      * intros o' cl w [H|H]; [discriminate|exact (Hr _ _ _ H)].
      * intros o' cl w [H|H]; [discriminate|exact (Hn _ _ _ H)].
Qed.

Lemma q_run_inv_g : forall k p ops q, chains_ok_g k = true -> q_inv_g k p q -> q_inv_g k p (fold_left (q_step_g k p) ops q).
Proof.
  intros k p ops. induction ops as [|op ops IH]; intros q Hok H; [exact H|].
  cbn [fold_left]. apply IH; [exact Hok|]. apply q_step_inv_g; assumption.
Qed.

Lemma q_inv_init : forall k p, q_inv_g k p q_init.
Proof. intros k p. repeat split; intros; contradiction. Qed.

Lemma recycle_same_size_g : forall (k : qcode) (p : params) (ops : list qop) o cls want, chains_ok_g k = true ->
  In (EvRebound o cls want) (qlog (q_run_g k p ops)) ->
  osize o = want /\ want = get_stack_size p cls.
Proof.
  intros k p ops o cls want Hok H.
  destruct (q_run_inv_g k p ops q_init Hok (q_inv_init k p)) as (_ & Hr & _). exact (Hr _ _ _ H).
Qed.

Lemma new_object_size_g : forall (k : qcode) (p : params) (ops : list qop) o cls want, chains_ok_g k = true ->
  In (EvNew o cls want) (qlog (q_run_g k p ops)) ->
  osize o = want /\ want = get_stack_size p cls.
Proof.
  intros k p ops o cls want Hok H.
  destruct (q_run_inv_g k p ops q_init Hok (q_inv_init k p)) as (_ & _ & Hn). exact (Hn _ _ _ H).
Qed.

(* thread_queue *)
Lemma recycle_same_size_l : forall (p : params) (ops : list qop) o cls want,
  In (EvRebound o cls want) (qlog (q_run p ops)) ->
  osize o = want /\ want = get_stack_size p cls.
Proof. intros p ops o cls want. exact (recycle_same_size_g tq_code p ops o cls want chains_ok_true). Qed.

Lemma new_object_size_l : forall (p : params) (ops : list qop) o cls want,
  In (EvNew o cls want) (qlog (q_run p ops)) ->
  osize o = want /\ want = get_stack_size p cls.
Proof. intros p ops o cls want. exact (new_object_size_g tq_code p ops o cls want chains_ok_true). Qed.

(* thread_queue_mc / queue_holder_thread *)
Lemma mc_recycle_same_size_l : forall (p : params) (ops : list qop) o cls want,
  In (EvRebound o cls want) (qlog (mc_q_run p ops)) ->
  osize o = want /\ want = get_stack_size p cls.
Proof. intros p ops o cls want. exact (recycle_same_size_g mc_code p ops o cls want mc_chains_ok_true). Qed.

Lemma mc_new_object_size_l : forall (p : params) (ops : list qop) o cls want,
  In (EvNew o cls want) (qlog (mc_q_run p ops)) ->
  osize o = want /\ want = get_stack_size p cls.
Proof. intros p ops o cls want. exact (new_object_size_g mc_code p ops o cls want mc_chains_ok_true). Qed.

(* every failed heap lookup is logged; with five pairwise different configured sizes, or any configuration for the four
   stackful classes, create never fails: get_stack_size p c is one of the sizes compared *)
Lemma mc_create_finds_heap_l : forall (p : params) (c : sclass), c <> Nostack ->
  exists h, chain_lookup mc_create_chain p (get_stack_size p c) = Some h.
Proof.
  intros p c Hc. destruct c; try (exfalso; apply Hc; reflexivity);
    unfold get_stack_size; cbn [assoc enum_size sclass_eqb sclass_idx Z.eqb Pos.eqb];
    unfold mc_create_chain; cbn [chain_lookup];
    repeat (match goal with |- context [if ?a =? ?b then _ else _] => destruct (a =? b) eqn:? end);
    try (eexists; reflexivity);
    repeat match goal with H : (?a =? ?a) = false |- _ => rewrite Z.eqb_refl in H; discriminate H end.
Qed.

(* ---------------- thread_stacksize::current ---------------- *)
Lemma current_resolution_before_split : current_resolution = CurBeforeSplit.
Proof. reflexivity. Qed.
Lemma mc_current_resolution_before_split : mc_current_resolution = CurBeforeSplit.
Proof. reflexivity. Qed.

Lemma created_class_at_current : forall (path : cpath) (c : sclass) (conv : option sclass),
  created_class_at CurBeforeSplit path (Some c) conv Current = c /\ created_enum_at CurBeforeSplit path (Some c) Current = Some c.
Proof. intros path c conv. destruct path; split; reflexivity. Qed.
Lemma created_class_at_explicit : forall (path : cpath) (creator conv : option sclass) (c : sclass),
  created_class_at CurBeforeSplit path creator conv (Explicit c) = c /\ created_enum_at CurBeforeSplit path creator (Explicit c) = Some c.
Proof. intros path creator conv c. destruct path; split; reflexivity. Qed.
Lemma created_class_at_no_task : forall (path : cpath) (conv : option sclass),
  created_class_at CurBeforeSplit path None conv Current = no_self_class.
Proof. intros path conv. destruct path; reflexivity. Qed.

Lemma created_class_current_l : forall (path : cpath) (c : sclass) (conv : option sclass),
  created_class path (Some c) conv Current = c /\ created_enum path (Some c) Current = Some c.
Proof.
  intros path c conv. unfold created_class, created_enum.
  rewrite current_resolution_before_split. apply created_class_at_current.
Qed.

Lemma created_class_explicit_l : forall (path : cpath) (creator conv : option sclass) (c : sclass),
  created_class path creator conv (Explicit c) = c /\ created_enum path creator (Explicit c) = Some c.
Proof.
  intros path creator conv c. unfold created_class, created_enum.
  rewrite current_resolution_before_split. apply created_class_at_explicit.
Qed.

Lemma created_class_no_task_l : forall (path : cpath) (conv : option sclass),
  created_class path None conv Current = no_self_class.
Proof.
  intros path conv. unfold created_class.
  rewrite current_resolution_before_split. apply created_class_at_no_task.
Qed.

(* thread_queue_mc *)
Lemma mc_created_class_current_l : forall (path : cpath) (c : sclass) (conv : option sclass),
  mc_created_class path (Some c) conv Current = c /\ mc_created_enum path (Some c) Current = Some c.
Proof.
  intros path c conv. unfold mc_created_class, mc_created_enum.
  rewrite mc_current_resolution_before_split. apply created_class_at_current.
Qed.

Lemma mc_created_class_explicit_l : forall (path : cpath) (creator conv : option sclass) (c : sclass),
  mc_created_class path creator conv (Explicit c) = c /\ mc_created_enum path creator (Explicit c) = Some c.
Proof.
  intros path creator conv c. unfold mc_created_class, mc_created_enum.
  rewrite mc_current_resolution_before_split. apply created_class_at_explicit.
Qed.

Lemma mc_created_class_no_task_l : forall (path : cpath) (conv : option sclass),
  mc_created_class path None conv Current = no_self_class.
Proof.
  intros path conv. unfold mc_created_class.
  rewrite mc_current_resolution_before_split. apply created_class_at_no_task.
Qed.

Lemma mc_descend_current_l : forall (gens : list (cpath * option sclass * sreq)) (c : sclass),
  (forall g, In g gens -> snd g = Current) -> mc_descend c gens = c.
Proof.
  induction gens as [|[[path conv] r] t IH]; intros c H; [reflexivity|].
  cbn [mc_descend]. assert (Hr : r = Current) by exact (H (path, conv, r) (or_introl eq_refl)).
  subst r. rewrite (proj1 (mc_created_class_current_l path c conv)).
  apply IH. intros g Hg. apply H. right. exact Hg.
Qed.

Lemma mc_current_child_object_size_l : forall (p : params) (ops : list qop) (path : cpath) (c : sclass)
    (conv : option sclass) o want,
  In (EvRebound o (mc_created_class path (Some c) conv Current) want) (qlog (mc_q_run p ops)) \/
  In (EvNew o (mc_created_class path (Some c) conv Current) want) (qlog (mc_q_run p ops)) ->
  osize o = get_stack_size p c.
Proof.
  intros p ops path c conv o want H.
  rewrite (proj1 (mc_created_class_current_l path c conv)) in H.
  destruct H as [H|H].
  - destruct (mc_recycle_same_size_l _ _ _ _ _ H) as [H1 H2]. congruence.
  - destruct (mc_new_object_size_l _ _ _ _ _ H) as [H1 H2]. congruence.
Qed.

Lemma descend_current_l : forall (gens : list (cpath * option sclass * sreq)) (c : sclass),
  (forall g, In g gens -> snd g = Current) -> descend c gens = c.
Proof.
  induction gens as [|[[path conv] r] t IH]; intros c H; [reflexivity|].
  cbn [descend]. assert (Hr : r = Current) by exact (H (path, conv, r) (or_introl eq_refl)).
  subst r. rewrite (proj1 (created_class_current_l path c conv)).
  apply IH. intros g Hg. apply H. right. exact Hg.
Qed.

(* the object a `current` child runs on has the stack size configured for the creator's class,
   whether it is freshly allocated or recycled *)
Lemma current_child_object_size_l : forall (p : params) (ops : list qop) (path : cpath) (c : sclass)
    (conv : option sclass) o want,
  In (EvRebound o (created_class path (Some c) conv Current) want) (qlog (q_run p ops)) \/
  In (EvNew o (created_class path (Some c) conv Current) want) (qlog (q_run p ops)) ->
  osize o = get_stack_size p c.
Proof.
  intros p ops path c conv o want H.
  rewrite (proj1 (created_class_current_l path c conv)) in H.
  destruct H as [H|H].
  - destruct (recycle_same_size_l _ _ _ _ _ H) as [H1 H2]. congruence.
  - destruct (new_object_size_l _ _ _ _ _ H) as [H1 H2]. congruence.
Qed.
