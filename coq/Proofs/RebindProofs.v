(* Proofs/RebindProofs.v — C12: rebinding resets every per-task field; recycled objects are only
   rebound to tasks of the same stack size. *)
From Coq Require Import ZArith List Bool Lia.
From Pika Require Import Model.CtxSyntax Gen.GenSwapctx Model.Rebind.
Import ListNotations.
Local Open Scope Z_scope.

Lemma rebind_resets_all_l : forall (init : init_data) (args : nat -> Z) (junk d : tdata) (f : tfield),
  per_task f = true -> rebind_base init d f = construct init args junk f.
Proof.
  intros init args junk d f Hf. destruct f; try discriminate Hf; reflexivity.
Qed.

Lemma rebind_keeps_object_l : forall (init : init_data) (d : tdata) (f : tfield),
  per_task f = false -> rebind_base init d f = d f.
Proof.
  intros init d f Hf. destruct f; try discriminate Hf; reflexivity.
Qed.

Lemma coro_recycle_resets_l : forall (tprev tnew : Z) (d junk : cdata) (f : cfield),
  coro_reset_scope f = true ->
  coro_do_rebind tnew (coro_at_exit tprev d) f = coro_construct tnew junk f.
Proof.
  intros tprev tnew d junk f Hf. destruct f; try discriminate Hf; reflexivity.
Qed.

(* the exit path alone already clears the task data (thread data word) and the task's id *)
Lemma coro_exit_clears_l : forall (t : Z) (d : cdata),
  coro_at_exit t d C_thread_data = CV CZero 0 /\ coro_at_exit t d C_thread_id = CV CZero 0 /\
  coro_at_exit t d C_fun = CV CZero 0.
Proof. intros. repeat split; reflexivity. Qed.

(* ---------------- heaps ---------------- *)
Lemma sclass_eqb_eq : forall a b, sclass_eqb a b = true -> a = b.
Proof. intros a b H. destruct a, b; try reflexivity; discriminate H. Qed.
Lemma sclass_eqb_refl : forall a, sclass_eqb a a = true.
Proof. destruct a; reflexivity. Qed.

Lemma chain_eqb_eq : forall a b, chain_eqb a b = true -> a = b.
Proof.
  induction a as [|[x1 y1] ta IH]; intros [|[x2 y2] tb] H; cbn [chain_eqb] in H; try discriminate; [reflexivity|].
  apply andb_prop in H. destruct H as [H H3]. apply andb_prop in H. destruct H as [H1 H2].
  apply sclass_eqb_eq in H1. apply sclass_eqb_eq in H2. rewrite (IH _ H3). subst. reflexivity.
Qed.

Lemma lookup_in : forall (c : list (sclass * sclass)) (p : params) (s : Z) (h : sclass), chain_lookup c p s = Some h -> exists cl, In (cl, h) c /\ s = p cl.
Proof.
  induction c as [|[x y] t IH]; intros p s h H; cbn [chain_lookup] in H; [discriminate|].
  destruct (s =? p x) eqn:E.
  - inversion H; subst. apply Z.eqb_eq in E. exists x. split; [left; reflexivity|exact E].
  - destruct (IH _ _ _ H) as (cl & Hin & Hs). exists cl. split; [right; exact Hin|exact Hs].
Qed.

Lemma mem_class_in : forall (t : list (sclass * sclass)) (c h : sclass), In (c, h) t -> mem_class h (map snd t) = true.
Proof.
  induction t as [|[x y] t IH]; intros c h H; [contradiction|].
  cbn [map snd mem_class]. destruct H as [H|H].
  - inversion H; subst. rewrite sclass_eqb_refl. reflexivity.
  - rewrite (IH _ _ H). apply orb_true_r.
Qed.

Lemma nodup_snd : forall (c : list (sclass * sclass)) (c1 c2 h : sclass), nodup_classes (map snd c) = true ->
  In (c1, h) c -> In (c2, h) c -> c1 = c2.
Proof.
  induction c as [|[x y] t IH]; intros c1 c2 h Hn H1 H2; [contradiction|].
  cbn [map snd nodup_classes] in Hn. apply andb_prop in Hn. destruct Hn as [Hy Ht].
  apply negb_true_iff in Hy.
  destruct H1 as [H1|H1]; destruct H2 as [H2|H2].
  - congruence.
  - inversion H1; subst. rewrite (mem_class_in _ _ _ H2) in Hy. discriminate.
  - inversion H2; subst. rewrite (mem_class_in _ _ _ H1) in Hy. discriminate.
  - exact (IH _ _ _ Ht H1 H2).
Qed.

Lemma chains_ok_true : chains_ok = true.
Proof. reflexivity. Qed.

(* the heart: an object found in the heap chosen for stack size [want] has stack size [want] *)
Lemma same_heap_same_size : forall (p : params) s want h,
  chain_lookup recycle_chain p s = Some h -> chain_lookup create_chain p want = Some h -> s = want.
Proof.
  intros p s want h Hr Hc.
  pose proof chains_ok_true as Hok. unfold chains_ok in Hok. apply andb_prop in Hok. destruct Hok as [He Hn].
  apply chain_eqb_eq in He. rewrite <- He in Hr.
  destruct (lookup_in _ _ _ _ Hr) as (c1 & Hi1 & Hs1).
  destruct (lookup_in _ _ _ _ Hc) as (c2 & Hi2 & Hs2).
  rewrite (nodup_snd _ _ _ _ Hn Hi1 Hi2) in Hs1. congruence.
Qed.

Definition q_inv (p : params) (q : qstate) : Prop :=
  (forall h o, In o (qheaps q h) -> chain_lookup recycle_chain p (osize o) = Some h) /\
  (forall o cls want, In (EvRebound o cls want) (qlog q) -> osize o = want /\ want = get_stack_size p cls) /\
  (forall o cls want, In (EvNew o cls want) (qlog q) -> osize o = want /\ want = get_stack_size p cls).

Lemma q_step_inv : forall p q op, q_inv p q -> q_inv p (q_step p q op).
Proof.
  intros p q op (Hh & Hr & Hn). destruct op as [cls|n]; cbn [q_step].
  - destruct (chain_lookup create_chain p (get_stack_size p cls)) as [h|] eqn:Ec.
    + destruct (qheaps q h) as [|o rest] eqn:Eh.
      * split; [exact Hh|]. split; cbn [qlog qheaps].
        -- intros o cl w [H|H]; [discriminate|exact (Hr _ _ _ H)].
        -- intros o cl w [H|H]; [inversion H; subst; split; reflexivity|exact (Hn _ _ _ H)].
      * assert (Ho : chain_lookup recycle_chain p (osize o) = Some h).
        { apply Hh. rewrite Eh. left. reflexivity. }
        split; [|split]; cbn [qlog qheaps].
        -- intros h' o' Hin. unfold upd_heap in Hin. destruct (sclass_eqb h' h) eqn:E.
           ++ apply sclass_eqb_eq in E. subst h'. apply Hh. rewrite Eh. right. exact Hin.
           ++ exact (Hh _ _ Hin).
        -- intros o' cl w [H|H]; [|exact (Hr _ _ _ H)].
           inversion H; subst. split; [|reflexivity]. exact (same_heap_same_size _ _ _ _ Ho Ec).
        -- intros o' cl w [H|H]; [discriminate|exact (Hn _ _ _ H)].
    + split; [exact Hh|]. split; cbn [qlog].
      * intros o cl w [H|H]; [discriminate|exact (Hr _ _ _ H)].
      * intros o cl w [H|H]; [discriminate|exact (Hn _ _ _ H)].
  - destruct (nth_error (qlive q) n) as [o|]; [|exact (conj Hh (conj Hr Hn))].
    destruct (chain_lookup recycle_chain p (osize o)) as [h|] eqn:Ec.
    + split; [|split]; cbn [qlog qheaps].
      * intros h' o' Hin. unfold upd_heap in Hin. destruct (sclass_eqb h' h) eqn:E.
        -- apply sclass_eqb_eq in E. subst h'. destruct Hin as [Hin|Hin]; [subst; exact Ec|exact (Hh _ _ Hin)].
        -- exact (Hh _ _ Hin).
      * intros o' cl w [H|H]; [discriminate|exact (Hr _ _ _ H)].
      * intros o' cl w [H|H]; [discriminate|exact (Hn _ _ _ H)].
    + split; [exact Hh|]. split; cbn [qlog].
      * intros o' cl w [H|H]; [discriminate|exact (Hr _ _ _ H)].
      * intros o' cl w [H|H]; [discriminate|exact (Hn _ _ _ H)].
Qed.

Lemma q_run_inv : forall p ops q, q_inv p q -> q_inv p (fold_left (q_step p) ops q).
Proof.
  induction ops as [|op ops IH]; intros q H; [exact H|]. cbn [fold_left]. apply IH. apply q_step_inv. exact H.
Qed.

Lemma recycle_same_size_l : forall (p : params) (ops : list qop) o cls want,
  In (EvRebound o cls want) (qlog (q_run p ops)) ->
  osize o = want /\ want = get_stack_size p cls.
Proof.
  intros p ops o cls want H.
  assert (Hi : q_inv p (q_run p ops)).
  { apply q_run_inv. repeat split; intros; contradiction. }
  destruct Hi as (_ & Hr & _). exact (Hr _ _ _ H).
Qed.

Lemma new_object_size_l : forall (p : params) (ops : list qop) o cls want,
  In (EvNew o cls want) (qlog (q_run p ops)) ->
  osize o = want /\ want = get_stack_size p cls.
Proof.
  intros p ops o cls want H.
  assert (Hi : q_inv p (q_run p ops)).
  { apply q_run_inv. repeat split; intros; contradiction. }
  destruct Hi as (_ & _ & Hn). exact (Hn _ _ _ H).
Qed.

(* ---------------- thread_stacksize::current ---------------- *)
Lemma current_resolution_before_split : current_resolution = CurBeforeSplit.
Proof. reflexivity. Qed.

Lemma created_class_current_l : forall (path : cpath) (c : sclass) (conv : option sclass),
  created_class path (Some c) conv Current = c /\ created_enum path (Some c) Current = Some c.
Proof.
  intros path c conv. unfold created_class, created_enum, create_prologue, create_prologue_at.
  rewrite current_resolution_before_split. destruct path; split; reflexivity.
Qed.

Lemma created_class_explicit_l : forall (path : cpath) (creator conv : option sclass) (c : sclass),
  created_class path creator conv (Explicit c) = c /\ created_enum path creator (Explicit c) = Some c.
Proof.
  intros path creator conv c. unfold created_class, created_enum, create_prologue, create_prologue_at.
  rewrite current_resolution_before_split. destruct path; split; reflexivity.
Qed.

Lemma created_class_no_task_l : forall (path : cpath) (conv : option sclass),
  created_class path None conv Current = no_self_class.
Proof.
  intros path conv. unfold created_class, create_prologue, create_prologue_at.
  rewrite current_resolution_before_split. destruct path; reflexivity.
Qed.

Lemma descend_current_l : forall (gens : list (cpath * option sclass * sreq)) (c : sclass),
  (forall g, In g gens -> snd g = Current) -> descend c gens = c.
Proof.
  induction gens as [|[[path conv] r] t IH]; intros c H; [reflexivity|].
  cbn [descend]. assert (Hr : r = Current) by exact (H (path, conv, r) (or_introl eq_refl)).
  subst r. rewrite (proj1 (created_class_current_l path c conv)).
  apply IH. intros g Hg. apply H. right. exact Hg.
Qed.

(* the object a `current` child runs on has the stack size configured for the creator's class,
   whether it is freshly allocated or recycled *)
Lemma current_child_object_size_l : forall (p : params) (ops : list qop) (path : cpath) (c : sclass)
    (conv : option sclass) o want,
  In (EvRebound o (created_class path (Some c) conv Current) want) (qlog (q_run p ops)) \/
  In (EvNew o (created_class path (Some c) conv Current) want) (qlog (q_run p ops)) ->
  osize o = get_stack_size p c.
Proof.
  intros p ops path c conv o want H.
  rewrite (proj1 (created_class_current_l path c conv)) in H.
  destruct H as [H|H].
  - destruct (recycle_same_size_l _ _ _ _ _ H) as [H1 H2]. congruence.
  - destruct (new_object_size_l _ _ _ _ _ H) as [H1 H2]. congruence.
Qed.
