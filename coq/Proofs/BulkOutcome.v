(* Proofs/BulkOutcome.v — C11: set-level completion facts.  [XInv]: the exit log is duplicate-free, a thread
   inside f(i) has not yet logged the exit of i, and no two threads are inside f for the same index (uses
   [bulk_each_index_once] on the extended schedule).  With exit ⊆ call (BulkExitLog) and the counts at the
   signal (BulkProofs) a pigeonhole gives: at the completion EVERY entered call has returned; hence the pool
   bulk completes with a value exactly when no index below n throws — the outcome kind of the generic loop. *)
From Coq Require Import List NArith Lia Bool Arith.
From Pika Require Import Base.Conc Model.IndexQueue Model.Bulk Proofs.IndexQueueProofs Proofs.BulkArith Proofs.BulkProofs Proofs.BulkExitLog.
Import ListNotations.
Local Open Scope N_scope.

Lemma in_call_leaves cf o t g l i : in_call l = Some i -> in_call (snd (bstep cf o t g l)) = None.
Proof.
  destruct l; cbn [in_call]; try discriminate. intros _. cbn [bstep snd]. destruct (cthrows cf i0); reflexivity.
Qed.

Lemma in_call_enters cf o t g l j : in_call l = None -> in_call (snd (bstep cf o t g l)) = Some j ->
  exists v, calls (fst (bstep cf o t g l)) = (j, v) :: calls g.
Proof.
  destruct l; cbn [in_call bstep]; try discriminate; intros _; cbn [snd in_call].
  - destruct (spawned g t); discriminate.
  - destruct (cn cf =? 0); [discriminate|]. destruct (get_chunk_size _ _); discriminate.
  - destruct (_ <=? _)%nat; [discriminate|]. destruct (Nat.eqb _ _); [discriminate|].
    destruct (range_empty _); discriminate.
  - destruct (pop_step _ _ _ _ _) as [qs' r]. destruct r as [p'|[idx|]]; cbn [snd in_call]; try discriminate.
    destruct (_ <? _)%nat; discriminate.
  - destruct (i <? e); cbn [fst snd in_call calls]; [|discriminate].
    intros H. injection H as <-. eexists. reflexivity.
  - destruct (exc_flag g); cbn [in_call]; discriminate.
  - destruct (_ =? 0); cbn [in_call]; [discriminate|]. destruct k; cbn [after in_call]; discriminate.
  - destruct k; cbn [after in_call]; discriminate.
Qed.

Definition XInv (g : bshared) (ls : nat -> bpc) : Prop :=
  NoDup (exits g) /\
  (forall t i, in_call (ls t) = Some i -> ~ In i (exits g)) /\
  (forall t t' i, in_call (ls t) = Some i -> in_call (ls t') = Some i -> t = t').

Lemma brun_snoc cf s so : brun cf (s ++ [so]) = step (bstep cf) (brun cf s) so.
Proof. unfold brun. rewrite run_app. reflexivity. Qed.

Lemma xinv_run cf : guard cf -> forall sched, XInv (fst (brun cf sched)) (snd (brun cf sched)).
Proof.
  intros Hg. induction sched as [|[t o] s IH] using rev_ind.
  - unfold brun. cbn [run fold_left fst snd binit binit_shared exits]. split; [constructor|]. split.
    + intros t i. unfold binit_locals. destruct (Nat.eqb t (clocal cf)); cbn [in_call]; discriminate.
    + intros t t' i. unfold binit_locals. destruct (Nat.eqb t (clocal cf)); cbn [in_call]; discriminate.
  - pose proof (exit_inv_run cf s) as [E1 E2].
    pose proof (bulk_each_index_once cf (s ++ [(t, o)]) Hg) as [Hnd _].
    rewrite brun_snoc in *. destruct (brun cf s) as [g ls]. cbn [fst snd] in *.
    destruct IH as [I1 [I2 I3]].
    unfold step in *. cbn [fst snd] in *.
    pose proof (bstep_exits cf o t g (ls t)) as Hex.
    pose proof (in_call_leaves cf o t g (ls t)) as Hlv.
    pose proof (in_call_enters cf o t g (ls t)) as Hen.
    destruct (bstep cf o t g (ls t)) as [g' l']. cbn [fst snd] in *.
    destruct (in_call (ls t)) as [i|] eqn:Ei.
    + (* t returns from f(i) *)
      specialize (Hlv i eq_refl). unfold XInv. rewrite Hex. split; [|split].
      * constructor; [now apply (I2 t)|exact I1].
      * intros t' j Hj. destruct (Nat.eq_dec t' t) as [->|Hne]; [rewrite upd_same in Hj; congruence|].
        rewrite upd_other in Hj by exact Hne. intros [<-|Hin]; [|now apply (I2 t' j)].
        apply Hne. now apply (I3 t' t i).
      * intros t1 t2 j H1 H2.
        destruct (Nat.eq_dec t1 t) as [->|N1]; [rewrite upd_same in H1; congruence|].
        destruct (Nat.eq_dec t2 t) as [->|N2]; [rewrite upd_same in H2; congruence|].
        rewrite upd_other in H1, H2 by assumption. now apply (I3 t1 t2 j).
    + unfold XInv. rewrite Hex. split; [exact I1|].
      assert (Hfresh : forall j, in_call l' = Some j -> ~ called g j).
      { intros j Hj. destruct (Hen j eq_refl Hj) as [v Hc]. rewrite Hc in Hnd. cbn [map fst] in Hnd.
        inversion Hnd; subst. assumption. }
      split.
      * intros t' j Hj. destruct (Nat.eq_dec t' t) as [->|Hne].
        -- rewrite upd_same in Hj. intros Hin. apply (Hfresh j Hj). now apply E1.
        -- rewrite upd_other in Hj by exact Hne. now apply (I2 t' j).
      * intros t1 t2 j H1 H2.
        destruct (Nat.eq_dec t1 t) as [->|N1]; destruct (Nat.eq_dec t2 t) as [->|N2]; try reflexivity.
        -- rewrite upd_same in H1. rewrite upd_other in H2 by assumption. exfalso. apply (Hfresh j H1). now apply (E2 t2).
        -- rewrite upd_same in H2. rewrite upd_other in H1 by assumption. exfalso. apply (Hfresh j H2). now apply (E2 t1).
        -- rewrite upd_other in H1, H2 by assumption. now apply (I3 t1 t2 j).
Qed.

(* at the completion every entered call has returned — as a set, not only as a count *)
Lemma all_called_exited cf sched : guard cf ->
  let g := fst (brun cf sched) in
  sigs g <> [] -> forall j, called g j -> In j (exits g).
Proof.
  intros Hg g Hs j Hj.
  destruct (sigs g) as [|s r] eqn:Es; [congruence|].
  destruct (bulk_signal_after_last_call cf sched Hg s) as [_ [_ Hlen]]; [fold g; rewrite Es; now left|].
  fold g in Hlen.
  destruct (xinv_run cf Hg sched) as [Hnd _]. fold g in Hnd.
  destruct (exit_inv_run cf sched) as [Hincl _]. fold g in Hincl.
  assert (Hi : incl (map fst (calls g)) (exits g)).
  { apply NoDup_length_incl; [exact Hnd|rewrite map_length; lia|]. intros x Hx. apply Hincl. exact Hx. }
  apply Hi. exact Hj.
Qed.

(* the pool bulk completes with a value exactly when no index below n throws — the same outcome kind as the
   generic loop of bulk.hpp *)
Lemma pool_outcome_kind cf sched : guard cf ->
  let g := fst (brun cf sched) in
  forall s, In s (sigs g) ->
  ((exists v, sg s = SValue v) <-> (forall j, j < cn cf -> cthrows cf j = false)).
Proof.
  intros Hg g s Hs. split.
  - intros [v Hv] j Hj.
    destruct (bulk_value_means_all cf sched Hg s v Hs Hv) as [_ [Hth Hall]]. fold g in Hth, Hall.
    destruct (cthrows cf j) eqn:Ht; [|reflexivity]. exfalso.
    assert (Hex : In j (exits g)).
    { apply (all_called_exited cf sched Hg); [intros E; fold g in E; rewrite E in Hs; destruct Hs|now apply Hall]. }
    pose proof (exit_log_run cf sched j Hex Ht) as Hin. fold g in Hin. rewrite Hth in Hin. destruct Hin.
  - intros Hno.
    destruct (bulk_error_iff_thrown cf sched Hg s Hs) as [Hbad [_ Herr]].
    destruct (sg s) as [v|x|] eqn:Esg.
    + now exists v.
    + exfalso. destruct (Herr x eq_refl) as [y [-> [_ [Hc Hy]]]].
      destruct (bulk_each_index_once cf sched Hg) as [_ Hlt].
      unfold called in Hc. apply in_map_iff in Hc. destruct Hc as [[y' v'] [Ey Hin]]. cbn [fst] in Ey. subst y'.
      destruct (Hlt y v' Hin) as [Hyn _]. rewrite (Hno y Hyn) in Hy. discriminate.
    + congruence.
Qed.
