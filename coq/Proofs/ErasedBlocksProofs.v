(* Proofs/ErasedBlocksProofs.v — C18: the allocation ledger (Model/ErasedBlocks.v).
   Invariant over every history: #allocated = #freed + blocks owned by the wrappers. *)
From Coq Require Import List Bool Arith ZArith NArith Lia.
From Pika Require Import Gen.GenErased Gen.GenErasedSteps Model.Erased Model.ErasedBlocks.
Import ListNotations.

(* ------------------------------------------------------------------ the interpreted leaf routines *)
Lemma allocate_facts : forall big, run_allocate big = set_ret true
  {| v_alloc := if big then 1 else 0; v_free := 0; v_dtor := 0; v_destroys := 0; v_ctor := 0; v_threw := false; v_ret := false |}.
Proof. intros [|]; vm_compute; reflexivity. Qed.
Lemma deallocate_facts : forall big,
  v_free (run_deallocate big) = (if big then 1 else 0) /\ v_dtor (run_deallocate big) = 1 /\ v_alloc (run_deallocate big) = 0.
Proof. intros [|]; vm_compute; repeat split. Qed.
Lemma copy_facts : forall big reuse throw,
  v_alloc (run_copy big reuse throw) = (if big && negb reuse then 1 else 0) /\
  v_free (run_copy big reuse throw) = 0 /\
  v_dtor (run_copy big reuse throw) = (if reuse then 1 else 0) /\
  v_threw (run_copy big reuse throw) = throw /\
  v_ctor (run_copy big reuse throw) = (if throw then 0 else 1).
Proof. intros [|] [|] [|]; vm_compute; repeat split. Qed.
Lemma assign_facts : forall big eq throw,
  v_alloc (run_assign big eq throw) = (if big && negb eq then 1 else 0) /\
  v_free (run_assign big eq throw) = 0 /\
  v_destroys (run_assign big eq throw) = (if eq then 0 else 1) /\
  v_dtor (run_assign big eq throw) = (if eq then 1 else 0) /\
  v_threw (run_assign big eq throw) = throw /\
  v_ctor (run_assign big eq throw) = (if throw then 0 else 1).
Proof. intros [|] [|] [|]; vm_compute; repeat split. Qed.

(* the order fact behind finding C18:FUNL:blocks_leaked: on the path of a big T whose constructor throws, the
   block has been allocated, no constructor completed and no statement of the (handler-free) lists frees it *)
Lemma throwing_construction_leaks_block :
  (let r := run_assign true false true in v_alloc r = 1 /\ v_free r = 0 /\ v_ctor r = 0 /\ v_threw r = true) /\
  (let r := run_copy true false true in v_alloc r = 1 /\ v_free r = 0 /\ v_ctor r = 0 /\ v_threw r = true).
Proof. vm_compute. repeat split. Qed.

Lemma rel_free_blocks : forall s, rel_free s = blocks s.
Proof.
  induction s as [|o|o|s IH]; cbn [rel_free blocks]; try rewrite IH;
    try (destruct (deallocate_facts true) as [-> _]); try (destruct (deallocate_facts false) as [-> _]); reflexivity.
Qed.

Global Opaque run_allocate run_deallocate run_copy run_assign.

(* ------------------------------------------------------------------ ownership under slot updates *)
Lemma owned_set_nth : forall l j s, j < length l ->
  owned (set_nth j s l) + blocks (nth j l Empty) = owned l + blocks s.
Proof.
  unfold owned. induction l as [|h t IH]; intros j s Hj; cbn in Hj; [lia|].
  destruct j; cbn; [lia|].
  specialize (IH j s ltac:(lia)). unfold list_sum in IH. lia.
Qed.
Lemma length_set_nth : forall A (l : list A) j x, length (set_nth j x l) = length l.
Proof. induction l; intros [|j] x; cbn; auto. Qed.
Lemma nth_set_nth_other : forall (l : list storage) j i x, j <> i -> nth j (set_nth i x l) Empty = nth j l Empty.
Proof.
  induction l as [|h t IH]; intros j i x Hne; [destruct j, i; reflexivity|].
  destruct j, i; cbn; try reflexivity; try lia. apply IH. lia.
Qed.

Lemma op1_owned : forall f j st, in1 st j = true ->
  owned (slots (snd (op1 f j st))) + blocks (slot (slots st) j) =
  owned (slots st) + blocks (snd (fst (f (slot (slots st) j) (led st)))).
Proof.
  intros f j st Hj. unfold in1 in Hj. unfold op1. rewrite Hj.
  destruct (f (slot (slots st) j) (led st)) as [[r s'] L'] eqn:E. cbn [snd fst slots].
  apply owned_set_nth. apply Nat.ltb_lt. exact Hj.
Qed.
Lemma op1_out : forall f j st, in1 st j = false -> snd (op1 f j st) = st.
Proof. intros f j st Hj. unfold in1 in Hj. unfold op1. rewrite Hj. reflexivity. Qed.

Lemma op2_owned : forall f j i st, in2 st j i = true ->
  owned (slots (snd (op2 f j i st))) + blocks (slot (slots st) j) + blocks (slot (slots st) i) =
  owned (slots st) + blocks (snd (fst (fst (f (slot (slots st) j) (slot (slots st) i) (led st)))))
                   + blocks (snd (fst (f (slot (slots st) j) (slot (slots st) i) (led st)))).
Proof.
  intros f j i st H. unfold in2 in H. unfold op2. rewrite H.
  apply andb_prop in H. destruct H as [H Hne]. apply andb_prop in H. destruct H as [Hj Hi].
  apply Nat.ltb_lt in Hj. apply Nat.ltb_lt in Hi. apply negb_true_iff in Hne. apply Nat.eqb_neq in Hne.
  destruct (f (slot (slots st) j) (slot (slots st) i) (led st)) as [[[r a'] b'] L'] eqn:E. cbn [snd fst slots].
  pose proof (owned_set_nth (slots st) i b' Hi) as H1.
  pose proof (owned_set_nth (set_nth i b' (slots st)) j a' ltac:(rewrite length_set_nth; exact Hj)) as H2.
  rewrite nth_set_nth_other in H2 by exact Hne. unfold slot. lia.
Qed.
Lemma op2_out : forall f j i st, in2 st j i = false -> snd (op2 f j i st) = st.
Proof. intros f j i st H. unfold in2 in H. unfold op2. rewrite H. reflexivity. Qed.

(* ------------------------------------------------------------------ one function step *)
Ltac facts :=
  repeat match goal with
         | |- context [run_assign ?a ?b ?c] =>
           let H1 := fresh in let H2 := fresh in let H3 := fresh in
           pose proof (assign_facts a b c) as (H1 & H2 & H3 & _); rewrite ?H1, ?H2, ?H3; clear H1 H2 H3
         | |- context [run_copy ?a ?b ?c] =>
           let H1 := fresh in let H2 := fresh in
           pose proof (copy_facts a b c) as (H1 & H2 & _); rewrite ?H1, ?H2; clear H1 H2
         | |- context [run_deallocate ?a] =>
           let H1 := fresh in pose proof (deallocate_facts a) as (H1 & _); rewrite ?H1; clear H1
         | |- context [run_allocate ?a] => rewrite (allocate_facts a)
         end.

Definition balanced (af : nat * nat) (before after : nat) : Prop := fst af + before = snd af + after.

Lemma f_local1 : forall op this L, match op with FStore _ _ _ _ | FReset _ | FInvoke _ _ | FStoreFn _ _ _ _ _ => True | _ => False end ->
  balanced (f_eff1 op this) (blocks this)
    (blocks (snd (fst (match op with
                       | FStore _ v mv ctor => f_store v mv ctor this L
                       | FReset _ => f_reset this L
                       | FInvoke _ arg => f_invoke arg this L
                       | FStoreFn _ v ie mvi mv => f_store_fn v ie mvi mv this L
                       | _ => (ONone, this, L)
                       end)))).
Proof.
  intros op this L Hop. unfold balanced.
  destruct op as [j v mv ctor| | | | | |j|j arg|j v ie mvi mv]; try contradiction; clear Hop.
  - (* FStore *)
    unfold f_eff1, assign_eff, plus2, f_store, f_assign, fresh_obj, mk, fn_place, holds_type, with_obj.
    rewrite !rel_free_blocks.
    destruct this as [|o|o|s]; destruct ctor, mv; cbn [is_empty release blocks fst snd move_obj copy_obj ov];
      repeat match goal with |- context [same_type ?a ?b] => destruct (same_type a b) end;
      destruct (vbig v); facts; cbn; lia.
  - (* FReset *)
    unfold f_eff1, f_reset. rewrite rel_free_blocks. cbn. lia.
  - (* FInvoke *)
    unfold f_eff1, f_invoke, f_invoke1, nofx.
    destruct this as [|o|o|s]; cbn; try lia.
    + destruct (call (ov o) arg); cbn; lia.
    + destruct (call (ov o) arg); cbn; lia.
    + destruct s as [|o|o|s]; cbn; try lia; destruct (call (ov o) arg); cbn; lia.
  - (* FStoreFn *)
    unfold f_eff1, f_store_fn, fresh_obj, mk, fn_place. rewrite !rel_free_blocks.
    destruct ie; [cbn; lia|].
    destruct mvi, mv; cbn [move_obj copy_obj ov fst snd]; destruct (vbig v); facts; cbn; lia.
Qed.


Lemma clone1_blocks : forall s L, blocks (fst (f_clone1 s L)) = clone1_alloc s false.
Proof.
  intros s L. unfold f_clone1, clone1_alloc, fn_place, copy_obj.
  destruct s as [|o|o|s]; cbn [fst ov blocks]; facts; try reflexivity; destruct (vbig (ov o)); reflexivity.
Qed.
Lemma clone_blocks : forall s L, blocks (fst (f_clone s L)) = clone_alloc s false.
Proof.
  intros s L. unfold f_clone, clone_alloc. destruct s as [|o|o|s]; try apply clone1_blocks.
  pose proof (clone1_blocks s L) as H. destruct (f_clone1 s L) as [c L1]. cbn [fst blocks] in *. pose proof (copy_facts true false false) as (Hc & _). rewrite Hc. cbn. lia.
Qed.

Lemma f_local2 : forall op this other L, match op with FCopyCtor _ _ | FMoveCtor _ _ | FCopyAssign _ _ | FMoveAssign _ _ | FSwap _ _ => True | _ => False end ->
  let r := match op with
           | FCopyCtor _ _ => f_copy_ctor this other L
           | FMoveCtor _ _ => f_move_ctor this other L
           | FCopyAssign _ _ => f_copy_assign this other L
           | FMoveAssign _ _ => f_move_assign this other L
           | FSwap _ _ => f_swap this other L
           | _ => (ONone, this, other, L)
           end in
  balanced (f_eff2 op this other) (blocks this + blocks other)
           (blocks (snd (fst (fst r))) + blocks (snd (fst r))).
Proof.
  intros op this other L Hop. unfold balanced.
  destruct op as [|j i|j i|j i|j i|j i| | |]; try contradiction; clear Hop; cbn zeta.
  - (* FCopyCtor *)
    unfold f_eff2, f_copy_ctor. rewrite rel_free_blocks.
    pose proof (clone_blocks other (release this L)) as H. destruct (f_clone other (release this L)) as [a L2].
    cbn [fst snd] in *. lia.
  - unfold f_eff2, f_move_ctor. rewrite rel_free_blocks. cbn. lia.
  - (* FCopyAssign *)
    unfold f_eff2, f_copy_assign. destruct (vptr_eq this other) eqn:E.
    + destruct this as [|o|o|s], other as [|p|p|t]; cbn in E; try discriminate; cbn [fst snd blocks nofx]; try lia;
        try (unfold copy_obj, with_obj; cbn [fst snd blocks]; destruct (vbig (ov p)); facts; cbn; lia).
      rewrite (rel_free_blocks s).
      pose proof (clone_blocks (Nested t) (release (Nested s) L)) as H.
      destruct (f_clone (Nested t) (release (Nested s) L)) as [a L2]. cbn [fst snd] in *.
      unfold clone_alloc in H. pose proof (copy_facts true false false) as (Hc & _). rewrite Hc in H. cbn in H |- *. lia.
    + rewrite rel_free_blocks.
      pose proof (clone_blocks other (release this L)) as H. destruct (f_clone other (release this L)) as [a L2].
      cbn [fst snd] in *. lia.
  - unfold f_eff2, f_move_assign. rewrite rel_free_blocks. cbn. lia.
  - unfold f_eff2, f_swap. cbn. lia.
Qed.

Definition binv (st : state) (b : bledger) : Prop := b_alloc b = b_free b + owned (slots st).

Ltac step_op1 :=
  match goal with |- context [op1 ?f ?jj ?st] =>
    let Hj := fresh "Hj" in let Ho := fresh "Ho" in let Hl := fresh "Hl" in
    destruct (in1 st jj) eqn:Hj; [| rewrite op1_out by exact Hj; cbn; lia];
    pose proof (op1_owned f jj st Hj) as Ho;
    match goal with |- context [f_eff1 ?op _] => pose proof (f_local1 op (slot (slots st) jj) (led st) I) as Hl end;
    unfold balanced in Hl; cbn beta iota in Hl; lia
  end.
Ltac step_op2 :=
  match goal with |- context [op2 ?f ?jj ?ii ?st] =>
    let Hj := fresh "Hj" in let Ho := fresh "Ho" in let Hl := fresh "Hl" in
    destruct (in2 st jj ii) eqn:Hj; [| rewrite op2_out by exact Hj; cbn; lia];
    pose proof (op2_owned f jj ii st Hj) as Ho;
    match goal with |- context [f_eff2 ?op _ _] => pose proof (f_local2 op (slot (slots st) jj) (slot (slots st) ii) (led st) I) as Hl end;
    unfold balanced in Hl; cbn beta iota zeta in Hl; lia
  end.

Lemma fstep_binv : forall op st b, binv st b -> binv (snd (fstep op st)) (charge (f_eff op st) b).
Proof.
  intros op st b Hb. unfold binv in *. unfold charge; cbn [b_alloc b_free].
  destruct op as [j v mv ctor|j i|j i|j i|j i|j i|j|j arg|j v ie mvi mv]; cbn [fstep f_eff];
    first [step_op1 | step_op2].
Qed.

Lemma brun_binv : forall ops st b, binv st b -> binv (fst (brun ops st b)) (snd (brun ops st b)).
Proof.
  induction ops as [|op r IH]; intros st b Hb; cbn [brun]; [exact Hb|].
  apply IH. apply fstep_binv. exact Hb.
Qed.
Lemma brun_state : forall ops st b, fst (brun ops st b) = run fstep ops st.
Proof. induction ops as [|op r IH]; intros; cbn [brun run]; [reflexivity|apply IH]. Qed.

Lemma init_binv : forall n, binv (init n) b0.
Proof.
  intros n. unfold binv, init, b0, owned. cbn [b_alloc b_free slots].
  induction n as [|n IH]; [reflexivity|]. cbn [repeat map]. change (list_sum (blocks Empty :: ?l)) with (blocks Empty + list_sum l).
  cbn [blocks]. lia.
Qed.

Lemma list_sum_cons : forall a l, list_sum (a :: l) = a + list_sum l.
Proof. reflexivity. Qed.
Lemma sum_rel_free : forall l, list_sum (map rel_free l) = owned l.
Proof.
  unfold owned. induction l as [|h t IH]; [reflexivity|].
  cbn [map]. rewrite !list_sum_cons, rel_free_blocks, IH. reflexivity.
Qed.

Lemma owned_destroy_all : forall st, owned (slots (destroy_all st)) = 0.
Proof.
  intros st. unfold destroy_all, owned. cbn [slots]. induction (slots st) as [|h t IH]; [reflexivity|].
  cbn [map]. rewrite list_sum_cons, IH. reflexivity.
Qed.

(* every history of function operations: allocated = freed + owned; at scope exit nothing is live *)
Lemma no_block_leaked_f : forall n ops,
  let r := brun ops (init n) b0 in
  fst r = run fstep ops (init n) /\
  b_alloc (snd r) = b_free (snd r) + owned (slots (fst r)) /\
  live (snd r) = owned (slots (fst r)) /\
  live (bdestroy_all (fst r) (snd r)) = 0 /\
  b_alloc (bdestroy_all (fst r) (snd r)) = b_free (bdestroy_all (fst r) (snd r)).
Proof.
  intros n ops r. subst r.
  pose proof (brun_binv ops (init n) b0 (init_binv n)) as H. unfold binv in H.
  split; [apply brun_state|]. split; [exact H|].
  unfold live, bdestroy_all, charge. cbn [b_alloc b_free fst snd]. rewrite sum_rel_free. lia.
Qed.

(* ------------------------------------------------------------------ senders *)
Lemma s_copy1_blocks : forall s L, blocks (fst (s_copy1 s L)) = copy1_alloc s.
Proof. intros [|o|o|s] L; reflexivity. Qed.
Lemma s_copy_blocks : forall s L, blocks (fst (s_copy_assign s L)) = s_copy_alloc s.
Proof.
  intros [|o|o|s] L; try reflexivity. unfold s_copy_assign, s_copy_alloc.
  pose proof (s_copy1_blocks s L) as H. destruct (s_copy1 s L) as [c L1]. cbn [fst blocks] in *. lia.
Qed.

Lemma s_local1 : forall sbo op this L,
  match op with SStore _ _ _ _ | SReset _ | SConnectRv _ | SConnectLv _ => True | _ => False end ->
  balanced (s_eff1 sbo op this) (blocks this)
    (blocks (snd (fst (match op with
                       | SStore _ v mv ctor => w_store sbo v mv ctor this L
                       | SReset _ => w_reset this L
                       | SConnectRv _ => w_connect_rv sbo this L
                       | SConnectLv _ => w_connect_lv sbo this L
                       | _ => (ONone, this, L)
                       end)))).
Proof.
  intros sbo op this L Hop. unfold balanced.
  destruct op as [j v mv ctor| | | |j|j|j|]; try contradiction; clear Hop.
  - unfold s_eff1, w_store, s_store, fresh_obj, mk.
    destruct ctor, mv, (is_empty this); cbn [is_empty move_obj copy_obj ov fst snd];
      destruct (can_embed sbo v); cbn; lia.
  - unfold s_eff1, w_reset. cbn. lia.
  - unfold s_eff1, w_connect_rv, w_connect_rv1, s_move_assign, fresh_obj, move_obj.
    destruct this as [|o|o|s]; cbn [fst snd blocks nofx ov]; try lia.
    + destruct (connect_throws (ov o)); cbn [orb]; [cbn; lia|].
      destruct (can_embed sbo (opstate_of (ov o))); cbn; lia.
    + destruct (connect_throws (ov o)); cbn [orb]; [cbn; lia|].
      destruct (can_embed sbo (opstate_of (ov o))); cbn; lia.
    + destruct s as [|o|o|s]; cbn [fst snd blocks nofx ov]; try lia.
      * destruct (connect_throws (ov o)); cbn [orb]; [cbn; lia|].
        destruct (can_embed sbo (opstate_of (ov o))); cbn; lia.
      * destruct (connect_throws (ov o)); cbn [orb]; [cbn; lia|].
        destruct (can_embed sbo (opstate_of (ov o))); cbn; lia.
  - unfold s_eff1, w_connect_lv, w_connect_lv1, fresh_obj.
    destruct this as [|o|o|s]; cbn [fst snd blocks nofx ov]; try lia.
    + destruct (connect_throws (ov o)); cbn [orb]; [cbn; lia|].
      destruct (can_embed sbo (opstate_of (ov o))); cbn; lia.
    + destruct (connect_throws (ov o)); cbn [orb]; [cbn; lia|].
      destruct (can_embed sbo (opstate_of (ov o))); cbn; lia.
    + destruct s as [|o|o|s]; cbn; try lia;
        destruct (connect_throws (ov o)); cbn; try lia;
        destruct (can_embed sbo (opstate_of (ov o))); cbn; lia.
Qed.

Lemma s_local2 : forall op this other L,
  match op with SMove _ _ | SMoveFromAny _ _ | SCopy _ _ | SNest _ _ => True | _ => False end ->
  let r := match op with
           | SMove _ _ => w_move this other L
           | SMoveFromAny _ _ => w_move_from_any this other L
           | SCopy _ _ => w_copy this other L
           | SNest _ _ => w_nest this other L
           | _ => (ONone, this, other, L)
           end in
  balanced (s_eff2 op this other) (blocks this + blocks other)
           (blocks (snd (fst (fst r))) + blocks (snd (fst r))).
Proof.
  intros op this other L Hop. unfold balanced.
  destruct op as [|j i|j i|j i| | | |j i]; try contradiction; clear Hop; cbn zeta.
  - unfold s_eff2, w_move, s_move_assign, move_obj. destruct other as [|o|o|s]; cbn; lia.
  - unfold s_eff2, w_move_from_any, s_move_assign, move_obj. destruct other as [|o|o|s]; cbn; lia.
  - unfold s_eff2, w_copy.
    match goal with |- context [s_copy_assign other ?L1] =>
      pose proof (s_copy_blocks other L1) as H; destruct (s_copy_assign other L1) as [a L2] end.
    cbn [fst snd] in *. lia.
  - unfold s_eff2, w_nest, s_copy_assign, s_copy1, s_copy_alloc, copy1_alloc, copy_obj.
    destruct other as [|o|o|[|p|p|t]]; cbn; lia.
Qed.

Ltac step_sop1 :=
  match goal with |- context [op1 ?f ?jj ?st] =>
    let Hj := fresh "Hj" in let Ho := fresh "Ho" in let Hl := fresh "Hl" in
    destruct (in1 st jj) eqn:Hj; [| rewrite op1_out by exact Hj; cbn; lia];
    pose proof (op1_owned f jj st Hj) as Ho;
    match goal with |- context [s_eff1 ?sbo ?op _] => pose proof (s_local1 sbo op (slot (slots st) jj) (led st) I) as Hl end;
    unfold balanced in Hl; cbn beta iota in Hl; lia
  end.
Ltac step_sop2 :=
  match goal with |- context [op2 ?f ?jj ?ii ?st] =>
    let Hj := fresh "Hj" in let Ho := fresh "Ho" in let Hl := fresh "Hl" in
    destruct (in2 st jj ii) eqn:Hj; [| rewrite op2_out by exact Hj; cbn; lia];
    pose proof (op2_owned f jj ii st Hj) as Ho;
    match goal with |- context [s_eff2 ?op _ _] => pose proof (s_local2 op (slot (slots st) jj) (slot (slots st) ii) (led st) I) as Hl end;
    unfold balanced in Hl; cbn beta iota zeta in Hl; lia
  end.

Lemma sstep_binv : forall sbo op st b, binv st b -> binv (snd (sstep sbo op st)) (charge (s_eff sbo op st) b).
Proof.
  intros sbo op st b Hb. unfold binv in *. unfold charge; cbn [b_alloc b_free].
  destruct op as [j v mv ctor|j i|j i|j i|j|j|j|j i]; cbn [sstep s_eff]; first [step_sop1 | step_sop2].
Qed.
Lemma sbrun_binv : forall sbo ops st b, binv st b -> binv (fst (sbrun sbo ops st b)) (snd (sbrun sbo ops st b)).
Proof.
  induction ops as [|op r IH]; intros st b Hb; cbn [sbrun]; [exact Hb|].
  apply IH. apply sstep_binv. exact Hb.
Qed.
Lemma sbrun_state : forall sbo ops st b, fst (sbrun sbo ops st b) = run (sstep sbo) ops st.
Proof. induction ops as [|op r IH]; intros; cbn [sbrun run]; [reflexivity|apply IH]. Qed.

Lemma no_block_leaked_s : forall sbo n ops,
  let r := sbrun sbo ops (init n) b0 in
  fst r = run (sstep sbo) ops (init n) /\
  b_alloc (snd r) = b_free (snd r) + owned (slots (fst r)) /\
  live (snd r) = owned (slots (fst r)) /\
  live (bdestroy_all (fst r) (snd r)) = 0 /\
  b_alloc (bdestroy_all (fst r) (snd r)) = b_free (bdestroy_all (fst r) (snd r)).
Proof.
  intros sbo n ops r. subst r.
  pose proof (sbrun_binv sbo ops (init n) b0 (init_binv n)) as H. unfold binv in H.
  split; [apply sbrun_state|]. split; [exact H|].
  unfold live, bdestroy_all, charge. cbn [b_alloc b_free fst snd]. rewrite sum_rel_free. lia.
Qed.

(* ------------------------------------------------------------------ finding C18:FUNL:blocks_leaked *)
Definition big_copyable (k : Z) : oval :=
  {| vbig := true; vcpy := true; valn := false; vbeh := 0; vpay := k; vcalls := 0 |}.
Definition leak_witness : list gop :=
  [GF (FStore 1 (big_copyable 5) true true); GCopyCtorThrow 0 1; GStoreThrow 0 (big_copyable 6) true; GF (FInvoke 1 2)].

Lemma blocks_leaked_refuted :
  exists n ops, let r := gbrun ops (xinit n) b0 in
    fst (gblive ops (xinit n) b0) = [1; 2; 3; 3] /\          (* live blocks after each step *)
    owned (slots (xs (fst r))) = 1 /\                         (* the wrappers own ONE of them *)
    leaked_at_exit (xs (fst r)) (snd r) = 2 /\                (* two remain when every wrapper is gone *)
    (forall j, nth j (stale (fst r)) None = None) /\          (* every wrapper is consistent *)
    ctors (led (destroy_all (xs (fst r)))) = [2; 1; 0] /\ dtors (led (destroy_all (xs (fst r)))) = [1; 2; 0].
                                                              (* no OBJECT is leaked or destroyed twice *)
Proof.
  exists 2, leak_witness. vm_compute. repeat split. intros [|[|[|j]]]; reflexivity.
Qed.

(* small T: the same history leaks nothing *)
Lemma small_throwing_construction_no_leak : forall k k',
  let sm k := {| vbig := false; vcpy := true; valn := false; vbeh := 0; vpay := k; vcalls := 0 |} in
  let ops := [GF (FStore 1 (sm k) true true); GCopyCtorThrow 0 1; GStoreThrow 0 (sm k') true] in
  let r := gbrun ops (xinit 2) b0 in leaked_at_exit (xs (fst r)) (snd r) = 0.
Proof. intros. vm_compute. reflexivity. Qed.

(* ------------------------------------------------------------------ finding C18:FUN:misaligned *)
Lemma function_misaligned_refuted :
  allocate_tests_alignment = false /\ deallocate_tests_alignment = false /\
  exists size align, function_inline size = true /\ (function_buffer_alignment < align)%N /\
                     function_misplaced size align = true.
Proof. split; [reflexivity|]. split; [reflexivity|]. exists 16%N, 16%N. vm_compute. repeat split. Qed.
Lemma function_aligned_guarded : forall size align,
  (align <= function_buffer_alignment)%N -> function_misplaced size align = false.
Proof.
  intros size align H. unfold function_misplaced.
  destruct (function_buffer_alignment <? align)%N eqn:E; [apply N.ltb_lt in E; lia|].
  rewrite !andb_false_r. reflexivity.
Qed.

(* ------------------------------------------------------------------ the buffer sizes the class bits stand for.
   The histories use class bits (vbig); the harness's small test types are exactly 3 pointers (callables) and
   4 pointers (sender impls) large, its big ones 7 / 8 pointers: small sits ON the boundary of the regenerated
   buffer sizes, one byte more is on the other side. *)
Lemma storage_boundaries :
  function_storage_size = 24%N /\ function_inline 24 = true /\ function_inline 25 = false /\
  unique_any_sender_embedded_size = 32%N /\ any_sender_embedded_size = 32%N /\ operation_state_embedded_size = 64%N /\
  sbo_alignment_size = 8%N /\
  sender_embeds true KUnique 32 8 = true /\ sender_embeds true KUnique 33 8 = false /\
  sender_embeds true KAny 32 8 = true /\ sender_embeds true KAny 33 8 = false /\
  sender_embeds true KOpState 64 8 = true /\ sender_embeds true KOpState 65 8 = false.
Proof. vm_compute. repeat split. Qed.
