(* Proofs/ErasedSpecProofs.v — the wrapper model refines "a wrapper is an optional value of the
   wrapped type" (C18: transparency, moved-from, empty use, copies). *)
From Coq Require Import List Bool Arith ZArith NArith Lia Permutation.
From Pika Require Import Model.Erased Proofs.ErasedProofs.
Import ListNotations.

Definition absl (st : state) : list (option oval) := map abs (slots st).

Lemma nth_absl l j : nth j (map abs l) None = abs (nth j l Empty).
Proof. change None with (abs Empty). apply map_nth. Qed.

Lemma abs_none s : abs s = None -> s = Empty.
Proof. destruct s as [| | |[]]; cbn; congruence. Qed.

Lemma is_empty_abs s : is_empty s = is_none (abs s).
Proof. destruct s as [| | |[]]; reflexivity. Qed.

Definition ref1 (f : storage -> ledger -> outcome * storage * ledger)
  (g : option oval -> outcome * option oval) : Prop :=
  forall s L, match f s L with (r, s', _) => (r, abs s') = g (abs s) end.
Definition ref2 (f : storage -> storage -> ledger -> outcome * storage * storage * ledger)
  (g : option oval -> option oval -> option oval * option oval) : Prop :=
  forall a b L, match f a b L with (r, a', b', _) => r = ONone /\ (abs a', abs b') = g (abs a) (abs b) end.

Definition step_refines (r : outcome * state) (s : outcome * list (option oval)) : Prop :=
  fst r = fst s /\ absl (snd r) = snd s.

Lemma op1_ref f g j st : ref1 f g -> step_refines (op1 f j st) (sp1 g j (absl st)).
Proof.
  unfold step_refines, op1, sp1, absl, slot. intro R. rewrite map_length.
  destruct (j <? length (slots st)); [|split; reflexivity].
  rewrite nth_absl. specialize (R (nth j (slots st) Empty) (led st)).
  destruct (f (nth j (slots st) Empty) (led st)) as [[r s'] L'].
  destruct (g (abs (nth j (slots st) Empty))) as [r2 x]. inversion R; subst.
  cbn [fst snd slots]. split; [reflexivity|apply map_set_nth].
Qed.

Lemma op2_ref f g j i st : ref2 f g ->
  step_refines (op2 f j i st) (sp2 g j i (absl st)).
Proof.
  unfold step_refines, op2, sp2, absl, slot. intro R. rewrite map_length.
  destruct ((j <? length (slots st)) && (i <? length (slots st)) && negb (j =? i)); [|split; reflexivity].
  rewrite !nth_absl. specialize (R (nth j (slots st) Empty) (nth i (slots st) Empty) (led st)).
  destruct (f (nth j (slots st) Empty) (nth i (slots st) Empty) (led st)) as [[[r a'] b'] L'].
  destruct (g (abs (nth j (slots st) Empty)) (abs (nth i (slots st) Empty))) as [x y].
  destruct R as [-> R]. inversion R; subst.
  cbn [fst snd slots]. split; [reflexivity|]. rewrite !map_set_nth. reflexivity.
Qed.

Ltac ifs' :=
  repeat match goal with |- context [if ?c then _ else _] => destruct c end.

Ltac d2 s := destruct s as [| | |[]].

Lemma sstep_refines sbo op st : step_refines (sstep sbo op st) (sspec op (absl st)).
Proof.
  destruct op; cbn [sstep sspec]; first [apply op1_ref | apply op2_ref].
  - intros s L. unfold w_store, s_store, mk, move_obj, copy_obj, fresh_obj.
    destruct s, mv, ctor; cbn; ifs'; reflexivity.
  - intros a b L. unfold w_move, s_move_assign. destruct a; d2 b; cbn; auto.
  - intros a b L. unfold w_move_from_any, s_move_assign. destruct a; d2 b; cbn; auto.
  - intros a b L. unfold w_copy, s_copy_assign, s_copy1. destruct a; d2 b; cbn; auto.
  - intros s L. unfold w_reset. destruct s; reflexivity.
  - intros s L. unfold w_connect_rv, w_connect_rv1, s_move_assign, direct_connect. d2 s; cbn; ifs'; reflexivity.
  - intros s L. unfold w_connect_lv, w_connect_lv1, direct_connect. d2 s; cbn; ifs'; reflexivity.
  - intros a b L. unfold w_nest, s_copy_assign, s_copy1. destruct a; d2 b; cbn; auto.
Qed.

Lemma call_bad arg : call bad_val arg = (OThrewBad, bad_val).
Proof. reflexivity. Qed.

Lemma fstep_refines op st : step_refines (fstep op st) (fspec op (absl st)).
Proof.
  destruct op; cbn [fstep fspec]; first [apply op1_ref | apply op2_ref].
  - intros s L. unfold f_store, f_assign, fn_place, mk, move_obj, copy_obj, fresh_obj.
    destruct s, mv, ctor; cbn; ifs'; reflexivity.
  - intros a b L. unfold f_copy_ctor, f_clone, f_clone1, fn_place. destruct a; d2 b; cbn; ifs'; auto.
  - intros a b L. unfold f_move_ctor. destruct a; d2 b; cbn; auto.
  - intros a b L. unfold f_copy_assign, vptr_eq, f_clone, f_clone1, fn_place. destruct a; d2 b; cbn; ifs'; auto.
  - intros a b L. unfold f_move_assign. destruct a; d2 b; cbn; auto.
  - intros a b L. unfold f_swap. destruct a; d2 b; cbn; auto.
  - intros s L. unfold f_reset. destruct s; reflexivity.
  - intros s L. unfold f_invoke, f_invoke1. d2 s; cbn [abs]; rewrite ?call_bad; try reflexivity;
      destruct (call (ov o) arg); reflexivity.
  - intros s L. unfold f_store_fn, fn_place, mk, move_obj, copy_obj, fresh_obj.
    destruct s, inner_empty, mvi, mv; cbn; ifs'; reflexivity.
Qed.

Lemma trace_refines {Op} (step : Op -> state -> outcome * state) spec :
  (forall op st, step_refines (step op st) (spec op (absl st))) ->
  forall ops st, map obs (fst (trace step ops st)) = spec_trace spec ops (absl st).
Proof.
  intros R ops; induction ops as [|op r IH]; intro st; cbn [trace spec_trace]; [reflexivity|].
  specialize (R op st). destruct (step op st) as [o st']. destruct R as [R1 R2]. cbn [fst snd] in *.
  specialize (IH st'). destruct (trace step r st') as [t fin]. destruct (spec op (absl st)) as [o2 l'].
  cbn [fst snd] in *. subst. unfold obs at 1. cbn [fst snd map]. f_equal; [|exact IH].
  f_equal. unfold absl. rewrite map_map. apply map_ext. intro; apply is_empty_abs.
Qed.

Lemma absl_init n : absl (init n) = repeat None n.
Proof. unfold absl, init; cbn [slots]. induction n; cbn; congruence. Qed.

(* ---- erased_transparent *)
Theorem sender_transparent sbo n ops :
  map obs (fst (trace (sstep sbo) ops (init n))) = spec_trace sspec ops (repeat None n).
Proof. rewrite <- absl_init. apply trace_refines. apply sstep_refines. Qed.

Theorem function_transparent n ops :
  map obs (fst (trace fstep ops (init n))) = spec_trace fspec ops (repeat None n).
Proof. rewrite <- absl_init. apply trace_refines. apply fstep_refines. Qed.

Lemma sp1_at g j l : j < length l ->
  sp1 g j l = (fst (g (nth j l None)), set_nth j (snd (g (nth j l None))) l).
Proof.
  intro H. unfold sp1. destruct (Nat.ltb_spec j (length l)); [|lia]. destruct (g (nth j l None)); reflexivity.
Qed.

Lemma sp2_at g j i l : j < length l -> i < length l -> j <> i ->
  sp2 g j i l = (ONone, set_nth j (fst (g (nth j l None) (nth i l None)))
                          (set_nth i (snd (g (nth j l None) (nth i l None))) l)).
Proof.
  intros Hj Hi E. unfold sp2.
  destruct (Nat.ltb_spec j (length l)); [|lia]. destruct (Nat.ltb_spec i (length l)); [|lia].
  destruct (Nat.eqb_spec j i); [lia|]. cbn [andb negb]. destruct (g _ _); reflexivity.
Qed.

Lemma slot_abs st j : abs (slot (slots st) j) = nth j (absl st) None.
Proof. unfold slot, absl. symmetry; apply nth_absl. Qed.

(* connecting (and starting) a wrapper that holds a sender of value v completes exactly as
   connecting v itself; invoking a wrapper that holds callable v returns / throws what v does
   and leaves the updated callable in the wrapper *)
Theorem connect_transparent sbo st j v : j < length (slots st) -> abs (slot (slots st) j) = Some v ->
  fst (sstep sbo (SConnectRv j) st) = direct_connect v /\
  fst (sstep sbo (SConnectLv j) st) = direct_connect v /\
  abs (slot (slots (snd (sstep sbo (SConnectLv j) st))) j) = Some v.
Proof.
  intros Hj Hv. rewrite slot_abs in Hv.
  assert (Hl : j < length (absl st)) by (unfold absl; rewrite map_length; exact Hj).
  destruct (sstep_refines sbo (SConnectRv j) st) as [R1 _].
  destruct (sstep_refines sbo (SConnectLv j) st) as [R2 R3].
  cbn [sspec] in *. rewrite sp1_at in R1, R2, R3 by exact Hl. rewrite Hv in *. cbn [fst snd] in *.
  repeat split; auto. rewrite slot_abs, R3. apply nth_set_nth_eq; exact Hl.
Qed.

Theorem invoke_transparent st j v arg : j < length (slots st) -> abs (slot (slots st) j) = Some v ->
  fst (fstep (FInvoke j arg) st) = fst (call v arg) /\
  abs (slot (slots (snd (fstep (FInvoke j arg) st))) j) = Some (snd (call v arg)).
Proof.
  intros Hj Hv. rewrite slot_abs in Hv.
  assert (Hl : j < length (absl st)) by (unfold absl; rewrite map_length; exact Hj).
  destruct (fstep_refines (FInvoke j arg) st) as [R1 R2].
  cbn [fspec] in *. rewrite sp1_at in R1, R2 by exact Hl. rewrite Hv in *.
  destruct (call v arg) as [r v']. cbn [fst snd] in *.
  split; auto. rewrite slot_abs, R2. apply nth_set_nth_eq; exact Hl.
Qed.

(* ---- moved_from_empty *)
Definition is_move_s (op : sop) (j i : nat) : Prop := op = SMove j i \/ op = SMoveFromAny j i.
Definition is_move_f (op : fop) (j i : nat) : Prop := op = FMoveCtor j i \/ op = FMoveAssign j i.

Lemma absl_len st : length (absl st) = length (slots st).
Proof. unfold absl; apply map_length. Qed.

Theorem sender_moved_from_empty sbo st j i op : is_move_s op j i ->
  j < length (slots st) -> i < length (slots st) -> j <> i ->
  slot (slots (snd (sstep sbo op st))) i = Empty /\
  abs (slot (slots (snd (sstep sbo op st))) j) = abs (slot (slots st) i).
Proof.
  intros M Hj Hi E. destruct (sstep_refines sbo op st) as [_ R].
  assert (S2 : snd (sspec op (absl st)) = set_nth j (nth i (absl st) None) (set_nth i None (absl st))).
  { destruct M; subst op; cbn [sspec]; rewrite sp2_at by (rewrite ?absl_len; auto); reflexivity. }
  rewrite S2 in R. split.
  - apply abs_none. rewrite slot_abs, R. rewrite nth_set_nth_neq by auto.
    apply nth_set_nth_eq. rewrite absl_len; auto.
  - rewrite !slot_abs, R. apply nth_set_nth_eq. rewrite length_set_nth, absl_len; auto.
Qed.

Theorem function_moved_from_empty st j i op : is_move_f op j i ->
  j < length (slots st) -> i < length (slots st) -> j <> i ->
  slot (slots (snd (fstep op st))) i = Empty /\
  abs (slot (slots (snd (fstep op st))) j) = abs (slot (slots st) i).
Proof.
  intros M Hj Hi E. destruct (fstep_refines op st) as [_ R].
  assert (S2 : snd (fspec op (absl st)) = set_nth j (nth i (absl st) None) (set_nth i None (absl st))).
  { destruct M; subst op; cbn [fspec]; rewrite sp2_at by (rewrite ?absl_len; auto); reflexivity. }
  rewrite S2 in R. split.
  - apply abs_none. rewrite slot_abs, R. rewrite nth_set_nth_neq by auto.
    apply nth_set_nth_eq. rewrite absl_len; auto.
  - rewrite !slot_abs, R. apply nth_set_nth_eq. rewrite length_set_nth, absl_len; auto.
Qed.

(* r-value connect leaves the wrapper empty; default-constructed wrappers are empty *)
Theorem connect_rv_leaves_empty sbo st j : j < length (slots st) ->
  slot (slots (snd (sstep sbo (SConnectRv j) st))) j = Empty.
Proof.
  intro Hj. destruct (sstep_refines sbo (SConnectRv j) st) as [_ R]. cbn [sspec] in R.
  rewrite sp1_at in R by (rewrite absl_len; auto). cbn [fst snd] in R. apply abs_none. rewrite slot_abs, R.
  rewrite nth_set_nth_eq by (rewrite absl_len; auto). destruct (nth j (absl st) None); reflexivity.
Qed.

Theorem default_constructed_empty n j : slot (slots (init n)) j = Empty.
Proof.
  unfold slot, init; cbn [slots]. revert j; induction n; intros [|j]; cbn; auto.
Qed.

(* ---- empty_use_throws: the defined error, and nothing else happens *)
Lemma op1_noop f j st r : j < length (slots st) ->
  (forall L, f Empty L = (r, Empty, L)) -> slot (slots st) j = Empty -> op1 f j st = (r, st).
Proof.
  intros Hj Hf Hs. unfold op1. destruct (Nat.ltb_spec j (length (slots st))); [|lia].
  rewrite Hs, Hf. rewrite <- Hs. unfold slot. rewrite set_nth_same. destruct st; reflexivity.
Qed.

Theorem sender_empty_use_throws sbo st j : j < length (slots st) -> slot (slots st) j = Empty ->
  sstep sbo (SConnectRv j) st = (OThrewBad, st) /\ sstep sbo (SConnectLv j) st = (OThrewBad, st).
Proof. intros Hj Hs. split; cbn [sstep]; apply op1_noop; auto. Qed.

Theorem function_empty_use_throws st j arg : j < length (slots st) -> slot (slots st) j = Empty ->
  fstep (FInvoke j arg) st = (OThrewBad, st).
Proof. intros Hj Hs. cbn [fstep]; apply op1_noop; auto. Qed.

(* ---- copies_independent *)
Definition is_copy_s (op : sop) (j i : nat) : Prop := op = SCopy j i.
Definition is_copy_f (op : fop) (j i : nat) : Prop := op = FCopyCtor j i \/ op = FCopyAssign j i.

(* a copy holds an equal value and the source is unchanged ... *)
Theorem sender_copy_equal sbo st j i : j < length (slots st) -> i < length (slots st) -> j <> i ->
  let st' := snd (sstep sbo (SCopy j i) st) in
  abs (slot (slots st') j) = abs (slot (slots st) i) /\ slot (slots st') i = slot (slots st) i.
Proof.
  intros Hj Hi E. cbv zeta. destruct (sstep_refines sbo (SCopy j i) st) as [_ R]. cbn [sspec] in R.
  rewrite sp2_at in R by (rewrite ?absl_len; auto). cbn [fst snd] in R. split.
  - rewrite !slot_abs, R. apply nth_set_nth_eq. rewrite length_set_nth, absl_len; auto.
  - cbn [sstep]. unfold op2.
    destruct (Nat.ltb_spec j (length (slots st))); [|lia]. destruct (Nat.ltb_spec i (length (slots st))); [|lia].
    destruct (Nat.eqb_spec j i); [lia|]. cbn [andb negb]. unfold w_copy.
    destruct (s_copy_assign _ _) as [a L2]. cbn [snd slots]. unfold slot.
    rewrite nth_set_nth_neq by auto. apply nth_set_nth_eq; auto.
Qed.

Theorem function_copy_equal st j i op : is_copy_f op j i ->
  j < length (slots st) -> i < length (slots st) -> j <> i ->
  let st' := snd (fstep op st) in
  abs (slot (slots st') j) = abs (slot (slots st) i) /\ abs (slot (slots st') i) = abs (slot (slots st) i).
Proof.
  intros M Hj Hi E. cbv zeta. destruct (fstep_refines op st) as [_ R].
  assert (S2 : snd (fspec op (absl st)) =
               set_nth j (nth i (absl st) None) (set_nth i (nth i (absl st) None) (absl st))).
  { destruct M; subst op; cbn [fspec]; rewrite sp2_at by (rewrite ?absl_len; auto); reflexivity. }
  rewrite S2 in R. split; rewrite !slot_abs, R.
  - apply nth_set_nth_eq. rewrite length_set_nth, absl_len; auto.
  - rewrite nth_set_nth_neq by auto. apply nth_set_nth_eq. rewrite absl_len; auto.
Qed.

Lemma NoDup_app_l {A} (l l' : list A) : NoDup (l ++ l') -> NoDup l.
Proof.
  induction l as [|a t IH]; cbn; intro H; [constructor|]. inversion H; subst.
  constructor; [|auto]. intro; apply H2; apply in_or_app; auto.
Qed.

(* ... it is a different object: no two wrappers ever hold the same object ... *)
Theorem no_sharing_s sbo n ops : NoDup (ids (slots (run (sstep sbo) ops (init n)))).
Proof.
  destruct (sender_destroyed_once sbo n ops) as [[_ [H _]] _]. eapply NoDup_app_l; exact H.
Qed.
Theorem no_sharing_f n ops : NoDup (ids (slots (run fstep ops (init n)))).
Proof.
  destruct (function_destroyed_once n ops) as [[_ [H _]] _]. eapply NoDup_app_l; exact H.
Qed.

(* ... and operations on other wrappers never touch a wrapper they do not name *)
Lemma op1_frame f j st k : k <> j -> slot (slots (snd (op1 f j st))) k = slot (slots st) k.
Proof.
  intro E. unfold op1. destruct (j <? length (slots st)); [|reflexivity].
  destruct (f _ _) as [[r s'] L']. cbn [snd slots]. unfold slot. apply nth_set_nth_neq; auto.
Qed.
Lemma op2_frame f j i st k : k <> j -> k <> i -> slot (slots (snd (op2 f j i st))) k = slot (slots st) k.
Proof.
  intros E1 E2. unfold op2. destruct (_ && _); [|reflexivity].
  destruct (f _ _ _) as [[[r a'] b'] L']. cbn [snd slots]. unfold slot.
  rewrite !nth_set_nth_neq; auto.
Qed.

Theorem sender_frame sbo op st k : ~ In k (sop_slots op) ->
  slot (slots (snd (sstep sbo op st))) k = slot (slots st) k.
Proof.
  intro H. destruct op; cbn [sstep sop_slots In] in *;
    first [apply op1_frame; intuition congruence | apply op2_frame; intuition congruence].
Qed.
Theorem function_frame op st k : ~ In k (fop_slots op) ->
  slot (slots (snd (fstep op st))) k = slot (slots st) k.
Proof.
  intro H. destruct op; cbn [fstep fop_slots In] in *;
    first [apply op1_frame; intuition congruence | apply op2_frame; intuition congruence].
Qed.

(* self-assignment and self-swap change nothing *)
Theorem self_assign_noop sbo st j :
  sstep sbo (SMove j j) st = (ONone, st) /\ sstep sbo (SCopy j j) st = (ONone, st) /\
  fstep (FCopyAssign j j) st = (ONone, st) /\ fstep (FMoveAssign j j) st = (ONone, st) /\
  fstep (FSwap j j) st = (ONone, st).
Proof.
  cbn [sstep fstep]. unfold op2. rewrite Nat.eqb_refl, !andb_false_r. repeat split.
Qed.

