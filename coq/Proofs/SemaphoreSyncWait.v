(* Proofs/SemaphoreSyncWait.v — the binary-semaphore instance used by sync_wait
   (execution/algorithms/sync_wait.hpp: shared_state{ binary_semaphore<> sem{0} }; the waiter calls
   sem.acquire(), the receiver's set_* calls sem.release(); the state lives on the waiter's stack
   and dies when acquire() has returned).  Thread x runs [Acquire 1], thread y runs [Release 1],
   every other thread only delivers stale resumes (weak agent contract); both agent kinds. *)
From Coq Require Import List ZArith Bool Arith Lia.
From Pika Require Import Base.Conc Base.Agent Model.Semaphore Proofs.SemaphoreProofs Proofs.SemaphoreProgress.
Import ListNotations.
Local Open Scope Z_scope.

Definition is_stale (o : sop) : Prop := match o with StaleResume _ => True | _ => False end.
Definition xlog (x : nat) (g : sem_g) : list sev := filter (fun e => Nat.eqb (ev_tid e) x) (slog g).
Definition good_ev (e : sev) : Prop :=
  ev_op e = Acquire 1 /\ ev_res e = true /\ ev_taken e = 1 /\ ev_avail e = 1 /\ ev_sig_active e = false.

Definition nums (g : sem_g) (rel acq val : Z) (q p : list nat) (h : option nat) (s : list (nat * Z)) : Prop :=
  released g = rel /\ acquired g = acq /\ value g = val /\ queue g = q /\ popped g = p /\ holder g = h /\ sigl g = s.
Definition mk (td : list sop) (p : spc) : sem_l := {| todo := td; pc := p |}.
Definition xwait (l : sem_l) : Prop := todo l = [Acquire 1] /\ (pc l = Susp (CAcq 1) \/ pc l = Blk (CAcq 1)).

Definition SWph (x y : nat) (g : sem_g) (lx ly : sem_l) : Prop :=
  (nums g 0 0 0 [] [] None [] /\ ly = mk [Release 1] Idle /\ lx = mk [Acquire 1] Idle /\ xlog x g = []) \/
  (nums g 0 0 0 [x] [] None [] /\ ly = mk [Release 1] Idle /\ xwait lx /\ xlog x g = []) \/
  (nums g 1 0 1 [] [x] (Some y) [(y, 0)] /\ ly = mk [Release 1] (ResWait x true 0) /\ xwait lx /\ xlog x g = []) \/
  (nums g 1 0 1 [] [] None [] /\ ly = mk [] Idle /\ lx = mk [Acquire 1] Idle /\ xlog x g = []) \/
  (nums g 1 0 1 [] [x] None [] /\ ly = mk [] Idle /\ xwait lx /\ xlog x g = []) \/
  (nums g 1 1 0 [] [] None [] /\ ly = mk [] Idle /\ lx = mk [] Idle /\ exists e, xlog x g = [e] /\ good_ev e).

Definition SW (x y : nat) (g : sem_g) (ls : nat -> sem_l) : Prop :=
  x <> y /\ (forall t, t <> x -> t <> y -> pc (ls t) = Idle /\ Forall is_stale (todo (ls t))) /\
  SWph x y g (ls x) (ls y).

Ltac sw_pick :=
  unfold SWph, nums, xwait, mk, good_ev, xlog; cbn; rewrite ?Nat.eqb_refl;
  repeat match goal with H : (_ =? _)%nat = false |- _ => rewrite ?H end;
  repeat match goal with H : filter _ _ = [] |- _ => rewrite ?H end; cbn;
  first [ left; repeat split; (reflexivity || (eauto; fail))
        | right; left; repeat split; (reflexivity || (eauto; fail))
        | right; right; left; repeat split; (reflexivity || (eauto; fail))
        | right; right; right; left; repeat split; (reflexivity || (eauto; fail))
        | right; right; right; right; left; repeat split; (reflexivity || (eauto; fail))
        | right; right; right; right; right; repeat split; try reflexivity; (assumption || (eexists; repeat split; reflexivity)) ].

Lemma SWph_x kind o x y g lx ly : x <> y -> SWph x y g lx ly ->
  SWph x y (fst (sem_tstep kind o x g lx)) (snd (sem_tstep kind o x g lx)) ly.
Proof.
  intros Hxy H. assert (Eyx : Nat.eqb y x = false) by (apply Nat.eqb_neq; auto).
  destruct g as [v lo mdd q h a ac rl p s lg]. destruct lx as [td pcx]. unfold SWph, nums, xwait, mk, xlog in H. cbn in H.
  decompose [and or] H; clear H; subst; try discriminate;
    repeat match goal with H : mk _ _ = mk _ _ |- _ => injection H as ? ?; subst
                      | H : {| todo := _; pc := _ |} = _ |- _ => injection H as ? ?; subst end;
    unfold sem_tstep, wait_or_take, is_free, arrive, enqueue, mem; cbn; rewrite ?Nat.eqb_refl; cbn;
    try destruct o; try destruct (blocked (a x)); cbn; rewrite ?Nat.eqb_refl; cbn; sw_pick.
Qed.

Lemma SWph_y kind o x y g lx ly : x <> y -> SWph x y g lx ly ->
  SWph x y (fst (sem_tstep kind o y g ly)) lx (snd (sem_tstep kind o y g ly)).
Proof.
  intros Hxy H. assert (Eyx : Nat.eqb y x = false) by (apply Nat.eqb_neq; auto).
  destruct g as [v lo mdd q h a ac rl p s lg]. destruct ly as [td pcy]. unfold SWph, nums, xwait, mk, xlog in H. cbn in H.
  decompose [and or] H; clear H; subst; try discriminate;
    repeat match goal with H : mk _ _ = mk _ _ |- _ => injection H as ? ?; subst
                      | H : {| todo := _; pc := _ |} = _ |- _ => injection H as ? ?; subst end;
    unfold sem_tstep, notify, after_resume, finish_sig, is_free; cbn;
    try destruct (kind x); try destruct (blocked (a x)); cbn; rewrite ?Nat.eqb_refl; cbn; sw_pick.
Qed.

Lemma SWph_ag x y g lx ly a' : SWph x y g lx ly -> SWph x y (set_ag g a') lx ly.
Proof. destruct g. unfold SWph, nums, xlog. cbn. exact (fun H => H). Qed.

Lemma SW_step kind o t x y g ls : SW x y g ls ->
  SW x y (fst (sem_tstep kind o t g (ls t))) (upd ls t (snd (sem_tstep kind o t g (ls t)))).
Proof.
  intros (Hxy & Ho & Hp). split; [exact Hxy|].
  destruct (Nat.eq_dec t x) as [->|Nx]; [|destruct (Nat.eq_dec t y) as [->|Ny]].
  - split.
    + intros t Hx Hy. rewrite upd_neq by auto. now apply Ho.
    + rewrite upd_eq, upd_neq by auto. now apply SWph_x.
  - split.
    + intros t Hx Hy. rewrite upd_neq by auto. now apply Ho.
    + rewrite upd_eq, upd_neq by auto. now apply SWph_y.
  - destruct (Ho t Nx Ny) as [Hpc Hst]. unfold sem_tstep. rewrite Hpc.
    destruct (todo (ls t)) as [|op rest] eqn:Htd.
    + cbn [fst snd]. split.
      * intros u Hx Hy. destruct (Nat.eq_dec u t) as [->|N]; [rewrite upd_eq|rewrite upd_neq by auto]; auto.
      * rewrite !upd_neq by auto. exact Hp.
    + inversion Hst as [|? ? Hop Hrest]; subst. destruct op; cbn in Hop; try contradiction. cbn [fst snd]. split.
      * intros u Hx Hy. destruct (Nat.eq_dec u t) as [->|N]; [rewrite upd_eq|rewrite upd_neq by auto]; auto.
        cbn. rewrite Htd. cbn. auto.
      * rewrite !upd_neq by auto. destruct (kind w); [now apply SWph_ag|exact Hp].
Qed.

Definition sync_wait_progs (x y : nat) (progs : nat -> list sop) : Prop :=
  x <> y /\ progs x = [Acquire 1] /\ progs y = [Release 1] /\
  forall t, t <> x -> t <> y -> Forall is_stale (progs t).

Lemma SW_init x y lo md progs : sync_wait_progs x y progs -> SW x y (sem_init 0 lo md) (sem_locals progs).
Proof.
  intros (Hxy & Hx & Hy & Ho). split; [exact Hxy|]. split.
  - intros t H1 H2. split; [reflexivity|]. cbn. now apply Ho.
  - left. unfold sem_locals, nums, mk, xlog. cbn. rewrite Hx, Hy. repeat split; reflexivity.
Qed.

Lemma SW_run kind sched lo md x y progs : sync_wait_progs x y progs ->
  let c := sem_run kind sched 0 lo md progs in SW x y (fst c) (snd c).
Proof.
  intros H. cbv zeta. unfold sem_run. apply (run_inv _ _ _ (sem_tstep kind) (SW x y)).
  - intros o t g ls. apply SW_step.
  - now apply SW_init.
Qed.

Lemma sync_wait_pub x y progs : sync_wait_progs x y progs -> pub_progs progs /\ forall kind, os_untimed kind progs.
Proof.
  intros (Hxy & Hx & Hy & Ho). split.
  - intros t. destruct (Nat.eq_dec t x) as [->|Nx]; [rewrite Hx; repeat constructor|].
    destruct (Nat.eq_dec t y) as [->|Ny]; [rewrite Hy; repeat constructor; cbn; lia|].
    eapply Forall_impl; [|apply (Ho t Nx Ny)]. intros o. destruct o; cbn; tauto.
  - intros kind t _. destruct (Nat.eq_dec t x) as [->|Nx]; [rewrite Hx; repeat constructor|].
    destruct (Nat.eq_dec t y) as [->|Ny]; [rewrite Hy; repeat constructor|].
    eapply Forall_impl; [|apply (Ho t Nx Ny)]. intros o. destruct o; cbn; tauto.
Qed.

(* sync_wait's semaphore: the waiter's acquire() returns exactly once (its log has no entry while it
   is pending and exactly one afterwards), only after the release (released = 1, the permit it
   consumed is that one), and when it has returned the releasing side has finished every access:
   release() ran a single critical section (it never re-locks: pc y is Idle, or it still holds the
   lock inside default_agent::resume, where the waiter cannot return), no signal is in progress
   (ev_sig_active = false, sigl = [], lock free) and every further step of y is a stutter — so the
   waiter may destroy the shared state.  In a stuck state both calls have returned. *)
Theorem sync_wait_returns_once kind sched lo md x y progs : sync_wait_progs x y progs ->
  let c := sem_run kind sched 0 lo md progs in
  ((xlog x (fst c) = [] /\ todo (snd c x) = [Acquire 1]) \/
   (exists e, xlog x (fst c) = [e] /\ good_ev e /\ finished (snd c x) /\
              released (fst c) = 1 /\ acquired (fst c) = 1 /\ value (fst c) = 0 /\
              finished (snd c y) /\ holder (fst c) = None /\ sigl (fst c) = [] /\ queue (fst c) = [] /\
              forall o, sem_tstep kind o y (fst c) (snd c y) = (fst c, snd c y))) /\
  (pc (snd c y) = Idle \/ pc (snd c y) = ResWait x true 0) /\
  (stuck kind (fst c) (snd c) -> finished (snd c x) /\ finished (snd c y)).
Proof.
  intros Hsw c. pose proof (SW_run kind sched lo md x y progs Hsw) as HS. fold c in HS.
  destruct (sync_wait_pub x y progs Hsw) as [Hpub Hos].
  pose proof (no_blocked_with_permits kind sched 0 lo md progs ltac:(lia) Hpub (Hos kind)) as Hnb. fold c in Hnb.
  destruct HS as (Hxy & Ho & Hp). unfold SWph, nums, xwait, mk in Hp.
  split; [|split].
  - decompose [and or] Hp; clear Hp;
      try (left; split; [assumption|]; match goal with H : snd c x = _ |- _ => rewrite H; reflexivity | _ => assumption end).
    right. match goal with H : exists e, _ |- _ => destruct H as [e [He Hg]] end. exists e.
    match goal with H : snd c x = _ |- _ => rename H into Hx end.
    match goal with H : snd c y = _ |- _ => rename H into Hy end.
    destruct Hg as (G1 & G2 & G3 & G4 & G5). unfold good_ev.
    repeat split; try assumption; try (rewrite Hx; reflexivity); try (rewrite Hy; reflexivity);
      try (intros o; rewrite Hy; reflexivity).
  - decompose [and or] Hp; clear Hp; match goal with H : snd c y = _ |- _ => rewrite H end; cbn; auto.
  - intros St. destruct (Hnb St) as (_ & Hsh & _).
    pose proof (Hsh x) as Sx. pose proof (Hsh y) as Sy. unfold finished in *.
    decompose [and or] Hp; clear Hp;
      repeat match goal with H : snd c x = _ |- _ => rewrite H in * | H : snd c y = _ |- _ => rewrite H in * end;
      cbn in *; try (split; split; reflexivity);
      exfalso; decompose [and or] Sx; decompose [and or] Sy; try discriminate; try congruence; try lia.
Qed.

(* non-vacuity: waiter 0 (pika task), signaller 1, thread 2 delivers a stale resume to the waiter
   while it is suspended (spurious wake-up: it re-tests, finds 0 permits and suspends again) *)
Definition sw_progs (t : nat) : list sop :=
  match t with 0%nat => [Acquire 1] | 1%nat => [Release 1] | 2%nat => [StaleResume 0] | _ => [] end.

Lemma sync_wait_example :
  sync_wait_progs 0 1 sw_progs /\
  let c := sem_run all_task [(0,false);(0,false);(2,false);(0,false);(0,false);(1,false);(0,false)]%nat 0 0 0 sw_progs in
  stuck all_task (fst c) (snd c) /\ finished (snd c 0%nat) /\ finished (snd c 1%nat) /\
  map ev_tid (slog (fst c)) = [0; 1]%nat /\ map ev_sig_active (slog (fst c)) = [false; false] /\ value (fst c) = 0.
Proof.
  split.
  - split; [discriminate|]. split; [reflexivity|]. split; [reflexivity|].
    intros t H0 H1. destruct t as [|[|[|t]]]; try congruence; cbn; repeat constructor.
  - cbv zeta. set (c := sem_run all_task _ 0 0 0 sw_progs). vm_compute in c. subst c. cbn [fst snd].
    split; [|repeat split; reflexivity].
    intros t o. destruct t as [|[|[|t]]]; destruct o; vm_compute; reflexivity.
Qed.
