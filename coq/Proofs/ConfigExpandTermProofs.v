(* C16 - the two statements about the transcription of ini.cpp's ${..} / $[..] expansion that round w11a
   left open (Model/Config.v: scan, step, brace_body, bracket_body, rescan_tail, xp_all, xp_only, read_x):

   1. termination bound: when no text that can be substituted (environment value, stored entry) contains
      a '$', the number of '$' never grows and (number of '$') + 1 levels of fuel suffice;
   2. guarded result theorem: when moreover neither the values nor the text contain a backslash and no '$'
      of the text is directly followed by '$', '}' or ']', the result of section::expand is INERT: every
      '$' left in it is followed by an ordinary character, or stands at the end, or opens a `${` / `$[`
      that has no closing delimiter behind it - no placeholder is left, and the result is a fixpoint of
      every further expansion. *)
From Coq Require Import String Ascii List NArith Bool Lia.
From Pika Require Import Gen.GenIni Model.Config Proofs.ConfigExpandProofs.
Import ListNotations.
Open Scope string_scope.

(* ------------------------------------------------------------------ find_next *)
Lemma str_ind2 (P : string -> Prop) :
  P EmptyString -> (forall d, P (String d EmptyString)) ->
  (forall d e r, P r -> P (String e r) -> P (String d (String e r))) -> forall s, P s.
Proof.
  intros H0 H1 H2. assert (A : forall s, P s /\ forall d, P (String d s)).
  { induction s as [|e r [IH1 IH2]]; [split; [exact H0|exact H1]|].
    split; [apply IH2|]. intros d. apply H2; [exact IH1|apply IH2]. }
  intros s. apply A.
Qed.

Lemma find_next_eq c d r : find_next c (String d r) =
  if aeqb d c then FFound EmptyString r
  else match r with
       | String e r' =>
           if aeqb d c_bs && aeqb e c
           then match find_next c r' with FFound a b => FFound (String e a) b | FNone t => FNone (String e t) end
           else match find_next c r with FFound a b => FFound (String d a) b | FNone t => FNone (String d t) end
       | EmptyString => FNone (String d EmptyString)
       end.
Proof. destruct r; reflexivity. Qed.

(* find_next removes backslashes and the delimiter, never a '$' *)
Definition fn_dollars (res : fnres) : nat :=
  match res with FFound a b => dollars a + dollars b | FNone t => dollars t end.

Lemma find_next_dollars c : aeqb c c_dollar = false -> forall s, fn_dollars (find_next c s) = dollars s.
Proof.
  intros Hc. apply str_ind2.
  - reflexivity.
  - intros d. rewrite find_next_eq. destruct (aeqb d c) eqn:E; [|reflexivity].
    apply aeqb_eq in E. subst d. cbn [fn_dollars dollars]. rewrite Hc. reflexivity.
  - intros d e r IH1 IH2. rewrite find_next_eq. destruct (aeqb d c) eqn:E.
    + apply aeqb_eq in E. subst d. cbn [fn_dollars dollars]. rewrite Hc. reflexivity.
    + destruct (aeqb d c_bs && aeqb e c) eqn:E2.
      * apply andb_true_iff in E2. destruct E2 as [Ed Ee]. apply aeqb_eq in Ed, Ee. subst d e.
        destruct (find_next c r) as [a b|t]; cbn [fn_dollars dollars] in *; rewrite Hc;
          change (aeqb c_bs c_dollar) with false; cbv iota; lia.
      * destruct (find_next c (String e r)) as [a b|t]; cbn [fn_dollars] in *; cbn [dollars] in *; lia.
Qed.

Lemma find_next_absent c : forall s, contains c s = false -> find_next c s = FNone s.
Proof.
  apply (str_ind2 (fun s => contains c s = false -> find_next c s = FNone s)).
  - reflexivity.
  - intros d H. rewrite find_next_eq. cbn [contains] in H. apply orb_false_iff in H. destruct H as [H _].
    rewrite aeqb_sym, H. reflexivity.
  - intros d e r IH1 IH2 H. rewrite find_next_eq. cbn [contains] in H. apply orb_false_iff in H.
    destruct H as [H1 H2]. apply orb_false_iff in H2. destruct H2 as [H2 H3].
    rewrite (aeqb_sym d c), H1. rewrite (aeqb_sym e c), H2, andb_false_r. rewrite IH2; [reflexivity|].
    cbn [contains]. now rewrite H2, H3.
Qed.

(* without backslash find_next is a plain search *)
Lemma find_next_nobs c s : contains c_bs s = false ->
  (contains c s = false /\ find_next c s = FNone s) \/
  (exists a b, s = a ++ String c b /\ contains c a = false /\ find_next c s = FFound a b).
Proof.
  intros Hb. destruct (split_at c s) as [[a b]|] eqn:Es.
  - right. destruct (split_at_some _ _ _ _ Es) as [-> Ha]. exists a, b. split; [reflexivity|split; [exact Ha|]].
    apply find_next_plain; [exact Ha|]. rewrite contains_app in Hb. apply orb_false_iff in Hb. tauto.
  - left. pose proof (split_at_none _ _ Es). split; [assumption|now apply find_next_absent].
Qed.

Lemma assoc_in' : forall k l v, assoc k l = Some v -> In (k, v) l.
Proof.
  induction l as [|[a b] r IH]; cbn; intros v H; [discriminate|].
  destruct (String.eqb a k) eqn:E.
  - apply String.eqb_eq in E. inversion H; subst. now left.
  - right. now apply IH.
Qed.
Lemma getenv_in env k v : getenv env k = Some v -> In (k, v) env.
Proof. unfold getenv. destruct k; [discriminate|]. apply assoc_in'. Qed.

(* ------------------------------------------------------------------ 1. termination bound *)
(* what a user can check about the environment: no value contains a dollar sign *)
Definition env_no_dollar (env : list (string * string)) : bool :=
  forallb (fun kv => negb (contains c_dollar (snd kv))) env.
Definition look_no_dollar (look : string -> option string) : Prop :=
  forall k v, look k = Some v -> contains c_dollar v = false.

Section Term.
  Variable env : list (string * string).
  Variable look : string -> option string.
  Hypothesis Henv : forall k v, getenv env k = Some v -> dollars v = 0.
  Hypothesis Hlook : forall k v, look k = Some v -> dollars v = 0.

  (* E ends on every text with fewer than n dollar signs and does not add any *)
  Definition okd (E : string -> xres) (n : nat) : Prop :=
    forall t, dollars t < n -> exists r, E t = XOk r /\ dollars r <= dollars t.

  Lemma dollars_tail b t : dollars t <= dollars (String b t).
  Proof. cbn [dollars]. lia. Qed.
  Lemma dollars_cons_other c r : aeqb c c_dollar = false -> dollars (String c r) = dollars r.
  Proof. intros H. cbn [dollars]. rewrite H. reflexivity. Qed.
  Lemma dollars_cons_dollar r : dollars (String c_dollar r) = S (dollars r).
  Proof. cbn [dollars]. rewrite aeqb_refl. reflexivity. Qed.
  Lemma dollars_cons_mono a x y : dollars x <= dollars y -> dollars (String a x) <= dollars (String a y).
  Proof. cbn [dollars]. lia. Qed.

  (* what stands at the '$' after one loop body: at most the dollars behind it, or the '$' itself
     followed by at most those *)
  Definition step_good (t u : string) : Prop :=
    dollars u <= dollars t \/ exists u1, u = String c_dollar u1 /\ dollars u1 <= dollars t.

  Lemma step_term only Eall Erec n t : okd Eall n -> okd Erec n -> dollars t < n ->
    exists u, step env look only Eall Erec t = XOk u /\ step_good t u.
  Proof.
    intros HA HR Hn. unfold step.
    destruct t as [|b t'].
    { eexists; split; [reflexivity|]. right. eexists; split; [reflexivity|]. cbn [dollars]. lia. }
    pose proof (dollars_tail b t') as Ht.
    destruct (aeqb b c_lbrack).
    - unfold bracket_body. destruct (HR t') as [r [Er Hr]]; [lia|]. rewrite Er. cbn [xbind]. cbv zeta.
      pose proof (find_next_dollars c_rbrack eq_refl r) as Hf.
      destruct (find_next c_rbrack r) as [inside after|r']; cbn [fn_dollars] in Hf.
      2:{ eexists; split; [reflexivity|]. right. eexists; split; [reflexivity|].
          rewrite (dollars_cons_other c_lbrack) by reflexivity. lia. }
      pose proof (find_next_dollars c_colon eq_refl inside) as Hc. unfold split_colon.
      assert (KEEP : step_good (String b t') (String c_dollar (String c_lbrack (inside ++ String c_rbrack after)))).
      { right. eexists; split; [reflexivity|]. rewrite (dollars_cons_other c_lbrack) by reflexivity.
        rewrite dollars_app. rewrite (dollars_cons_other c_rbrack) by reflexivity. lia. }
      assert (GE : forall name dflt, dollars dflt <= dollars inside ->
                exists u, xmap (fun v => v ++ after) (get_entry look Eall name dflt) = XOk u /\
                          step_good (String b t') u).
      { intros name dflt Hd. unfold get_entry.
        assert (Harg : dollars (match look name with Some v => v | None => dflt end) <= dollars inside).
        { destruct (look name) as [v|] eqn:El; [rewrite (Hlook _ _ El); lia|exact Hd]. }
        destruct (HA (match look name with Some v => v | None => dflt end)) as [v' [Ev Hv]]; [lia|].
        rewrite Ev. cbn [xmap xbind]. eexists; split; [reflexivity|]. left. rewrite dollars_app. lia. }
      destruct (find_next c_colon inside) as [name dflt|name]; cbn [fn_dollars] in Hc.
      + destruct (mine only name); [apply GE; lia|eexists; split; [reflexivity|exact KEEP]].
      + destruct (mine only name); [apply GE; change (dollars EmptyString) with 0; lia|eexists; split; [reflexivity|exact KEEP]].
    - destruct (aeqb b c_lbrace).
      + unfold brace_body. destruct (HR t') as [r [Er Hr]]; [lia|]. rewrite Er. cbn [xbind].
        pose proof (find_next_dollars c_rbrace eq_refl r) as Hf.
        destruct (find_next c_rbrace r) as [inside after|r']; cbn [fn_dollars] in Hf.
        2:{ eexists; split; [reflexivity|]. right. eexists; split; [reflexivity|].
            rewrite (dollars_cons_other c_lbrace) by reflexivity. lia. }
        pose proof (find_next_dollars c_colon eq_refl inside) as Hc. unfold split_colon.
        destruct (find_next c_colon inside) as [name dflt|name]; cbn [fn_dollars] in Hc;
          (eexists; split; [reflexivity|]; left; rewrite dollars_app;
           destruct (getenv env name) as [v|] eqn:Eg; [rewrite (Henv _ _ Eg)|];
           change (dollars EmptyString) with 0; lia).
      + eexists; split; [reflexivity|]. right. eexists; split; [reflexivity|lia].
  Qed.

  Lemma scan_term only Eall Erec n : okd Eall n -> okd Erec n ->
    forall s, dollars s <= n ->
      exists r, scan env look only Eall Erec s = XOk r /\ dollars r <= dollars s.
  Proof.
    intros HA HR s Hs. unfold scan.
    destruct (split_at c_dollar s) as [[pre t]|] eqn:Es; [|eexists; split; [reflexivity|lia]].
    destruct t as [|b t']; [eexists; split; [reflexivity|lia]|].
    destruct (split_at_some _ _ _ _ Es) as [-> Hpre].
    rewrite dollars_app in *. rewrite (no_dollar_count _ Hpre) in *.
    assert (Hd : dollars (String c_dollar (String b t')) = S (dollars (String b t'))).
    { cbn [dollars]. rewrite aeqb_refl. reflexivity. }
    rewrite Hd in *.
    destruct (step_term only Eall Erec n (String b t') HA HR) as [u [Eu Hu]]; [lia|].
    unfold at_dollar. rewrite Eu. cbn [xbind].
    destruct u as [|a u1].
    - cbn [rescan_tail xmap xbind]. eexists; split; [reflexivity|]. rewrite dollars_app, (no_dollar_count _ Hpre).
      change (dollars EmptyString) with 0. lia.
    - cbn [rescan_tail].
      assert (B : dollars u1 <= dollars (String b t') /\ dollars (String a u1) <= S (dollars (String b t'))).
      { destruct Hu as [Hu|[u1' [Eq Hu]]].
        - pose proof (dollars_tail a u1). lia.
        - injection Eq as -> ->. rewrite dollars_cons_dollar. lia. }
      destruct B as [B1 B2].
      destruct (HR u1) as [x [Ex Hx]]; [lia|]. rewrite Ex. cbn [xmap xbind]. eexists; split; [reflexivity|].
      rewrite dollars_app, (no_dollar_count _ Hpre). pose proof (dollars_cons_mono a _ _ Hx). lia.
  Qed.

  Lemma xp_all_term : forall fuel, okd (xp_all env look fuel) fuel.
  Proof.
    induction fuel as [|f IH]; intros t Ht; [lia|]. rewrite xp_all_S.
    apply scan_term with (n := f); [exact IH|exact IH|lia].
  Qed.
  Lemma xp_only_term k : forall fuel, okd (fun s => xp_only env look fuel k s) fuel.
  Proof.
    induction fuel as [|f IH]; intros t Ht; [lia|]. rewrite xp_only_S.
    apply scan_term with (n := f); [apply xp_all_term|exact IH|lia].
  Qed.
  Lemma read_x_term k s : dollars s < xfuel ->
    exists r, read_x env look k s = XOk r /\ dollars r <= dollars s.
  Proof.
    intros H. unfold read_x, stored_x. destruct (xp_only_term k xfuel s H) as [r1 [E1 H1]].
    cbv beta in E1. rewrite E1. cbn [xbind].
    destruct (xp_all_term xfuel r1) as [r [E2 H2]]; [lia|]. exists r. split; [exact E2|lia].
  Qed.
End Term.

Lemma env_no_dollar_getenv env : env_no_dollar env = true ->
  forall k v, getenv env k = Some v -> dollars v = 0.
Proof.
  intros H k v E. apply getenv_in in E. unfold env_no_dollar in H. rewrite forallb_forall in H.
  specialize (H _ E). cbn [snd] in H. apply negb_true_iff in H. now apply no_dollar_count.
Qed.

Theorem expand_terminates_plain_values env look :
  env_no_dollar env = true -> look_no_dollar look ->
  forall fuel k s, dollars s < fuel ->
    (exists r, xp_all env look fuel s = XOk r /\ dollars r <= dollars s) /\
    (exists r, xp_only env look fuel k s = XOk r /\ dollars r <= dollars s) /\
    (fuel <= xfuel -> exists r, read_x env look k s = XOk r /\ dollars r <= dollars s).
Proof.
  intros He Hl fuel k s Hs.
  pose proof (env_no_dollar_getenv env He) as Henv.
  assert (Hlook : forall k v, look k = Some v -> dollars v = 0).
  { intros k' v E. apply no_dollar_count. exact (Hl _ _ E). }
  split; [|split].
  - exact (xp_all_term env look Henv Hlook fuel s Hs).
  - exact (xp_only_term env look Henv Hlook k fuel s Hs).
  - intros Hf. apply (read_x_term env look Henv Hlook). lia.
Qed.

Corollary expand_never_out_of_fuel env look :
  env_no_dollar env = true -> look_no_dollar look ->
  forall fuel k s, dollars s < fuel ->
    xp_all env look fuel s <> XFuel /\ xp_only env look fuel k s <> XFuel /\
    (fuel <= xfuel -> read_x env look k s <> XFuel).
Proof.
  intros He Hl fuel k s Hs.
  destruct (expand_terminates_plain_values env look He Hl fuel k s Hs) as [[r1 [E1 _]] [[r2 [E2 _]] H3]].
  split; [congruence|split; [congruence|]]. intros Hf. destruct (H3 Hf) as [r3 [E3 _]]. congruence.
Qed.

(* ------------------------------------------------------------------ 2. the result is inert *)
(* a predicate on what follows each '$' of a text *)
Section Each.
  Variable hd : string -> bool.
  Fixpoint each_dollar (s : string) : bool :=
    match s with
    | EmptyString => true
    | String c r => (if aeqb c c_dollar then hd r else true) && each_dollar r
    end.
  Lemma each_cons c r : each_dollar (String c r) = (if aeqb c c_dollar then hd r else true) && each_dollar r.
  Proof. reflexivity. Qed.
  Lemma each_nodollar_app : forall pre x, contains c_dollar pre = false -> each_dollar (pre ++ x) = each_dollar x.
  Proof.
    induction pre as [|d pre IH]; intros x H; [reflexivity|]. cbn [contains] in H. apply orb_false_iff in H.
    destruct H as [H1 H2]. cbn [append]. rewrite each_cons, aeqb_sym, H1. cbn [andb]. now apply IH.
  Qed.
  Lemma each_suffix : forall a b, each_dollar (a ++ b) = true -> each_dollar b = true.
  Proof.
    induction a as [|d a IH]; intros b H; [exact H|]. cbn [append] in H. rewrite each_cons in H.
    apply andb_true_iff in H. apply IH. tauto.
  Qed.
  Lemma each_no_dollar s : contains c_dollar s = false -> each_dollar s = true.
  Proof. intros H. rewrite <- (app_empty_r s). rewrite each_nodollar_app by exact H. reflexivity. Qed.
End Each.

(* INERT: behind every '$' stands nothing, or `{` without a `}` anywhere behind it, or `[` without a `]`
   anywhere behind it, or any other character: expand has nothing to replace *)
Definition ph_head_ok (r : string) : bool :=
  match r with
  | EmptyString => true
  | String b r' => if aeqb b c_lbrace then negb (contains c_rbrace r')
                   else if aeqb b c_lbrack then negb (contains c_rbrack r') else true
  end.
Definition inert : string -> bool := each_dollar ph_head_ok.

(* the readable consequence: no `${ .. }` and no `$[ .. ]` *)
Fixpoint closed_placeholder (s : string) : bool :=
  match s with
  | EmptyString => false
  | String c r =>
      (aeqb c c_dollar &&
       match r with
       | String b r' => (aeqb b c_lbrace && contains c_rbrace r') || (aeqb b c_lbrack && contains c_rbrack r')
       | EmptyString => false
       end) || closed_placeholder r
  end.

Lemma inert_cons c r : inert (String c r) = (if aeqb c c_dollar then ph_head_ok r else true) && inert r.
Proof. reflexivity. Qed.

Lemma inert_no_closed_placeholder : forall s, inert s = true -> closed_placeholder s = false.
Proof.
  induction s as [|c r IH]; intros H; [reflexivity|]. rewrite inert_cons in H. apply andb_true_iff in H.
  destruct H as [H1 H2]. cbn [closed_placeholder]. rewrite (IH H2), orb_false_r.
  destruct (aeqb c c_dollar); [|reflexivity]. cbn [andb]. destruct r as [|b r']; [reflexivity|].
  unfold ph_head_ok in H1. destruct (aeqb b c_lbrace) eqn:E1.
  - apply negb_true_iff in H1. rewrite H1. cbn [andb orb].
    apply aeqb_eq in E1. subst b. reflexivity.
  - cbn [andb orb]. destruct (aeqb b c_lbrack); [|reflexivity]. apply negb_true_iff in H1. now rewrite H1.
Qed.

Lemma noph_inert : forall s, noph s = true -> inert s = true.
Proof.
  induction s as [|c r IH]; intros H; [reflexivity|]. cbn [noph] in H. apply andb_true_iff in H.
  destruct H as [H1 H2]. rewrite inert_cons, (IH H2), andb_true_r.
  destruct (aeqb c c_dollar); [|reflexivity]. destruct r as [|b r']; [reflexivity|].
  apply negb_true_iff, orb_false_iff in H1. destruct H1 as [A B]. unfold ph_head_ok. now rewrite A, B.
Qed.

Lemma inert_app_l : forall a b, inert (a ++ b) = true -> inert a = true.
Proof.
  induction a as [|e a IH]; intros b H; [reflexivity|]. cbn [append] in H. rewrite inert_cons in *.
  apply andb_true_iff in H. destruct H as [H1 H2]. rewrite (IH _ H2), andb_true_r.
  destruct (aeqb e c_dollar); [|reflexivity]. destruct a as [|b0 a']; [reflexivity|].
  cbn [append] in H1. unfold ph_head_ok in *.
  destruct (aeqb b0 c_lbrace).
  - apply negb_true_iff in H1. rewrite contains_app in H1. apply orb_false_iff in H1. destruct H1 as [H1 _].
    now rewrite H1.
  - destruct (aeqb b0 c_lbrack); [|reflexivity].
    apply negb_true_iff in H1. rewrite contains_app in H1. apply orb_false_iff in H1. destruct H1 as [H1 _].
    now rewrite H1.
Qed.

(* an inert text is a fixpoint of expand and of expand_only (generalises xp_all_noph) *)
Section InertFix.
  Variable env : list (string * string).
  Variable look : string -> option string.

  Lemma scan_inert only Eall Erec n :
    (forall t, inert t = true -> dollars t < n -> Erec t = XOk t) ->
    forall s, inert s = true -> dollars s <= n -> scan env look only Eall Erec s = XOk s.
  Proof.
    intros HE s Hs Hn. unfold scan. destruct (split_at c_dollar s) as [[pre t]|] eqn:Es; [|reflexivity].
    destruct t as [|b t']; [reflexivity|].
    destruct (split_at_some _ _ _ _ Es) as [-> Hpre].
    unfold inert in Hs. rewrite each_nodollar_app in Hs by exact Hpre. fold inert in Hs.
    rewrite inert_cons, aeqb_refl in Hs. apply andb_true_iff in Hs. destruct Hs as [Hh Ht].
    rewrite dollars_app in Hn.
    assert (Hd : dollars (String c_dollar (String b t')) = S (dollars (String b t'))).
    { cbn [dollars]. rewrite aeqb_refl. reflexivity. }
    rewrite Hd in Hn. pose proof (dollars_tail b t') as Hdt.
    assert (Hrt : Erec (String b t') = XOk (String b t')) by (apply HE; [exact Ht|lia]).
    assert (Ht' : Erec t' = XOk t').
    { apply HE; [|lia]. rewrite inert_cons in Ht. apply andb_true_iff in Ht. tauto. }
    unfold at_dollar, step. unfold ph_head_ok in Hh.
    destruct (aeqb b c_lbrack) eqn:Ek.
    - apply aeqb_eq in Ek. subst b. change (aeqb c_lbrack c_lbrace) with false in Hh.
      cbv iota in Hh. apply negb_true_iff in Hh.
      unfold bracket_body. rewrite Ht'. cbn [xbind]. rewrite (find_next_absent _ _ Hh). cbv beta iota zeta.
      cbn [xbind rescan_tail]. rewrite Hrt. reflexivity.
    - destruct (aeqb b c_lbrace) eqn:Eb.
      + apply aeqb_eq in Eb. subst b. cbv iota in Hh. apply negb_true_iff in Hh.
        unfold brace_body. rewrite Ht'. cbn [xbind]. rewrite (find_next_absent _ _ Hh). cbv beta iota zeta.
        cbn [xbind rescan_tail]. rewrite Hrt. reflexivity.
      + cbn [xbind rescan_tail]. rewrite Hrt. reflexivity.
  Qed.

  Lemma xp_all_inert : forall fuel s, inert s = true -> dollars s < fuel -> xp_all env look fuel s = XOk s.
  Proof.
    induction fuel as [|f IH]; intros s Hs Hn; [lia|]. cbn [xp_all].
    apply scan_inert with (n := f); [|exact Hs|lia]. intros t Ht Hd. apply IH; assumption.
  Qed.
  Lemma xp_only_inert k : forall fuel s, inert s = true -> dollars s < fuel -> xp_only env look fuel k s = XOk s.
  Proof.
    induction fuel as [|f IH]; intros s Hs Hn; [lia|]. cbn [xp_only].
    apply scan_inert with (n := f); [|exact Hs|lia]. intros t Ht Hd. apply IH; assumption.
  Qed.

  (* whatever the fuel: if expand ends on an inert text, the text is returned *)
  Lemma xp_all_inert_partial f s r : inert s = true -> xp_all env look f s = XOk r -> r = s.
  Proof.
    intros Hi E.
    assert (M : xp_all env look (Nat.max f (S (dollars s))) s = XOk r).
    { apply (xp_all_fuel_monotone env look f _ s (XOk r)); [exact E|discriminate|lia]. }
    rewrite xp_all_inert in M by (assumption || lia). congruence.
  Qed.

  (* the text in front of the first '$' is never touched *)
  Lemma scan_head only Eall Erec b t x :
    aeqb b c_dollar = false -> scan env look only Eall Erec (String b t) = XOk x -> exists x', x = String b x'.
  Proof.
    intros Hb E. unfold scan in E. cbn [split_at] in E. rewrite aeqb_sym, Hb in E.
    destruct (split_at c_dollar t) as [[p q]|].
    - destruct q as [|q0 q'].
      + injection E as <-. eexists; reflexivity.
      + unfold xmap in E. destruct (at_dollar env look only Eall Erec (String q0 q')) as [w|]; [|discriminate E].
        cbn [xbind] in E. injection E as <-. eexists; reflexivity.
    - injection E as <-. eexists; reflexivity.
  Qed.
End InertFix.

(* the guard on the TEXT: no '$' directly followed by '$', '}' or ']' *)
Definition dnext_head_ok (r : string) : bool :=
  match r with
  | EmptyString => true
  | String b _ => negb (aeqb b c_dollar || aeqb b c_rbrace || aeqb b c_rbrack)
  end.
Definition dnext_ok : string -> bool := each_dollar dnext_head_ok.
Lemma dnext_cons c r : dnext_ok (String c r) = (if aeqb c c_dollar then dnext_head_ok r else true) && dnext_ok r.
Proof. reflexivity. Qed.

(* the guard on a VALUE that may be substituted: neither '$' nor backslash *)
Definition val_plain (v : string) : bool := negb (contains c_dollar v) && negb (contains c_bs v).
Definition env_values_plain (env : list (string * string)) : bool := forallb (fun kv => val_plain (snd kv)) env.
Definition look_values_plain (look : string -> option string) : Prop :=
  forall k v, look k = Some v -> val_plain v = true.
Definition text_guard (s : string) : bool := dnext_ok s && negb (contains c_bs s).

Lemma contains_cut x c : forall m after, contains x (m ++ String c after) = false -> contains x (m ++ after) = false.
Proof.
  intros m after H. rewrite contains_app in *. cbn [contains] in H. apply orb_false_iff in H.
  destruct H as [H1 H2]. apply orb_false_iff in H2. destruct H2 as [_ H2]. now rewrite H1, H2.
Qed.

(* the closing delimiter is taken out between m and after *)
Lemma cut_mid c : c = c_rbrace \/ c = c_rbrack -> forall m after,
  inert (m ++ String c after) = true -> dnext_ok (m ++ String c after) = true ->
  inert (m ++ after) = true /\ dnext_ok (m ++ after) = true.
Proof.
  intros Hc. assert (Hcd : aeqb c c_dollar = false) by (destruct Hc; subst c; reflexivity).
  induction m as [|e m IH]; intros after Hi Hd.
  - cbn [append] in *. rewrite inert_cons, Hcd in Hi. rewrite dnext_cons, Hcd in Hd. cbn [andb] in Hi, Hd. tauto.
  - cbn [append] in *. rewrite inert_cons in *. rewrite dnext_cons in *.
    apply andb_true_iff in Hi. apply andb_true_iff in Hd. destruct Hi as [Hi1 Hi2]. destruct Hd as [Hd1 Hd2].
    destruct (IH after Hi2 Hd2) as [I1 I2]. rewrite I1, I2, !andb_true_r.
    destruct (aeqb e c_dollar); [|tauto].
    destruct m as [|b m'].
    + exfalso. cbn [append] in Hd1. destruct Hc; subst c; cbv in Hd1; discriminate Hd1.
    + cbn [append] in Hi1, Hd1 |- *. split; [|exact Hd1].
      unfold ph_head_ok in *. destruct (aeqb b c_lbrace).
      * apply negb_true_iff in Hi1. apply negb_true_iff. now apply contains_cut in Hi1.
      * destruct (aeqb b c_lbrack); [|reflexivity].
        apply negb_true_iff in Hi1. apply negb_true_iff. now apply contains_cut in Hi1.
Qed.

Section Result.
  Variable env : list (string * string).
  Variable look : string -> option string.
  Hypothesis Henv : forall k v, getenv env k = Some v -> contains c_dollar v = false /\ contains c_bs v = false.
  Hypothesis Hlook : forall k v, look k = Some v -> contains c_dollar v = false /\ contains c_bs v = false.

  Definition guard (s : string) : Prop := dnext_ok s = true /\ contains c_bs s = false.
  Definition settled (r : string) : Prop := inert r = true /\ dnext_ok r = true /\ contains c_bs r = false.

  Lemma settled_suffix a b : settled (a ++ b) -> settled b.
  Proof.
    intros [H1 [H2 H3]]. split; [exact (each_suffix _ _ _ H1)|split; [exact (each_suffix _ _ _ H2)|]].
    rewrite contains_app in H3. apply orb_false_iff in H3. tauto.
  Qed.
  Lemma settled_tail c r : settled (String c r) -> settled r.
  Proof. apply (settled_suffix (String c EmptyString) r). Qed.
  Lemma settled_plain_app v x : contains c_dollar v = false -> contains c_bs v = false -> settled x -> settled (v ++ x).
  Proof.
    intros Hv Hb [H1 [H2 H3]]. unfold settled, inert, dnext_ok. rewrite !each_nodollar_app by exact Hv.
    split; [exact H1|split; [exact H2|]]. rewrite contains_app, Hb, H3. reflexivity.
  Qed.
  Lemma settled_cut c m after : c = c_rbrace \/ c = c_rbrack -> settled (m ++ String c after) -> settled (m ++ after).
  Proof.
    intros Hc [H1 [H2 H3]]. destruct (cut_mid c Hc m after H1 H2) as [A B].
    split; [exact A|split; [exact B|]]. now apply contains_cut in H3.
  Qed.

  (* one level of section::expand *)
  Lemma scan_settled (Erec : string -> xres) :
    (forall t r, inert t = true -> Erec t = XOk r -> r = t) ->
    (forall t r, guard t -> Erec t = XOk r -> settled r) ->
    (forall b t x, aeqb b c_dollar = false -> Erec (String b t) = XOk x -> exists x', x = String b x') ->
    forall s res, guard s -> scan env look None Erec Erec s = XOk res -> settled res.
  Proof.
    intros HF HR HH s res [Gd Gb] E. unfold scan in E.
    destruct (split_at c_dollar s) as [[pre t]|] eqn:Es.
    2:{ injection E as <-. pose proof (split_at_none _ _ Es) as Hn.
        split; [now apply each_no_dollar|split; assumption]. }
    destruct (split_at_some _ _ _ _ Es) as [-> Hpre].
    assert (Hpb : contains c_bs pre = false /\ contains c_bs t = false).
    { rewrite contains_app in Gb. apply orb_false_iff in Gb. destruct Gb as [G1 G2]. cbn [contains] in G2.
      apply orb_false_iff in G2. tauto. }
    destruct Hpb as [Hpb Htb].
    unfold dnext_ok in Gd. rewrite each_nodollar_app in Gd by exact Hpre. fold dnext_ok in Gd.
    rewrite dnext_cons, aeqb_refl in Gd. apply andb_true_iff in Gd. destruct Gd as [Gh Gt].
    assert (PRE : forall w, settled w -> settled (pre ++ w)) by (intros w Hw; now apply settled_plain_app).
    destruct t as [|b t'].
    { injection E as <-. apply PRE. repeat split; reflexivity. }
    unfold xmap in E.
    destruct (at_dollar env look None Erec Erec (String b t')) as [w|] eqn:Ew; [|discriminate E].
    cbn [xbind] in E. injection E as <-. apply PRE.
    unfold at_dollar in Ew. destruct (step env look None Erec Erec (String b t')) as [u|] eqn:Eu; [|discriminate Ew].
    cbn [xbind] in Ew.
    assert (RT : settled u -> settled w).
    { intros Hu. destruct u as [|a u1]; [cbn in Ew; injection Ew as <-; exact Hu|].
      cbn [rescan_tail] in Ew. unfold xmap in Ew.
      destruct (Erec u1) as [x|] eqn:Ex; [|discriminate Ew]. cbn [xbind] in Ew. injection Ew as <-.
      rewrite (HF u1 x); [exact Hu| |exact Ex]. destruct Hu as [Hi _]. rewrite inert_cons in Hi.
      apply andb_true_iff in Hi. tauto. }
    unfold step in Eu. unfold dnext_head_ok in Gh.
    apply negb_true_iff in Gh. apply orb_false_iff in Gh. destruct Gh as [Gh G3].
    apply orb_false_iff in Gh. destruct Gh as [G1 G2].
    assert (Gt' : guard t').
    { rewrite dnext_cons in Gt. apply andb_true_iff in Gt. cbn [contains] in Htb. apply orb_false_iff in Htb.
      split; tauto. }
    destruct (aeqb b c_lbrack) eqn:Ek.
    - (* $[ *)
      apply RT. unfold bracket_body in Eu. destruct (Erec t') as [r|] eqn:Er; [|discriminate Eu].
      cbn [xbind] in Eu. cbv zeta in Eu.
      pose proof (HR t' r Gt' Er) as Sr. pose proof Sr as [Ri [Rd Rb]].
      destruct (find_next_nobs c_rbrack r Rb) as [[Hno Ef]|[inside [after [-> [Hin Ef]]]]]; rewrite Ef in Eu.
      + injection Eu as <-. split; [|split].
        * rewrite !inert_cons. rewrite aeqb_refl. change (aeqb c_lbrack c_dollar) with false.
          unfold ph_head_ok. change (aeqb c_lbrack c_lbrace) with false. rewrite aeqb_refl.
          rewrite Hno, Ri. reflexivity.
        * rewrite !dnext_cons, aeqb_refl. change (aeqb c_lbrack c_dollar) with false. rewrite Rd. reflexivity.
        * cbn [contains]. rewrite Rb. reflexivity.
      + assert (Sa : settled after) by (apply settled_tail with (c := c_rbrack); exact (settled_suffix _ _ Sr)).
        assert (Binside : contains c_bs inside = false).
        { rewrite contains_app in Rb. apply orb_false_iff in Rb. tauto. }
        assert (GE : forall name dflt u', settled (dflt ++ after) ->
                   xmap (fun v => v ++ after) (get_entry look Erec name dflt) = XOk u' -> settled u').
        { intros name dflt u' Sd Eg. unfold get_entry, xmap in Eg.
          destruct (Erec (match look name with Some v => v | None => dflt end)) as [x|] eqn:Ea; [|discriminate Eg].
          cbn [xbind] in Eg. injection Eg as <-.
          destruct (look name) as [v|] eqn:El.
          - destruct (Hlook _ _ El) as [V1 V2]. rewrite (HF v x (each_no_dollar _ _ V1) Ea).
            apply settled_plain_app; [exact V1|exact V2|exact Sa].
          - rewrite (HF dflt x); [exact Sd| |exact Ea]. destruct Sd as [Sd _]. exact (inert_app_l _ _ Sd). }
        unfold split_colon in Eu. unfold mine in Eu.
        destruct (find_next_nobs c_colon inside Binside) as [[Hnc Ec]|[name [dflt [-> [Hnm Ec]]]]]; rewrite Ec in Eu.
        * exact (GE inside EmptyString u Sa Eu).
        * apply (GE name dflt u); [|exact Eu].
          rewrite app_assoc_s in Sr. apply settled_suffix in Sr.
          change (String c_colon dflt ++ String c_rbrack after)
            with (String c_colon EmptyString ++ (dflt ++ String c_rbrack after)) in Sr.
          apply settled_suffix in Sr. apply (settled_cut c_rbrack); [now right|exact Sr].
    - destruct (aeqb b c_lbrace) eqn:Eb.
      + (* ${ *)
        apply RT. unfold brace_body in Eu. destruct (Erec t') as [r|] eqn:Er; [|discriminate Eu].
        cbn [xbind] in Eu.
        pose proof (HR t' r Gt' Er) as Sr. pose proof Sr as [Ri [Rd Rb]].
        destruct (find_next_nobs c_rbrace r Rb) as [[Hno Ef]|[inside [after [-> [Hin Ef]]]]]; rewrite Ef in Eu.
        * injection Eu as <-. split; [|split].
          -- rewrite !inert_cons. rewrite aeqb_refl. change (aeqb c_lbrace c_dollar) with false.
             unfold ph_head_ok. rewrite aeqb_refl. rewrite Hno, Ri. reflexivity.
          -- rewrite !dnext_cons, aeqb_refl. change (aeqb c_lbrace c_dollar) with false. rewrite Rd. reflexivity.
          -- cbn [contains]. rewrite Rb. reflexivity.
        * assert (Sa : settled after) by (apply settled_tail with (c := c_rbrace); exact (settled_suffix _ _ Sr)).
          assert (Binside : contains c_bs inside = false).
          { rewrite contains_app in Rb. apply orb_false_iff in Rb. tauto. }
          unfold split_colon in Eu.
          destruct (find_next_nobs c_colon inside Binside) as [[Hnc Ec]|[name [dflt [-> [Hnm Ec]]]]]; rewrite Ec in Eu;
            injection Eu as <-.
          -- destruct (getenv env inside) as [v|] eqn:Eg; [|exact Sa].
             destruct (Henv _ _ Eg) as [V1 V2]. now apply settled_plain_app.
          -- destruct (getenv env name) as [v|] eqn:Eg.
             ++ destruct (Henv _ _ Eg) as [V1 V2]. now apply settled_plain_app.
             ++ rewrite app_assoc_s in Sr. apply settled_suffix in Sr.
                change (String c_colon dflt ++ String c_rbrace after)
                  with (String c_colon EmptyString ++ (dflt ++ String c_rbrace after)) in Sr.
                apply settled_suffix in Sr. apply (settled_cut c_rbrace); [now left|exact Sr].
      + (* an ordinary character behind the '$' *)
        injection Eu as <-. cbn [rescan_tail] in Ew. unfold xmap in Ew.
        destruct (Erec (String b t')) as [x|] eqn:Ex; [|discriminate Ew]. cbn [xbind] in Ew. injection Ew as <-.
        assert (Sx : settled x) by (apply (HR (String b t') x); [split; assumption|exact Ex]).
        destruct (HH b t' x G1 Ex) as [x' ->]. destruct Sx as [X1 [X2 X3]].
        split; [|split].
        * rewrite inert_cons, aeqb_refl, X1, andb_true_r. unfold ph_head_ok. now rewrite Eb, Ek.
        * rewrite dnext_cons, aeqb_refl, X2, andb_true_r. unfold dnext_head_ok. now rewrite G1, G2, G3.
        * cbn [contains]. cbn [contains] in X3. rewrite X3. reflexivity.
  Qed.

  Theorem xp_all_settled : forall fuel s r, guard s -> xp_all env look fuel s = XOk r -> settled r.
  Proof.
    induction fuel as [|f IH]; intros s r G E; [discriminate E|]. rewrite xp_all_S in E.
    eapply scan_settled; [| | |exact G|exact E].
    - intros t x Hi Ex. eapply xp_all_inert_partial; eassumption.
    - exact IH.
    - intros b t x Hb Ex. destruct f as [|f']; [discriminate Ex|]. rewrite xp_all_S in Ex.
      eapply scan_head; eassumption.
  Qed.
End Result.

Lemma env_values_plain_getenv env : env_values_plain env = true ->
  forall k v, getenv env k = Some v -> contains c_dollar v = false /\ contains c_bs v = false.
Proof.
  intros H k v E. apply getenv_in in E. unfold env_values_plain in H. rewrite forallb_forall in H.
  specialize (H _ E). cbn [snd] in H. unfold val_plain in H. apply andb_true_iff in H.
  destruct H as [A B]. apply negb_true_iff in A, B. tauto.
Qed.
Lemma env_values_plain_no_dollar env : env_values_plain env = true -> env_no_dollar env = true.
Proof.
  unfold env_values_plain, env_no_dollar. rewrite !forallb_forall. intros H x Hx. specialize (H x Hx).
  unfold val_plain in H. apply andb_true_iff in H. tauto.
Qed.

(* the result of section::expand under the guards: it ends, it is inert (hence holds no closed
   placeholder), it is free of backslashes, and every later expansion returns it unchanged *)
Theorem expand_result_no_placeholder env look :
  env_values_plain env = true -> look_values_plain look ->
  forall fuel s, text_guard s = true -> dollars s < fuel ->
    exists r, xp_all env look fuel s = XOk r /\
      inert r = true /\ closed_placeholder r = false /\ contains c_bs r = false /\ dollars r <= dollars s /\
      (forall fuel' k, dollars r < fuel' ->
         xp_all env look fuel' r = XOk r /\ xp_only env look fuel' k r = XOk r).
Proof.
  intros He Hl fuel s Hg Hs.
  pose proof (env_values_plain_getenv env He) as Henv.
  assert (Hlook : forall k v, look k = Some v -> contains c_dollar v = false /\ contains c_bs v = false).
  { intros k v E. specialize (Hl _ _ E). unfold val_plain in Hl. apply andb_true_iff in Hl.
    destruct Hl as [A B]. apply negb_true_iff in A, B. tauto. }
  assert (Hl' : look_no_dollar look) by (intros k v E; exact (proj1 (Hlook _ _ E))).
  destruct (expand_terminates_plain_values env look (env_values_plain_no_dollar _ He) Hl' fuel EmptyString s Hs)
    as [[r [E Hd]] _].
  unfold text_guard in Hg. apply andb_true_iff in Hg. destruct Hg as [G1 G2]. apply negb_true_iff in G2.
  destruct (xp_all_settled env look Henv Hlook fuel s r (conj G1 G2) E) as [R1 [R2 R3]].
  exists r. split; [exact E|]. split; [exact R1|]. split; [now apply inert_no_closed_placeholder|].
  split; [exact R3|]. split; [exact Hd|]. intros fuel' k Hf.
  split; [now apply xp_all_inert|now apply xp_only_inert].
Qed.
