(* Proofs/OnceLiveProofs.v — call_once progress: in every state in which no thread can take a
   step every caller has returned or rethrown (nobody is left blocked in the flag's event), for
   the repaired hand-back order (event set before status store after a throw). *)
From Coq Require Import List Bool Arith NArith Lia.
From Pika Require Import Base.Conc Base.Agent Gen.GenOnce Model.Event Model.Once Proofs.EventProofs Proofs.OnceProofs.
Import ListNotations.

Definition epcof (o : option opcT) : option epc :=
  match o with Some (OSet _ sub) => Some sub | Some (OWaitE sub) => Some sub | _ => None end.
Definition prog_of (o : option opcT) : list eop :=
  match o with Some (OSet _ _) => [ESet] | Some (OWaitE _) => [EWait] | _ => [] end.
Definition proj (ls : locals olocal) : locals elocal :=
  fun t => {| eprog := prog_of (opc (ls t)); epcs := epcof (opc (ls t)) |}.

Definition OWf (ls : locals olocal) : Prop :=
  forall t, match opc (ls t) with
            | Some (OSet _ sub) => set_pc sub = true
            | Some (OWaitE sub) => wait_pc sub = true
            | _ => True end.

Lemma EWf_proj ls : OWf ls -> EWf (proj ls).
Proof.
  intros W t pc H. specialize (W t). unfold proj in *. cbn in *.
  destruct (opc (ls t)) as [[| | | |ok|ok sub|sub]|]; cbn in *; try discriminate; inversion H; subst; exact W.
Qed.

Lemma ELive_ext e (ls1 ls2 : locals elocal) : (forall t, epcs (ls1 t) = epcs (ls2 t)) -> ELive e ls1 -> ELive e ls2.
Proof.
  intros H L. assert (Hip : forall t, inpend ls1 t -> inpend ls2 t).
  { intros t [s [p [H1 H2]]]. exists s, p. rewrite <- H. auto. }
  destruct L as [A1 A2 B C D]. split.
  - intros t H0. destruct (A1 _ H0) as [p H1]. exists p. rewrite <- H. exact H1.
  - intros t p H0. rewrite <- H in H0. eapply A2; exact H0.
  - intros t H0. rewrite <- H. destruct (B _ H0) as [H1 [H2|H2]]; split; auto.
  - intros t H0. rewrite <- H in H0. destruct (C _ H0) as [H1|[H1|H1]]; auto.
  - intros H0 H1. destruct (D H0 H1) as [s H2]. exists s. rewrite <- H. exact H2.
Qed.

Definition pre_es0 (o : option opcT) : bool :=
  match o with Some OR1 | Some OBody | Some (OStore true) | Some (OSet _ ES0) => true | _ => false end.
Definition post_set (o : option opcT) : bool :=
  match o with
  | Some (OStore false) => true
  | Some (OSet false ES0) => false
  | Some (OSet false _) => true
  | _ => false end.

Record OLive (g : once) (ls : locals olocal) : Prop := {
  ol_inv : OInv g ls;
  ol_wf : OWf ls;
  ol_ev : ELive (oev g) (proj ls);
  ol_fl : flag (oev g) = false ->
          (exists t, pre_es0 (opc (ls t)) = true) \/
          (ewq (oev g) = [] /\ forall t sub, opc (ls t) <> Some (OWaitE sub));
  ol_ft : forall t, post_set (opc (ls t)) = true -> flag (oev g) = true }.

(* the embedded event's invariant after a thread's sub-step *)
Lemma EL_substep e (lsE : locals elocal) t sub e' sub' l' :
  EWf lsE -> ELive e lsE -> epcs (lsE t) = Some sub -> ev_step t e sub = (e', sub') ->
  epcs l' = (match sub' with EDone => None | _ => Some sub' end) ->
  ELive e' (upd lsE t l').
Proof.
  intros W L Hpc Hev Hl.
  pose proof (ELive_step ENorm t {| est := e; elog := [] |} lsE W L) as H.
  unfold e_tstep in H. cbn [est] in H. rewrite Hpc, Hev in H.
  destruct sub'; cbn [fst snd est] in H; (eapply ELive_ext; [|exact H]); intros t0;
    (destruct (Nat.eq_dec t0 t) as [->|Hne]; [rewrite !upd_same|rewrite !upd_other by exact Hne; reflexivity]);
    rewrite Hl; reflexivity.
Qed.

Lemma EL_dispatch e (lsE : locals elocal) t op rest pc0 l' :
  EWf lsE -> ELive e lsE -> epcs (lsE t) = None -> eprog (lsE t) = op :: rest -> op <> EOcc ->
  pc0 = (match op with EWait => EW0 | ESet => ES0 | EReset => ER0 | EOcc => EDone end) -> epcs l' = Some pc0 ->
  ELive e (upd lsE t l').
Proof.
  intros W L Hpc Hprog Hocc Hp Hl.
  pose proof (ELive_step ENorm t {| est := e; elog := [] |} lsE W L) as H.
  unfold e_tstep in H. cbn [est] in H. rewrite Hpc, Hprog in H.
  destruct op; [| | |congruence]; cbn [fst snd est] in H; (eapply ELive_ext; [|exact H]); intros t0;
    (destruct (Nat.eq_dec t0 t) as [->|Hne]; [rewrite !upd_same|rewrite !upd_other by exact Hne; reflexivity]);
    rewrite Hl, Hp; reflexivity.
Qed.

Lemma EL_spur e (lsE : locals elocal) t : EWf lsE -> ELive e lsE -> ELive (ev_spur e t) lsE.
Proof.
  intros W L. pose proof (ELive_step ESpur t {| est := e; elog := [] |} lsE W L) as H.
  unfold e_tstep in H. cbn [fst snd est] in H.
  eapply ELive_ext; [|exact H]. intros t0.
  destruct (Nat.eq_dec t0 t) as [->|Hne]; [rewrite upd_same|rewrite upd_other by exact Hne]; reflexivity.
Qed.

(* changing only the flag to false keeps the event invariant *)
Lemma EL_reset e lsE : ELive e lsE ->
  ELive {| flag := false; elk := elk e; ewq := ewq e; eag := eag e |} lsE.
Proof. intros [A1 A2 B C D]. split; cbn; auto. discriminate. Qed.

Lemma ev_step_flag_wait t e pc : wait_pc pc = true -> flag (fst (ev_step t e pc)) = flag e.
Proof.
  destruct pc; try discriminate; intros _; cbn [ev_step].
  - destruct (flag e) eqn:Hf; cbn; congruence.
  - destruct (elocked e); [reflexivity|]. destruct (flag e) eqn:Hf; cbn; congruence.
  - destruct (a_suspend (eag e t)) as [a r]. reflexivity.
  - destruct (blocked (eag e t)); reflexivity.
  - destruct (elocked e); [reflexivity|]. destruct (flag e) eqn:Hf; cbn; congruence.
Qed.

Lemma ev_step_flag_set t e pc : set_pc pc = true ->
  (pc = ES0 /\ flag (fst (ev_step t e pc)) = true) \/
  (pc <> ES0 /\ flag (fst (ev_step t e pc)) = flag e /\
   (ewq (fst (ev_step t e pc)) = ewq e \/ ewq (fst (ev_step t e pc)) = [])).
Proof.
  destruct pc as [| | | | | | |[|w r]| |]; try discriminate; intros _; cbn [ev_step].
  - left. split; reflexivity.
  - right. split; [discriminate|]. destruct (elocked e); cbn; auto.
  - right. split; [discriminate|]. cbn. auto.
  - right. split; [discriminate|]. cbn. auto.
Qed.

Definition projl (l : olocal) : elocal := {| eprog := prog_of (opc l); epcs := epcof (opc l) |}.

Lemma proj_upd ls t l' t0 : epcs (upd (proj ls) t (projl l') t0) = epcs (proj (upd ls t l') t0).
Proof.
  unfold proj. destruct (Nat.eq_dec t0 t) as [->|Hne]; [rewrite !upd_same; reflexivity|].
  rewrite !upd_other by exact Hne. reflexivity.
Qed.

(* ELive is insensitive to a local change that keeps the thread outside the event *)
Lemma EL_keep e ls t l' : ELive e (proj ls) -> epcof (opc (ls t)) = None -> epcof (opc l') = None ->
  ELive e (proj (upd ls t l')).
Proof.
  intros L H1 H2. eapply ELive_ext; [|exact L]. intros t0. unfold proj.
  destruct (Nat.eq_dec t0 t) as [->|Hne]; [rewrite upd_same; cbn; congruence|rewrite upd_other by exact Hne; reflexivity].
Qed.

Lemma EL_enter e ls t op l' : OWf ls -> ELive e (proj ls) -> epcof (opc (ls t)) = None -> op <> EOcc ->
  epcof (opc l') = Some (match op with EWait => EW0 | ESet => ES0 | EReset => ER0 | EOcc => EDone end) ->
  ELive e (proj (upd ls t l')).
Proof.
  intros W L H1 Hocc H2.
  set (lsE := upd (proj ls) t {| eprog := [op]; epcs := None |}).
  assert (LE : ELive e lsE).
  { eapply ELive_ext; [|exact L]. intros t0. unfold lsE.
    destruct (Nat.eq_dec t0 t) as [->|Hne]; [rewrite upd_same; unfold proj; cbn; congruence|rewrite upd_other by exact Hne; reflexivity]. }
  assert (WE : EWf lsE).
  { intros t0 pc H. unfold lsE in *. destruct (Nat.eq_dec t0 t) as [->|Hne].
    - rewrite upd_same in H. discriminate.
    - rewrite upd_other in H |- * by exact Hne. apply (EWf_proj ls W t0 pc H). }
  assert (H : ELive e (upd lsE t (projl l'))).
  { apply (EL_dispatch e lsE t op [] (match op with EWait => EW0 | ESet => ES0 | EReset => ER0 | EOcc => EDone end) (projl l') WE LE);
      try reflexivity; try (unfold lsE; rewrite upd_same; reflexivity); [exact Hocc|exact H2]. }
  eapply ELive_ext; [|exact H]. intros t0. unfold lsE, proj.
  destruct (Nat.eq_dec t0 t) as [->|Hne]; [rewrite !upd_same; reflexivity|rewrite !upd_other by exact Hne; reflexivity].
Qed.

Lemma runner_unique g ls t t0 : OInv g ls -> runner_pc (opc (ls t)) = true -> runner_pc (opc (ls t0)) = true -> t0 = t.
Proof. intros I H1 H2. pose proof (r1b _ _ I _ H1). pose proof (r1b _ _ I _ H2). congruence. Qed.

Lemma post_runner o : post_set o = true -> runner_pc o = true.
Proof. destruct o as [[| | | |[|]|[|] []|]|]; cbn; congruence. Qed.
Lemma pre_not_post o : pre_es0 o = true -> post_set o = false.
Proof. destruct o as [[| | | |[|]|[|] []|]|]; cbn; congruence. Qed.

(* generic re-assembly: a step of t after which the event part is known *)
Lemma OLive_assemble g g' ls t l' :
  OLive g ls -> OInv g' (upd ls t l') -> OWf (upd ls t l') -> ELive (oev g') (proj (upd ls t l')) ->
  (flag (oev g') = false ->
     (exists t0, pre_es0 (opc (upd ls t l' t0)) = true) \/
     (ewq (oev g') = [] /\ forall t0 sub, opc (upd ls t l' t0) <> Some (OWaitE sub))) ->
  (forall t0, post_set (opc (upd ls t l' t0)) = true -> flag (oev g') = true) ->
  OLive g' (upd ls t l').
Proof. intros _ H1 H2 H3 H4 H5. split; assumption. Qed.

Lemma OWf_upd ls t l' : OWf ls ->
  match opc l' with Some (OSet _ sub) => set_pc sub = true | Some (OWaitE sub) => wait_pc sub = true | _ => True end ->
  OWf (upd ls t l').
Proof.
  intros W H t0. destruct (Nat.eq_dec t0 t) as [->|Hne]; [rewrite upd_same; exact H|rewrite upd_other by exact Hne; apply W].
Qed.

(* FL / FT when the flag and the queue are unchanged and t's own pc keeps its class *)
Lemma FLFT_keep g e' ls t l' : OLive g ls ->
  flag e' = flag (oev g) -> (ewq e' = ewq (oev g) \/ ewq e' = []) ->
  (pre_es0 (opc (ls t)) = true -> pre_es0 (opc l') = true) ->
  (post_set (opc l') = true -> post_set (opc (ls t)) = true) ->
  ((forall sub, opc (ls t) <> Some (OWaitE sub)) -> forall sub, opc l' <> Some (OWaitE sub)) ->
  (flag e' = false ->
     (exists t0, pre_es0 (opc (upd ls t l' t0)) = true) \/
     (ewq e' = [] /\ forall t0 sub, opc (upd ls t l' t0) <> Some (OWaitE sub))) /\
  (forall t0, post_set (opc (upd ls t l' t0)) = true -> flag e' = true).
Proof.
  intros L Hf Hq Hpre Hpost Hw. split.
  - intros H0. rewrite Hf in H0. destruct (ol_fl _ _ L H0) as [[t0 H1]|[H1 H2]].
    + left. exists t0. destruct (Nat.eq_dec t0 t) as [->|Hne]; [rewrite upd_same; auto|rewrite upd_other by exact Hne; exact H1].
    + right. split; [destruct Hq as [Hq|Hq]; congruence|].
      intros t0 sub. destruct (Nat.eq_dec t0 t) as [->|Hne]; [rewrite upd_same; apply Hw; apply H2|rewrite upd_other by exact Hne; apply H2].
  - intros t0 H0. rewrite Hf. destruct (Nat.eq_dec t0 t) as [->|Hne].
    + rewrite upd_same in H0. apply (ol_ft _ _ L t). auto.
    + rewrite upd_other in H0 by exact Hne. apply (ol_ft _ _ L t0). exact H0.
Qed.

Ltac flft_tac sub Hpc :=
  cbn; rewrite ?Hpc; cbn; try discriminate;
  try (destruct sub; try congruence; discriminate);
  try (let s := fresh "s" in intros _ s; discriminate);
  try (intros _; destruct sub; try congruence; reflexivity);
  try (match goal with |- context [if ?b then _ else _] => destruct b end; [discriminate|]; intros _; destruct sub; try congruence; reflexivity).

Lemma OLive_step o t g (ls : locals olocal) : OLive g ls ->
  OLive (fst (o_tstep o t g (ls t))) (upd ls t (snd (o_tstep o t g (ls t)))).
Proof.
  intros L. pose proof (OInv_step o t g ls (ol_inv _ _ L)) as I'.
  pose proof (ol_inv _ _ L) as I. pose proof (ol_wf _ _ L) as W. pose proof (ol_ev _ _ L) as EV.
  destruct consts_distinct as [D1 [D2 [D3 [D4 [D5 [D6 D7]]]]]].
  apply N.eqb_neq in D1, D2, D3, D4, D5.
  unfold o_tstep in *. destruct o as [throws|]; cbn [fst snd] in *.
  2:{ (* stale resume *)
      apply (OLive_assemble g _ ls t _ L I').
      - apply OWf_upd; [exact W|apply (W t)].
      - cbn [oev]. eapply ELive_ext; [|apply (EL_spur _ _ t (EWf_proj _ W) EV)]. intros t0. unfold proj.
        destruct (Nat.eq_dec t0 t) as [->|Hne]; [rewrite upd_same|rewrite upd_other by exact Hne]; reflexivity.
      - cbn [oev]. apply (FLFT_keep g (ev_spur (oev g) t) ls t (ls t) L); auto.
      - cbn [oev]. apply (FLFT_keep g (ev_spur (oev g) t) ls t (ls t) L); auto. }
  destruct (opc (ls t)) as [[| | | |ok|ok sub|sub]|] eqn:Hpc.
  - (* C0 *)
    destruct (N.eqb (status g) once_complete); cbn [fst snd] in *;
      apply (OLive_assemble g _ ls t _ L I'); cbn [oev];
      try (apply OWf_upd; [exact W|exact Logic.I]);
      try (apply EL_keep; [exact EV|rewrite Hpc; reflexivity|reflexivity]);
      try (apply (FLFT_keep g (oev g) ls t _ L); auto; cbn; rewrite ?Hpc; cbn; try discriminate; intros; discriminate).
  - (* C1 *)
    destruct (N.eqb (status g) once_cas_expected) eqn:Hz; cbn [fst snd] in *.
    + apply (OLive_assemble g _ ls t _ L I'); cbn [oev].
      * apply OWf_upd; [exact W|exact Logic.I].
      * apply EL_keep; [exact EV|rewrite Hpc; reflexivity|reflexivity].
      * apply (FLFT_keep g (oev g) ls t _ L); auto; cbn; rewrite ?Hpc; cbn; try discriminate; intros; discriminate.
      * apply (FLFT_keep g (oev g) ls t _ L); auto; cbn; rewrite ?Hpc; cbn; try discriminate; intros; discriminate.
    + destruct (N.eqb (status g) once_complete) eqn:Hc; cbn [fst snd] in *.
      * apply (OLive_assemble g _ ls t _ L I'); cbn [oev];
          try (apply OWf_upd; [exact W|exact Logic.I]);
          try (apply EL_keep; [exact EV|rewrite Hpc; reflexivity|reflexivity]);
          try (apply (FLFT_keep g (oev g) ls t _ L); auto; cbn; rewrite ?Hpc; cbn; try discriminate; intros; discriminate).
      * (* the CAS failed because a run is in progress: event_.wait() *)
        apply N.eqb_neq in Hz, Hc.
        assert (Hrun : status g = once_running) by (destruct (r3 _ _ I) as [H|[H|H]]; congruence).
        destruct (orun g) as [r|] eqn:Hor; [|destruct (r2a _ _ I Hrun Hor)].
        pose proof (r1a _ _ I _ Hor) as Hrp.
        assert (Hrt : r <> t) by (intros ->; rewrite Hpc in Hrp; discriminate).
        apply (OLive_assemble g _ ls t _ L I'); cbn [oev].
        -- apply OWf_upd; [exact W|reflexivity].
        -- apply (EL_enter (oev g) ls t EWait _ W EV); [rewrite Hpc; reflexivity|discriminate|reflexivity].
        -- intros Hf. left. exists r. rewrite upd_other by exact Hrt.
           destruct (post_set (opc (ls r))) eqn:Hpo; [rewrite (ol_ft _ _ L r Hpo) in Hf; discriminate|].
           destruct (opc (ls r)) as [[| | | |[|]|[|] []|]|]; cbn in *; congruence.
        -- intros t0 H0. destruct (Nat.eq_dec t0 t) as [->|Hne]; [rewrite upd_same in H0; discriminate|].
           rewrite upd_other in H0 by exact Hne. apply (ol_ft _ _ L t0 H0).
  - (* R1: event_.reset() *)
    assert (Hrp : runner_pc (opc (ls t)) = true) by (rewrite Hpc; reflexivity).
    apply (OLive_assemble g _ ls t _ L I'); cbn [oev fst ev_step].
    + apply OWf_upd; [exact W|exact Logic.I].
    + apply EL_keep; [apply EL_reset; exact EV|rewrite Hpc; reflexivity|reflexivity].
    + intros _. left. exists t. rewrite upd_same. reflexivity.
    + intros t0 H0. exfalso. destruct (Nat.eq_dec t0 t) as [->|Hne]; [rewrite upd_same in H0; discriminate|].
      rewrite upd_other in H0 by exact Hne. apply Hne. apply (runner_unique g ls t t0 I Hrp). apply post_runner. exact H0.
  - (* BODY ends *)
    apply (OLive_assemble g _ ls t _ L I'); cbn [oev].
    + apply OWf_upd; [exact W|destruct throws; reflexivity].
    + destruct throws.
      * apply (EL_enter (oev g) ls t ESet _ W EV); [rewrite Hpc; reflexivity|discriminate|reflexivity].
      * apply EL_keep; [exact EV|rewrite Hpc; reflexivity|reflexivity].
    + apply (FLFT_keep g (oev g) ls t _ L); auto; cbn; rewrite ?Hpc; destruct throws; cbn; try discriminate; auto; intros; discriminate.
    + apply (FLFT_keep g (oev g) ls t _ L); auto; cbn; rewrite ?Hpc; destruct throws; cbn; try discriminate; auto; intros; discriminate.
  - (* ST *)
    destruct ok; cbn [fst snd] in *.
    + apply (OLive_assemble g _ ls t _ L I'); cbn [oev].
      * apply OWf_upd; [exact W|reflexivity].
      * apply (EL_enter (oev g) ls t ESet _ W EV); [rewrite Hpc; reflexivity|discriminate|reflexivity].
      * apply (FLFT_keep g (oev g) ls t _ L); auto; cbn; rewrite ?Hpc; cbn; try discriminate; auto; intros; discriminate.
      * apply (FLFT_keep g (oev g) ls t _ L); auto; cbn; rewrite ?Hpc; cbn; try discriminate; auto; intros; discriminate.
    + assert (Hft : flag (oev g) = true) by (apply (ol_ft _ _ L t); rewrite Hpc; reflexivity).
      apply (OLive_assemble g _ ls t _ L I'); cbn [oev].
      * apply OWf_upd; [exact W|exact Logic.I].
      * apply EL_keep; [exact EV|rewrite Hpc; reflexivity|reflexivity].
      * intros Hf. congruence.
      * intros _ _. exact Hft.
  - (* SET steps *)
    pose proof (W t) as Wt. rewrite Hpc in Wt.
    destruct (ev_step t (oev g) sub) as [e' sub'] eqn:Hev.
    destruct (ev_step_set_closed _ _ _ _ _ Wt Hev) as [Hcl|Hcl].
    + (* still inside set() *)
      assert (Hnd : sub' <> EDone) by (intros ->; discriminate).
      assert (Hstep : (let '(e'0, sub'0) := (e', sub') in
                match sub'0 with
                | EDone => if ok then ({| status := status g; oev := e'0; orun := orun g; olog := ORet t :: olog g |}, o_done (ls t))
                           else ({| status := status g; oev := e'0; orun := orun g; olog := olog g |}, o_at (ls t) (OStore false))
                | _ => ({| status := status g; oev := e'0; orun := orun g; olog := olog g |}, o_at (ls t) (OSet ok sub'0))
                end) = ({| status := status g; oev := e'; orun := orun g; olog := olog g |}, o_at (ls t) (OSet ok sub')))
        by (destruct sub'; try reflexivity; congruence).
      rewrite Hstep in *. cbn [fst snd] in *.
      destruct (ev_step_flag_set t (oev g) sub Wt) as [[Hs0 Hf1]|[Hs0 [Hf1 Hq1]]]; rewrite Hev in *; cbn [fst] in *.
      * apply (OLive_assemble g _ ls t _ L I'); cbn [oev].
        -- apply OWf_upd; [exact W|exact Hcl].
        -- eapply ELive_ext; [apply proj_upd|].
           apply (EL_substep (oev g) (proj ls) t sub e' sub' _ (EWf_proj _ W) EV); [unfold proj; rewrite Hpc; reflexivity|exact Hev|].
           cbn. destruct sub'; try reflexivity; congruence.
        -- intros Hf. congruence.
        -- intros _ _. exact Hf1.
      * assert (Hsub' : sub' <> ES0).
        { intros ->. destruct sub as [| | | | | | |[|w r]| |]; try discriminate; cbn in Hev; try congruence.
          destruct (elocked (oev g)); inversion Hev. }
        apply (OLive_assemble g _ ls t _ L I'); cbn [oev].
        -- apply OWf_upd; [exact W|exact Hcl].
        -- eapply ELive_ext; [apply proj_upd|].
           apply (EL_substep (oev g) (proj ls) t sub e' sub' _ (EWf_proj _ W) EV); [unfold proj; rewrite Hpc; reflexivity|exact Hev|].
           cbn. destruct sub'; try reflexivity; congruence.
        -- apply (FLFT_keep g e' ls t _ L Hf1 Hq1); flft_tac sub Hpc.
        -- apply (FLFT_keep g e' ls t _ L Hf1 Hq1); flft_tac sub Hpc.
    + (* set() returns *)
      subst sub'. cbn [fst snd] in *.
      destruct (ev_step_flag_set t (oev g) sub Wt) as [[Hs0 Hf1]|[Hs0 [Hf1 Hq1]]]; rewrite Hev in *; cbn [fst] in *.
      { subst sub. cbn in Hev. discriminate. }
      destruct ok; cbn [fst snd] in *.
      * apply (OLive_assemble g _ ls t _ L I'); cbn [oev].
        -- apply OWf_upd; [exact W|exact Logic.I].
        -- eapply ELive_ext; [apply proj_upd|].
           apply (EL_substep (oev g) (proj ls) t sub e' EDone _ (EWf_proj _ W) EV); [unfold proj; rewrite Hpc; reflexivity|exact Hev|reflexivity].
        -- apply (FLFT_keep g e' ls t _ L Hf1 Hq1); flft_tac sub Hpc.
        -- apply (FLFT_keep g e' ls t _ L Hf1 Hq1); flft_tac sub Hpc.
      * apply (OLive_assemble g _ ls t _ L I'); cbn [oev].
        -- apply OWf_upd; [exact W|exact Logic.I].
        -- eapply ELive_ext; [apply proj_upd|].
           apply (EL_substep (oev g) (proj ls) t sub e' EDone _ (EWf_proj _ W) EV); [unfold proj; rewrite Hpc; reflexivity|exact Hev|reflexivity].
        -- apply (FLFT_keep g e' ls t _ L Hf1 Hq1); flft_tac sub Hpc.
        -- apply (FLFT_keep g e' ls t _ L Hf1 Hq1); flft_tac sub Hpc.
  - (* event_.wait() steps *)
    pose proof (W t) as Wt. rewrite Hpc in Wt.
    destruct (ev_step t (oev g) sub) as [e' sub'] eqn:Hev.
    pose proof (ev_step_flag_wait t (oev g) sub Wt) as Hf1. rewrite Hev in Hf1. cbn [fst] in Hf1.
    (* while a thread is inside wait() the right disjunct of FL is false, so the queue is free to change *)
    assert (HFL : forall l', (forall t0, post_set (opc (upd ls t l' t0)) = true -> post_set (opc (ls t0)) = true) ->
              pre_es0 (opc l') = false ->
              (flag e' = false -> (exists t0, pre_es0 (opc (upd ls t l' t0)) = true) \/
                 (ewq e' = [] /\ forall t0 s, opc (upd ls t l' t0) <> Some (OWaitE s))) /\
              (forall t0, post_set (opc (upd ls t l' t0)) = true -> flag e' = true)).
    { intros l' Hpost _. split.
      - intros H0. rewrite Hf1 in H0. destruct (ol_fl _ _ L H0) as [[t0 H1]|[_ H2]].
        + left. exists t0. destruct (Nat.eq_dec t0 t) as [->|Hne]; [rewrite Hpc in H1; discriminate|].
          rewrite upd_other by exact Hne. exact H1.
        + exfalso. apply (H2 t sub). exact Hpc.
      - intros t0 H0. rewrite Hf1. apply (ol_ft _ _ L t0). apply Hpost. exact H0. }
    destruct (ev_step_wait_closed _ _ _ _ _ Wt Hev) as [Hcl|Hcl].
    + assert (Hnd : sub' <> EDone) by (intros ->; discriminate).
      assert (Hstep : (let '(e'0, sub'0) := (e', sub') in
                match sub'0 with
                | EDone => ({| status := status g; oev := e'0; orun := orun g; olog := olog g |}, o_at (ls t) OC0)
                | _ => ({| status := status g; oev := e'0; orun := orun g; olog := olog g |}, o_at (ls t) (OWaitE sub'0))
                end) = ({| status := status g; oev := e'; orun := orun g; olog := olog g |}, o_at (ls t) (OWaitE sub')))
        by (destruct sub'; try reflexivity; congruence).
      rewrite Hstep in *. cbn [fst snd] in *.
      apply (OLive_assemble g _ ls t _ L I'); cbn [oev].
      * apply OWf_upd; [exact W|exact Hcl].
      * eapply ELive_ext; [apply proj_upd|].
        apply (EL_substep (oev g) (proj ls) t sub e' sub' _ (EWf_proj _ W) EV); [unfold proj; rewrite Hpc; reflexivity|exact Hev|].
        cbn. destruct sub'; try reflexivity; congruence.
      * apply HFL; [|reflexivity]. intros t0 H0. destruct (Nat.eq_dec t0 t) as [->|Hne]; [rewrite upd_same in H0; discriminate|].
        rewrite upd_other in H0 by exact Hne. exact H0.
      * apply HFL; [|reflexivity]. intros t0 H0. destruct (Nat.eq_dec t0 t) as [->|Hne]; [rewrite upd_same in H0; discriminate|].
        rewrite upd_other in H0 by exact Hne. exact H0.
    + subst sub'. cbn [fst snd] in *.
      apply (OLive_assemble g _ ls t _ L I'); cbn [oev].
      * apply OWf_upd; [exact W|exact Logic.I].
      * eapply ELive_ext; [apply proj_upd|].
        apply (EL_substep (oev g) (proj ls) t sub e' EDone _ (EWf_proj _ W) EV); [unfold proj; rewrite Hpc; reflexivity|exact Hev|reflexivity].
      * apply HFL; [|reflexivity]. intros t0 H0. destruct (Nat.eq_dec t0 t) as [->|Hne]; [rewrite upd_same in H0; discriminate|].
        rewrite upd_other in H0 by exact Hne. exact H0.
      * apply HFL; [|reflexivity]. intros t0 H0. destruct (Nat.eq_dec t0 t) as [->|Hne]; [rewrite upd_same in H0; discriminate|].
        rewrite upd_other in H0 by exact Hne. exact H0.
  - (* dispatch *)
    destruct (calls (ls t)) as [|k]; cbn [fst snd] in *;
      apply (OLive_assemble g _ ls t _ L I'); cbn [oev];
      try (apply OWf_upd; [exact W|first [exact Logic.I | rewrite Hpc; exact Logic.I]]);
      try (apply EL_keep; [exact EV|rewrite Hpc; reflexivity|first [reflexivity | rewrite Hpc; reflexivity]]);
      try (apply (FLFT_keep g (oev g) ls t _ L); auto; cbn; rewrite ?Hpc; cbn; try discriminate; auto; intros; first [discriminate | congruence]).
Qed.

Lemma OLive_init ncalls : OLive o_init (o_locals ncalls).
Proof.
  split.
  - exact (once_inv [] ncalls).
  - intros t. exact Logic.I.
  - eapply ELive_ext; [|exact (proj2 (event_live_inv [] (fun _ => [])))]. intros t. reflexivity.
  - intros _. right. split; [reflexivity|]. intros t sub. discriminate.
  - intros t H. discriminate.
Qed.

Lemma once_live_inv sched ncalls : OLive (fst (o_run sched ncalls)) (snd (o_run sched ncalls)).
Proof.
  unfold o_run. apply (run_inv _ _ _ o_tstep OLive).
  - intros o t g ls L. apply OLive_step. exact L.
  - apply OLive_init.
Qed.

(* call_once progress: when no thread can take a step, every call has returned or rethrown *)
Lemma once_all_return sched ncalls :
  let c := o_run sched ncalls in
  (forall t, o_enabled (fst c) t (snd c t) = false) ->
  forall t, opc (snd c t) = None /\ calls (snd c t) = 0.
Proof.
  intros c Hst. pose proof (once_live_inv sched ncalls) as L. fold c in L.
  pose proof (ol_ev _ _ L) as EV. pose proof (ol_wf _ _ L) as W.
  set (e := oev (fst c)) in *.
  assert (Hsub : forall t sub, epcof (opc (snd c t)) = Some sub -> ev_enabled t e sub = false).
  { intros t sub H. specialize (Hst t). unfold o_enabled in Hst.
    destruct (opc (snd c t)) as [[| | | |ok|ok s|s]|]; cbn in H; try discriminate; inversion H; subst; exact Hst. }
  assert (Hno : forall s p, epcs (proj (snd c) s) = Some (ESN p) -> False).
  { intros s p H. unfold proj in H. cbn in H. specialize (Hsub _ _ H). destruct p; discriminate. }
  assert (Hlk : elocked e = false).
  { unfold elocked. destruct (elk e) as [t0|] eqn:Hk; [|reflexivity].
    destruct (o1 _ _ EV _ Hk) as [p H1]. destruct (Hno _ _ H1). }
  assert (Hnopre : forall t, pre_es0 (opc (snd c t)) = true -> False).
  { intros t H. specialize (Hst t). unfold o_enabled in Hst.
    destruct (opc (snd c t)) as [[| | | |[|]|ok []|s]|]; cbn in H; try discriminate. }
  assert (Hq : ewq e = []).
  { destruct (ewq e) as [|x r] eqn:Hq; [reflexivity|exfalso].
    destruct (flag e) eqn:Hf.
    - destruct (pd _ _ EV Hf) as [s H1]; [rewrite Hq; discriminate|].
      unfold proj in H1. cbn in H1. specialize (Hsub _ _ H1). cbn in Hsub. rewrite Hlk in Hsub. discriminate.
    - destruct (ol_fl _ _ L Hf) as [[t0 H1]|[H1 _]]; [destruct (Hnopre _ H1)|]. fold e in H1. congruence. }
  intros t. specialize (Hst t). unfold o_enabled in Hst.
  destruct (opc (snd c t)) as [[| | | |ok|ok sub|sub]|] eqn:Hpc; try discriminate.
  - exfalso. pose proof (W t) as Wt. rewrite Hpc in Wt. fold e in Hst.
    destruct sub as [| | | | | | |p| |]; try discriminate; cbn in Hst; rewrite ?Hlk in Hst; discriminate.
  - exfalso. pose proof (W t) as Wt. rewrite Hpc in Wt. fold e in Hst.
    destruct sub as [| | | | | | |p| |]; try discriminate; cbn in Hst; rewrite ?Hlk in Hst; try discriminate.
    apply negb_false_iff in Hst. destruct (bk _ _ EV _ Hst) as [_ [Hin|[s [p [H1 _]]]]].
    + rewrite Hq in Hin. destruct Hin.
    + destruct (Hno _ _ H1).
  - split; [reflexivity|]. destruct (calls (snd c t)); [reflexivity|discriminate].
Qed.
