(* Proofs/JoinLockProgress.v — C13 join_returns over the handle-lock layer (Model/JoinLock.v).
   The progress theorem of Proofs/JoinProgress.v (stuck => nobody blocked in join(), every task terminated) is
   carried to the layer run [ljrun] (handle spinlock mtx_ + third parties calling members of handles they do not own)
   by projection: every layer step is, on the projected state (bg g, fun t => bl (ls t)),
     - a stutter (spinning on a lock, the release `unlock_guard ul(l)`, ~unlock_guard's re-lock, observers), or
     - the base step of the same thread (Join.tstep), or
     - one of the two base steps of interrupt_thread taken by a third party (whose base pc stays PIdle), or
     - a third party's detach(): only the id_ of somebody else's handle is cleared.
   The base invariant [JInv] and effect relation [jeff] are reused unchanged.  [JInv.k2] (a task inside join() has a
   valid handle) is false on the layer — a third party may detach() the handle while its owner waits inside join() —
   so [JInv] is carried for a GHOST id_ table [hg] that ignores third-party detaches ([hid <= hg <= h0]); every
   effect of the base model lifts to the ghost table ([jeff_ghost]).
   A layer-stuck state of the source's locking shape has no handle lock owned (Proofs/JoinLockProofs.v), hence every
   thread's layer step is its base step there, and the base argument applies. *)
From Coq Require Import List Arith Bool Lia.
From Pika Require Import Base.Conc Base.Agent Model.Join Model.JoinLock Gen.GenJoin
  Proofs.JoinProofs Proofs.JoinProgress Proofs.JoinLockProofs.
Import ListNotations.

Definition hle (h h' : nat -> nat -> bool) : Prop := forall x y, h x y = true -> h' x y = true.

(* program points of the base model at which a thread is neither inside join() nor in its exit phase *)
Definition inert (p : pcs) : bool := match p with PIdle | PBody | PIntrWake _ => true | _ => false end.

Lemma inert_facts p : inert p = true ->
  joinpc p = None /\ waitpc p = None /\ iswake p = false /\ postcb p = false /\ p <> PCbCall /\
  (forall j c, p <> PCbRun j c) /\ (forall j, p <> PCbRes j).
Proof. destruct p; cbn; try discriminate; intros _; repeat split; try discriminate; intros; discriminate. Qed.

Lemma pair_eta {A B} (x : A * B) a b : (fst x, snd x) = (a, b) -> x = (a, b).
Proof. destruct x; auto. Qed.

Section LayerProgress.
  Variable tgt : nat -> nat -> nat.
  Variable h0 : nat -> nat -> bool.
  Variable n : nat.

  Notation JI := (JInv tgt h0 n).

  (* ------------------------------------------------------------ generic facts about the base invariant *)
  Lemma JInv_ext g (ls ls' : locals L) : (forall x, ls x = ls' x) -> JI g ls -> JI g ls'.
  Proof.
    intros E [i1 i2 i3 i4 i7 i8 i9]. constructor.
    - exact i1.
    - intros t k. rewrite <- E. apply i2.
    - intros t. rewrite <- E. apply i3.
    - intros t. rewrite <- E. apply i4.
    - intros t. rewrite <- E. apply i7.
    - intros t k Hw. rewrite <- E in Hw. specialize (i8 _ _ Hw). unfold Jst in *. cbv zeta in *. rewrite <- !E. exact i8.
    - intros t. rewrite <- E. apply i9.
  Qed.

  (* the invariant is preserved by every effect of an unblocked thread (the body of JoinProgress.JInv_step) *)
  Lemma JInv_jeff t g (ls : locals L) g' l' :
    JI g ls -> jeff tgt t g (ls t) g' l' -> blocked (ag g t) = false -> JI g' (upd ls t l').
  Proof.
    intros I He Hb. constructor.
    - intros x k Hh. apply (k1 _ _ _ _ _ I). now apply (proj1 (jeff_hid _ _ _ _ _ _ He)).
    - eapply P_k2; eauto.
    - eapply P_k3; eauto.
    - eapply P_k4; eauto.
    - eapply P_k7; eauto.
    - eapply P_k8; eauto.
    - eapply P_k9; eauto.
  Qed.

  (* swapping the local state of a thread between program points that the invariant does not constrain *)
  Lemma JInv_swap g (ls : locals L) t l' :
    JI g ls -> inert (pc (ls t)) = true -> inert (pc l') = true -> (t < n -> pc l' <> PIdle) ->
    JI g (upd ls t l').
  Proof.
    intros I H1 H2 H3.
    destruct (inert_facts _ H1) as (A1 & A2 & A3 & A4 & A5 & A6 & A7).
    destruct (inert_facts _ H2) as (B1 & B2 & B3 & B4 & B5 & B6 & B7).
    destruct I as [i1 i2 i3 i4 i7 i8 i9]. constructor.
    - exact i1.
    - intros x k. rewrite upd_pc. destruct (Nat.eqb_spec x t); [subst; rewrite B1; discriminate|apply i2].
    - intros x Hx. rewrite upd_pc. destruct (Nat.eqb_spec x t); [subst; auto|auto].
    - intros x Hb. rewrite upd_pc. destruct (Nat.eqb_spec x t); [subst|auto].
      specialize (i4 _ Hb). congruence.
    - intros u. rewrite upd_pc. destruct (Nat.eqb_spec u t); [subst; rewrite B4; discriminate|apply i7].
    - intros x k. rewrite upd_pc. destruct (Nat.eqb_spec x t) as [->|Hx]; [rewrite B2; discriminate|].
      intros Hw. specialize (i8 _ _ Hw). unfold Jst in *. cbv zeta in *. rewrite !upd_pc.
      destruct (Nat.eqb_spec x t) as [|_]; [contradiction|].
      destruct (Nat.eqb_spec (tgt x k) t) as [Eu|_]; [|exact i8].
      destruct i8 as [J|[(C & P)|[P|(P & F)]]].
      + left. exact J.
      + right. left. split; [exact C|exact B4].
      + exfalso. rewrite Eu in P. exact (A6 _ _ P).
      + exfalso. rewrite Eu in P. exact (A7 _ P).
    - intros x. rewrite upd_pc. destruct (Nat.eqb_spec x t); [subst; auto|auto].
  Qed.

  (* ------------------------------------------------------------ effects lift to a ghost id_ table above hid *)
  Lemma jeff_ghost t g l g' l' hg : jeff tgt t g l g' l' -> hle (hid g) hg ->
    exists hg', jeff tgt t (w_hid g hg) l (w_hid g' hg') l' /\ hle (hid g') hg'.
  Proof.
    intros He Hle.
    destruct He as
      [ Eg El
      | h a Hpl Hpl' Hne Hhm Hhf Hag Hj
      | k d Hpl Hne Hpc' Hhid Htg Hj
      | Hex Hni Hne Hpc' Hj
      | k d Hpc Hpc' Hj
      | k d Hpc Hpc' Hj
      | k d Hpc Hpc' Hran Hterm Hj
      | k d w Hpc Hpc' Hfl Hj
      | k d w Hpc Hpc' Hfl Hj
      | k d Hpc Hpc' Hj
      | k d Hpc Hpc' Hj
      | k d Hpc Hpc' Hj
      | Hpc Hprog Hpc' Hj
      | Hpc Hcb Hpc' Hj
      | j c r Hpc Hcb Hpc' Hj
      | j c Hpc Hpc' Hj
      | j Hpc Hpc' Hj
      | Hpc Hpc' Hj
      | Hpc Hpc' Hj ];
      [ subst | destruct Hj as (Eh & Ec & Er & Et & Ef & Ea & Egn) .. ].
    Ltac jg := unfold jchg; cbn [hid cbs ran term flag gen ag w_hid]; repeat split; assumption.
    - exists hg. split; [now apply JE_stutter|exact Hle].
    - (* plain: the stepping task may clear its own handles *)
      exists (fun x y => if Nat.eqb x t then h x y else hg x y). split.
      + eapply (JE_plain tgt t _ _ _ _ (fun x y => if Nat.eqb x t then h x y else hg x y) a); try assumption.
        * intros x y. cbn [hid w_hid]. destruct (Nat.eqb_spec x t); [subst; intros H; apply Hle, Hhm, H|auto].
        * intros x y Hx. cbn [hid w_hid]. destruct (Nat.eqb_spec x t); [contradiction|reflexivity].
        * unfold jchg; cbn [hid cbs ran term flag gen ag w_hid]; repeat split; assumption.
      + rewrite Eh. intros x y H. destruct (Nat.eqb_spec x t); [exact H|]. apply Hle. rewrite <- Hhf by assumption. exact H.
    - exists hg. split; [|rewrite Eh; exact Hle].
      eapply JE_start; try eassumption; [apply Hle; exact Hhid|jg].
    - exists hg. split; [|rewrite Eh; exact Hle]. eapply JE_ended; try eassumption. jg.
    - exists hg. split; [|rewrite Eh; exact Hle]. eapply JE_ip; try eassumption. jg.
    - exists hg. split; [|rewrite Eh; exact Hle]. eapply JE_add_ref; try eassumption. jg.
    - exists hg. split; [|rewrite Eh; exact Hle]. eapply JE_add_push; try eassumption. jg.
    - exists hg. split; [|rewrite Eh; exact Hle]. eapply JE_chk_det; try eassumption. jg.
    - exists hg. split; [|rewrite Eh; exact Hle]. eapply JE_chk_susp; try eassumption. jg.
    - exists hg. split; [|rewrite Eh; exact Hle]. eapply JE_susp; try eassumption. jg.
    - exists hg. split; [|rewrite Eh; exact Hle]. eapply JE_wake; try eassumption. jg.
    - (* detach_locked at the end of join *)
      exists (set2 hg t k false). split.
      + eapply JE_det; try eassumption. jg.
      + rewrite Eh. intros x y. unfold set2. destruct (Nat.eqb x t && Nat.eqb y k); [discriminate|apply Hle].
    - exists hg. split; [|rewrite Eh; exact Hle]. eapply JE_bodydone; try eassumption. jg.
    - exists hg. split; [|rewrite Eh; exact Hle]. eapply JE_loop_empty; try eassumption. jg.
    - exists hg. split; [|rewrite Eh; exact Hle]. eapply JE_loop_pop; try eassumption. jg.
    - exists hg. split; [|rewrite Eh; exact Hle]. eapply JE_run; try eassumption. jg.
    - exists hg. split; [|rewrite Eh; exact Hle]. eapply JE_res; try eassumption. jg.
    - exists hg. split; [|rewrite Eh; exact Hle]. eapply JE_free; try eassumption. jg.
    - exists hg. split; [|rewrite Eh; exact Hle]. eapply JE_term; try eassumption. jg.
  Qed.

  (* a base step of an unblocked thread, on the ghost state *)
  Lemma ghost_base_step t g (ls : locals L) hg :
    JI (w_hid g hg) ls -> hle (hid g) hg -> blocked (ag g t) = false ->
    exists hg', JI (w_hid (fst (bstep tgt t g (ls t))) hg') (upd ls t (snd (bstep tgt t g (ls t)))) /\
                hle (hid (fst (bstep tgt t g (ls t)))) hg'.
  Proof.
    intros I Hle Hb. unfold bstep.
    destruct (tstep_jeff tgt t g (ls t) (k9 _ _ _ _ _ I t)) as [He _].
    destruct (jeff_ghost _ _ _ _ _ hg He Hle) as (hg' & He' & Hle').
    exists hg'. split; [|exact Hle']. eapply JInv_jeff; [exact I|exact He'|exact Hb].
  Qed.

  (* ------------------------------------------------------------ what a layer step is on the projection *)
  Inductive lkind (t : nat) (g : LG) (l : LL) (g' : LG) (l' : LL) : Prop :=
  | LK_stutter : bg g' = bg g -> bl l' = bl l -> lkind t g l g' l'
  | LK_base : blocked (ag (bg g) t) = false ->
      bg g' = fst (bstep tgt t (bg g) (bl l)) -> bl l' = snd (bstep tgt t (bg g) (bl l)) -> lkind t g l g' l'
  | LK_hint u stage : blocked (ag (bg g) t) = false -> pc (bl l) = PIdle -> bl l' = bl l ->
      bg g' = fst (bstep tgt t (bg g) (hint_l u stage)) -> lkind t g l g' l'
  | LK_detach o k : bl l' = bl l -> bg g' = w_hid (bg g) (set2 (hid (bg g)) o k false) -> lkind t g l g' l'.

  Lemma ltstep_kind unl t g l :
    lkind t g l (fst (ltstep unl tgt tt t g l)) (snd (ltstep unl tgt tt t g l)).
  Proof.
    unfold ltstep. destruct (blocked (ag (bg g) t)) eqn:Hnb; [apply LK_stutter; reflexivity|].
    destruct l as [[p pr] rl hp hi]. cbn [relock bl pc hops hint].
    destruct rl as [kr|]; [destruct (lk_free g t kr); apply LK_stutter; reflexivity|].
    Ltac fin Hnb := cbn [fst snd bg bl w_bg w_hlk w_hlog];
      first [ apply LK_stutter; reflexivity | apply LK_base; [exact Hnb|reflexivity|reflexivity] ].
    destruct p; cbv beta iota; try (unfold JoinLock.plain; fin Hnb).
    - (* PIdle *)
      destruct hi as [[u stage]|].
      + cbn [fst snd bg bl w_bg]. apply (LK_hint _ _ _ _ _ u stage); [exact Hnb|reflexivity|reflexivity|reflexivity].
      + destruct hp as [|[o k|o k|o k|u] r]; try fin Hnb.
        * destruct (lk_free g o k); fin Hnb.
        * destruct (lk_free g o k); [|fin Hnb]. cbn [fst snd bg bl w_bg w_hlk w_hlog].
          apply (LK_detach _ _ _ _ _ o k); reflexivity.
        * destruct (lk_free g o k); [|fin Hnb]. destruct (hid (bg g) o k); fin Hnb.
    - (* PBody *)
      destruct (needs_lock _) as [k|]; [|unfold JoinLock.plain; fin Hnb].
      destruct (lk_free g t k); [|fin Hnb]. destruct (is_joinip _); fin Hnb.
    - (* PDtorJoin *)
      destruct (needs_lock _) as [k0|]; [|unfold JoinLock.plain; fin Hnb].
      destruct (lk_free g t k0); [|fin Hnb]. destruct (is_joinip _); fin Hnb.
    - (* PJoinIP *) destruct (is_joinadd _); fin Hnb.
    - (* PJoinChk *) destruct (holds g t k && unl); [fin Hnb|unfold JoinLock.plain; fin Hnb].
    - (* PJoinSusp *) destruct (is_body _); [destruct (holds g t k)|]; fin Hnb.
    - (* PJoinWake *) destruct (is_body _); [destruct (holds g t k)|]; fin Hnb.
    - (* PJoinDet *) destruct (holds g t k); [fin Hnb|]. destruct (lk_free g t k); [unfold JoinLock.plain|]; fin Hnb.
  Qed.

  (* ------------------------------------------------------------ the base invariant, carried through the projection *)
  Definition LJ (g : LG) (ls : locals LL) : Prop :=
    exists hg, JI (w_hid (bg g) hg) (fun t => bl (ls t)) /\ hle (hid (bg g)) hg.

  Lemma hint_l_inert u stage : inert (pc (hint_l u stage)) = true /\ pc (hint_l u stage) <> PIdle.
  Proof. destruct stage; cbn; split; auto; discriminate. Qed.

  Lemma hint_step_inert t g u stage : blocked (ag g t) = false ->
    inert (pc (snd (bstep tgt t g (hint_l u stage)))) = true.
  Proof.
    intros Hb. unfold bstep, tstep. rewrite Hb. destruct stage; cbn [hint_l pc prog]; [reflexivity|].
    destruct (en g u); reflexivity.
  Qed.

  Lemma LJ_step unl (o : unit) t g (ls : locals LL) : LJ g ls ->
    LJ (fst (ltstep unl tgt o t g (ls t))) (upd ls t (snd (ltstep unl tgt o t g (ls t)))).
  Proof.
    intros (hg & I & Hle). destruct o. unfold LJ.
    destruct (ltstep_kind unl t g (ls t)) as [Eg El | Hb Eg El | u st Hb Hp El Eg | o k El Eg]; rewrite Eg.
    - (* stutter *)
      exists hg. split; [|exact Hle]. eapply JInv_ext; [|exact I].
      intros x. cbv beta. unfold upd. destruct (Nat.eqb_spec x t); [subst; now rewrite El|reflexivity].
    - (* the base step of t *)
      destruct (ghost_base_step t (bg g) (fun x => bl (ls x)) hg I Hle Hb) as (hg' & I' & Hle').
      exists hg'. split; [|exact Hle']. eapply JInv_ext; [|exact I'].
      intros x. cbv beta. unfold upd. destruct (Nat.eqb_spec x t); [subst; now rewrite El|reflexivity].
    - (* a third party's interrupt_thread: the base step of a thread standing at [hint_l u st], then back *)
      destruct (hint_l_inert u st) as [Hi Hni].
      assert (Hpi : inert (pc (bl (ls t))) = true) by (rewrite Hp; reflexivity).
      pose proof (JInv_swap _ _ t (hint_l u st) I Hpi Hi (fun _ => Hni)) as I1.
      destruct (ghost_base_step t (bg g) _ hg I1 Hle Hb) as (hg' & I2 & Hle').
      rewrite upd_same in I2, Hle'.
      exists hg'. split; [|exact Hle'].
      assert (Hi2 : inert (pc (upd (upd (fun x => bl (ls x)) t (hint_l u st)) t (snd (bstep tgt t (bg g) (hint_l u st))) t)) = true).
      { rewrite upd_same. now apply hint_step_inert. }
      pose proof (JInv_swap _ _ t (bl (ls t)) I2 Hi2 Hpi (k3 _ _ _ _ _ I t)) as I3.
      eapply JInv_ext; [|exact I3].
      intros x. cbv beta. unfold upd. destruct (Nat.eqb_spec x t); [subst; now rewrite El|reflexivity].
    - (* a third party's detach(): the ghost table keeps the entry *)
      exists hg. split.
      + change (w_hid (w_hid (bg g) (set2 (hid (bg g)) o k false)) hg) with (w_hid (bg g) hg).
        eapply JInv_ext; [|exact I].
        intros x. cbv beta. unfold upd. destruct (Nat.eqb_spec x t); [subst; now rewrite El|reflexivity].
      + intros x y H. cbn [hid w_hid] in H. apply set2_false_true in H. now apply Hle.
  Qed.

  Lemma LJ_init progs hprogs : LJ (lg_init h0) (ll_init n progs hprogs).
  Proof.
    exists h0. split; [|intros x y H; exact H]. exact (JInv_init tgt h0 n progs).
  Qed.

  Lemma LJ_run unl progs hprogs sched :
    LJ (fst (ljrun unl tgt h0 n progs hprogs sched)) (snd (ljrun unl tgt h0 n progs hprogs sched)).
  Proof.
    unfold ljrun. apply (run_inv _ _ _ (ltstep unl tgt) LJ).
    - intros o t g ls H. now apply LJ_step.
    - apply LJ_init.
  Qed.

  (* ------------------------------------------------------------ stuck threads when no handle lock is owned *)
  Lemma lstuck_task unl t g l : (forall o k, hlk g o k = None) ->
    ltstep unl tgt tt t g l = (g, l) -> pc (bl l) <> PCbCall ->
    blocked (ag (bg g) t) = true \/ (pc (bl l) = PIdle) \/ (pc (bl l) = PDone /\ relock l = None).
  Proof.
    intros Hf Hst Hnc. destruct (blocked (ag (bg g) t)) eqn:Hb; [auto|right].
    assert (F : forall o k, lk_free g o k = true) by (intros; unfold lk_free; now rewrite Hf).
    assert (Hh : forall k, holds g t k = false) by (intros; unfold holds; now rewrite Hf).
    assert (Hbase : pc (bl l) = PIdle \/ (relock l = None /\ bstep tgt t (bg g) (bl l) = (bg g, bl l))).
    { unfold ltstep in Hst. rewrite Hb in Hst. destruct l as [[p pr] rl hp hi]. cbn [relock bl pc hops hint] in *.
      destruct rl as [kr|]; [rewrite F in Hst; discriminate Hst|].
      destruct p; [left; reflexivity|right; split; [reflexivity|]..];
        rewrite ?Hh, ?F in Hst; cbn [andb] in Hst; unfold JoinLock.plain in Hst; cbn [bl hops hint] in Hst;
        repeat match type of Hst with
               | context [match needs_lock ?x with _ => _ end] => destruct (needs_lock x); rewrite ?F in Hst
               | context [if ?b then _ else _] => destruct b
               end;
        apply (f_equal (fun x => (bg (fst x), bl (snd x)))) in Hst;
        cbn [fst snd bg bl w_bg w_hlk w_hlog] in Hst; apply pair_eta; exact Hst. }
    destruct Hbase as [Hp|[Hr Hbase]]; [left; exact Hp|].
    unfold bstep in Hbase. destruct (stuck_task tgt _ _ _ Hnc Hbase) as [S|[S|S]]; [congruence|left; exact S|right; auto].
  Qed.

  (* ------------------------------------------------------------ the theorems *)
  (* W over the layer: a thread blocked in a layer-stuck state sits in join()'s suspension on a handle that was valid
     initially and whose target is not a task at all or is itself blocked *)
  Theorem layer_join_blocked_only_on_blocked progs hprogs sched :
    let c := ljrun join_unlocks_before_wait tgt h0 n progs hprogs sched in
    lstuck join_unlocks_before_wait tgt c ->
    forall t, blocked (ag (bg (fst c)) t) = true ->
      exists k d, pc (bl (snd c t)) = PJoinWake k d /\ h0 t k = true /\
                  (pc (bl (snd c (tgt t k))) = PIdle \/ blocked (ag (bg (fst c)) (tgt t k)) = true).
  Proof.
    rewrite unl_true. intros c St t Hb.
    pose proof (LJ_run true progs hprogs sched) as (hg & I & Hle). fold c in I, Hle.
    pose proof (linv_run tgt h0 n progs hprogs sched) as HL. fold c in HL.
    assert (St' : lstuck true tgt (fst c, snd c)) by exact St.
    pose proof (stuck_no_owner tgt _ _ HL St') as Hf.
    pose proof (k4 _ _ _ _ _ I t Hb) as Hw. cbv beta in Hw.
    destruct (pc (bl (snd c t))) eqn:Hpc; try discriminate.
    exists k, d. split; [reflexivity|].
    destruct (k2 _ _ _ _ _ I t k) as [Hh _]; [cbv beta; rewrite Hpc; reflexivity|].
    split; [now apply (k1 _ _ _ _ _ I)|].
    assert (J : Jst tgt (w_hid (bg (fst c)) hg) (fun x => bl (snd c x)) t k) by (apply (k8 _ _ _ _ _ I); cbv beta; rewrite Hpc; reflexivity).
    unfold Jst in J. cbv beta zeta in J. cbn [ag flag cbs gen w_hid] in J.
    pose proof (lstuck_task true _ _ _ Hf (St (tgt t k)) (k9 _ _ _ _ _ I (tgt t k))) as Su.
    assert (Hrun : forall p, pc (bl (snd c (tgt t k))) = p -> iswake p = false -> p <> PIdle -> p <> PDone ->
                     pc (bl (snd c (tgt t k))) = PIdle \/ blocked (ag (bg (fst c)) (tgt t k)) = true).
    { intros p E1 E2 E3 E4. destruct Su as [Su|[Su|[Su _]]]; auto; congruence. }
    destruct J as [(_ & B & _)|[(_ & P)|[P|(P & _)]]]; [congruence| | |].
    - destruct Su as [Su|[Su|[Su _]]]; auto. rewrite Su in P. discriminate.
    - eapply Hrun; eauto; discriminate.
    - eapply Hrun; eauto; discriminate.
  Qed.

  Lemma layer_join_returns progs hprogs sched : acyclic_targets tgt h0 n ->
    let c := ljrun join_unlocks_before_wait tgt h0 n progs hprogs sched in
    lstuck join_unlocks_before_wait tgt c ->
    (forall t, blocked (ag (bg (fst c)) t) = false) /\
    (forall t, t < n -> pc (bl (snd c t)) = PDone /\ relock (snd c t) = None).
  Proof.
    intros Hac c St.
    pose proof (layer_join_blocked_only_on_blocked progs hprogs sched St) as W. fold c in W.
    revert c St W. rewrite unl_true. intros c St W.
    pose proof (LJ_run true progs hprogs sched) as (hg & I & Hle). fold c in I, Hle.
    pose proof (linv_run tgt h0 n progs hprogs sched) as HL. fold c in HL.
    assert (St' : lstuck true tgt (fst c, snd c)) by exact St.
    pose proof (stuck_no_owner tgt _ _ HL St') as Hf.
    assert (Hnb : forall m t, n - t <= m -> blocked (ag (bg (fst c)) t) = false).
    { induction m as [|m IH]; intros t Hm; destruct (blocked (ag (bg (fst c)) t)) eqn:Hb; auto; exfalso;
        destruct (W t Hb) as (k & d & _ & Hh & Hu); destruct (Hac t k Hh) as [H1 H2].
      - lia.
      - destruct Hu as [Hu|Hu]; [now apply (k3 _ _ _ _ _ I _ H2)|]. rewrite IH in Hu; [discriminate|lia]. }
    split; [intros t; apply (Hnb (n - t)); lia|].
    intros t Ht.
    destruct (lstuck_task true _ _ _ Hf (St t) (k9 _ _ _ _ _ I t)) as [S|[S|S]]; auto.
    - rewrite (Hnb (n - t)) in S; [discriminate|lia].
    - now apply (k3 _ _ _ _ _ I t Ht) in S.
  Qed.

  (* ... together with Proofs/JoinLockProofs.v: in a layer-stuck state everything is over *)
  Theorem join_returns_over_lock_layer progs hprogs sched : acyclic_targets tgt h0 n ->
    let c := ljrun join_unlocks_before_wait tgt h0 n progs hprogs sched in
    lstuck join_unlocks_before_wait tgt c ->
    (forall t, blocked (ag (bg (fst c)) t) = false) /\
    (forall t, t < n -> pc (bl (snd c t)) = PDone /\ relock (snd c t) = None) /\
    (forall o k, hlk (fst c) o k = None) /\
    (forall t, pc (bl (snd c t)) = PIdle -> calls_returned (snd c t) = true).
  Proof.
    intros Hac c St.
    destruct (layer_join_returns progs hprogs sched Hac St) as [A B].
    destruct (handle_calls_return_during_join tgt h0 n progs hprogs sched St) as (C1 & _ & C3).
    repeat split; auto; apply B; assumption.
  Qed.
End LayerProgress.

(* ------------------------------------------------------------------ witness: hypotheses satisfiable, non-trivial run *)
(* chain 0 joins 1 joins 2 (Proofs/JoinProgress.v: chain_tgt, chain_h0, chain_progs); thread 3 is a third party:
   joinable() on task 0's handle, detach() of task 0's handle WHILE task 0 is suspended inside join() on it, then
   interrupt() through task 1's handle (aimed at task 2, which never reaches an interruption point). *)
Definition lc_hprogs (t : nat) : list hop := match t with 3 => [HObs 0 0; HDetach 0 0; HIntr 1 0] | _ => [] end.
Definition lc_sched1 : list (nat * unit) := rep 0 6 ++ rep 1 6 ++ rep 3 2.
Definition lc_sched : list (nat * unit) := lc_sched1 ++ rep 3 3 ++ rep 2 9 ++ rep 1 10 ++ rep 0 8.

Lemma layer_join_returns_example :
  let c := ljrun join_unlocks_before_wait chain_tgt chain_h0 3 chain_progs lc_hprogs lc_sched in
  lstuck join_unlocks_before_wait chain_tgt c /\
  pc (bl (snd c 0)) = PDone /\ pc (bl (snd c 1)) = PDone /\ pc (bl (snd c 2)) = PDone /\
  calls_returned (snd c 3) = true /\
  In (EJoinRet 0 0) (log (bg (fst c))) /\ In (EJoinRet 1 0) (log (bg (fst c))) /\ In (EIntrReq 3 2) (log (bg (fst c))) /\
  hlog (fst c) = [HDetached 3 0 0; HObserved 3 0 0 true] /\
  (* on the way: both joiners suspended inside join(); the third party has cleared the id_ of the handle task 0 is
     joining on (the base invariant's "a joiner's handle is valid" does not hold on the layer) *)
  let c1 := ljrun join_unlocks_before_wait chain_tgt chain_h0 3 chain_progs lc_hprogs lc_sched1 in
  blocked (ag (bg (fst c1)) 0) = true /\ blocked (ag (bg (fst c1)) 1) = true /\
  pc (bl (snd c1 0)) = PJoinWake 0 false /\ hid (bg (fst c1)) 0 0 = false.
Proof.
  cbv zeta. split; [|vm_compute; repeat split; auto 10].
  intros t. destruct t as [|[|[|[|t]]]]; vm_compute; reflexivity.
Qed.
